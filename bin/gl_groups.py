#!/usr/bin/python3
"""gl_groups.py <clean GoLiteFuns.v> <mutated GoLiteFuns.v> <clean GoLoops.v> <mutated GoLoops.v> <Check dir> <group>...
Prints the groups whose lemma files have to be re-checked against the mutated translation: a lemma file that runs
only a whitelisted set of translated functions (`filter (fun p => (fst p =? "A") || ...) gen_funs`, `only ["A"; ...]`)
is re-checked iff one of those functions translates differently; any other lemma file is re-checked whenever
anything in the translation differs."""
import re, sys
cf, mf, cl, ml, chk = sys.argv[1:6]
groups = sys.argv[6:]
def defs(path):
    s = open(path).read()
    out = {}
    for m in re.finditer(r'\nDefinition (fn_\w+) : gfun := (.*?)\|\}\.', s, re.S):
        out[m.group(1)] = m.group(2)
    tab = dict((k, v) for k, v in re.findall(r'\("([^"]+)", (fn_\w+)\)', s))
    return out, tab
cd, ctab = defs(cf); md, mtab = defs(mf)
changed = set()
for key in set(ctab) | set(mtab):
    if ctab.get(key) is None or mtab.get(key) is None or cd.get(ctab[key]) != md.get(mtab[key]):
        changed.add(key)
loops_changed = open(cl).read() != open(ml).read()
for g in groups:
    src = open("%s/GoLite%s.v" % (chk, g)).read()
    if g.startswith("Loop"):
        if loops_changed: print(g)
        continue
    wl = set(re.findall(r'fst p =\? "([^"]+)"', src))
    for m in re.finditer(r'only \[([^\]]*)\]', src):
        wl |= set(re.findall(r'"([^"]+)"', m.group(1)))
    # uses of the whole table outside a filter definition
    body = re.sub(r'filter \(fun p =>[^\n]*\) gen_funs', '', src)
    body = re.sub(r'\(\*.*?\*\)', '', body, flags=re.S)
    whole = bool(re.search(r'\bgen_funs\b', body.replace('gen.GoLiteFuns', '')))
    if whole or not wl:
        if changed: print(g)
    elif wl & changed:
        print(g)
