# C17 — lazy mode: blocks on demand and on the idle interval, never a lost wake-up
_TB = [
    "Coq 8.16.1 kernel (coqc) incl. vm_compute for Examples, the refutation witness and case evaluation; no native_compute",
    "hand-written Gallina model (Model/Lazy.v); tie to /repo = Go harness (-tags verif) running the real AggregationLoop under testing/synctest + vm_compute trace inclusion of the observed production starts in the model (Check.LazyCheck.mismatches = [])",
    "Go harness (generator, recorder, oracle, shrinker) and bin/check",
]
ENTRY = {
    "C17": {
        "props": "Props/C17.v", "pkg": "c17", "check_module": "Check.LazyCheck",
        "coq_files": ["Model/Lazy.v", "Proofs/LazyProofs.v", "Check/LazyCheck.v", "Props/C17.v"],
        "n_quick": 300, "n_thorough": 6400, "shards_thorough": 16,
        "trusted_base": _TB + [
            "virtual time: testing/synctest (Go 1.26) runs goroutines until all are durably blocked before advancing the clock; the model's urgency rule (time never passes a ready select case) is this behaviour, checked by exact virtual timestamps, not proved about the Go runtime",
            "Go >= 1.23 timer semantics (no stale value survives Timer.Reset), which the repository's go directive (1.24.1) selects; harness built with Go 1.26",
            "modelled, not verified: block/aggregation.go (AggregationLoop fresh-store start-up path, lazyAggregationLoop, normalAggregationLoop, produceBlock, getRemainingSleep), manager.go NotifyNewTransactions / one-slot txNotifyCh / interval defaults of NewManager; the reaper (block/reaper.go) enters only as the caller of NotifyNewTransactions at arbitrary instants",
            "publishBlock is replaced by a recorder (hook VerifSetPublishBlock) that sleeps the generated duration: the duration of block production is an input, its content is not part of C17; publishBlock errors and context cancellation inside a production are not modelled",
        ],
        "assumptions": [
            "a notification is one call of Manager.NotifyNewTransactions; time is the process's monotonic clock; goroutine scheduling latency is zero (virtual time)",
            "the loop is observed from its entry on a store below the initial height (start-up delay = genesis time + block time); restart on an existing chain (delay from the last block time) differs only in that offset",
        ],
        "design_ref": "DESIGN.md 3 (C17), 2.6",
        "technique": "Coq invariant proofs over a timed transition system with nondeterministic select (all schedules) + differential trace-inclusion correspondence with the real AggregationLoop under testing/synctest",
        "level_text": "Machine-checked proofs (Coq 8.16.1, every theorem closed under the global context) about an executable timed model of the lazy/normal aggregation loop, for ALL notification instants, production durations, interval ratios and select schedules: C17_on_demand_full (a notification delivered while the loop waits is followed by a production start within max(block time, 1 ms)); C17_no_lost_wakeup_full (a notification arriving at any instant of a production, or still in the channel when it starts, is followed by a FURTHER production starting after its end and no later than start+block time, or end+1 ms after an overrun); C17_idle_full (no notifications: productions exactly on the lazy-timer chain from the loop's first select) and C17_idle_bound_full (any notifications: at least one production per idle interval); C17_first_block_full; C17_normal_full (normal mode: exactly the block-timer chain whatever the notifications); C17_never_blocks_full (some select case or notification is always enabled). The rate clause is NOT true of the code: C17_rate_refuted is a kernel-checked witness (lazy interval 1 s < block time 2 s: productions 1 s apart) and the harness reproduces it on the real loop (known finding rate-lazy-interval-below-block-time; recorded, not repaired: clamping the lazy interval to the block time contradicts the pinned test block.TestLazyAggregationLoop_LazyTimerTrigger, which configures lazy interval 50 ms < block time 200 ms and expects the lazy timer to fire); C17_rate_partial proves start-to-start distance >= block time under the guard `normal mode or block time <= lazy interval`, including all notification/timer coincidences. Bounded response is stated in the model's urgency semantics (time cannot pass a ready select case). The model is tied to /repo on every run by trace inclusion on exact virtual timestamps; an independent Go oracle evaluates rate, on-demand, lost wake-up, idle and normal-mode periodicity directly on the observed starts.",
        "level_note": "Trusted: Coq kernel + vm_compute; the hand-written model is tied to the code only by the differential check (300 schedules quick / 6400 thorough); synctest's virtual clock stands for real time (no scheduling latency, no wall-clock drift); publishBlock is a sleeping recorder; only production start instants are compared (not which timer fired, not txsAvailable); publishBlock errors / cancellation are outside the model.",
    },
}
