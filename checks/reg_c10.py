# C10 — the sequencer's batch queue is a durable FIFO with exactly-once delivery
_TB = [
    "Coq 8.16.1 kernel (coqc) incl. vm_compute for Examples and case evaluation; no native_compute",
    "hand-written Gallina model; tie to /repo = Go harness (-tags verif) running the real code on generated histories + vm_compute evaluation of the model on the same histories (Check.QueueCheck.mismatches = [])",
    "Go harness (generators, recording datastore, projections, oracle, shrinker) and bin/check",
]
ENTRY = {
    "C10": {
        "props": "Props/C10.v", "pkg": "c10", "check_module": "Check.QueueCheck",
        "coq_files": ["Model/Queue.v", "Proofs/QueueProofs.v", "Check/QueueCheck.v", "Props/C10.v"],
        "n_quick": 400, "n_thorough": 16000, "shards_thorough": 16,
        "trusted_base": _TB + [
            "datastore contract: a returned Put/Delete is durable and atomic; a query with OrderByKey returns the prefix in key order (the harness runs the real badger in-memory store, so a different order would show as a mismatch)",
            "modelled, not verified: sequencers/single/queue.go (batchKey, AddBatch, Next, Load), sequencer.go (SubmitBatchTxs, GetNextBatch, NewSequencer[WithQueueSize]); batches compared as pool ids of their transaction lists, record keys as their sequence number (the harness additionally checks that each key's suffix is the hash of the stored batch); protobuf encoding of the records is C12's subject",
            "concurrent submitters: the reduction of concurrent calls to a sequential history (BatchQueue.mu) is trusted, not proved; it is exercised by the harness's concurrent cases (oracle only)",
            "stores written before the repair (bare-hash keys): not in the model (it starts from an empty store); exercised by the harness's legacy cases (oracle only)",
            "uint64 wrap-around of the sequence counter is not modelled (the model's counter is unbounded)",
        ],
        "assumptions": [
            "process-death crash model: a crash loses whole datastore writes, never part of one; each queue operation performs at most one write (checked against the recorded write log on every case)",
            "the datastore delete is taken as the hand-out point of GetNextBatch: a crash after the delete but before the caller used the batch is C11's subject (DESIGN F13), not C10's",
            "the queue bound is the same before and after a restart",
        ],
        "design_ref": "DESIGN.md 3 (C10), 4 (F11)",
        "technique": "Coq proof (invariant + induction over histories: refinement of a FIFO specification, instantiating a guarded refinement of a key-scheme-generic queue core) + differential correspondence with the real single.Sequencer/BatchQueue on badger in-memory under a recording datastore + independent Go oracle",
        "level_text": "Machine-checked proof (Coq 8.16.1, every theorem closed under the global context) about an executable model of the single sequencer's batch queue AS REPAIRED (fix: sequence-number keys, fixes/C10-content-hash-keys.diff, recorded as fixed in findings/C10.entries.json). FULL: C10_fifo_full proves, for ALL histories of submit / next / restart / crash inside an operation at every write boundary (any bound, identical contents, empty submissions, foreign chain ids), that every result equals the result of a plain FIFO (accepted = enqueued at the back, next = the oldest; restarts and crashes change nothing except that a crashed operation whose write survived counts as done), that the in-memory queue is exactly the pending batches in acceptance order and that the datastore holds exactly the pending batches in acceptance order; C10_spec_is_exactly_once_fifo shows that this specification means 'accepted = handed out ++ pending' (exactly once, in order, nothing reappears); C10_bound_full (in-memory queue and durable records never exceed a positive bound); C10_rejected_no_trace_full and C10_empty_submission_no_trace_full (foreign chain id / queue full / empty submission: state incl. sequence counter unchanged, no datastore write). The two defects of the pinned tree (equal pending batches shared one record; reload in hash order) are kept as kernel-checked Examples before_the_repair_* and their witnesses are replayed on every run and must pass. ONLY TESTED, not proved: that the model is the code (differential check: results, final datastore image and write log of the real Sequencer compared with the model by vm_compute on every generated history); concurrent submitters (real goroutines against the real queue, oracle only: nothing lost or duplicated, per-submitter order kept); stores that still hold records under the pre-repair keys (oracle only: handed out first, exactly once, deleted).",
        "level_note": "Trusted: Coq kernel + vm_compute; the hand-written model is tied to the code only by the differential check (320 sequential histories in Coq + 40 on pre-repair stores + 40 concurrent runs quick / 16000 thorough); datastore contract (durable single Put/Delete, key-ordered query); batches compared as pool ids, keys as sequence numbers; mutex linearisation of concurrent calls trusted; sequence-counter wrap-around not modelled.",
    },
}
