# C10 — the sequencer's batch queue is a durable FIFO with exactly-once delivery
_TB = [
    "Coq 8.16.1 kernel (coqc) incl. vm_compute for Examples, the _refuted witnesses and case evaluation; no native_compute",
    "hand-written Gallina model; tie to /repo = Go harness (-tags verif) running the real code on generated histories + vm_compute evaluation of the model on the same histories (Check.QueueCheck.mismatches = [])",
    "Go harness (generators, recording datastore, projections, oracle, shrinker) and bin/check",
]
ENTRY = {
    "C10": {
        "props": "Props/C10.v", "pkg": "c10", "check_module": "Check.QueueCheck",
        "coq_files": ["Model/Queue.v", "Proofs/QueueProofs.v", "Check/QueueCheck.v", "Props/C10.v"],
        "n_quick": 400, "n_thorough": 16000, "shards_thorough": 16,
        "trusted_base": _TB + [
            "datastore contract: a returned Put/Delete is durable and atomic; badger iterates a prefix in key order (the harness runs the real badger in-memory store, so a different order would show as a mismatch)",
            "SHA-256 collision freedom, used as: the datastore key is an injective function of the batch contents (hash_keyedb; checked per case on 48-bit key prefixes)",
            "modelled, not verified: sequencers/single/queue.go (AddBatch, Next, Load), sequencer.go (SubmitBatchTxs, GetNextBatch, NewSequencer[WithQueueSize]); batches compared as pool ids of their transaction lists, keys as the first 48 bits of the real key; protobuf encoding of the records is C12's subject",
            "concurrent submitters: the reduction of concurrent calls to a sequential history (BatchQueue.mu) is trusted, not proved; it is exercised by the harness's concurrent cases (oracle only)",
        ],
        "assumptions": [
            "process-death crash model: a crash loses whole datastore writes, never part of one; each queue operation performs at most one write (checked against the recorded write log on every case)",
            "the datastore delete is taken as the hand-out point of GetNextBatch: a crash after the delete but before the caller used the batch is C11's subject (DESIGN F13), not C10's",
            "the queue bound is the same before and after a restart",
        ],
        "design_ref": "DESIGN.md 3 (C10), 4 (F11)",
        "technique": "Coq proof (invariant + induction over histories; refinement of a FIFO specification under a decidable guard; kernel-checked counterexamples to the unguarded statement) + differential correspondence with the real single.Sequencer/BatchQueue on badger in-memory under a recording datastore + independent Go oracle",
        "level_text": "Machine-checked proof (Coq 8.16.1, every theorem closed under the global context) about an executable model of the single sequencer's batch queue, over ALL histories of submit / next / restart / crash-inside-an-operation (any bound, foreign chain ids, empty submissions, equal contents). The property AS WORDED IS REFUTED for the code as it is: C10_fifo_equal_batches_refuted and C10_fifo_reload_order_refuted are kernel-checked counterexamples (two pending batches with equal contents share one datastore record and one is lost over a restart; a restart reloads pending batches in content-hash order, not acceptance order); both are reproduced on the real code by the harness on every run and listed as known findings (DESIGN F11, confirmed). PARTIAL: C10_fifo_partial proves that the model refines the FIFO specification (same results, in-memory queue = pending batches in acceptance order, datastore = exactly the pending batches) on every history satisfying the decidable guard fifo_guard = no batch is accepted while one with equal contents is pending AND at every restart/crash the pending batches' keys are increasing in acceptance order (in particular: at most one pending batch); C10_fifo_monotone_keys_partial proves the same for every history whose keys grow with each submission (the shape a repair must have; for today's code only histories whose hashes happen to increase). FULL sub-claims, no guard: C10_bound_full (in-memory queue and durable records never exceed a positive bound), C10_rejected_no_trace_full and C10_empty_submission_no_trace_full (foreign chain id / queue full / empty submission: state unchanged, no datastore write). C10_spec_is_exactly_once_fifo shows that the specification used means 'accepted = handed out ++ pending' (exactly once, in order). ONLY TESTED, not proved: that the model is the code (differential check: results, final datastore image and write log of the real Sequencer compared with the model by vm_compute on every generated history, including those inside the known findings); concurrent submitters (real goroutines against the real queue, oracle only: nothing lost or duplicated, per-submitter order kept).",
        "level_note": "Trusted: Coq kernel + vm_compute; the hand-written model is tied to the code only by the differential check (360 sequential histories + 40 concurrent runs quick / 16000 thorough); datastore contract (durable single Put/Delete, key-ordered iteration of badger); SHA-256 injectivity on the batches in play; batches compared as pool ids, keys as 48-bit prefixes; mutex linearisation of concurrent calls trusted. The guard of the _partial theorem excludes about 45% of the generated histories (those with equal pending batches or an out-of-hash-order restart).",
    },
}
