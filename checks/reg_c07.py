# C07 — DA-included (final) height is sound, monotone, durable and eventually reached.
ENTRY = {
    "C07": {
        "props": "Props/C07.v", "pkg": "c07", "check_module": "Check.IncluderCheck",
        "coq_files": ["Model/Includer.v", "Proofs/IncluderProofs.v", "Check/IncluderCheck.v", "Props/C07.v"],
        "n_quick": 400, "n_thorough": 8000, "shards_thorough": 16,
        "trusted_base": [
            "Coq 8.16.1 kernel (coqc) incl. vm_compute for Examples, the refutation witness and case evaluation; no native_compute",
            "hand-written Gallina model (Model/Includer.v); tie to /repo = Go harness (-tags verif) running the real block.Manager on generated histories + vm_compute evaluation of the model on the same histories (Check.IncluderCheck.mismatches = [])",
            "Go harness harness/c07 (generators, doubles of DA layer / executor / sequencer / broadcasters, projections, oracle, shrinker) and bin/check",
            "datastore contract: a returned Put is durable and atomic; SaveCache/LoadCache taken as atomic (a torn cache file is C04's subject)",
            "SHA-256 collision freedom, used as: harness ids of header hashes / data commitments are in bijection with the real hashes",
            "mark events are INPUTS of the model: that the submitter (aggregator) and retriever (full node) mark exactly the blobs the DA layer accepted/holds is checked by the harness oracle on the real code, not proved (C06/C09 are about them)",
            "modelled, not verified: block/da_includer.go, block/manager.go IsDAIncluded / SetRollkitHeightToDAHeight / NewManager reload / LoadCache / SaveCache, pkg/cache daIncluded map; not modelled: executor SetFinal failures, datastore Put failures, genesis.InitialHeight > 1, gob encoding of the cache files",
            "Go 1.26 testing/synctest runtime (virtual time, quiescence detection)",
        ],
        "assumptions": [
            "process-death crash model: a crash loses whole atomic datastore writes and all memory, never part of a write",
            "the executor's SetFinal and the datastore's Put do not fail (their failure stops the node through errCh; not modelled)",
            "initial height 1",
        ],
        "design_ref": "DESIGN.md 3 (C07)",
        "technique": "Coq invariant proofs by induction over histories (effects cut at every prefix = crash points) + kernel-checked refutation witness + differential correspondence with the real Manager/DAIncluderLoop under synctest",
        "level_text": "Machine-checked proof (Coq 8.16.1, all theorems closed under the global context) about an executable model of the includer (IsDAIncluded, DAIncluderLoop body, SetRollkitHeightToDAHeight, incrementDAIncludedHeight with its effect list, reload at boot, volatile marks saved only at clean shutdown), for ALL histories of block commits, mark events, includer runs, crashes after any number of effects of a run, and clean restarts. _full: C07_monotone_full (reported height never decreases, over any continuation incl. crashes/restarts), C07_durable_full (restart / crash report the persisted = previously reported height), C07_safety_full (height <= chain height; the values ever stored are exactly rep..1, i.e. +1 steps; SetFinal log in order without gaps, a repeat only of the top entry, SetFinal(n) before the store of n; persisted = reported), C07_sound_full (every height up to the reported one is a stored block whose header and - unless empty - data have a mark event in the history at exactly the DA heights recorded under rhb/<n>/h|d). _partial: C07_eventually_partial (one includer run reaches n) under the guard blocks_marked_since_crash = the marks of all blocks <= n were produced after the last crash. _refuted: C07_eventually_refuted / C07_eventually_unguarded_refuted (kernel-checked witness: block committed, header accepted by DA, crash: no continuation without a NEW header mark ever reports it) = known finding aggregator-crash-loses-da-marks (F9), reproduced on the real code by the harness. Tested only (Go oracle on the real code, not proved): that mark events correspond to blobs really on the DA double at that DA height (submitter/retriever behaviour), and that the final height equals the height up to which both parts of every block are on the DA double after a fault-free quiescence suffix.",
        "level_note": "Trusted: Coq kernel + vm_compute; the hand-written model is tied to the code only by the differential check (400 histories quick / 8000 thorough, half aggregator half full node); mark events are model inputs (their production by submitter/retriever is only tested); data marks are keyed by the commitment of the transaction list, so two blocks with equal transaction lists share a mark ('its data on DA' is read content-wise); executor/datastore failures and initial height > 1 are outside the model.",
    },
}
