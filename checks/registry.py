# Per-property configuration of bin/check.  One entry per claimed property.
COMMON_TB = [
    "Coq 8.16.1 kernel (coqc) incl. vm_compute for Examples and case evaluation; no native_compute",
    "hand-written Gallina model; tie to /repo = Go harness (-tags verif) running the real code on generated histories + vm_compute evaluation of the model on the same histories (Check.*.mismatches = [])",
    "Go harness (generators, doubles, projections, oracle, shrinker) and bin/check",
]

REGISTRY = {
    "C14": {
        "props": "Props/C14.v", "pkg": "c14", "check_module": "Check.StoreCheck",
        "coq_files": ["Model/Store.v", "Proofs/StoreProofs.v", "Check/StoreCheck.v", "Props/C14.v"],
        "n_quick": 300, "n_thorough": 9600, "shards_thorough": 16,
        "trusted_base": COMMON_TB + [
            "datastore contract: a returned Put/Commit is durable, a batch commit is atomic, path.Clean is the identity on clean metadata keys",
            "SHA-256 collision freedom, used as: saved headers with equal hashes have equal heights (hash_consistentb hypothesis)",
            "modelled, not verified: pkg/store/store.go, keys.go, kv.go GenerateKey; values compared as pool indices of the marshalled bytes (codec is C12's subject)",
        ],
        "assumptions": ["process-death crash model: a crash loses whole atomic datastore writes, never part of one"],
        "design_ref": "DESIGN.md 3 (C14)",
        "technique": "Coq refinement proof (simulation relation, induction over histories) + differential correspondence with the real DefaultStore",
        "level_text": "Machine-checked proof (Coq 8.16.1, closed under the global context) that the executable model of DefaultStore refines a height-indexed map for ALL histories of operations, reopenings and crashes inside operations (C14_refines_full), that the key builders of the seven record kinds are jointly injective (C14_keys_disjoint_full), that the recorded height never decreases (C14_height_monotone_full), that a read by hash returns the block with that hash or not-found (C14_by_hash_full; true only after the fix: commit recorded in known_findings.json) and that a block save is all-or-nothing (C14_save_atomic_full). The model is tied to /repo on every run: the real store is driven with generated histories (map datastore and on-disk badger, crashes cut between recorded datastore writes), and results, final database image and write log are compared with the model by vm_compute; an independent Go oracle evaluates latest-write/atomicity directly on the real store.",
        "level_note": "Trusted: Coq kernel + vm_compute; the hand-written model is tied to the code only by the differential check (300 histories quick / 9600 thorough); datastore contract (durable Put, atomic batch); SHA-256 collision freedom; values compared as projections (pool indices), hashes as 4-byte projections; metadata keys restricted to path.Clean-stable keys.",
    },
}
NOT_APPLICABLE = {}

# properties whose check is complete and claimed in MANIFEST.json (maintained by the orchestrating session)
READY = ["C01", "C02", "C03", "C04", "C05", "C06", "C07", "C08", "C09", "C10", "C11", "C12", "C13", "C14", "C15", "C16", "C17", "C18", "C19", "C20"]

# per-property entries live in checks/reg_cXX.py (each defines ENTRY = {"Cxx": {...}} and optionally NA = {...})
import glob as _g, os as _o, importlib.util as _u
for _f in sorted(_g.glob(_o.path.join(_o.path.dirname(_o.path.abspath(__file__)), "reg_*.py"))):
    _s = _u.spec_from_file_location(_o.path.basename(_f)[:-3], _f)
    _m = _u.module_from_spec(_s)
    _s.loader.exec_module(_m)
    for _k, _v in getattr(_m, "ENTRY", {}).items():
        _v.setdefault("trusted_base", [])
        REGISTRY[_k] = _v
    NOT_APPLICABLE.update(getattr(_m, "NA", {}))

# ---- GoLite: decision functions regenerated from the Go source on every run (harness/translators/golite) and proved
# equal to the model's predicates for all arguments (coq/Check/GoLite*.v over coq/gen/GoLiteFuns.v).
_GL_FILES = {"validate": "Check/GoLiteValidate.v", "submit": "Check/GoLiteSubmit.v", "throttle": "Check/GoLiteThrottle.v",
             "lazy": "Check/GoLiteLazy.v", "da": "Check/GoLiteDA.v", "admit": "Check/GoLiteAdmit.v", "includer": "Check/GoLiteIncluder.v", "queue": "Check/GoLiteQueue.v", "producer": "Check/GoLiteProducer.v", "loop-filter": "Check/GoLiteLoopFilter.v", "loop-waiting": "Check/GoLiteLoopWaiting.v", "loop-chunks": "Check/GoLiteLoopChunks.v", "loop-pending": "Check/GoLiteLoopPending.v", "publish": "Check/GoLitePublish.v", "sync": "Check/GoLiteSync.v"}
_GOLITE = {
    "C01": [("publish", "Manager.publishBlockInternal (with Manager.retrieveBatch and Manager.updateState inside it), the orchestration of block production, evaluated against scripted collaborators whose calls are logged: for ALL worlds (which calls fail, heights, limit and backlogs, answer of the sequencing layer, pending block or not, cancelled context or not) the returned value, the complete sequence of calls WITH their arguments, and the in-memory cursor / state afterwards = Check/GoLitePublish.pub_expect; Proofs/GoLitePublishRefine.v: for every input of Producer.step the code performs the store writes of the model (cursor; early block, empty signature; final block, new signature and metadata, after Validate; state; height) in the model's order, and its refusal test = fst Throttle.limit_check, a refused attempt calling nothing"),
            ("producer", "Manager.retrieveBatch with its effects (the whole batch passed on, ErrNoBatch iff it has no transactions, ONE metadata write of the cursor, the in-memory cursor moved also when that write fails; nothing on an error / no response / no batch) = the SErr / SNil / SBatch cases of Producer.produce, for all answers of the sequencing layer"),
            ("validate", "execValidate = Types.validate, SignedHeader.ValidateBasic = Types.validate_basic, types.Validate = Types.validate_pair")],
    "C02": [("sync", "Manager.trySyncNextBlock (block/sync.go; one iteration of its endless loop, Manager.updateState inside it), the orchestration of block application on a full node, evaluated against scripted collaborators whose calls are logged: for ALL worlds the returned value (error / nil / go round again), the complete sequence of calls with their arguments and Manager.lastState afterwards = Check/GoLiteSync.sync_expect; Proofs/GoLiteSyncRefine.v: for every loop state of Syncer.try_sync the iteration stops / halts / continues exactly as the model does, validates before it executes, writes nothing on a failure and otherwise performs the model's block_writes in the model's order (block, state, height)"),
            ("validate", "execValidate = Types.validate (the validation the syncer applies to every received block)"),
            ("admit", "handlePotentialHeader / handlePotentialData (block/retriever.go) with their effects — result, DA-included mark, includer signal, event sent to sync — = Admission.da_admit, for all genesis data, seen-sets, items and DA heights (blob decoding by class is assumed: C12)")],
    "C03": [("loop-chunks", "the chunked Get loop of types.RetrieveWithHelpers, translated shallowly into a Gallina Fixpoint, = Get over the chunks of Admission.chunks (100 ids each, last one shorter, none empty, in order, stop at the first error), by induction for ALL id lists"),
            ("admit", "handlePotentialHeader / handlePotentialData (block/retriever.go) with their effects — result, DA-included mark, includer signal, event sent to sync — = Admission.da_admit, for all genesis data, seen-sets, items and DA heights (blob decoding by class is assumed: C12)"),
            ("validate", "isUsingExpectedSingleSequencer = Admission.is_expected_sequencer, isValidSignedData = Admission.is_valid_signed_data, SignedHeader.ValidateBasic = Types.validate_basic, Header.ValidateBasic (what go-header calls) = the non-empty proposer address test")],
    "C04": [("publish", "Manager.publishBlockInternal (with Manager.retrieveBatch and Manager.updateState inside it), the orchestration of block production, evaluated against scripted collaborators whose calls are logged: for ALL worlds (which calls fail, heights, limit and backlogs, answer of the sequencing layer, pending block or not, cancelled context or not) the returned value, the complete sequence of calls WITH their arguments, and the in-memory cursor / state afterwards = Check/GoLitePublish.pub_expect; Proofs/GoLitePublishRefine.v: for every input of Producer.step the code performs the store writes of the model (cursor; early block, empty signature; final block, new signature and metadata, after Validate; state; height) in the model's order, and its refusal test = fst Throttle.limit_check, a refused attempt calling nothing"),
            ("producer", "Manager.retrieveBatch with its effects (the whole batch passed on, ErrNoBatch iff it has no transactions, ONE metadata write of the cursor, the in-memory cursor moved also when that write fails; nothing on an error / no response / no batch) = the SErr / SNil / SBatch cases of Producer.produce, for all answers of the sequencing layer"),
            ("validate", "execValidate = Types.validate")],
    "C05": [("sync", "Manager.trySyncNextBlock (block/sync.go; one iteration of its endless loop, Manager.updateState inside it), the orchestration of block application on a full node, evaluated against scripted collaborators whose calls are logged: for ALL worlds the returned value (error / nil / go round again), the complete sequence of calls with their arguments and Manager.lastState afterwards = Check/GoLiteSync.sync_expect; Proofs/GoLiteSyncRefine.v: for every loop state of Syncer.try_sync the iteration stops / halts / continues exactly as the model does, validates before it executes, writes nothing on a failure and otherwise performs the model's block_writes in the model's order (block, state, height)"),
            ("validate", "execValidate = Types.validate")],
    "C06": [("loop-pending", "the loop of pendingBase.getPending, translated shallowly, = Throttle.get_pending (the heights lastSubmitted+1 .. height, each fetched once, in increasing order, stop at the first failing fetch), by induction for ALL watermarks and heights"),
            ("submit", "Manager.exponentialBackoff = Submitter.exp_backoff, pendingBase.isEmpty = (store height =? watermark)"),
            ("da", "types.SubmitWithHelpers = Proxy.submit_helper (the status the retry loop of submitToDA switches on)")],
    "C07": [("includer", "IsDAIncluded, SetRollkitHeightToDAHeight, incrementDAIncludedHeight with their effects in order (Put rhb/h/h, Put rhb/h/d, SetFinal(d+1), Put d, publish by compare-and-swap; nothing after a failed step) = the per-block effects of Includer.incl_effs, for all store contents, marks and heights"),
            ("admit", "handlePotentialHeader / handlePotentialData (block/retriever.go), the only writers of the DA-included marks on a full node, with their effects — result, DA-included mark, includer signal, event sent to sync — = Admission.da_admit: a mark is set only for a blob that passed the full validation, for all genesis data, seen-sets, items and DA heights")],
    "C08": [("publish", "Manager.publishBlockInternal (with Manager.retrieveBatch and Manager.updateState inside it), the orchestration of block production, evaluated against scripted collaborators whose calls are logged: for ALL worlds (which calls fail, heights, limit and backlogs, answer of the sequencing layer, pending block or not, cancelled context or not) the returned value, the complete sequence of calls WITH their arguments, and the in-memory cursor / state afterwards = Check/GoLitePublish.pub_expect; Proofs/GoLitePublishRefine.v: for every input of Producer.step the code performs the store writes of the model (cursor; early block, empty signature; final block, new signature and metadata, after Validate; state; height) in the model's order, and its refusal test = fst Throttle.limit_check, a refused attempt calling nothing"),
            ("loop-pending", "the loop of pendingBase.getPending, translated shallowly, = Throttle.get_pending (the heights lastSubmitted+1 .. height, each fetched once, in increasing order, stop at the first failing fetch), by induction for ALL watermarks and heights"),
            ("loop-waiting", "the loop of PendingData.numWaitingData, translated shallowly, = Throttle.waiting_loop (the count and the heights stepped over, in order), by induction for ALL pending lists"),
            ("throttle", "pendingBase.numPending = Throttle.sub64 (uint64 subtraction with wrap-around), pendingBase.isEmpty")],
    "C09": [("loop-chunks", "the chunked Get loop of types.RetrieveWithHelpers, translated shallowly into a Gallina Fixpoint, = Get over the chunks of Admission.chunks (100 ids each, last one shorter, none empty, in order, stop at the first error), by induction for ALL id lists"),
            ("admit", "handlePotentialHeader / handlePotentialData (block/retriever.go) with their effects — result, DA-included mark, includer signal, event sent to sync — = Admission.da_admit, for all genesis data, seen-sets, items and DA heights (blob decoding by class is assumed: C12)"),
            ("da", "types.RetrieveWithHelpers = Proxy.retrieve_helper on every path before the chunked Get loop (GetIDs error classes by message text, nil / empty id list)")],
    "C10": [("queue", "sequencers/single/queue.go AddBatch / Next / batchKey with their datastore writes (Put before the append, Delete of the head record) and their effect on the queue object = Queue.step_mem, for all queue contents, sequence numbers, bounds and batches (Load, a loop over a datastore query, is not translated)")],
    "C11": [("publish", "Manager.publishBlockInternal (with Manager.retrieveBatch and Manager.updateState inside it), the orchestration of block production, evaluated against scripted collaborators whose calls are logged: for ALL worlds (which calls fail, heights, limit and backlogs, answer of the sequencing layer, pending block or not, cancelled context or not) the returned value, the complete sequence of calls WITH their arguments, and the in-memory cursor / state afterwards = Check/GoLitePublish.pub_expect; Proofs/GoLitePublishRefine.v: for every input of Producer.step the code performs the store writes of the model (cursor; early block, empty signature; final block, new signature and metadata, after Validate; state; height) in the model's order, and its refusal test = fst Throttle.limit_check, a refused attempt calling nothing"),
            ("producer", "Manager.retrieveBatch with its effects (the whole batch passed on, ErrNoBatch iff it has no transactions, ONE metadata write of the cursor, the in-memory cursor moved also when that write fails; nothing on an error / no response / no batch) = the SErr / SNil / SBatch cases of Producer.produce, for all answers of the sequencing layer"),
            ("queue", "sequencers/single/queue.go AddBatch / Next / batchKey with their datastore writes (Put before the append, Delete of the head record) and their effect on the queue object = Queue.step_mem, for all queue contents, sequence numbers, bounds and batches (Load, a loop over a datastore query, is not translated)")],
    "C16": [("loop-chunks", "the chunked Get loop of types.RetrieveWithHelpers, translated shallowly into a Gallina Fixpoint, = Get over the chunks of Admission.chunks (100 ids each, last one shorter, none empty, in order, stop at the first error), by induction for ALL id lists"),
            ("loop-filter", "the size filter loop of da/jsonrpc client SubmitWithOptions, translated shallowly, = Proxy.filter_loop (what is submitted is the model's longest fitting prefix; the oversize flag), by induction for ALL blob lists"),
            ("da", "types.SubmitWithHelpers = Proxy.submit_helper on every path; types.RetrieveWithHelpers = Proxy.retrieve_helper on every path before the chunked Get loop")],
    "C17": [("lazy", "getRemainingSleep = Lazy.remaining")],
}
for _k, _groups in _GOLITE.items():
    _e = REGISTRY[_k]
    for (_g_, _what) in _groups:
        _file = _GL_FILES[_g_]
        _e["translators"] = list(_e.get("translators", [])) + ["tr-golite-" + _g_]
        _e["trusted_base"] = list(_e.get("trusted_base", [])) + [
            "golite translator (harness/translators/golite, go/ast, purely syntactic) + the evaluator of the translated fragment, Model/GoLite.v (meaning of field selections, built-in calls and methods over the symbolic vocabulary): "
            "the Go decision functions are regenerated into coq/gen/GoLiteFuns.v on every run and %s proves for ALL arguments: %s; a construct outside the fragment is emitted as SUnknown/EUnknown, on which the evaluator fails" % (_file, _what)]
        _e.setdefault("golite", []).append({"lemmas_file": _file, "what": _what})
    _e["technique"] = _e.get("technique", "") + "; decision functions translated from the Go source on every run (go/ast -> deep-embedded Gallina AST) and proved equal to the model's predicates"

# property files that state theorems over the translated code need the translation's files built with them
for _k, _extra in {"C05": ["Model/GoLite.v", "Check/GoLiteTactics.v", "Check/GoLiteSync.v", "Proofs/GoLiteSyncRefine.v"],
                   "C04": ["Model/GoLite.v", "Check/GoLiteTactics.v", "Check/GoLitePublish.v", "Proofs/GoLitePublishRefine.v"],
                   "C08": ["Model/GoLite.v", "Check/GoLiteTactics.v", "Check/GoLitePublish.v", "Proofs/GoLitePublishRefine.v"],
                   "C10": ["Model/GoLite.v", "Check/GoLiteTactics.v", "Check/GoLiteQueue.v", "Proofs/GoLiteQueueRefine.v"],
                   "C03": ["Model/GoLite.v", "Check/GoLiteTactics.v", "Check/GoLiteAdmit.v", "Proofs/GoLiteAdmitRefine.v"]}.items():
    REGISTRY[_k]["coq_files"] = list(REGISTRY[_k].get("coq_files", [])) + [f for f in _extra if f not in REGISTRY[_k].get("coq_files", [])]
