# C09 — DA scanning never skips a height, retries on failure, survives any blob
_TB = [
    "Coq 8.16.1 kernel (coqc) incl. vm_compute for Examples and case evaluation; no native_compute",
    "hand-written Gallina model; tie to /repo = Go harness (-tags verif) running the real code on generated histories + vm_compute evaluation of the model on the same histories (Check.RetrieverCheck.mismatches = [])",
    "Go harness (generators, scripted DA double, blob labelling, projections, oracle, shrinker) and bin/check",
    "modelled, not verified: block/retriever.go (RetrieveLoop, processNextDAHeaderAndData, handlePotentialHeader, handlePotentialData, fetchBlobs), types/da.go RetrieveWithHelpers, the start-height rule of block/manager.go NewManager",
    "blobs are abstract classes in the model (admitted header / admitted data / signed data without txs / signed data without metadata / junk); the class of each real byte string is assigned by the harness from how it built the bytes (real ed25519 keys, real types.* marshalling) — the byte-level decoders (protobuf-go, types/serialization.go, libp2p key unmarshalling, signature verification) are exercised on 16 junk kinds but not modelled; decoder totality on ALL byte strings is tested, not proved",
    "DA error texts enter the model as two booleans (contains 'blob: not found', contains 'given height is from the future'), which is all the code inspects",
    "Go 1.26 testing/synctest virtual time for the 100 ms retry delay and the loop's select",
]
ENTRY = {
    "C09": {
        "props": "Props/C09.v", "pkg": "c09", "check_module": "Check.RetrieverCheck",
        "coq_files": ["Model/Retriever.v", "Proofs/RetrieverProofs.v", "Check/RetrieverCheck.v", "Props/C09.v"],
        "n_quick": 300, "n_thorough": 9600, "shards_thorough": 16,
        "trusted_base": _TB,
        "assumptions": [
            "DA heights are unbounded naturals in the model: the uint64 wrap of daHeight+1 at 2^64-1 is not modelled (start heights up to 2^62 are exercised)",
            "the DA double answers consistently: Get returns exactly the blobs of the ids it listed; a height's content does not change between attempts",
            "the 10 000-slot headerInCh/dataInCh never fill up (the blocking send on a full channel is C13's subject)",
            "the retrieve context is not cancelled during the history (shutdown is C13's subject)",
        ],
        "design_ref": "DESIGN.md 3 (C09)",
        "technique": "Coq proof over all DA contents / outcome scripts / histories (structural induction on the DA description and on the history, per-iteration invariant) + differential correspondence with the real Manager: real RetrieveLoop under testing/synctest and direct processNextDAHeaderAndData calls on a scripted DA double",
        "level_text": "Machine-checked proof (Coq 8.16.1, every theorem closed under the global context) about the executable model of the retriever, for ALL start heights, DA contents (any number and mix of blob classes per height), per-height fetch-outcome sequences (listing error with any text class, nil listing, error on any chunk, success; from-the-future afterwards) and histories of loop wake-ups and direct calls. _full: C09_cursor_full (iterations form a chain from max(stored, configured start); each iteration calls the DA only for the cursor's height, makes at most 10 attempts, retries after every transient error, and moves the cursor by exactly one iff a loop iteration's deciding attempt was a successful fetch or a confirmed not-found, otherwise the same height is examined again), C09_no_skip_full (every height between start and final cursor was passed by such an iteration, which emitted exactly the genuine unseen headers/data among all blobs of that height, in DA order), C09_monotone_full (cursor never below start, never decreases), C09_chunks_full (chunks of 100 concatenate to the whole id list; error in chunk i fails the height after i+1 Gets), C09_emits_full (per iteration: events = genuine unseen blobs of the DA's content at that height up to the first poisonous blob; junk, empty signed data and seen items yield nothing). _refuted: C09_no_crash_refuted — 'no blob crashes the scan' is false of the code: a correctly signed SignedData with txs and without Metadata panics the RetrieveLoop goroutine (known finding panic-signed-data-without-metadata, reproduced on the real code on every run). _partial: C09_no_crash_partial — guard: no blob of that class in the DA; then no iteration panics and the loop stays alive. Only TESTED, not proved: that arbitrary BYTES (16 junk kinds: empty, random, truncated, absurd length fields, wrong message type, foreign/corrupted/missing signatures, foreign key types, undecodable keys, trailing garbage) fall into the junk class without crashing — the protobuf/libp2p decoders are not modelled here.",
        "level_note": "Trusted: Coq kernel + vm_compute; the hand-written model is tied to the code only by the differential check (300 histories quick / 9600 thorough, ~1100 scripted DA heights per 300); blob classes are labels assigned by the harness, so byte-level decoder totality is test evidence only; uint64 wrap, full event channels and context cancellation are outside the model (listed under assumptions). Known finding: panic on signed data without Metadata (fixes/C09-signed-data-without-metadata.diff proposed, not applied: no repair permission).",
    },
}
