# C02 — full node converges to exactly the proposer's chain under any delivery order
_TB = [
    "Coq 8.16.1 kernel (coqc) incl. vm_compute for the _refuted witnesses, Examples and case evaluation; no native_compute",
    "hand-written Gallina model Model/Syncer.v (SyncLoop header/data cases, trySyncNextBlock, handleEmptyDataHash, cache items/seen/files, NewManager start-up) + shared Model/Types.v (validate, next_state); tie to /repo = Go harness (-tags verif): a real aggregator block.Manager produces the chain, a second real block.Manager runs the unmodified SyncLoop inside testing/synctest, and the model is evaluated on the same histories by vm_compute (Check.SyncerCheck.mismatches = [])",
    "symbolic crypto: header hash = the header term, data commitment = the tx list, signature = term Sig key header (SHA-256 collision freedom, Ed25519 correctness/unforgeability); the harness labels real bytes with the implementation's own Hash/DACommitment/Verify",
    "execution layer = arbitrary deterministic function exec (prev root, height, time, txs) -> root (universally quantified in the theorems; sha256 double in the harness)",
    "ingress abstraction: RetrieveLoop (DA) and Header/DataStoreRetrieveLoop (P2P) only append events to headerInCh/dataInCh and SyncLoop handles one event at a time, so 'any event list' covers every interleaving and every placement of blobs into DA heights; the loops themselves are not run by this check (C09 covers DA scanning)",
    "ChainValid (the conclusion of C01) is a hypothesis here; every chain the harness obtains from the real aggregator is checked to satisfy it (mismatch code 5)",
    "Go harness (generators, doubles, projection, oracle, shrinker), bin/check; harness built with go1.26 (testing/synctest) while the pinned suite runs on go1.24",
]
ENTRY = {
    "C02": {
        "props": "Props/C02.v", "pkg": "c02", "check_module": "Check.SyncerCheck",
        "coq_files": ["Model/Types.v", "Model/Syncer.v", "Proofs/SyncerProofs.v", "Check/SyncerCheck.v", "Props/C02.v"],
        "n_quick": 160, "n_thorough": 6400, "shards_thorough": 16,
        "trusted_base": _TB,
        "assumptions": [
            "events are items of the proposer's chain (adversarial material is C03's subject)",
            "clean stop = SaveCache succeeds and the next NewManager loads exactly those files (crash restarts are C05)",
        ],
        "design_ref": "DESIGN.md 3 (C02), 2.2-2.8",
        "technique": "Coq invariant proof by induction over histories (all chains, all event orders/duplications/DA tags, clean restarts anywhere) + kernel-checked counter-example for completeness + differential correspondence with two real block.Managers under synctest",
        "level_text": "Machine-checked (Coq 8.16.1, every theorem closed under the global context), model = the code after the repairs f41125c/5877669/3873d52. C02_safety_full: for EVERY execution function, genesis, valid proposer chain and EVERY history of header/data events of that chain (any order, duplication, DA tags) and clean restarts, SyncLoop never stops, and the node has applied exactly a prefix of the chain: the block stored at every height up to the recorded height is the proposer's (header term, signature, txs), the state is the proposer's state at that height, and the ExecuteTxs calls are exactly blocks 1..j in height order, once each. C02_monotone_full: the applied prefix (hence the height) never shrinks when the history is extended (proved for all histories, crashes included). C02_complete_refuted: kernel-checked witness that the completeness clause as worded is FALSE of the code (known finding incomplete-equal-tx-lists, still open: two blocks with equal non-empty tx lists, second data event dropped as seen), reproduced on the real code by the Go oracle on every run. C02_complete_partial (PROVED, unbounded): under the decidable guard distinct_commitmentsb C (non-empty tx lists pairwise distinct) a history containing the header of every block up to m and the data of every non-empty one, in any order with any duplication and restarts, leaves the node at height >= initial+m-1. What is missing for _full is exactly the guard.",
        "level_note": "Trusted: Coq kernel + vm_compute; the model is tied to the code only differentially (160 histories quick / 6400 thorough, chains of 3-13 resp. -41 blocks); symbolic hashes/signatures; DA/P2P ingress loops abstracted to event lists and not executed here.",
    },
}
