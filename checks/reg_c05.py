# C05 — full node recovers from a crash at any point of block application
import os as _os, importlib.util as _iu
_sp = _iu.spec_from_file_location("reg_c02_tb", _os.path.join(_os.path.dirname(_os.path.abspath(__file__)), "reg_c02.py"))
_md = _iu.module_from_spec(_sp); _sp.loader.exec_module(_md)
_TB02 = _md._TB
ENTRY = {
    "C05": {
        "props": "Props/C05.v", "pkg": "c05", "check_module": "Check.SyncerCheck",
        "coq_files": ["Model/Types.v", "Model/Syncer.v", "Model/SyncerOld.v", "Proofs/SyncerProofs.v", "Proofs/SyncerOldProofs.v", "Check/SyncerCheck.v", "Props/C05.v"],
        "n_quick": 8, "n_thorough": 400, "shards_thorough": 16,
        "trusted_base": _TB02 + [
            "datastore contract: a returned Put/Commit is durable, a batch commit (the four records of one block) is atomic; crashes are cut between recorded datastore writes (harness/doubles/crashds) and a fresh real Manager is booted on the materialised image",
            "cache files are only written by SaveCache on clean shutdown; a crashed process leaves the files of the last clean shutdown (modelled as n_files)",
        ],
        "assumptions": ["process-death crash model: whole atomic datastore writes are lost, never part of one; cache files are not torn (C04/F6 covers torn cache files)"],
        "design_ref": "DESIGN.md 3 (C05), 2.5",
        "technique": "Coq invariant proof by induction over histories with crashes (write lists of Base/KV.v, every crash prefix of every application and of every start-up, unbounded nesting) + exhaustive crash-prefix enumeration against the real block.Manager on a recording datastore, compared with the model by vm_compute",
        "level_text": "Machine-checked (Coq 8.16.1, every theorem closed under the global context), model = the code after the repairs f41125c (block saved before the state) and 5877669 (SyncLoop tries the loaded caches when it starts). C05_recovery_full (PROVED, no guard, unbounded): for every execution function, genesis, valid proposer chain and every history of chain events, clean restarts, crashes after ANY number of datastore writes of ANY event and crashes during start-up (including inside the applications start-up itself performs), in any number and nesting: the node is running and holds exactly a prefix of the proposer's chain - the proposer's block at every height up to the recorded height, state.height = height, state = the proposer's state there. C05_resync_partial (PROVED): after any such past, a clean suffix that delivers, in any order, header and data of the not yet applied blocks up to m brings the node to height >= initial+m-1 - under the guard distinct_commitmentsb C, i.e. up to the still-open C02 finding (equal non-empty tx lists); nothing else is missing. The two defects found earlier (crash-after-state-before-block, incomplete-stale-cache-files-after-crash) are FIXED in /repo; their kernel-checked witnesses are kept as Examples before_the_repair_* on the frozen old model (Model/SyncerOld.v), and their replay witnesses must pass on every run.",
        "level_note": "Trusted: Coq kernel + vm_compute; model tied to the code differentially (8 base chains x all crash prefixes ~ 150 histories quick; 400 base chains thorough); datastore contract (durable Put, atomic batch); cache files assumed not torn.",
    },
}
