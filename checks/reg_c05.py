# C05 — full node recovers from a crash at any point of block application
import os as _os, importlib.util as _iu
_sp = _iu.spec_from_file_location("reg_c02_tb", _os.path.join(_os.path.dirname(_os.path.abspath(__file__)), "reg_c02.py"))
_md = _iu.module_from_spec(_sp); _sp.loader.exec_module(_md)
_TB02 = _md._TB
ENTRY = {
    "C05": {
        "props": "Props/C05.v", "pkg": "c05", "check_module": "Check.SyncerCheck",
        "coq_files": ["Model/Types.v", "Model/Syncer.v", "Proofs/SyncerProofs.v", "Check/SyncerCheck.v", "Props/C05.v"],
        "n_quick": 8, "n_thorough": 400, "shards_thorough": 16,
        "trusted_base": _TB02 + [
            "datastore contract: a returned Put/Commit is durable, a batch commit (the four records of one block) is atomic; crashes are cut between recorded datastore writes (harness/doubles/crashds) and a fresh real Manager is booted on the materialised image",
            "cache files are only written by SaveCache on clean shutdown; a crashed process leaves the files of the last clean shutdown (modelled as n_files)",
        ],
        "assumptions": ["process-death crash model: whole atomic datastore writes are lost, never part of one; cache files are not torn (C04/F6 covers torn cache files)"],
        "design_ref": "DESIGN.md 3 (C05), 2.5",
        "technique": "Coq invariant proof by induction over histories with crashes (write lists of Base/KV.v, every crash prefix of every application, crashes during start-up, unbounded nesting) + kernel-checked counter-examples + exhaustive crash-prefix enumeration against the real block.Manager on a recording datastore, compared with the model by vm_compute",
        "level_text": "Machine-checked (Coq 8.16.1, every theorem closed under the global context). C05_recovery_refuted: kernel-checked witness that recovery as worded is FALSE of the code (known finding crash-after-state-before-block, F7: the process dies after the state write and before the block save). C05_resync_refuted: kernel-checked witness of a SECOND defect found while attempting the proof (known finding incomplete-stale-cache-files-after-crash: cache files of an earlier clean stop make the restarted node drop both parts of the next block as seen and never apply them). Both are reproduced on the real code by the Go oracle on every run. C05_recovery_partial (PROVED, unbounded): for every execution function, genesis, valid proposer chain and every history of chain events, clean restarts, crashes after ANY number of datastore writes of ANY event and crashes during start-up, in any number and nesting, in which no crash lands at write index 1 of an application (decidable guard no_bad_crash): the node is running and holds exactly a prefix of the proposer's chain - the proposer's block at every height up to the recorded height, state.height = height, state = the proposer's state there. NOT PROVED, only tested: that after a restart the node goes on to apply everything delivered afterwards (false with stale cache files - refuted above; without them it is checked by the Go oracle on every generated history: all events are delivered again after each crash and the node must reach the full chain).",
        "level_note": "Trusted: Coq kernel + vm_compute; model tied to the code differentially (8 base chains x all crash prefixes ~ 150 histories quick; 400 base chains thorough); progress after restart is tested, not proved; datastore contract (durable Put, atomic batch); cache files assumed not torn.",
    },
}
