# C14 — the block store behaves like a height-indexed map, atomically and durably (overrides the entry of registry.py:
# histories now include transient write faults, four more theorems)
_TB = [
    "Coq 8.16.1 kernel (coqc) incl. vm_compute for Examples and case evaluation; no native_compute",
    "hand-written Gallina model; tie to /repo = Go harness (-tags verif) running the real code on generated histories + vm_compute evaluation of the model on the same histories (Check.StoreCheck.mismatches = [])",
    "Go harness (generators, doubles, projections, oracle, shrinker) and bin/check",
]
ENTRY = {
    "C14": {
        "props": "Props/C14.v", "pkg": "c14", "check_module": "Check.StoreCheck",
        "coq_files": ["Model/Store.v", "Proofs/StoreProofs.v", "Check/StoreCheck.v", "Props/C14.v"],
        "n_quick": 300, "n_thorough": 9600, "shards_thorough": 16,
        "trusted_base": _TB + [
            "datastore contract: a returned Put/Commit is durable, a batch commit is atomic, a Put/Delete/Commit that returned an error wrote nothing (the fault-injecting double harness/c14/faultds.go refuses the attempt before it reaches the datastore), path.Clean is the identity on clean metadata keys",
            "SHA-256 collision freedom, used as: saved headers with equal hashes have equal heights (hash_consistentb hypothesis)",
            "modelled, not verified: pkg/store/store.go, keys.go, kv.go GenerateKey; values compared as pool indices of the marshalled bytes (codec is C12's subject)",
        ],
        "assumptions": [
            "process-death crash model: a crash loses whole atomic datastore writes, never part of one",
            "write-fault model: one write attempt (Put, Delete or Batch.Commit) of an operation returns an error and is not applied, the store object stays in use; read faults and concurrent callers of one store are outside the model",
        ],
        "design_ref": "DESIGN.md 3 (C14)",
        "technique": "Coq refinement proof (simulation relation, induction over histories) + differential correspondence with the real DefaultStore",
        "level_text": "Machine-checked proof (Coq 8.16.1, closed under the global context) that the executable model of DefaultStore refines a height-indexed map for ALL histories of operations, reopenings, crashes inside operations and transient write faults inside operations (C14_refines_full: a crashed operation happened entirely or not at all; an operation whose write attempt failed returned an error and left the map exactly as it was), that the key builders of the seven record kinds are jointly injective (C14_keys_disjoint_full), that the recorded height never decreases (C14_height_monotone_full), that a read by hash returns the block with that hash or not-found (C14_by_hash_full; true only after the fix: commit recorded in known_findings.json), that a block save is all-or-nothing (C14_save_atomic_full), that a met write fault leaves the database image unchanged and returns an error and an unmet one is an ordinary operation (C14_fault_no_effect_full, C14_fault_not_met_full), and that every acknowledged SetHeight and every height Height() reported survives any continuation incl. reopen, crash and faults (C14_acked_height_durable_full, C14_reported_height_durable_full). All theorems are _full. The model is tied to /repo on every run: the real store is driven with generated histories (map datastore and on-disk badger; crashes cut between recorded datastore writes; write faults refuse one write attempt and return an error while the store stays open; a fault/read/retry/read/reopen/read stream over the four writing operations; every pool header has two same-hash siblings = the same Header with another Signature / Signer in the SignedHeader, compared by the pool index of the stored bytes, and a same-hash overwrite stream saves a height, reads it in some of the five ways, saves a same-hash sibling with the same or other data and signature record, and reads it in all five ways before and after a reopen), and results, final database image, write log and the refused write attempts are compared with the model by vm_compute; an independent Go oracle evaluates latest-acknowledged-write, atomicity, nothing-of-a-failed-write-is-readable, write errors are reported, and reported/acknowledged heights survive a reopen, directly on the real store (every history ends with reads, a close/reopen and the same reads again).",
        "level_note": "Trusted: Coq kernel + vm_compute; the hand-written model is tied to the code only by the differential check (300 histories quick / 9600 thorough); datastore contract (durable Put, atomic batch, a failed write writes nothing); SHA-256 collision freedom; values compared as projections (pool indices), hashes as 4-byte projections; metadata keys restricted to path.Clean-stable keys; one caller at a time (interleavings of concurrent SetHeight calls are not modelled).",
    },
}
