# C15 — reference execution layer (apps/testapp/kv KVExecutor): state root depends only on executed transactions
_TB = [
    "Coq 8.16.1 kernel (coqc) incl. vm_compute for Examples and case evaluation; no native_compute",
    "hand-written Gallina model; tie to /repo = Go harness (-tags verif) running the real code on generated histories + vm_compute evaluation of the model on the same histories (Check.KVExecCheck.mismatches = [])",
    "Go harness (generators, projections, oracle, shrinker) and bin/check",
]
ENTRY = {
    "C15": {
        "props": "Props/C15.v", "pkg": "c15", "check_module": "Check.KVExecCheck",
        "coq_files": ["Model/KVExec.v", "Proofs/KVExecProofs.v", "Check/KVExecCheck.v", "Props/C15.v"],
        "n_quick": 200, "n_thorough": 4800, "shards_thorough": 16,
        "trusted_base": _TB + [
            "datastore contract (go-datastore map store / go-ds-badger4): a committed batch is applied atomically and in order, an uncommitted batch writes nothing, Put/Commit are durable across close+reopen, Query returns every key once",
            "modelled, not verified: apps/testapp/kv/kvexecutor.go; strings.SplitN/TrimSpace (unicode.IsSpace over UTF-8), ds.NewKey = path.Clean on rooted paths, sort.Strings = byte order — each compared with the real library on the texts of every generated case (tables kc_keys/kc_trims), never proved",
            "verif hook apps/testapp/kv/verif_export_c15.go: constructor over a supplied datastore (duplicates the two lines of NewKVExecutor after the store is opened), read-only access to computeStateRoot, the datastore and the channel capacity",
        ],
        "assumptions": [
            "calls on one instance are sequential (the property's interleavings are of calls, not of goroutines); context cancellation and datastore I/O errors are outside the model",
            "generated transactions are valid UTF-8 (replay files are JSON); byte-level behaviour of TrimSpace on invalid UTF-8 is modelled but not exercised",
        ],
        "design_ref": "DESIGN.md 3 (C15)",
        "technique": "Coq proof by induction over call histories of an executable model of KVExecutor (sorted finite map, canonical-form lemma) + differential correspondence with two real KVExecutor instances (in-memory and on-disk badger with real reopen)",
        "level_text": "Machine-checked proof (Coq 8.16.1, every theorem closed under the global context), for ALL histories of InitChain/ExecuteTxs/SetFinal/InjectTx/GetTxs/reopen calls in any interleaving, of the model of the REPAIRED KVExecutor (uncommitted fix fixes/C15-finalized-height-in-root.diff: /finalizedHeight is reserved like the genesis keys; before it the harness confirmed on the real code that SetFinal changed the root — finding finalize-changes-root, now status fixed): C15_root_function_of_txs_full (every ExecuteTxs result and the root after every prefix equal an explicit function of the ordered accepted transactions alone), C15_two_instances_agree_full (two histories with the same blocks return the same roots call by call), C15_only_exec_changes_root_full, C15_malformed_noop_full (a block containing a rejected transaction returns an error and leaves store and mempool unchanged), C15_reexec_idempotent_full (same block twice in a row = once, same result), C15_init_idempotent_full (every later InitChain returns the first result and changes nothing; InitChain never fails), C15_first_init_root_full. All are _full; there is no _partial/_refuted theorem. Only tested (not proved): that the model is the code — 200 instance pairs (400 Coq cases) per quick run compare per-call results, the root after every call, the final datastore dump, ds.NewKey/TrimSpace tables and the mempool capacity; an independent Go oracle checks the property directly on the real instances (root unchanged by non-exec calls, rejected block leaves the datastore unchanged, re-execution, InitChain idempotence, cross-instance agreement, a fresh instance executing all accepted transactions as one block, mempool FIFO and overflow).",
        "level_note": "Trusted: Coq kernel + vm_compute; the hand-written model is tied to the code only by the differential check (200 pairs quick / 4800 thorough, every 10th pair on on-disk badger); datastore contract; library functions (TrimSpace, path.Clean, sort.Strings) modelled and table-checked, not proved; sequential calls only; the theorems are about the repaired code, the repair is an uncommitted working-tree edit of apps/testapp/kv/kvexecutor.go.",
    },
}
