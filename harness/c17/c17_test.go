// C17 correspondence harness: the REAL block.Manager.AggregationLoop (lazy and normal mode), built by
// the real NewManager, runs unmodified inside a testing/synctest bubble (virtual clock).  publishBlock is
// replaced (hook VerifSetPublishBlock) by a recorder that notes the virtual start instant and sleeps the
// generated duration; notifications go through the real NotifyNewTransactions at generated virtual
// instants.  Output: cases_C17.v (trace inclusion against Model/Lazy.v) and result.json (Go oracle: the
// property evaluated directly on the observed starts).
package c17

import (
	"context"
	"fmt"
	"math/rand"
	"os"
	"path/filepath"
	"sort"
	"strconv"
	"strings"
	"testing"
	"testing/synctest"
	"time"

	ds "github.com/ipfs/go-datastore"
	dssync "github.com/ipfs/go-datastore/sync"
	logging "github.com/ipfs/go-log/v2"

	"github.com/evstack/ev-node/block"
	coreexecutor "github.com/evstack/ev-node/core/execution"
	"github.com/evstack/ev-node/pkg/config"
	"github.com/evstack/ev-node/pkg/genesis"
	"github.com/evstack/ev-node/pkg/store"

	"verif/harness/vgen"
)

const msNs = int64(time.Millisecond)

// Replay is one fully explicit schedule (all instants in ns relative to the entry of AggregationLoop).
type Replay struct {
	Seed   int64   `json:"seed"`
	Case   int     `json:"case"`
	Lazy   bool    `json:"lazy"`
	BT     int64   `json:"bt"`  // config.Node.BlockTime as configured (0 = default)
	LI     int64   `json:"li"`  // config.Node.LazyBlockInterval as configured (0 = default)
	Gen    int64   `json:"gen"` // genesis time minus loop entry
	Durs   []int64 `json:"durs"`
	DDef   int64   `json:"ddef"`
	Notifs []int64 `json:"notifs"`
	H      int64   `json:"h"`
}

func (r *Replay) effBT() int64 {
	if r.BT == 0 {
		return int64(time.Second)
	}
	return r.BT
}
func (r *Replay) effLI() int64 {
	if r.LI == 0 {
		return int64(60 * time.Second)
	}
	return r.LI
}
func (r *Replay) t0() int64 {
	if v := r.Gen + r.effBT(); v > 0 {
		return v
	}
	return 0
}
func (r *Replay) dur(k int) int64 {
	d := r.DDef
	if k < len(r.Durs) {
		d = r.Durs[k]
	}
	if d < 0 {
		d = 0
	}
	return d
}

// ---- running the real loop --------------------------------------------------------------------

var rootDir string

// runReal returns the virtual start instants (< H) of the calls of publishBlock.
func runReal(t *testing.T, rp *Replay) (starts []int64, err error) {
	logger := logging.Logger("c17")
	synctest.Test(t, func(t *testing.T) {
		begin := time.Now()
		cfg := config.DefaultConfig
		cfg.RootDir = rootDir
		cfg.Node.Aggregator = true
		cfg.Node.LazyMode = rp.Lazy
		cfg.Node.BlockTime = config.DurationWrapper{Duration: time.Duration(rp.BT)}
		cfg.Node.LazyBlockInterval = config.DurationWrapper{Duration: time.Duration(rp.LI)}
		gen := genesis.NewGenesis("c17", 1, begin.Add(time.Duration(rp.Gen)), []byte("proposer"))
		st := store.New(dssync.MutexWrap(ds.NewMapDatastore()))
		m, e := block.NewManager(context.Background(), nil, cfg, gen, st, coreexecutor.NewDummyExecutor(), nil, nil,
			logger, nil, nil, nil, nil, block.NopMetrics(), 1, 1, block.DefaultManagerOptions())
		if e != nil {
			err = e
			return
		}
		k := 0
		var rec []int64
		m.VerifSetPublishBlock(func(ctx context.Context) error {
			rec = append(rec, int64(time.Since(begin)))
			d := rp.dur(k)
			k++
			if d > 0 {
				time.Sleep(time.Duration(d))
			}
			return nil
		})
		ns := append([]int64{}, rp.Notifs...)
		sort.Slice(ns, func(i, j int) bool { return ns[i] < ns[j] })
		// notifications before the loop is entered
		i := 0
		for ; i < len(ns) && ns[i] < 0; i++ {
			m.NotifyNewTransactions()
		}
		ctx, cancel := context.WithCancel(context.Background())
		errCh := make(chan error, 1)
		loopDone := make(chan struct{})
		notDone := make(chan struct{})
		go func() { defer close(loopDone); m.AggregationLoop(ctx, errCh) }()
		go func() {
			defer close(notDone)
			for ; i < len(ns); i++ {
				if ns[i] >= rp.H {
					return
				}
				if w := time.Duration(ns[i]) - time.Since(begin); w > 0 {
					time.Sleep(w)
				}
				m.NotifyNewTransactions()
			}
		}()
		time.Sleep(time.Duration(rp.H))
		synctest.Wait()
		for _, s := range rec {
			if s < rp.H {
				starts = append(starts, s)
			}
		}
		cancel()
		<-loopDone
		<-notDone
		select {
		case e := <-errCh:
			err = e
		default:
		}
	})
	return
}

// ---- the oracle: the property evaluated directly on the observed starts ----------------------------

type viol struct{ sig, what string }

func nextFire(interval, s, d int64) int64 {
	if d < interval {
		return s + interval
	}
	return s + d + msNs
}

func oracle(rp *Replay, starts []int64) []viol {
	var vs []viol
	add := func(sig, f string, a ...interface{}) {
		for _, v := range vs {
			if v.sig == sig {
				return
			}
		}
		vs = append(vs, viol{sig, fmt.Sprintf(f, a...)})
	}
	bt, li, t0, H := rp.effBT(), rp.effLI(), rp.t0(), rp.H
	w := bt
	if w < msNs {
		w = msNs
	}
	// the first block is produced as soon as the loop starts
	if t0 < H && (len(starts) == 0 || starts[0] != t0) {
		add("no-block-at-loop-start", "loop entered select at %d but the first production is %v", t0, starts)
	}
	for i := 0; i+1 < len(starts); i++ {
		s1, s2, d1 := starts[i], starts[i+1], rp.dur(i)
		// never faster than one per block interval
		if s2-s1 < bt {
			if rp.Lazy && li < bt && s2 == nextFire(li, s1, d1) {
				add("rate-lazy-interval-below-block-time", "lazy interval %d < block time %d: productions at %d and %d are %d apart (the second one fired by the lazy timer)", li, bt, s1, s2, s2-s1)
			} else {
				add("rate-violated", "productions at %d and %d are %d apart, block time %d", s1, s2, s2-s1, bt)
			}
		}
		if rp.Lazy {
			// at least one block per idle interval
			if s2 > nextFire(li, s1, d1) {
				add("idle-interval-exceeded", "production at %d (duration %d) followed by %d, lazy interval %d", s1, d1, s2, li)
			}
		} else if s2 != nextFire(bt, s1, d1) {
			add("normal-mode-not-periodic", "production at %d (duration %d) followed by %d, block time %d", s1, d1, s2, bt)
		}
	}
	if n := len(starts); n > 0 {
		iv := bt
		if rp.Lazy {
			iv = li
		}
		if nf := nextFire(iv, starts[n-1], rp.dur(n-1)); nf < H {
			add("production-stopped", "last production at %d, next timer at %d, nothing until %d", starts[n-1], nf, H)
		}
	}
	if !rp.Lazy {
		return vs
	}
	anyNotif := false
	for _, t := range rp.Notifs {
		if t >= H {
			continue
		}
		anyNotif = true
		if t < t0 {
			t = t0
		}
		// in flight: s < t <= e of some production
		inflight, bound := false, int64(0)
		for i, s := range starts {
			if s < t && t <= s+rp.dur(i) {
				inflight, bound = true, nextFire(bt, s, rp.dur(i))
			}
		}
		found := false
		if inflight {
			if bound >= H {
				continue
			}
			for _, s := range starts {
				if s > t && s <= bound {
					found = true
				}
			}
			if !found {
				add("lost-wakeup", "notification at %d during a production; no further production up to %d", t, bound)
			}
		} else {
			if t+w >= H {
				continue
			}
			for _, s := range starts {
				if s >= t && s <= t+w {
					found = true
				}
			}
			if !found {
				add("on-demand-late", "notification at %d (idle); no production in [%d,%d]", t, t, t+w)
			}
		}
	}
	if !anyNotif {
		// no notifications: exactly one block per idle interval
		for i := 0; i+1 < len(starts); i++ {
			if starts[i+1] != nextFire(li, starts[i], rp.dur(i)) {
				add("idle-not-periodic", "no notifications: production at %d (duration %d) followed by %d, lazy interval %d", starts[i], rp.dur(i), starts[i+1], li)
			}
		}
	}
	return vs
}

// ---- generator ---------------------------------------------------------------------------------------

func caseRng(seed int64, c int) *rand.Rand { return rand.New(rand.NewSource(seed*1000003 + int64(c))) }

func pick(r *rand.Rand, xs ...int64) int64 { return xs[r.Intn(len(xs))] }

func genCase(r *rand.Rand, seed int64, c int, tier string) *Replay {
	rp := &Replay{Seed: seed, Case: c}
	rp.Lazy = r.Intn(100) < 82
	rp.BT = pick(r, msNs, 7*msNs, 100*msNs, 250*msNs, 1000*msNs, 1000*msNs, 0, 1234567, 50*msNs, 3*msNs)
	if r.Intn(40) == 0 {
		rp.BT = 1 + r.Int63n(msNs) // below one millisecond
	}
	bt := rp.effBT()
	switch x := r.Intn(100); {
	case x < 12:
		rp.LI = bt
	case x < 30: // lazy interval below the block time (nothing forbids it)
		rp.LI = pick(r, bt/4, bt/3, bt/2, bt*9/10, bt-1, bt-msNs)
		if rp.LI <= 0 {
			rp.LI = bt/2 + 1
		}
	case x < 34:
		rp.LI = 0 // default 60 s
	case x < 44:
		rp.LI = bt + 1 + r.Int63n(3*bt)
	default:
		rp.LI = bt * pick(r, 2, 2, 3, 3, 4, 5, 10, 60) / pick(r, 1, 1, 1, 2)
	}
	li := rp.effLI()
	switch x := r.Intn(100); {
	case x < 40:
		rp.Gen = -bt - r.Int63n(10*bt) // genesis in the past: no start-up sleep
	case x < 55:
		rp.Gen = -bt
	case x < 80:
		rp.Gen = -r.Int63n(bt) // start-up sleep shorter than a block time
	default:
		rp.Gen = r.Int63n(2 * bt)
	}
	t0 := rp.t0()
	nint := 10 + r.Intn(40)
	if tier == "thorough" {
		nint = 50 + r.Intn(450)
	}
	unit := bt
	if rp.Lazy && li < bt && r.Intn(2) == 0 {
		unit = li
	}
	if rp.Lazy && rp.LI == 0 {
		nint += 130 // let the default 60 s lazy timer fire at least twice at the default block time
	}
	rp.H = t0 + int64(nint)*unit + pick(r, 0, 0, 1, unit/2, unit/3, 777)
	// keep the number of timer events of one run bounded (a 1 ns interval would spin for ever)
	minInt := bt
	if rp.Lazy && li < bt {
		minInt = li
	}
	if (rp.H-t0)/minInt > 3000 {
		rp.H = t0 + 3000*minInt
	}
	durChoice := func() int64 {
		return pick(r, 0, 0, 1, bt/10, bt/2, bt-1, bt, bt+1, bt*3/2, li-1, li, li+1, 2*li, bt-msNs, bt-msNs+1, li-msNs, 3*bt, r.Int63n(bt+1), r.Int63n(2*li+1), msNs, 2*msNs)
	}
	profile := r.Intn(4) // 0: all short, 1: mixed, 2: mostly long, 3: constant
	mk := func() int64 {
		switch profile {
		case 0:
			return pick(r, 0, 1, bt/10, r.Int63n(bt/2+1))
		case 2:
			if r.Intn(3) > 0 {
				return pick(r, bt, bt+1, bt*3/2, li, li+1, 2*bt, r.Int63n(2*li+1))
			}
		}
		return durChoice()
	}
	rp.DDef = mk()
	if rp.DDef > 4*bt && rp.DDef > 4*li {
		rp.DDef = bt / 2
	}
	if profile != 3 {
		n := 1 + r.Intn(40)
		for i := 0; i < n; i++ {
			rp.Durs = append(rp.Durs, mk())
		}
	}
	if r.Intn(100) < 15 {
		return rp // no notifications at all
	}
	n := 1 + r.Intn(25)
	span := rp.H - t0
	for i := 0; i < n; i++ {
		var t int64
		switch x := r.Intn(100); {
		case x < 35:
			t = t0 + r.Int63n(span+1)
		case x < 50: // on a block-timer tick
			t = t0 + r.Int63n(int64(nint)+1)*bt + pick(r, 0, 0, 0, 1, -1)
		case x < 60: // on a lazy-timer deadline
			t = t0 + r.Int63n(span/li+2)*li + pick(r, 0, 0, 0, 1, -1)
		case x < 70 && len(rp.Notifs) > 0: // burst
			t = rp.Notifs[len(rp.Notifs)-1] + pick(r, 0, 1, bt/7, bt/2, msNs)
		case x < 76: // before / during the start-up sleep
			t = pick(r, -5, 0, t0/2, t0, t0-1, t0+1)
		case x < 90: // tick + a production duration: end of a production
			t = t0 + r.Int63n(int64(nint)+1)*bt + rp.dur(r.Intn(5)) + pick(r, 0, 0, 1, msNs, -1)
		default:
			t = t0 + r.Int63n(span+1)
		}
		rp.Notifs = append(rp.Notifs, t)
	}
	return rp
}

// second pass: place further notifications relative to productions the real loop performed
func refine(r *rand.Rand, rp *Replay, starts []int64) {
	if len(starts) == 0 {
		return
	}
	n := 1 + r.Intn(4)
	for j := 0; j < n; j++ {
		i := r.Intn(len(starts))
		s, d := starts[i], rp.dur(i)
		t := s + pick(r, 0, d/2, d, d+msNs, d-1, 1, d+1, r.Int63n(d+1))
		rp.Notifs = append(rp.Notifs, t)
	}
}

// ---- Coq terms -----------------------------------------------------------------------------------------

func zs(xs []int64) string {
	p := make([]string, len(xs))
	for i, x := range xs {
		p[i] = zz(x)
	}
	return "[" + strings.Join(p, ";") + "]"
}
func zz(x int64) string {
	if x < 0 {
		return "(" + strconv.FormatInt(x, 10) + ")"
	}
	return strconv.FormatInt(x, 10)
}

func caseCoq(rp *Replay, starts []int64) string {
	fuel := 4*(int64(len(rp.Notifs))+int64(len(starts))+rp.H/rp.effBT()+10) + 50
	return fmt.Sprintf("{| lc_cfg := {| c_lazy := %s; c_bt := %s; c_li := %s; c_gen := %s; c_durs := %s; c_ddef := %s |}; lc_notifs := %s; lc_H := %s; lc_obs := %s; lc_fuel := %d%%N |}",
		vgen.Bool(rp.Lazy), zz(rp.BT), zz(rp.LI), zz(rp.Gen), zs(rp.Durs), zz(rp.DDef), zs(rp.Notifs), zz(rp.H), zs(starts), fuel)
}

func hasSig(vs []viol, sig string) bool {
	for _, v := range vs {
		if v.sig == sig {
			return true
		}
	}
	return false
}

func TestVerif(t *testing.T) {
	e := vgen.GetEnv()
	res := vgen.NewResult("C17", e)
	var err error
	rootDir, err = os.MkdirTemp("", "c17root")
	if err != nil {
		t.Fatal(err)
	}
	defer os.RemoveAll(rootDir)

	var jobs []*Replay
	if e.Replay != "" {
		rp := &Replay{}
		if err := vgen.LoadReplay(e.Replay, rp); err != nil {
			t.Fatal(err)
		}
		jobs = append(jobs, rp)
	} else {
		files, _ := filepath.Glob("../corpus/C17/*.json")
		if os.Getenv("VERIF_NO_CORPUS") != "" {
			files = nil
		}
		for _, f := range files {
			rp := &Replay{}
			if vgen.LoadReplay(f, rp) == nil && rp.H > 0 {
				jobs = append(jobs, rp)
			}
		}
		for c := 0; c < e.N; c++ {
			r := caseRng(e.Seed, c)
			rp := genCase(r, e.Seed, c, e.Tier)
			if r.Intn(2) == 0 {
				st, err := runReal(t, rp)
				if err != nil {
					t.Fatalf("harness error: %v", err)
				}
				refine(r, rp, st)
				res.Count("case:two-pass (notifications placed on observed productions)")
			}
			jobs = append(jobs, rp)
		}
	}

	var cases []string
	distinct := map[string]bool{}
	for ji, rp := range jobs {
		starts, err := runReal(t, rp)
		if err != nil {
			t.Fatalf("harness error: %v", err)
		}
		res.Evaluations++
		vs := oracle(rp, starts)
		for _, v := range vs {
			// shrink: drop notifications, then durations, while the same signature keeps failing
			sh := *rp
			fails := func(c *Replay) bool {
				st, err := runReal(t, c)
				return err == nil && hasSig(oracle(c, st), v.sig)
			}
			sh.Notifs = vgen.Shrink(sh.Notifs, func(ns []int64) bool { c := sh; c.Notifs = ns; return fails(&c) })
			sh.Durs = vgen.Shrink(sh.Durs, func(dd []int64) bool { c := sh; c.Durs = dd; return fails(&c) })
			for sh.H > 2 {
				c := sh
				c.H = sh.H / 2
				if !fails(&c) {
					break
				}
				sh = c
			}
			what := v.what
			if st, err := runReal(t, &sh); err == nil {
				for _, v2 := range oracle(&sh, st) {
					if v2.sig == v.sig {
						what = v2.what
					}
				}
			}
			res.Violations = append(res.Violations, vgen.Violation{Signature: v.sig, What: what, Case: ji, Replay: sh})
		}
		// distribution
		bt, li := rp.effBT(), rp.effLI()
		if rp.Lazy {
			res.Count("mode:lazy")
			switch {
			case li < bt:
				res.Count("ratio:lazy-interval<block-time")
			case li == bt:
				res.Count("ratio:lazy-interval=block-time")
			default:
				res.Count("ratio:lazy-interval>block-time")
			}
		} else {
			res.Count("mode:normal")
		}
		if len(rp.Notifs) == 0 {
			res.Count("notifications:none")
		}
		if rp.t0() > 0 {
			res.Count("startup:sleeps-until-genesis+block-time")
		}
		longBT, longLI, inflight, coincide := false, false, 0, 0
		for i, s := range starts {
			d := rp.dur(i)
			if d >= bt {
				longBT = true
			}
			if d >= li {
				longLI = true
			}
			for _, n := range rp.Notifs {
				if n > s && n <= s+d {
					inflight++
				}
				if n == s || n == s+d {
					coincide++
				}
			}
		}
		if longBT {
			res.Count("history:production>=block-time")
		}
		if longLI && rp.Lazy {
			res.Count("history:production>=lazy-interval")
		}
		if inflight > 0 {
			res.Count("history:notification-during-production")
		}
		if coincide > 0 {
			res.Count("history:notification-at-production-start-or-end-instant")
		}
		res.Distribution["total:productions"] += len(starts)
		res.Distribution["total:notifications"] += len(rp.Notifs)
		cc := caseCoq(rp, starts)
		if len(starts) >= 3 {
			distinct[cc] = true
		}
		cases = append(cases, cc)
		res.Replays[fmt.Sprint(ji)] = rp
		if len(res.Samples) < 3 && len(starts) >= 3 && len(rp.Notifs) > 0 && rp.Lazy {
			res.Samples = append(res.Samples, map[string]interface{}{"schedule": rp, "observed_starts_ns": starts})
		}
		if e.Replay != "" {
			fmt.Printf("replay: starts=%v oracle=%v\n", starts, vs)
		}
	}
	res.Distinct = len(distinct)
	res.Rule = "one case = mode (82% lazy), block time (1 ms .. 1 s, sub-millisecond, 0 = default), lazy interval (ratios 1/4 .. 60 incl. equal and below the block time, 0 = default), genesis offset (start-up sleep or none), per-production durations (0, around the block time, around the lazy interval, longer than both), up to 29 notification instants (uniform, on block-timer ticks +-1ns, on lazy deadlines, bursts, before/during the start-up sleep, at production ends; in half of the cases also placed at start / inside / end / end+1ms of productions the real loop performed in a first pass), horizon 10-50 intervals (thorough 50-500); the real AggregationLoop runs under testing/synctest; non-trivial = at least 3 productions observed; distinct = distinct Coq case terms"
	res.Cases = len(cases)
	header := "From Coq Require Import ZArith NArith List Bool.\nFrom Verif Require Import Model.Lazy Check.LazyCheck."
	path := filepath.Join(e.Out, "cases_C17.v")
	if err := vgen.WriteCases(path, header, []string{"Open Scope Z_scope."}, "lcase", cases, "mismatches"); err != nil {
		t.Fatal(err)
	}
	res.CaseFiles = []string{path}
	if err := res.Write(e.Out); err != nil {
		t.Fatal(err)
	}
}
