// C17 correspondence harness: the REAL block.Manager.AggregationLoop (lazy and normal mode), built by
// the real NewManager, runs unmodified inside a testing/synctest bubble (virtual clock).  publishBlock is
// replaced (hook VerifSetPublishBlock) by a recorder that notes the virtual start instant and sleeps the
// generated duration and, like the real publishBlockInternal, advances the store height at its very end
// (or not: productions that return early); notifications come from two sources: bare calls of the real
// NotifyNewTransactions at generated virtual instants, and the REAL block.Reaper connected to the manager
// (SetManager): Reaper.SubmitTxs is called at generated instants -- before, DURING and after productions in
// flight -- or by the reaper's own ticker loop (Reaper.Start), against a scripted executor double (GetTxs:
// new, repeated, duplicated transactions, errors), a recording sequencer double (accepts or refuses) and a
// seen-store whose writes fail in scripted calls.
// Output: cases_C17.v (trace inclusion against Model/Lazy.v) and result.json (Go oracle: the
// property evaluated directly on the observed starts).
package c17

import (
	"context"
	"fmt"
	"math/rand"
	"os"
	"path/filepath"
	"sort"
	"strconv"
	"strings"
	"testing"
	"testing/synctest"
	"time"

	ds "github.com/ipfs/go-datastore"
	dssync "github.com/ipfs/go-datastore/sync"
	logging "github.com/ipfs/go-log/v2"

	"github.com/evstack/ev-node/block"
	coreexecutor "github.com/evstack/ev-node/core/execution"
	coresequencer "github.com/evstack/ev-node/core/sequencer"
	"github.com/evstack/ev-node/pkg/config"
	"github.com/evstack/ev-node/pkg/genesis"
	"github.com/evstack/ev-node/pkg/store"

	"verif/harness/vgen"
)

const msNs = int64(time.Millisecond)

// Replay is one fully explicit schedule (all instants in ns relative to the entry of AggregationLoop).
type Replay struct {
	Seed   int64   `json:"seed"`
	Case   int     `json:"case"`
	Lazy   bool    `json:"lazy"`
	BT     int64   `json:"bt"`  // config.Node.BlockTime as configured (0 = default)
	LI     int64   `json:"li"`  // config.Node.LazyBlockInterval as configured (0 = default)
	Gen    int64   `json:"gen"` // genesis time minus loop entry
	Durs   []int64 `json:"durs"`
	DDef   int64   `json:"ddef"`
	Notifs []int64 `json:"notifs"`
	H      int64   `json:"h"`
	// the reaper: calls of Reaper.SubmitTxs in order (instants >= 0, ascending); RTick > 0: the calls are made
	// by the reaper's own loop (Reaper.Start, launched at RStart, ticker interval RTick; call k at
	// RStart+(k+1)*RTick), otherwise by the harness at the instants T
	Reaper []REv `json:"reaper,omitempty"`
	RTick  int64 `json:"rtick,omitempty"`
	RStart int64 `json:"rstart,omitempty"`
	// indices of the productions that end without advancing the store height (publishBlock returns early:
	// pending limit reached, no batch, ...)
	NoAdv []int `json:"noadv,omitempty"`
}

// REv is one call of Reaper.SubmitTxs with the scripted answers of the doubles.
type REv struct {
	T       int64   `json:"t"`
	Txs     []int64 `json:"txs"`                // ids of the transactions exec.GetTxs lists
	GetErr  bool    `json:"get_err,omitempty"`  // exec.GetTxs fails
	SubErr  bool    `json:"sub_err,omitempty"`  // sequencer.SubmitBatchTxs refuses
	SeenErr bool    `json:"seen_err,omitempty"` // the seen-store refuses the writes of this call
}

// subRec is one observed call of SubmitBatchTxs on the sequencer double.
type subRec struct {
	T   int64
	Ids []int64
	OK  bool
}

// normalise puts the reaper events in execution order with their scripted instants.
func (r *Replay) normalise() {
	if r.RTick > 0 {
		if r.RStart < 0 {
			r.RStart = 0
		}
		for k := range r.Reaper {
			r.Reaper[k].T = r.RStart + int64(k+1)*r.RTick
		}
		return
	}
	for k := range r.Reaper {
		if r.Reaper[k].T < 0 {
			r.Reaper[k].T = 0
		}
	}
	sort.SliceStable(r.Reaper, func(i, j int) bool { return r.Reaper[i].T < r.Reaper[j].T })
}

func (r *Replay) noAdv(k int) bool {
	for _, x := range r.NoAdv {
		if x == k {
			return true
		}
	}
	return false
}

// ---- the doubles of the reaper's collaborators ------------------------------------------------------

func txBytes(id int64) []byte { return []byte("tx-" + strconv.FormatInt(id, 10)) }
func txID(b []byte) int64 {
	v, err := strconv.ParseInt(strings.TrimPrefix(string(b), "tx-"), 10, 64)
	if err != nil {
		return -1
	}
	return v
}

// script answers the k-th call of GetTxs with the k-th event (nothing beyond the script) and the call of
// SubmitBatchTxs made by the same SubmitTxs accordingly; it records what the sequencer was handed.
type script struct {
	begin time.Time
	evs   []REv
	k     int // calls of GetTxs so far
	subs  []subRec
}

type scriptExec struct{ s *script }

func (e scriptExec) InitChain(context.Context, time.Time, uint64, string) ([]byte, uint64, error) {
	return nil, 0, nil
}
func (e scriptExec) GetTxs(context.Context) ([][]byte, error) {
	k := e.s.k
	e.s.k++
	if k >= len(e.s.evs) {
		return nil, nil
	}
	if e.s.evs[k].GetErr {
		return nil, fmt.Errorf("scripted GetTxs error")
	}
	var out [][]byte
	for _, id := range e.s.evs[k].Txs {
		out = append(out, txBytes(id))
	}
	return out, nil
}
func (e scriptExec) ExecuteTxs(context.Context, [][]byte, uint64, time.Time, []byte) ([]byte, uint64, error) {
	return nil, 0, nil
}
func (e scriptExec) SetFinal(context.Context, uint64) error { return nil }

// scriptSeen is the reaper's seen-store: an in-memory datastore whose writes fail during the calls of
// SubmitTxs scripted so.
type scriptSeen struct {
	ds.Batching
	s *script
}

func (d scriptSeen) failing() bool {
	k := d.s.k - 1
	return k >= 0 && k < len(d.s.evs) && d.s.evs[k].SeenErr
}
func (d scriptSeen) Put(ctx context.Context, key ds.Key, v []byte) error {
	if d.failing() {
		return fmt.Errorf("scripted seen-store write error")
	}
	return d.Batching.Put(ctx, key, v)
}
func (d scriptSeen) Batch(ctx context.Context) (ds.Batch, error) {
	if d.failing() {
		return nil, fmt.Errorf("scripted seen-store write error")
	}
	return d.Batching.Batch(ctx)
}

type scriptSeq struct{ s *script }

func (q scriptSeq) SubmitBatchTxs(_ context.Context, req coresequencer.SubmitBatchTxsRequest) (*coresequencer.SubmitBatchTxsResponse, error) {
	rec := subRec{T: int64(time.Since(q.s.begin)), OK: true}
	if req.Batch != nil {
		for _, tx := range req.Batch.Transactions {
			rec.Ids = append(rec.Ids, txID(tx))
		}
	}
	if k := q.s.k - 1; k >= 0 && k < len(q.s.evs) && q.s.evs[k].SubErr {
		rec.OK = false
	}
	q.s.subs = append(q.s.subs, rec)
	if !rec.OK {
		return nil, fmt.Errorf("scripted SubmitBatchTxs refusal")
	}
	return &coresequencer.SubmitBatchTxsResponse{}, nil
}
func (q scriptSeq) GetNextBatch(context.Context, coresequencer.GetNextBatchRequest) (*coresequencer.GetNextBatchResponse, error) {
	return &coresequencer.GetNextBatchResponse{}, nil
}
func (q scriptSeq) VerifyBatch(context.Context, coresequencer.VerifyBatchRequest) (*coresequencer.VerifyBatchResponse, error) {
	return &coresequencer.VerifyBatchResponse{Status: true}, nil
}

func (r *Replay) effBT() int64 {
	if r.BT == 0 {
		return int64(time.Second)
	}
	return r.BT
}
func (r *Replay) effLI() int64 {
	if r.LI == 0 {
		return int64(60 * time.Second)
	}
	return r.LI
}
func (r *Replay) t0() int64 {
	if v := r.Gen + r.effBT(); v > 0 {
		return v
	}
	return 0
}
func (r *Replay) dur(k int) int64 {
	d := r.DDef
	if k < len(r.Durs) {
		d = r.Durs[k]
	}
	if d < 0 {
		d = 0
	}
	return d
}

// ---- running the real loop --------------------------------------------------------------------

var rootDir string

// runReal returns the virtual start instants (< H) of the calls of publishBlock and the calls (< H) of
// SubmitBatchTxs the sequencer double received from the real Reaper.
func runReal(t *testing.T, rp *Replay) (starts []int64, subs []subRec, err error) {
	logger := logging.Logger("c17")
	rp.normalise()
	synctest.Test(t, func(t *testing.T) {
		begin := time.Now()
		cfg := config.DefaultConfig
		cfg.RootDir = rootDir
		cfg.Node.Aggregator = true
		cfg.Node.LazyMode = rp.Lazy
		cfg.Node.BlockTime = config.DurationWrapper{Duration: time.Duration(rp.BT)}
		cfg.Node.LazyBlockInterval = config.DurationWrapper{Duration: time.Duration(rp.LI)}
		gen := genesis.NewGenesis("c17", 1, begin.Add(time.Duration(rp.Gen)), []byte("proposer"))
		st := store.New(dssync.MutexWrap(ds.NewMapDatastore()))
		m, e := block.NewManager(context.Background(), nil, cfg, gen, st, coreexecutor.NewDummyExecutor(), nil, nil,
			logger, nil, nil, nil, nil, block.NopMetrics(), 1, 1, block.DefaultManagerOptions())
		if e != nil {
			err = e
			return
		}
		k := 0
		var rec []int64
		m.VerifSetPublishBlock(func(ctx context.Context) error {
			rec = append(rec, int64(time.Since(begin)))
			kk := k
			d := rp.dur(k)
			k++
			if d > 0 {
				time.Sleep(time.Duration(d))
			}
			// like publishBlockInternal: the store height advances at the very end of a production
			if !rp.noAdv(kk) {
				h, e := st.Height(ctx)
				if e != nil {
					return e
				}
				if e := st.SetHeight(ctx, h+1); e != nil {
					return e
				}
			}
			return nil
		})
		// the real Reaper, connected to the manager as node/full.go does
		sc := &script{begin: begin, evs: rp.Reaper}
		ctx, cancel := context.WithCancel(context.Background())
		interval := time.Duration(rp.RTick)
		if interval <= 0 {
			interval = time.Hour
		}
		reaper := block.NewReaper(ctx, scriptExec{sc}, scriptSeq{sc}, "c17", interval, logger, scriptSeen{dssync.MutexWrap(ds.NewMapDatastore()), sc})
		reaper.SetManager(m)
		ri := 0
		if rp.RTick <= 0 {
			// submissions before the loop is entered
			for ; ri < len(rp.Reaper) && rp.Reaper[ri].T <= 0 && rp.Reaper[ri].T < rp.H; ri++ {
				reaper.SubmitTxs()
			}
		}
		ns := append([]int64{}, rp.Notifs...)
		sort.Slice(ns, func(i, j int) bool { return ns[i] < ns[j] })
		// notifications before the loop is entered
		i := 0
		for ; i < len(ns) && ns[i] < 0; i++ {
			m.NotifyNewTransactions()
		}
		errCh := make(chan error, 1)
		loopDone := make(chan struct{})
		notDone := make(chan struct{})
		reapDone := make(chan struct{})
		go func() { defer close(loopDone); m.AggregationLoop(ctx, errCh) }()
		go func() {
			defer close(reapDone)
			if rp.RTick > 0 {
				if len(rp.Reaper) == 0 {
					return
				}
				if w := time.Duration(rp.RStart) - time.Since(begin); w > 0 {
					select {
					case <-time.After(w):
					case <-ctx.Done():
						return
					}
				}
				reaper.Start(ctx) // the reaper's own ticker loop
				return
			}
			for ; ri < len(rp.Reaper); ri++ {
				if rp.Reaper[ri].T >= rp.H {
					return
				}
				if w := time.Duration(rp.Reaper[ri].T) - time.Since(begin); w > 0 {
					time.Sleep(w)
				}
				reaper.SubmitTxs()
			}
		}()
		go func() {
			defer close(notDone)
			for ; i < len(ns); i++ {
				if ns[i] >= rp.H {
					return
				}
				if w := time.Duration(ns[i]) - time.Since(begin); w > 0 {
					time.Sleep(w)
				}
				m.NotifyNewTransactions()
			}
		}()
		time.Sleep(time.Duration(rp.H))
		synctest.Wait()
		for _, s := range rec {
			if s < rp.H {
				starts = append(starts, s)
			}
		}
		for _, b := range sc.subs {
			if b.T < rp.H {
				subs = append(subs, b)
			}
		}
		cancel()
		<-loopDone
		<-notDone
		<-reapDone
		select {
		case e := <-errCh:
			err = e
		default:
		}
	})
	return
}

// ---- the oracle: the property evaluated directly on the observed starts ----------------------------

type viol struct{ sig, what string }

func nextFire(interval, s, d int64) int64 {
	if d < interval {
		return s + interval
	}
	return s + d + msNs
}

func oracle(rp *Replay, starts []int64, subs []subRec) []viol {
	var vs []viol
	add := func(sig, f string, a ...interface{}) {
		for _, v := range vs {
			if v.sig == sig {
				return
			}
		}
		vs = append(vs, viol{sig, fmt.Sprintf(f, a...)})
	}
	bt, li, t0, H := rp.effBT(), rp.effLI(), rp.t0(), rp.H
	w := bt
	if w < msNs {
		w = msNs
	}
	// the first block is produced as soon as the loop starts
	if t0 < H && (len(starts) == 0 || starts[0] != t0) {
		add("no-block-at-loop-start", "loop entered select at %d but the first production is %v", t0, starts)
	}
	for i := 0; i+1 < len(starts); i++ {
		s1, s2, d1 := starts[i], starts[i+1], rp.dur(i)
		// never faster than one per block interval
		if s2-s1 < bt {
			if rp.Lazy && li < bt && s2 == nextFire(li, s1, d1) {
				add("rate-lazy-interval-below-block-time", "lazy interval %d < block time %d: productions at %d and %d are %d apart (the second one fired by the lazy timer)", li, bt, s1, s2, s2-s1)
			} else {
				add("rate-violated", "productions at %d and %d are %d apart, block time %d", s1, s2, s2-s1, bt)
			}
		}
		if rp.Lazy {
			// at least one block per idle interval
			if s2 > nextFire(li, s1, d1) {
				add("idle-interval-exceeded", "production at %d (duration %d) followed by %d, lazy interval %d", s1, d1, s2, li)
			}
		} else if s2 != nextFire(bt, s1, d1) {
			add("normal-mode-not-periodic", "production at %d (duration %d) followed by %d, block time %d", s1, d1, s2, bt)
		}
	}
	if n := len(starts); n > 0 {
		iv := bt
		if rp.Lazy {
			iv = li
		}
		if nf := nextFire(iv, starts[n-1], rp.dur(n-1)); nf < H {
			add("production-stopped", "last production at %d, next timer at %d, nothing until %d", starts[n-1], nf, H)
		}
	}
	if !rp.Lazy {
		return vs
	}
	anyNotif := false
	// every notification instant -- a bare call of NotifyNewTransactions (pre = "") or a batch of new
	// transactions the sequencer accepted from the reaper (pre = "reaper-tx-": the instant is taken from the
	// sequencer double, independently of what the reaper told the manager) -- must be answered within one block
	// interval: by a production starting in [t, t+w], or, when t falls inside a production, by a FURTHER
	// production no later than the block timer that production re-armed; never only by the idle timer
	answer := func(t int64, pre, src string) {
		if t >= H {
			return
		}
		anyNotif = true
		if t < t0 {
			t = t0
		}
		// in flight: s < t <= e of some production
		inflight, bound := false, int64(0)
		for i, s := range starts {
			if s < t && t <= s+rp.dur(i) {
				inflight, bound = true, nextFire(bt, s, rp.dur(i))
			}
		}
		found := false
		if inflight {
			if bound >= H {
				return
			}
			for _, s := range starts {
				if s > t && s <= bound {
					found = true
				}
			}
			if !found {
				add(pre+"lost-wakeup", "%s at %d during a production; no further production up to %d", src, t, bound)
			}
		} else {
			if t+w >= H {
				return
			}
			for _, s := range starts {
				if s >= t && s <= t+w {
					found = true
				}
			}
			if !found {
				add(pre+"on-demand-late", "%s at %d (idle); no production in [%d,%d]", src, t, t, t+w)
			}
		}
	}
	for _, t := range rp.Notifs {
		answer(t, "", "notification")
	}
	for _, b := range subs {
		if b.OK && len(b.Ids) > 0 {
			answer(b.T, "reaper-tx-", fmt.Sprintf("transactions %v handed to the sequencer by the reaper", b.Ids))
		}
	}
	if !anyNotif {
		// no notifications: exactly one block per idle interval
		for i := 0; i+1 < len(starts); i++ {
			if starts[i+1] != nextFire(li, starts[i], rp.dur(i)) {
				add("idle-not-periodic", "no notifications: production at %d (duration %d) followed by %d, lazy interval %d", starts[i], rp.dur(i), starts[i+1], li)
			}
		}
	}
	return vs
}

// ---- generator ---------------------------------------------------------------------------------------

func caseRng(seed int64, c int) *rand.Rand { return rand.New(rand.NewSource(seed*1000003 + int64(c))) }

func pick(r *rand.Rand, xs ...int64) int64 { return xs[r.Intn(len(xs))] }

func genCase(r *rand.Rand, seed int64, c int, tier string) *Replay {
	rp := &Replay{Seed: seed, Case: c}
	rp.Lazy = r.Intn(100) < 82
	rp.BT = pick(r, msNs, 7*msNs, 100*msNs, 250*msNs, 1000*msNs, 1000*msNs, 0, 1234567, 50*msNs, 3*msNs)
	if r.Intn(40) == 0 {
		rp.BT = 1 + r.Int63n(msNs) // below one millisecond
	}
	bt := rp.effBT()
	switch x := r.Intn(100); {
	case x < 12:
		rp.LI = bt
	case x < 30: // lazy interval below the block time (nothing forbids it)
		rp.LI = pick(r, bt/4, bt/3, bt/2, bt*9/10, bt-1, bt-msNs)
		if rp.LI <= 0 {
			rp.LI = bt/2 + 1
		}
	case x < 34:
		rp.LI = 0 // default 60 s
	case x < 44:
		rp.LI = bt + 1 + r.Int63n(3*bt)
	default:
		rp.LI = bt * pick(r, 2, 2, 3, 3, 4, 5, 10, 60) / pick(r, 1, 1, 1, 2)
	}
	li := rp.effLI()
	switch x := r.Intn(100); {
	case x < 40:
		rp.Gen = -bt - r.Int63n(10*bt) // genesis in the past: no start-up sleep
	case x < 55:
		rp.Gen = -bt
	case x < 80:
		rp.Gen = -r.Int63n(bt) // start-up sleep shorter than a block time
	default:
		rp.Gen = r.Int63n(2 * bt)
	}
	t0 := rp.t0()
	nint := 10 + r.Intn(40)
	if tier == "thorough" {
		nint = 50 + r.Intn(450)
	}
	unit := bt
	if rp.Lazy && li < bt && r.Intn(2) == 0 {
		unit = li
	}
	if rp.Lazy && rp.LI == 0 {
		nint += 130 // let the default 60 s lazy timer fire at least twice at the default block time
	}
	rp.H = t0 + int64(nint)*unit + pick(r, 0, 0, 1, unit/2, unit/3, 777)
	// keep the number of timer events of one run bounded (a 1 ns interval would spin for ever)
	minInt := bt
	if rp.Lazy && li < bt {
		minInt = li
	}
	if (rp.H-t0)/minInt > 3000 {
		rp.H = t0 + 3000*minInt
	}
	durChoice := func() int64 {
		return pick(r, 0, 0, 1, bt/10, bt/2, bt-1, bt, bt+1, bt*3/2, li-1, li, li+1, 2*li, bt-msNs, bt-msNs+1, li-msNs, 3*bt, r.Int63n(bt+1), r.Int63n(2*li+1), msNs, 2*msNs)
	}
	profile := r.Intn(4) // 0: all short, 1: mixed, 2: mostly long, 3: constant
	mk := func() int64 {
		switch profile {
		case 0:
			return pick(r, 0, 1, bt/10, r.Int63n(bt/2+1))
		case 2:
			if r.Intn(3) > 0 {
				return pick(r, bt, bt+1, bt*3/2, li, li+1, 2*bt, r.Int63n(2*li+1))
			}
		}
		return durChoice()
	}
	rp.DDef = mk()
	if rp.DDef > 4*bt && rp.DDef > 4*li {
		rp.DDef = bt / 2
	}
	if profile != 3 {
		n := 1 + r.Intn(40)
		for i := 0; i < n; i++ {
			rp.Durs = append(rp.Durs, mk())
		}
	}
	if r.Intn(100) < 15 {
		return rp // no notifications at all
	}
	n := 1 + r.Intn(25)
	span := rp.H - t0
	for i := 0; i < n; i++ {
		var t int64
		switch x := r.Intn(100); {
		case x < 35:
			t = t0 + r.Int63n(span+1)
		case x < 50: // on a block-timer tick
			t = t0 + r.Int63n(int64(nint)+1)*bt + pick(r, 0, 0, 0, 1, -1)
		case x < 60: // on a lazy-timer deadline
			t = t0 + r.Int63n(span/li+2)*li + pick(r, 0, 0, 0, 1, -1)
		case x < 70 && len(rp.Notifs) > 0: // burst
			t = rp.Notifs[len(rp.Notifs)-1] + pick(r, 0, 1, bt/7, bt/2, msNs)
		case x < 76: // before / during the start-up sleep
			t = pick(r, -5, 0, t0/2, t0, t0-1, t0+1)
		case x < 90: // tick + a production duration: end of a production
			t = t0 + r.Int63n(int64(nint)+1)*bt + rp.dur(r.Intn(5)) + pick(r, 0, 0, 1, msNs, -1)
		default:
			t = t0 + r.Int63n(span+1)
		}
		rp.Notifs = append(rp.Notifs, t)
	}
	genReaper(r, rp)
	return rp
}

// pool is the executor double's mempool while a script is generated: the ids introduced so far.
type pool struct {
	next int64
	ids  []int64
}

// answer builds what GetTxs lists at one call: 0-2 new transactions (none with probability pNone) plus, as real
// executors do, transactions it has listed before (all of them, some of them, the same one twice).
func (p *pool) answer(r *rand.Rand, pNone int) REv {
	ev := REv{}
	var fresh []int64
	if r.Intn(100) >= pNone {
		for n := 1 + r.Intn(5)/4; n > 0; n-- {
			p.next++
			fresh = append(fresh, p.next)
		}
	}
	switch x := r.Intn(100); {
	case x < 35: // the whole mempool, oldest first
		ev.Txs = append(append([]int64{}, p.ids...), fresh...)
	case x < 55: // some old ones around the new ones
		for _, id := range p.ids {
			if r.Intn(3) == 0 {
				ev.Txs = append(ev.Txs, id)
			}
		}
		ev.Txs = append(ev.Txs, fresh...)
		if len(p.ids) > 0 && r.Intn(2) == 0 {
			ev.Txs = append(ev.Txs, p.ids[r.Intn(len(p.ids))])
		}
	default:
		ev.Txs = append(ev.Txs, fresh...)
	}
	if len(ev.Txs) > 0 && r.Intn(8) == 0 { // the same transaction listed twice in one answer
		ev.Txs = append(ev.Txs, ev.Txs[r.Intn(len(ev.Txs))])
	}
	if len(ev.Txs) > 12 {
		ev.Txs = ev.Txs[len(ev.Txs)-12:]
	}
	p.ids = append(p.ids, fresh...)
	switch x := r.Intn(100); {
	case x < 5:
		ev.GetErr = true
	case x < 12:
		ev.SubErr = true
	case x < 18:
		ev.SeenErr = true
	}
	return ev
}

func maxID(rp *Replay) int64 {
	m := int64(0)
	for _, e := range rp.Reaper {
		for _, id := range e.Txs {
			if id > m {
				m = id
			}
		}
	}
	return m
}

// genReaper decides where the notifications of the case come from: bare calls of NotifyNewTransactions only
// (20%), the real Reaper only (30%: every generated instant becomes a call of Reaper.SubmitTxs), a mixture
// (35%), or the reaper's own ticker loop next to the bare notifications (15%).
func genReaper(r *rand.Rand, rp *Replay) {
	// productions that end without advancing the store height
	if r.Intn(100) < 12 {
		for k := 0; k < 12; k++ {
			if r.Intn(3) == 0 {
				rp.NoAdv = append(rp.NoAdv, k)
			}
		}
	}
	mode := r.Intn(100)
	if mode < 20 {
		return
	}
	p := &pool{}
	if mode >= 85 {
		bt := rp.effBT()
		rp.RTick = pick(r, bt, bt, bt/2, bt/3+1, 2*bt, bt/4+1, bt+bt/7, 3*bt/2)
		if rp.RTick < 1000 {
			rp.RTick = 1000
		}
		rp.RStart = pick(r, 0, 0, rp.t0(), rp.t0()/2, bt/3, r.Int63n(bt+1))
		n := int((rp.H - rp.RStart) / rp.RTick)
		if n > 60 {
			n = 60
		}
		for k := 0; k < n; k++ {
			rp.Reaper = append(rp.Reaper, p.answer(r, 70))
		}
		if r.Intn(2) == 0 {
			rp.Notifs = nil
		}
		rp.normalise()
		return
	}
	var keep []int64
	for _, t := range rp.Notifs {
		if mode < 50 || r.Intn(100) < 60 {
			ev := p.answer(r, 12)
			ev.T = t
			rp.Reaper = append(rp.Reaper, ev)
		} else {
			keep = append(keep, t)
		}
	}
	rp.Notifs = keep
	rp.normalise()
}

// second pass: place further notifications relative to productions the real loop performed
func refine(r *rand.Rand, rp *Replay, starts []int64) {
	if len(starts) == 0 {
		return
	}
	n := 1 + r.Intn(4)
	viaReaper := rp.RTick == 0 && (len(rp.Reaper) > 0 || r.Intn(4) == 0)
	p := &pool{next: maxID(rp)}
	for id := int64(1); id <= p.next; id++ {
		p.ids = append(p.ids, id)
	}
	put := func(t int64) {
		if viaReaper && r.Intn(5) > 0 {
			ev := p.answer(r, 5)
			ev.T = t
			rp.Reaper = append(rp.Reaper, ev)
		} else {
			rp.Notifs = append(rp.Notifs, t)
		}
	}
	for j := 0; j < n; j++ {
		i := r.Intn(len(starts))
		s, d := starts[i], rp.dur(i)
		t := s + pick(r, 0, d/2, d, d+msNs, d-1, 1, d+1, r.Int63n(d+1))
		put(t)
		// ... and one while the loop waits before that production (the production is then the answer to it)
		if r.Intn(3) == 0 {
			bt := rp.effBT()
			put(s - pick(r, 1, bt/3, bt/2, bt-1, r.Int63n(bt+1)))
		}
	}
	rp.normalise()
}

// ---- Coq terms -----------------------------------------------------------------------------------------

func zs(xs []int64) string {
	p := make([]string, len(xs))
	for i, x := range xs {
		p[i] = zz(x)
	}
	return "[" + strings.Join(p, ";") + "]"
}
func zz(x int64) string {
	if x < 0 {
		return "(" + strconv.FormatInt(x, 10) + ")"
	}
	return strconv.FormatInt(x, 10)
}

func nlist(xs []int64) string {
	p := make([]string, len(xs))
	for i, x := range xs {
		p[i] = strconv.FormatInt(x, 10) + "%N"
	}
	return "[" + strings.Join(p, ";") + "]"
}

// the calls of SubmitTxs that were made (instants < H) and the calls of SubmitBatchTxs that were observed
func revsCoq(rp *Replay) string {
	var p []string
	for _, e := range rp.Reaper {
		if e.T >= rp.H {
			break
		}
		get := "Some " + nlist(e.Txs)
		if e.GetErr {
			get = "None"
		}
		p = append(p, fmt.Sprintf("(%s, {| ri_get := %s; ri_ok := %s; ri_seen_ok := %s |})", zz(e.T), get, vgen.Bool(!e.SubErr), vgen.Bool(!e.SeenErr)))
	}
	return "[" + strings.Join(p, ";") + "]"
}
func callsCoq(subs []subRec) string {
	var p []string
	for _, b := range subs {
		p = append(p, fmt.Sprintf("(%s, (%s, %s))", zz(b.T), nlist(b.Ids), vgen.Bool(b.OK)))
	}
	return "[" + strings.Join(p, ";") + "]"
}

func caseCoq(rp *Replay, starts []int64, subs []subRec) string {
	fuel := 4*(int64(len(rp.Notifs))+int64(len(rp.Reaper))+int64(len(starts))+rp.H/rp.effBT()+10) + 50
	return fmt.Sprintf("{| lc_cfg := {| c_lazy := %s; c_bt := %s; c_li := %s; c_gen := %s; c_durs := %s; c_ddef := %s |}; lc_notifs := %s; lc_revs := %s; lc_calls := %s; lc_H := %s; lc_obs := %s; lc_fuel := %d%%N |}",
		vgen.Bool(rp.Lazy), zz(rp.BT), zz(rp.LI), zz(rp.Gen), zs(rp.Durs), zz(rp.DDef), zs(rp.Notifs), revsCoq(rp), callsCoq(subs), zz(rp.H), zs(starts), fuel)
}

func hasSig(vs []viol, sig string) bool {
	for _, v := range vs {
		if v.sig == sig {
			return true
		}
	}
	return false
}

func TestVerif(t *testing.T) {
	e := vgen.GetEnv()
	res := vgen.NewResult("C17", e)
	_ = logging.Logger("c17")
	_ = logging.SetLogLevel("c17", "fatal") // the reaper logs the scripted refusals as errors
	var err error
	rootDir, err = os.MkdirTemp("", "c17root")
	if err != nil {
		t.Fatal(err)
	}
	defer os.RemoveAll(rootDir)

	var jobs []*Replay
	if e.Replay != "" {
		rp := &Replay{}
		if err := vgen.LoadReplay(e.Replay, rp); err != nil {
			t.Fatal(err)
		}
		jobs = append(jobs, rp)
	} else {
		files, _ := filepath.Glob("../corpus/C17/*.json")
		if os.Getenv("VERIF_NO_CORPUS") != "" {
			files = nil
		}
		for _, f := range files {
			rp := &Replay{}
			if vgen.LoadReplay(f, rp) == nil && rp.H > 0 {
				jobs = append(jobs, rp)
			}
		}
		for c := 0; c < e.N; c++ {
			r := caseRng(e.Seed, c)
			rp := genCase(r, e.Seed, c, e.Tier)
			if r.Intn(2) == 0 {
				st, _, err := runReal(t, rp)
				if err != nil {
					t.Fatalf("harness error: %v", err)
				}
				refine(r, rp, st)
				res.Count("case:two-pass (notifications placed on observed productions)")
			}
			jobs = append(jobs, rp)
		}
	}

	var cases []string
	distinct := map[string]bool{}
	for ji, rp := range jobs {
		starts, subs, err := runReal(t, rp)
		if err != nil {
			t.Fatalf("harness error: %v", err)
		}
		res.Evaluations++
		vs := oracle(rp, starts, subs)
		for _, v := range vs {
			// shrink: drop notifications, then durations, while the same signature keeps failing
			sh := *rp
			sh.Reaper = append([]REv{}, rp.Reaper...)
			fails := func(c *Replay) bool {
				c.Reaper = append([]REv{}, c.Reaper...) // normalise sorts in place
				st, sb, err := runReal(t, c)
				return err == nil && hasSig(oracle(c, st, sb), v.sig)
			}
			if sh.RTick > 0 {
				// the same calls made by the harness instead of the reaper's ticker loop
				c := sh
				c.RTick, c.RStart = 0, 0
				if fails(&c) {
					sh.RTick, sh.RStart = 0, 0
				}
			}
			if sh.RTick == 0 {
				sh.Reaper = vgen.Shrink(sh.Reaper, func(es []REv) bool { c := sh; c.Reaper = es; return fails(&c) })
			}
			if len(sh.NoAdv) > 0 {
				c := sh
				c.NoAdv = nil
				if fails(&c) {
					sh.NoAdv = nil
				}
			}
			sh.Notifs = vgen.Shrink(sh.Notifs, func(ns []int64) bool { c := sh; c.Notifs = ns; return fails(&c) })
			sh.Durs = vgen.Shrink(sh.Durs, func(dd []int64) bool { c := sh; c.Durs = dd; return fails(&c) })
			for sh.H > 2 {
				c := sh
				c.H = sh.H / 2
				if !fails(&c) {
					break
				}
				sh = c
			}
			what := v.what
			if st, sb, err := runReal(t, &sh); err == nil {
				for _, v2 := range oracle(&sh, st, sb) {
					if v2.sig == v.sig {
						what = v2.what
					}
				}
			}
			res.Violations = append(res.Violations, vgen.Violation{Signature: v.sig, What: what, Case: ji, Replay: sh})
		}
		// distribution
		bt, li := rp.effBT(), rp.effLI()
		if rp.Lazy {
			res.Count("mode:lazy")
			switch {
			case li < bt:
				res.Count("ratio:lazy-interval<block-time")
			case li == bt:
				res.Count("ratio:lazy-interval=block-time")
			default:
				res.Count("ratio:lazy-interval>block-time")
			}
		} else {
			res.Count("mode:normal")
		}
		if len(rp.Notifs) == 0 && len(subs) == 0 {
			res.Count("notifications:none")
		}
		if rp.t0() > 0 {
			res.Count("startup:sleeps-until-genesis+block-time")
		}
		longBT, longLI, inflight, coincide := false, false, 0, 0
		for i, s := range starts {
			d := rp.dur(i)
			if d >= bt {
				longBT = true
			}
			if d >= li {
				longLI = true
			}
			for _, n := range rp.Notifs {
				if n > s && n <= s+d {
					inflight++
				}
				if n == s || n == s+d {
					coincide++
				}
			}
		}
		if longBT {
			res.Count("history:production>=block-time")
		}
		if longLI && rp.Lazy {
			res.Count("history:production>=lazy-interval")
		}
		if inflight > 0 {
			res.Count("history:notification-during-production")
		}
		if coincide > 0 {
			res.Count("history:notification-at-production-start-or-end-instant")
		}
		res.Distribution["total:productions"] += len(starts)
		res.Distribution["total:notifications"] += len(rp.Notifs)
		if len(rp.Reaper) > 0 {
			res.Count("reaper:cases-with-the-real-reaper")
			if rp.RTick > 0 {
				res.Count("reaper:driven-by-its-own-ticker-loop")
			}
			if len(rp.Notifs) == 0 {
				res.Count("reaper:only-source-of-notifications")
			}
			rin, ridle, refused := 0, 0, 0
			for _, b := range subs {
				if !b.OK {
					refused++
					continue
				}
				in := false
				for i, s := range starts {
					if b.T > s && b.T <= s+rp.dur(i) {
						in = true
					}
				}
				if in {
					rin++
				} else {
					ridle++
				}
			}
			if rin > 0 {
				res.Count("reaper:submission-during-production")
			}
			if ridle > 0 {
				res.Count("reaper:submission-while-waiting")
			}
			if rin > 0 && ridle > 0 {
				res.Count("reaper:submissions-both-waiting-and-during-production")
			}
			if refused > 0 {
				res.Count("reaper:batch-refused-by-sequencer")
			}
			ncall := 0
			for _, e := range rp.Reaper {
				if e.T < rp.H {
					ncall++
				}
			}
			res.Distribution["total:reaper-SubmitTxs-calls"] += ncall
			res.Distribution["total:reaper-batches-handed-to-sequencer"] += len(subs)
		}
		for _, k := range rp.NoAdv {
			if k < len(starts) {
				res.Count("history:production-without-height-advance")
				break
			}
		}
		cc := caseCoq(rp, starts, subs)
		if len(starts) >= 3 {
			distinct[cc] = true
		}
		cases = append(cases, cc)
		res.Replays[fmt.Sprint(ji)] = rp
		if len(res.Samples) < 3 && len(starts) >= 3 && len(rp.Notifs) > 0 && rp.Lazy {
			res.Samples = append(res.Samples, map[string]interface{}{"schedule": rp, "observed_starts_ns": starts})
		}
		if e.Replay != "" {
			fmt.Printf("replay: starts=%v reaper-batches=%v oracle=%v\n", starts, subs, vs)
		}
	}
	res.Distinct = len(distinct)
	res.Rule = "one case = mode (82% lazy), block time (1 ms .. 1 s, sub-millisecond, 0 = default), lazy interval (ratios 1/4 .. 60 incl. equal and below the block time, 0 = default), genesis offset (start-up sleep or none), per-production durations (0, around the block time, around the lazy interval, longer than both), up to 29 notification instants (uniform, on block-timer ticks +-1ns, on lazy deadlines, bursts, before/during the start-up sleep, at production ends; in half of the cases also placed at start / inside / end / end+1ms of productions the real loop performed in a first pass, and shortly before them), the SOURCE of each notification (bare NotifyNewTransactions only 20% / real Reaper.SubmitTxs only 30% / mixed 35% / the reaper's own ticker loop Reaper.Start 15%), per reaper call the scripted answers (GetTxs: 0-2 new transactions next to already listed ones, the same one twice, error 5%; SubmitBatchTxs refusal 7%; seen-store write failure 6%), in 12% of the cases productions that do not advance the store height; horizon 10-50 intervals (thorough 50-500); the real AggregationLoop runs under testing/synctest; non-trivial = at least 3 productions observed; distinct = distinct Coq case terms"
	res.Cases = len(cases)
	header := "From Coq Require Import ZArith NArith List Bool.\nFrom Verif Require Import Model.Lazy Check.LazyCheck."
	path := filepath.Join(e.Out, "cases_C17.v")
	if err := vgen.WriteCases(path, header, []string{"Open Scope Z_scope."}, "lcase", cases, "mismatches"); err != nil {
		t.Fatal(err)
	}
	res.CaseFiles = []string{path}
	if err := res.Write(e.Out); err != nil {
		t.Fatal(err)
	}
}
