module verif/harness

go 1.24.1

require (
	github.com/evstack/ev-node v0.0.0
	github.com/evstack/ev-node/core v0.0.0
	github.com/ipfs/go-datastore v0.8.2
)

require (
	github.com/celestiaorg/go-header v0.6.6 // indirect
	github.com/cespare/xxhash/v2 v2.3.0 // indirect
	github.com/decred/dcrd/dcrec/secp256k1/v4 v4.4.0 // indirect
	github.com/dgraph-io/badger/v4 v4.5.1 // indirect
	github.com/dgraph-io/ristretto/v2 v2.1.0 // indirect
	github.com/dustin/go-humanize v1.0.1 // indirect
	github.com/gogo/protobuf v1.3.2 // indirect
	github.com/golang/groupcache v0.0.0-20241129210726-2c02b8208cf8 // indirect
	github.com/google/flatbuffers v24.12.23+incompatible // indirect
	github.com/google/uuid v1.6.0 // indirect
	github.com/hashicorp/golang-lru/v2 v2.0.7 // indirect
	github.com/ipfs/go-cid v0.5.0 // indirect
	github.com/ipfs/go-ds-badger4 v0.1.8 // indirect
	github.com/ipfs/go-log/v2 v2.6.0 // indirect
	github.com/klauspost/compress v1.18.0 // indirect
	github.com/klauspost/cpuid/v2 v2.2.10 // indirect
	github.com/libp2p/go-buffer-pool v0.1.0 // indirect
	github.com/libp2p/go-libp2p v0.41.1 // indirect
	github.com/libp2p/go-libp2p-pubsub v0.14.1 // indirect
	github.com/libp2p/go-msgio v0.3.0 // indirect
	github.com/mattn/go-isatty v0.0.20 // indirect
	github.com/mr-tron/base58 v1.2.0 // indirect
	github.com/multiformats/go-base32 v0.1.0 // indirect
	github.com/multiformats/go-base36 v0.2.0 // indirect
	github.com/multiformats/go-multiaddr v0.16.0 // indirect
	github.com/multiformats/go-multiaddr-fmt v0.1.0 // indirect
	github.com/multiformats/go-multibase v0.2.0 // indirect
	github.com/multiformats/go-multicodec v0.9.0 // indirect
	github.com/multiformats/go-multihash v0.2.3 // indirect
	github.com/multiformats/go-multistream v0.6.0 // indirect
	github.com/multiformats/go-varint v0.0.7 // indirect
	github.com/pkg/errors v0.9.1 // indirect
	github.com/spaolacci/murmur3 v1.1.0 // indirect
	go.opencensus.io v0.24.0 // indirect
	go.uber.org/multierr v1.11.0 // indirect
	go.uber.org/zap v1.27.0 // indirect
	golang.org/x/crypto v0.40.0 // indirect
	golang.org/x/exp v0.0.0-20250506013437-ce4c2cf36ca6 // indirect
	golang.org/x/net v0.42.0 // indirect
	golang.org/x/sys v0.34.0 // indirect
	google.golang.org/protobuf v1.36.6 // indirect
	lukechampine.com/blake3 v1.4.1 // indirect
)

replace github.com/evstack/ev-node => /repo

replace github.com/evstack/ev-node/core => /repo/core
