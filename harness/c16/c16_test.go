// Package c16: correspondence harness + oracle for property C16 (a DA layer behind the JSON-RPC proxy
// behaves like the same DA layer in-process).
//
// Drives the REAL da/jsonrpc client and server (loopback port 127.0.0.1:0) around a scripted DA double
// and, side by side, an identically scripted double called directly; both through the node's helpers
// types.SubmitWithHelpers / types.RetrieveWithHelpers.  One case = one call pair.  Observables are
// projected (status code names, blob/id positions, counts) and written to cases_C16.v together with the
// live sentinel strings of core/da/errors.go (the "translator" output), where Check.ProxyCheck compares
// them with Model/Proxy.v.  The Go oracle evaluates the property directly (direct == proxied; prefix rule).
package c16

import (
	"bytes"
	"context"
	"crypto/sha256"
	"encoding/binary"
	"errors"
	"fmt"
	"go/ast"
	"go/parser"
	"go/token"
	"math/rand"
	"os"
	"path/filepath"
	"reflect"
	"sort"
	"strconv"
	"strings"
	"sync"
	"testing"
	"time"

	logging "github.com/ipfs/go-log/v2"

	coreda "github.com/evstack/ev-node/core/da"
	proxy "github.com/evstack/ev-node/da/jsonrpc"
	"github.com/evstack/ev-node/types"

	"verif/harness/vgen"
)

// ---- translator: the sentinel errors of core/da/errors.go -------------------------------------------

var sentNames = []string{"SNotFound", "STooBig", "STimedOut", "SMempool", "SSeq", "SDeadline", "SFuture", "SCanceled"}
var sentVars = []string{"ErrBlobNotFound", "ErrBlobSizeOverLimit", "ErrTxTimedOut", "ErrTxAlreadyInMempool", "ErrTxIncorrectAccountSequence", "ErrContextDeadline", "ErrHeightFromFuture", "ErrContextCanceled"}
var sentErrs = []error{coreda.ErrBlobNotFound, coreda.ErrBlobSizeOverLimit, coreda.ErrTxTimedOut, coreda.ErrTxAlreadyInMempool, coreda.ErrTxIncorrectAccountSequence, coreda.ErrContextDeadline, coreda.ErrHeightFromFuture, coreda.ErrContextCanceled}

// checkSentinelSource parses core/da/errors.go and makes sure the set of sentinel variables (and their
// texts) is exactly the table above: a new or renamed sentinel must change the model, not go unnoticed.
func checkSentinelSource() error {
	src := "/repo/core/da/errors.go"
	f, err := parser.ParseFile(token.NewFileSet(), src, nil, 0)
	if err != nil {
		return err
	}
	found := map[string]string{}
	for _, d := range f.Decls {
		gd, ok := d.(*ast.GenDecl)
		if !ok || gd.Tok != token.VAR {
			continue
		}
		for _, s := range gd.Specs {
			vs := s.(*ast.ValueSpec)
			for i, n := range vs.Names {
				if i < len(vs.Values) {
					if ce, ok := vs.Values[i].(*ast.CallExpr); ok && len(ce.Args) == 1 {
						if bl, ok := ce.Args[0].(*ast.BasicLit); ok && bl.Kind == token.STRING {
							txt, _ := strconv.Unquote(bl.Value)
							found[n.Name] = txt
						}
					}
				}
			}
		}
	}
	if len(found) != len(sentVars) {
		return fmt.Errorf("core/da/errors.go declares %d sentinel errors, the model knows %d: %v", len(found), len(sentVars), found)
	}
	for i, v := range sentVars {
		txt, ok := found[v]
		if !ok {
			return fmt.Errorf("sentinel %s no longer declared in core/da/errors.go", v)
		}
		if txt != sentErrs[i].Error() {
			return fmt.Errorf("sentinel %s: source text %q, linked value %q", v, txt, sentErrs[i].Error())
		}
	}
	return nil
}

func tableCoq() string {
	var parts []string
	for _, e := range sentErrs {
		parts = append(parts, vgen.Str(e.Error()))
	}
	return "Definition live_tbl : table := mk_table " + strings.Join(parts, " ") + " " + vgen.Str(context.Canceled.Error()) + "."
}

// ---- scripted errors -------------------------------------------------------------------------------------

type ErrSpec struct {
	Sent        []int  `json:"sent,omitempty"`   // sentinel table indices that are wrapped (errors.Is holds)
	Ctx         string `json:"ctx,omitempty"`    // "canceled" | "deadline": context.Canceled / context.DeadlineExceeded wrapped
	Opaque      string `json:"opaque,omitempty"` // an additional errors.New(text)
	Prefix      string `json:"prefix,omitempty"` // fmt.Errorf(prefix+": %w", e)
	Suffix      string `json:"suffix,omitempty"` // fmt.Errorf("%w: "+suffix, e)
	Join        bool   `json:"join,omitempty"`   // several parts: errors.Join instead of fmt.Errorf("%w; %w")
	DummyFuture bool   `json:"dummy_future,omitempty"`
	Dirty       bool   `json:"dirty,omitempty"` // generator's flag: a text mentions a sentinel text without wrapping it
	// a long context text around the error, as backends produce it (request dumps, hex encoded transactions, the
	// last response of a retry loop): Pad bytes, placed by Pos relative to the wrapped error
	Pos    string `json:"pos,omitempty"`     // "" = none | "end": fmt.Errorf("<ctx>: %w") (the Go convention: the error last) | "start": fmt.Errorf("%w: <ctx>") | "mid": fmt.Errorf("<ctx1>: %w: <ctx2>")
	Pad    int    `json:"pad,omitempty"`     // length of the context text in bytes
	PadOff int    `json:"pad_off,omitempty"` // first digit of the hex dump
	Lead   int    `json:"lead,omitempty"`    // index into padLeads: how the context text starts
}

// how a long context starts (then a hex dump follows); ASCII only, with the characters JSON has to escape
var padLeads = []string{"", "broadcast tx ", "signer celestia1qx3 seq=41 gas=250000 attempts=3; last response: ", "resp={\"code\":19,\"log\":\"<a&b>\\n\"}\n\tdump=", "0x"}

const hexCycle = "0123456789abcdef"

// padText: exactly n bytes: the lead (cut to n) followed by a hex dump
func padText(n, off, lead int) string {
	if n <= 0 {
		return ""
	}
	l := padLeads[lead%len(padLeads)]
	if len(l) > n {
		l = l[:n]
	}
	b := make([]byte, 0, n)
	b = append(b, l...)
	for i := 0; len(b) < n; i++ {
		b = append(b, hexCycle[(off+i)%16])
	}
	return string(b)
}

func (s *ErrSpec) build() error {
	var parts []error
	for _, i := range s.Sent {
		parts = append(parts, sentErrs[i])
	}
	switch s.Ctx {
	case "canceled":
		parts = append(parts, context.Canceled)
	case "deadline":
		parts = append(parts, context.DeadlineExceeded)
	}
	if s.DummyFuture {
		parts = append(parts, coreda.ErrHeightFromFutureStr)
	}
	if s.Opaque != "" || len(parts) == 0 {
		t := s.Opaque
		if t == "" {
			t = "boom"
		}
		parts = append(parts, errors.New(t))
	}
	var e error
	switch {
	case len(parts) == 1:
		e = parts[0]
	case s.Join:
		e = errors.Join(parts...)
	default:
		e = parts[0]
		for _, p := range parts[1:] {
			e = fmt.Errorf("%w; %w", e, p)
		}
	}
	if s.Pos != "" {
		ctx := padText(s.Pad, s.PadOff, s.Lead)
		switch s.Pos {
		case "end":
			e = fmt.Errorf("%s: %w", ctx, e)
		case "start":
			e = fmt.Errorf("%w: %s", e, ctx)
		default:
			h := len(ctx) / 2
			e = fmt.Errorf("%s: %w: %s", ctx[:h], e, ctx[h:])
		}
	}
	if s.Prefix != "" {
		e = fmt.Errorf("%s: %w", s.Prefix, e)
	}
	if s.Suffix != "" {
		e = fmt.Errorf("%w: %s", e, s.Suffix)
	}
	return e
}

// inDomain: the errors the property quantifies over — what the DA interface defines (sentinels, wrapped or
// not, several at once) and cancellation; texts around them do not themselves mention a sentinel text.
func (s *ErrSpec) inDomain() bool { return !s.Dirty && s.Ctx != "deadline" }

func errCoq(e error) string {
	var is []string
	for i, s := range sentErrs {
		if errors.Is(e, s) {
			is = append(is, sentNames[i])
		}
	}
	return fmt.Sprintf("(mk_err %s %s %s)", vgen.List(is), vgen.Bool(errors.Is(e, context.Canceled)), textCoq(e.Error()))
}

// textCoq: a Coq term of type string denoting exactly s.  Runs of >= 24 bytes of the cycle 0123456789abcdef are
// written as (Fil first-digit length) inside a (rope [...]) — Check.ProxyCheck — so that a text of several KB costs a
// few dozen characters of case file; everything else is a literal.  Works on the bytes of s, whatever s is (the text
// sent and the text observed go through the same function); decoding the segments must give s back.
func textCoq(s string) string {
	type seg struct {
		lit    string
		off, n int
	}
	var segs []seg
	lit, i, runs := 0, 0, 0
	for i < len(s) {
		d := strings.IndexByte(hexCycle, s[i])
		if d < 0 {
			i++
			continue
		}
		j := i + 1
		for j < len(s) && s[j] == hexCycle[(d+j-i)%16] {
			j++
		}
		if j-i >= 24 {
			if lit < i {
				segs = append(segs, seg{lit: s[lit:i]})
			}
			segs = append(segs, seg{off: d, n: j - i})
			runs++
			lit = j
		}
		i = j
	}
	if runs == 0 {
		return vgen.Str(s)
	}
	if lit < len(s) {
		segs = append(segs, seg{lit: s[lit:]})
	}
	var back strings.Builder
	parts := make([]string, len(segs))
	for k, g := range segs {
		if g.n == 0 {
			back.WriteString(g.lit)
			parts[k] = "Lit " + vgen.Str(g.lit)
		} else {
			for q := 0; q < g.n; q++ {
				back.WriteByte(hexCycle[(g.off+q)%16])
			}
			parts[k] = fmt.Sprintf("Fil %d %d", g.off, g.n)
		}
	}
	if back.String() != s {
		panic("textCoq: encoder is not faithful on " + strconv.Quote(s))
	}
	return "(rope " + vgen.List(parts) + ")"
}

func optTextCoq(t *string) string {
	if t == nil {
		return "None"
	}
	return "(Some " + textCoq(*t) + ")"
}

// recorder stands between the node's helper and the DA it calls (the double itself / the jsonrpc client) and passes
// every call and every answer through untouched; it keeps the text of the last error the helper was handed.
type recorder struct {
	coreda.DA
	text *string
}

func (r *recorder) note(err error) {
	if err != nil {
		t := err.Error()
		r.text = &t
	}
}
func (r *recorder) SubmitWithOptions(c context.Context, b []coreda.Blob, gp float64, ns, o []byte) ([]coreda.ID, error) {
	ids, err := r.DA.SubmitWithOptions(c, b, gp, ns, o)
	r.note(err)
	return ids, err
}
func (r *recorder) Submit(c context.Context, b []coreda.Blob, gp float64, ns []byte) ([]coreda.ID, error) {
	ids, err := r.DA.Submit(c, b, gp, ns)
	r.note(err)
	return ids, err
}
func (r *recorder) GetIDs(c context.Context, h uint64, ns []byte) (*coreda.GetIDsResult, error) {
	res, err := r.DA.GetIDs(c, h, ns)
	r.note(err)
	return res, err
}
func (r *recorder) Get(c context.Context, ids []coreda.ID, ns []byte) ([]coreda.Blob, error) {
	res, err := r.DA.Get(c, ids, ns)
	r.note(err)
	return res, err
}

// ---- one call pair -----------------------------------------------------------------------------------------

type Call struct {
	Kind string `json:"kind"` // "submit" | "retrieve"
	// submit
	Sizes     []int    `json:"sizes,omitempty"`
	Max       uint64   `json:"max,omitempty"`  // the client's MaxBlobSize
	Resp      string   `json:"resp,omitempty"` // backend: ok | dummy | err | noids | partial
	L         uint64   `json:"l,omitempty"`    // dummy: DummyDA's own limit
	K         int      `json:"k,omitempty"`    // partial: ids returned
	Err       *ErrSpec `json:"err,omitempty"`
	Cancelled bool     `json:"cancelled,omitempty"` // the caller's context is already cancelled
	Real      bool     `json:"real,omitempty"`      // real-size stream: the client keeps its production default MaxBlobSize (Max is overwritten with it)
	// retrieve
	Height   uint64   `json:"height,omitempty"`
	G        string   `json:"g,omitempty"` // backend GetIDs: nil | empty | ids | err
	NIDs     int      `json:"nids,omitempty"`
	GErr     *ErrSpec `json:"gerr,omitempty"`
	GetBatch int      `json:"get_batch,omitempty"` // Get fails on this batch (1-based; 0 = never)
	GetErr   *ErrSpec `json:"geterr,omitempty"`
	// seq: a sequence of submissions that re-use the caller's slice (Sizes, Max as for submit)
	Attempts []Attempt `json:"attempts,omitempty"`
}

// Attempt: one call of a sequence.  Before it the caller drops Skip leading blobs from the slice it used for the
// previous attempt (block/submitter.go submitToDA: `marshaled = currMarshaled[res.SubmittedCount:]`; 0 = the very same
// slice, as after every failed attempt); the backing DA answers this attempt as Resp/L/K/Err say.
type Attempt struct {
	Skip      int      `json:"skip,omitempty"`
	Resp      string   `json:"resp"`
	L         uint64   `json:"l,omitempty"`
	K         int      `json:"k,omitempty"`
	Err       *ErrSpec `json:"err,omitempty"`
	Cancelled bool     `json:"cancelled,omitempty"`
}

func (a *Attempt) sameScript(b *Attempt) bool {
	return a.Resp == b.Resp && a.L == b.L && a.K == b.K && a.Cancelled == b.Cancelled && reflect.DeepEqual(a.Err, b.Err)
}

type Replay struct {
	Seed int64 `json:"seed"`
	Case int   `json:"case"`
	Call Call  `json:"call"`
}

const daHeight = 7 // height the scripted backend puts into the ids it mints

func blobBytes(i, size int) []byte {
	b := make([]byte, size)
	for k := range b {
		b[k] = byte(i*31 + k*7 + 1)
	}
	return b
}

// id the scripted backend mints for the blob at position j of the caller's list
func scriptID(j int, blob []byte) []byte {
	h := sha256.Sum256(blob)
	id := make([]byte, 8, 16)
	binary.LittleEndian.PutUint64(id, daHeight)
	id = append(id, byte(j>>8), byte(j))
	return append(id, h[:6]...)
}

func dummyID(blob []byte) []byte { // core/da/dummy.go: makeID(currentHeight+1, sha256(blob))
	h := sha256.Sum256(blob)
	id := make([]byte, 8, 40)
	binary.LittleEndian.PutUint64(id, 1)
	return append(id, h[:]...)
}

func retrID(j int) []byte {
	id := make([]byte, 8, 12)
	binary.LittleEndian.PutUint64(id, 3)
	return append(id, 0xAB, byte(j>>8), byte(j), 0xCD)
}
func retrBlob(j int) []byte { return []byte{byte(j >> 8), byte(j), 0x5A} }

var scriptTime = time.Unix(1_700_000_000, 123_456_789)

// scripted is the DA double: it answers as the script says and records what reached it.
type scripted struct {
	call      *Call
	sent      [][]byte // the blobs the caller means to hand over with this call (a private copy)
	orig      [][]byte // the caller's whole original batch (a private copy); sent = orig[base:]
	base      int
	mu        sync.Mutex
	submitLog [][]int // sizes of the blobs of every submit call that reached the backend
	idLog     [][]int // the same calls: each blob by the position in orig of the blob it is byte-for-byte equal to
	contentOK bool    // every blob that reached the backend is the caller's blob at the same position
	getids    int
	gets      int
	dummy     *coreda.DummyDA
}

// whoIs: the position in orig of the blob b is byte-for-byte equal to: want if that one is, else the first, else 9999
func whoIs(b []byte, orig [][]byte, want int) int {
	if want >= 0 && want < len(orig) && bytes.Equal(b, orig[want]) {
		return want
	}
	for i, o := range orig {
		if bytes.Equal(b, o) {
			return i
		}
	}
	return 9999
}

func newScripted(c *Call, orig [][]byte, base int) *scripted {
	s := &scripted{call: c, sent: orig[base:], orig: orig, base: base, contentOK: true}
	if c.Resp == "dummy" {
		s.dummy = coreda.NewDummyDA(c.L, 0, 0, time.Hour)
	}
	return s
}

func (s *scripted) GasPrice(context.Context) (float64, error)      { return 0, nil }
func (s *scripted) GasMultiplier(context.Context) (float64, error) { return 1, nil }
func (s *scripted) GetProofs(context.Context, []coreda.ID, []byte) ([]coreda.Proof, error) {
	return nil, errors.New("unscripted")
}
func (s *scripted) Commit(context.Context, []coreda.Blob, []byte) ([]coreda.Commitment, error) {
	return nil, errors.New("unscripted")
}
func (s *scripted) Validate(context.Context, []coreda.ID, []coreda.Proof, []byte) ([]bool, error) {
	return nil, errors.New("unscripted")
}
func (s *scripted) Submit(ctx context.Context, blobs []coreda.Blob, gp float64, ns []byte) ([]coreda.ID, error) {
	return s.SubmitWithOptions(ctx, blobs, gp, ns, nil)
}

func (s *scripted) SubmitWithOptions(ctx context.Context, blobs []coreda.Blob, gp float64, ns []byte, opts []byte) ([]coreda.ID, error) {
	if err := ctx.Err(); err != nil {
		return nil, err
	}
	s.mu.Lock()
	defer s.mu.Unlock()
	var sz, who []int
	for j, b := range blobs {
		sz = append(sz, len(b))
		who = append(who, whoIs(b, s.orig, s.base+j))
		if j >= len(s.sent) || !bytes.Equal(b, s.sent[j]) {
			s.contentOK = false
		}
	}
	s.submitLog = append(s.submitLog, sz)
	s.idLog = append(s.idLog, who)
	c := s.call
	switch c.Resp {
	case "ok", "partial":
		n := len(blobs)
		if c.Resp == "partial" && c.K < n {
			n = c.K
		}
		ids := make([]coreda.ID, 0, n)
		for j := 0; j < n; j++ {
			ids = append(ids, scriptID(j, blobs[j]))
		}
		return ids, nil
	case "dummy":
		return s.dummy.SubmitWithOptions(ctx, blobs, gp, ns, opts)
	case "noids":
		return []coreda.ID{}, nil
	case "err":
		return nil, c.Err.build()
	}
	return nil, errors.New("unscripted")
}

func (s *scripted) GetIDs(ctx context.Context, height uint64, ns []byte) (*coreda.GetIDsResult, error) {
	if err := ctx.Err(); err != nil {
		return nil, err
	}
	s.mu.Lock()
	defer s.mu.Unlock()
	s.getids++
	c := s.call
	switch c.G {
	case "nil":
		return nil, nil
	case "empty":
		return &coreda.GetIDsResult{IDs: []coreda.ID{}, Timestamp: scriptTime}, nil
	case "ids":
		ids := make([]coreda.ID, c.NIDs)
		for j := range ids {
			ids[j] = retrID(j)
		}
		return &coreda.GetIDsResult{IDs: ids, Timestamp: scriptTime}, nil
	case "err":
		return nil, c.GErr.build()
	}
	return nil, errors.New("unscripted")
}

func (s *scripted) Get(ctx context.Context, ids []coreda.ID, ns []byte) ([]coreda.Blob, error) {
	if err := ctx.Err(); err != nil {
		return nil, err
	}
	s.mu.Lock()
	defer s.mu.Unlock()
	s.gets++
	c := s.call
	if c.GetBatch != 0 && s.gets == c.GetBatch {
		return nil, c.GetErr.build()
	}
	out := make([]coreda.Blob, len(ids))
	for i, id := range ids {
		if len(id) != 12 {
			return nil, coreda.ErrBlobNotFound
		}
		out[i] = retrBlob(int(id[9])<<8 | int(id[10]))
	}
	return out, nil
}

// switchDA lets one server serve a fresh double per case.
type switchDA struct {
	mu  sync.Mutex
	cur coreda.DA
}

func (w *switchDA) get() coreda.DA                                   { w.mu.Lock(); defer w.mu.Unlock(); return w.cur }
func (w *switchDA) set(d coreda.DA)                                  { w.mu.Lock(); w.cur = d; w.mu.Unlock() }
func (w *switchDA) GasPrice(c context.Context) (float64, error)      { return w.get().GasPrice(c) }
func (w *switchDA) GasMultiplier(c context.Context) (float64, error) { return w.get().GasMultiplier(c) }
func (w *switchDA) Get(c context.Context, ids []coreda.ID, ns []byte) ([]coreda.Blob, error) {
	return w.get().Get(c, ids, ns)
}
func (w *switchDA) GetIDs(c context.Context, h uint64, ns []byte) (*coreda.GetIDsResult, error) {
	return w.get().GetIDs(c, h, ns)
}
func (w *switchDA) GetProofs(c context.Context, ids []coreda.ID, ns []byte) ([]coreda.Proof, error) {
	return w.get().GetProofs(c, ids, ns)
}
func (w *switchDA) Commit(c context.Context, b []coreda.Blob, ns []byte) ([]coreda.Commitment, error) {
	return w.get().Commit(c, b, ns)
}
func (w *switchDA) Validate(c context.Context, ids []coreda.ID, p []coreda.Proof, ns []byte) ([]bool, error) {
	return w.get().Validate(c, ids, p, ns)
}
func (w *switchDA) Submit(c context.Context, b []coreda.Blob, gp float64, ns []byte) ([]coreda.ID, error) {
	return w.get().Submit(c, b, gp, ns)
}
func (w *switchDA) SubmitWithOptions(c context.Context, b []coreda.Blob, gp float64, ns, o []byte) ([]coreda.ID, error) {
	return w.get().SubmitWithOptions(c, b, gp, ns, o)
}

type rig struct {
	sw     *switchDA
	server *proxy.Server
	client *proxy.Client
	logger logging.EventLogger
	// the client's MaxBlobSize as NewClient sets it (production default, da/jsonrpc/internal.DefaultMaxBytes)
	defaultMax uint64
}

func newRig() (*rig, error) {
	_ = logging.SetLogLevel("c16", "fatal")
	_ = logging.SetLogLevel("rpc", "fatal")
	lg := logging.Logger("c16")
	_ = logging.SetLogLevel("c16", "fatal")
	r := &rig{sw: &switchDA{}, logger: lg}
	r.server = proxy.NewServer(lg, "127.0.0.1", "0", r.sw)
	if err := r.server.Start(context.Background()); err != nil {
		return nil, err
	}
	addr := r.server.VerifC16Addr()
	cl, err := proxy.NewClient(context.Background(), lg, "http://"+addr, "", "74657374")
	if err != nil {
		return nil, err
	}
	r.client = cl
	r.defaultMax = cl.DA.MaxBlobSize
	return r, nil
}

func (r *rig) close() {
	r.client.Close()
	ctx, cancel := context.WithTimeout(context.Background(), 2*time.Second)
	defer cancel()
	_ = r.server.Stop(ctx)
}

// ---- projected observables ----------------------------------------------------------------------------

type obs struct {
	Code   string `json:"code"`
	IDs    []int  `json:"ids"`   // position of the blob each returned id was minted for (9999 = foreign id)
	Count  uint64 `json:"count"` // SubmittedCount
	Height uint64 `json:"height"`
	Blobs  []int  `json:"blobs"` // retrieve: position of each returned blob
	TS     int    `json:"ts"`    // retrieve: 1 = the backend's timestamp, 0 = zero time, 2 = something else
}

func codeName(c coreda.StatusCode) string {
	switch c {
	case coreda.StatusUnknown:
		return "StUnknown"
	case coreda.StatusSuccess:
		return "StSuccess"
	case coreda.StatusNotFound:
		return "StNotFound"
	case coreda.StatusNotIncludedInBlock:
		return "StNotIncluded"
	case coreda.StatusAlreadyInMempool:
		return "StMempool"
	case coreda.StatusTooBig:
		return "StTooBig"
	case coreda.StatusContextDeadline:
		return "StDeadline"
	case coreda.StatusError:
		return "StError"
	case coreda.StatusIncorrectAccountSequence:
		return "StSeq"
	case coreda.StatusContextCanceled:
		return "StCanceled"
	case coreda.StatusHeightFromFuture:
		return "StFuture"
	}
	return "StUnknown"
}

func projSubmit(c *Call, sent [][]byte, r coreda.ResultSubmit) obs {
	o := obs{Code: codeName(r.Code), Count: r.SubmittedCount, Height: r.Height, IDs: []int{}, Blobs: []int{}}
	for j, id := range r.IDs {
		var want []byte
		if j < len(sent) {
			if c.Resp == "dummy" {
				want = dummyID(sent[j])
			} else {
				want = scriptID(j, sent[j])
			}
		}
		if want != nil && bytes.Equal(id, want) {
			o.IDs = append(o.IDs, j)
		} else {
			o.IDs = append(o.IDs, 9999)
		}
	}
	return o
}

func projRetrieve(r coreda.ResultRetrieve) obs {
	o := obs{Code: codeName(r.Code), Height: r.Height, IDs: []int{}, Blobs: []int{}}
	for _, id := range r.IDs {
		k := 9999
		if len(id) == 12 {
			j := int(id[9])<<8 | int(id[10])
			if bytes.Equal(id, retrID(j)) {
				k = j
			}
		}
		o.IDs = append(o.IDs, k)
	}
	for _, b := range r.Data {
		k := 9999
		if len(b) == 3 {
			j := int(b[0])<<8 | int(b[1])
			if bytes.Equal(b, retrBlob(j)) {
				k = j
			}
		}
		o.Blobs = append(o.Blobs, k)
	}
	switch {
	case r.Timestamp.IsZero():
		o.TS = 0
	case r.Timestamp.Equal(scriptTime) && r.Timestamp.UnixNano() == scriptTime.UnixNano():
		o.TS = 1
	default:
		o.TS = 2
	}
	return o
}

type caseOut struct {
	direct, proxied obs
	dlog, plog      [][]int
	dOK, pOK        bool // blob contents reaching the backend were the caller's
	dcalls, pcalls  [2]int
	dtext, ptext    *string // text of the error the helper was handed by the DA it called (nil = none)
	// submit: the caller's WHOLE array after the call, slot by slot: the position (in the original batch) of the blob the
	// slot now holds byte for byte; the blobs that reached the double, likewise
	dmem, pmem     []int
	didlog, pidlog [][]int
	// seq: one caseOut per attempt, the sub-call it amounts to (the blobs the caller means to hand over), its offset
	steps []caseOut
	subs  []Call
}

func batchBytes(sizes []int) [][]byte {
	out := make([][]byte, 0, len(sizes))
	for i, s := range sizes {
		out = append(out, blobBytes(i, s))
	}
	return out
}

func memProj(arr, orig [][]byte) []int {
	out := make([]int, len(arr))
	for j, b := range arr {
		out[j] = whoIs(b, orig, j)
	}
	return out
}

func isIota(a []int) bool {
	for i, x := range a {
		if x != i {
			return false
		}
	}
	return true
}

// runSubmit: one call pair.  The in-process double is handed darr[off:], the client parr[off:] — two arrays of their
// own, so that neither side can disturb the other —; orig is a third copy nobody is handed: what the caller's blobs were.
func (r *rig) runSubmit(c *Call, orig, darr, parr [][]byte, off int) caseOut {
	var out caseOut
	mkctx := func() (context.Context, context.CancelFunc) {
		ctx, cancel := context.WithTimeout(context.Background(), 20*time.Second)
		if c.Cancelled {
			cancel()
		}
		return ctx, cancel
	}
	d := newScripted(c, orig, off)
	p := newScripted(c, orig, off)
	r.sw.set(p)
	r.client.DA.MaxBlobSize = c.Max
	dr, pr := &recorder{DA: d}, &recorder{DA: &r.client.DA}
	ctx, cancel := mkctx()
	out.direct = projSubmit(c, orig[off:], types.SubmitWithHelpers(ctx, dr, r.logger, darr[off:], 0, nil))
	cancel()
	ctx, cancel = mkctx()
	out.proxied = projSubmit(c, orig[off:], types.SubmitWithHelpers(ctx, pr, r.logger, parr[off:], 0, nil))
	cancel()
	out.dtext, out.ptext = dr.text, pr.text
	out.dlog, out.plog = d.submitLog, p.submitLog
	out.didlog, out.pidlog = d.idLog, p.idLog
	out.dOK, out.pOK = d.contentOK, p.contentOK
	out.dmem, out.pmem = memProj(darr, orig), memProj(parr, orig)
	return out
}

// offsets of the attempts of a sequence: Skip is clamped to what is left (s[k:] with k > len(s) would panic in the caller)
func (c *Call) offsets() []int {
	offs := make([]int, len(c.Attempts))
	off := 0
	for i, a := range c.Attempts {
		k := a.Skip
		if k < 0 {
			k = 0
		}
		if off+k > len(c.Sizes) {
			k = len(c.Sizes) - off
		}
		off += k
		offs[i] = off
	}
	return offs
}

func (r *rig) run(c *Call) caseOut {
	var out caseOut
	if c.Real {
		c.Max = r.defaultMax // server and client exactly as production builds them
	}
	switch c.Kind {
	case "submit":
		return r.runSubmit(c, batchBytes(c.Sizes), batchBytes(c.Sizes), batchBytes(c.Sizes), 0)
	case "seq":
		orig, darr, parr := batchBytes(c.Sizes), batchBytes(c.Sizes), batchBytes(c.Sizes)
		offs := c.offsets()
		for i, a := range c.Attempts {
			sub := Call{Kind: "submit", Sizes: c.Sizes[offs[i]:], Max: c.Max, Resp: a.Resp, L: a.L, K: a.K, Err: a.Err, Cancelled: a.Cancelled}
			out.steps = append(out.steps, r.runSubmit(&sub, orig, darr, parr, offs[i]))
			out.subs = append(out.subs, sub)
		}
		return out
	}
	var sent [][]byte
	mkctx := func() (context.Context, context.CancelFunc) {
		ctx, cancel := context.WithTimeout(context.Background(), 20*time.Second)
		if c.Cancelled {
			cancel()
		}
		return ctx, cancel
	}
	d := newScripted(c, sent, 0)
	p := newScripted(c, sent, 0)
	r.sw.set(p)
	r.client.DA.MaxBlobSize = c.Max
	dr, pr := &recorder{DA: d}, &recorder{DA: &r.client.DA}
	switch c.Kind {
	case "retrieve":
		ctx, cancel := mkctx()
		out.direct = projRetrieve(types.RetrieveWithHelpers(ctx, dr, r.logger, c.Height, []byte("test")))
		cancel()
		ctx, cancel = mkctx()
		out.proxied = projRetrieve(types.RetrieveWithHelpers(ctx, pr, r.logger, c.Height, []byte("test")))
		cancel()
	}
	out.dtext, out.ptext = dr.text, pr.text
	out.dlog, out.plog = d.submitLog, p.submitLog
	out.dOK, out.pOK = d.contentOK, p.contentOK
	out.dcalls, out.pcalls = [2]int{d.getids, d.gets}, [2]int{p.getids, p.gets}
	return out
}

// ---- the Go oracle: the property evaluated directly on what the implementation did ----------------------

type viol struct{ sig, what string }

func sum(a []int) (s int) {
	for _, x := range a {
		s += x
	}
	return
}

var submitClasses = map[string]bool{"StNotIncluded": true, "StMempool": true, "StSeq": true, "StTooBig": true, "StDeadline": true}

// oracleSeq: a sequence of submissions on one slice.  Every attempt is a call pair of its own (the blobs the caller
// MEANS to hand over at that attempt, whatever its array holds by then) and must satisfy everything a single call pair
// must — the caller's array byte-for-byte intact after it included —; and a retry with the very same slice that meets
// the same backing-DA behaviour is answered like the attempt before it.
func oracleSeq(c *Call, o caseOut) []viol {
	var vs []viol
	seen := map[string]bool{}
	add := func(sig, what string) {
		if !seen[sig] {
			seen[sig] = true
			vs = append(vs, viol{sig, what})
		}
	}
	offs := c.offsets()
	for i := range o.steps {
		sub := o.subs[i]
		for _, v := range oracle(&sub, o.steps[i]) {
			add(v.sig, fmt.Sprintf("attempt %d of %d on one slice (batch sizes=%v max=%d, this attempt hands over blobs %d..%d): %s", i+1, len(o.steps), c.Sizes, c.Max, offs[i], len(c.Sizes)-1, v.what))
		}
		if i > 0 && offs[i] == offs[i-1] && c.Attempts[i].sameScript(&c.Attempts[i-1]) {
			a, b := o.steps[i-1], o.steps[i]
			if !reflect.DeepEqual(a.proxied, b.proxied) || !reflect.DeepEqual(a.pidlog, b.pidlog) {
				add("retry-with-same-slice-answered-differently", fmt.Sprintf("batch sizes=%v max=%d, blobs %d.. handed over with the same slice at attempts %d and %d, the backing DA scripted alike (%s): proxied attempt %d: %+v, the DA received blobs %v; attempt %d: %+v, the DA received blobs %v (direct: %+v / %+v)",
					c.Sizes, c.Max, offs[i], i, i+1, c.Attempts[i].Resp, i, a.proxied, a.pidlog, i+1, b.proxied, b.pidlog, a.direct, b.direct))
			}
		}
	}
	return vs
}

func oracle(c *Call, o caseOut) []viol {
	if c.Kind == "seq" {
		return oracleSeq(c, o)
	}
	var vs []viol
	add := func(sig, f string, a ...interface{}) { vs = append(vs, viol{sig, fmt.Sprintf(f, a...)}) }
	same := reflect.DeepEqual(o.direct, o.proxied)
	// the backing DA's error text arrives whole (over the wire an error IS its text): when the scripted error reached
	// the helper in-process and the proxied call reached the backend too, the text the helper is handed behind the
	// proxy contains it — unless it is a cancellation, which the client replaces by context.Canceled
	if sentErr := c.scriptedErr(o); sentErr != nil && o.dtext != nil && *o.dtext == sentErr.Error() && c.proxiedReached(o) {
		sent := sentErr.Error()
		if !strings.Contains(sent, context.Canceled.Error()) && (o.ptext == nil || !strings.Contains(*o.ptext, sent)) {
			got, gl := "<no error>", 0
			if o.ptext != nil {
				got, gl = clip(*o.ptext), len(*o.ptext)
			}
			add("backend-error-text-altered-over-wire", "%s: the backend's error text (%d bytes: %s) reached the helper behind the proxy as %d bytes: %s", c.Kind, len(sent), clip(sent), gl, got)
		}
	}
	switch c.Kind {
	case "retrieve":
		// every error, every result: the node sees the same thing
		if !same {
			add(fmt.Sprintf("retrieve-differs-%s-vs-%s", o.direct.Code, o.proxied.Code), "retrieve at height %d: direct %+v, proxied %+v", c.Height, o.direct, o.proxied)
		}
	case "submit":
		// the DA — in-process or behind the client — is a function of the blobs it is handed and does not write to them:
		// after the call the caller's array holds, byte for byte, what it held before
		if !isIota(o.pmem) {
			add("caller-blobs-overwritten-by-client", "submit sizes=%v max=%d through the client: the caller's array now holds the blobs created at positions %v (9999 = none of them)", c.Sizes, c.Max, o.pmem)
		}
		if !isIota(o.dmem) {
			add("caller-blobs-overwritten-in-process", "submit sizes=%v in-process: the caller's array now holds the blobs created at positions %v", c.Sizes, o.dmem)
		}
		fits := true
		for _, s := range c.Sizes {
			if uint64(s) > c.Max {
				fits = false
			}
		}
		if uint64(sum(c.Sizes)) > c.Max {
			fits = false
		}
		// a caller never marks an unsent blob as submitted
		reached := 0
		for _, l := range o.plog {
			reached += len(l)
		}
		if o.proxied.Count > uint64(reached) || len(o.proxied.IDs) > reached || !o.pOK {
			add("unsent-blob-reported-submitted", "proxied submit reports %d submitted, %d ids; the backend received %d blobs (contents ok: %v)", o.proxied.Count, len(o.proxied.IDs), reached, o.pOK)
		}
		inDom := c.Resp != "err" || c.Err.inDomain()
		emptyOK := len(c.Sizes) > 0 || (c.Resp != "err" && !c.Cancelled)
		if fits && inDom && emptyOK && !same {
			sig := fmt.Sprintf("submit-differs-%s-vs-%s", o.direct.Code, o.proxied.Code)
			if submitClasses[o.direct.Code] && o.proxied.Code == "StError" {
				sig = "submit-error-identity-lost-over-wire"
			}
			if c.Resp == "err" && !c.Cancelled && o.direct.Code == "StError" && o.proxied.Code == "StCanceled" {
				sig = "coreda-ErrContextCanceled-not-classified-in-process"
			}
			add(sig, "submit sizes=%v max=%d resp=%s err=%+v: direct %+v, proxied %+v", c.Sizes, c.Max, c.Resp, c.Err, o.direct, o.proxied)
		}
		if !fits && !c.Cancelled {
			// the longest prefix that fits, exactly
			k, acc := 0, 0
			for k < len(c.Sizes) && uint64(acc+c.Sizes[k]) <= c.Max {
				acc += c.Sizes[k]
				k++
			}
			if uint64(c.Sizes[k]) > c.Max {
				// a blob that can never be sent stops the batch: too big, nothing sent
				if o.proxied.Code != "StTooBig" || o.proxied.Count != 0 || len(o.plog) != 0 {
					add("prefix-oversize-not-too-big", "sizes=%v max=%d: blob %d can never fit; proxied %+v, backend log %v", c.Sizes, c.Max, k, o.proxied, o.plog)
				}
			} else {
				if len(o.plog) != 1 || !reflect.DeepEqual(o.plog[0], c.Sizes[:k]) {
					add("prefix-not-longest-fitting", "sizes=%v max=%d: the backend should receive exactly the first %d blobs, got %v", c.Sizes, c.Max, k, o.plog)
				} else if c.Resp == "ok" {
					want := make([]int, k)
					for i := range want {
						want[i] = i
					}
					if o.proxied.Code != "StSuccess" || o.proxied.Count != uint64(k) || !reflect.DeepEqual(o.proxied.IDs, want) {
						add("prefix-count-wrong", "sizes=%v max=%d: %d blobs sent and accepted, reported %+v", c.Sizes, c.Max, k, o.proxied)
					}
				}
			}
		}
	}
	return vs
}

// scriptedErr: the error the backend's script returned to the call that the helper saw fail (nil = none)
func (c *Call) scriptedErr(o caseOut) error {
	if c.Cancelled {
		return nil
	}
	switch {
	case c.Kind == "submit" && c.Resp == "err":
		return c.Err.build()
	case c.Kind == "retrieve" && c.G == "err":
		return c.GErr.build()
	case c.Kind == "retrieve" && c.G == "ids" && c.GetBatch != 0 && c.GetBatch <= (c.NIDs+99)/100:
		return c.GetErr.build()
	}
	return nil
}

// proxiedReached: the proxied call got as far as the in-process one (same calls reached the backend)
func (c *Call) proxiedReached(o caseOut) bool {
	if c.Kind == "submit" {
		return len(o.plog) > 0
	}
	return o.pcalls == o.dcalls
}

func clip(s string) string {
	if len(s) <= 120 {
		return strconv.Quote(s)
	}
	return strconv.Quote(s[:60]) + " ... " + strconv.Quote(s[len(s)-50:])
}

// ---- generator ---------------------------------------------------------------------------------------------

// genLen: a text length from 0 to several KB: around the powers of two 2^4..2^13 (+-2), uniform, or log-uniform
func genLen(r *rand.Rand) int {
	switch p := r.Intn(100); {
	case p < 40:
		n := (1 << (4 + r.Intn(10))) + r.Intn(5) - 2
		return n
	case p < 70:
		return r.Intn(8300)
	default:
		return r.Intn(1 << (1 + r.Intn(13)))
	}
}

// longContext: puts the error into a context text of 0 .. ~8 KB; half of the time the length drawn is that of the
// whole message rather than of the context
func longContext(r *rand.Rand, e *ErrSpec) {
	e.Pos = []string{"end", "end", "end", "mid", "start"}[r.Intn(5)]
	e.PadOff, e.Lead = r.Intn(16), r.Intn(len(padLeads))
	n := genLen(r)
	if r.Intn(2) == 0 {
		e.Pad = 0
		n -= len(e.build().Error())
		if n < 0 {
			n = 0
		}
	}
	e.Pad = n
}

var cleanPrefixes = []string{"failed to submit", "celestia: broadcast tx", "rpc", "da layer said no", "submit 3 blobs at gas 0.002", "height 9 is in the future"}
var cleanSuffixes = []string{"requested 9, current 3", "code 19", "retry later"}

func genErr(r *rand.Rand, submitPath bool) *ErrSpec {
	e := &ErrSpec{}
	switch p := r.Intn(100); {
	case p < 55:
		e.Sent = []int{r.Intn(len(sentErrs))}
	case p < 65:
		e.Ctx = "canceled"
	case p < 70:
		e.Ctx = "deadline"
	case p < 82:
		a, b := r.Intn(len(sentErrs)), r.Intn(len(sentErrs))
		e.Sent = []int{a}
		if b != a {
			e.Sent = append(e.Sent, b)
		}
		e.Join = r.Intn(2) == 0
	case p < 90:
		e.Opaque = []string{"connection refused", "out of gas", "internal error 0x17", "EOF"}[r.Intn(4)]
	case p < 95:
		k := r.Intn(len(sentErrs))
		e.Dirty = k != 0 && k != 6 // the submit helper does not tell ErrBlobNotFound / ErrHeightFromFuture apart: mentioning them changes nothing
		e.Opaque = "remote said: " + sentErrs[k].Error() + " (code 2)"
	default:
		e.DummyFuture = true
	}
	if r.Intn(2) == 0 {
		e.Prefix = cleanPrefixes[r.Intn(len(cleanPrefixes))]
	}
	if r.Intn(4) == 0 {
		e.Suffix = cleanSuffixes[r.Intn(len(cleanSuffixes))]
	}
	if r.Intn(12) == 0 && e.Opaque == "" {
		e.Opaque = "also: disk full"
		e.Join = r.Intn(2) == 0
	}
	if r.Intn(100) < 45 {
		longContext(r, e)
	}
	return e
}

var defaultMaxForGen uint64 // set from the rig: the client's production default MaxBlobSize

func genCall(r *rand.Rand) Call {
	if r.Intn(100) < 55 {
		c := Call{Kind: "submit"}
		c.Max = []uint64{1, 8, 32, 100, 1000}[r.Intn(5)]
		n := 0
		switch p := r.Intn(100); {
		case p < 6:
			n = 0
		case p < 30:
			n = 1
		case p < 80:
			n = 2 + r.Intn(5)
		default:
			n = 7 + r.Intn(14)
		}
		M := int(c.Max)
		switch p := r.Intn(100); {
		case p < 40: // fits
			rem := M
			for i := 0; i < n; i++ {
				s := 0
				if rem > 0 {
					s = r.Intn(rem/(n-i)+1) + r.Intn(2)*(rem%(n-i))
					if s > rem {
						s = rem
					}
				}
				if i == n-1 && r.Intn(3) == 0 {
					s = rem // exactly the limit
				}
				c.Sizes = append(c.Sizes, s)
				rem -= s
			}
		case p < 80: // around the limit: cumulative sum crosses it somewhere
			for i := 0; i < n; i++ {
				c.Sizes = append(c.Sizes, r.Intn(M+1))
			}
			if n > 0 && r.Intn(3) == 0 { // make a prefix hit the limit exactly, then one more byte
				k := r.Intn(n)
				s := sum(c.Sizes[:k])
				if s <= M {
					c.Sizes[k] = M - s
					if k+1 < n && c.Sizes[k+1] == 0 {
						c.Sizes[k+1] = 1
					}
				}
			}
		default: // an individually oversized blob somewhere
			for i := 0; i < n; i++ {
				c.Sizes = append(c.Sizes, r.Intn(M/2+1))
			}
			if n > 0 {
				c.Sizes[r.Intn(n)] = M + 1 + r.Intn(3)
			}
		}
		switch p := r.Intn(100); {
		case p < 32:
			c.Resp = "ok"
		case p < 47:
			c.Resp = "dummy"
			c.L = []uint64{c.Max, c.Max / 2, c.Max * 2}[r.Intn(3)]
		case p < 85:
			c.Resp = "err"
			c.Err = genErr(r, true)
		case p < 90:
			c.Resp = "noids"
		default:
			c.Resp = "partial"
			c.K = r.Intn(n + 1)
		}
		c.Cancelled = r.Intn(20) == 0
		if r.Intn(40) == 0 && defaultMaxForGen > 0 { // real-size stream: production limits, total around the limit
			D := int(defaultMaxForGen)
			tot := []int{D / 2, D * 3 / 4, D * 9 / 10, D * 99 / 100, D - 1, D, D + 1, D * 5 / 4}[r.Intn(8)]
			c.Real, c.Max, c.Cancelled = true, defaultMaxForGen, false
			c.Sizes = split(tot, 1+r.Intn(6))
			if c.Resp == "dummy" {
				c.L = []uint64{c.Max, c.Max / 2, c.Max * 2}[r.Intn(3)]
			}
			if c.Resp == "partial" {
				c.K = r.Intn(len(c.Sizes) + 1)
			}
		}
		return c
	}
	c := Call{Kind: "retrieve", Height: uint64(1 + r.Intn(50))}
	switch p := r.Intn(100); {
	case p < 8:
		c.G = "nil"
	case p < 16:
		c.G = "empty"
	case p < 55:
		c.G = "ids"
		switch q := r.Intn(10); {
		case q < 6:
			c.NIDs = 1 + r.Intn(8)
		case q < 8:
			c.NIDs = []int{99, 100, 101, 200, 201}[r.Intn(5)]
		default:
			c.NIDs = 100 + r.Intn(160)
		}
		if r.Intn(3) == 0 {
			c.GetBatch = 1 + r.Intn((c.NIDs+99)/100)
			c.GetErr = genErr(r, false)
		}
	default:
		c.G = "err"
		c.GErr = genErr(r, false)
	}
	c.Cancelled = r.Intn(20) == 0
	return c
}

// genSeq: a sequence of 2..5 attempts on one slice.  Batches: an individually oversize blob at EVERY position (first,
// middle, last; one or two of them) among blobs that fit, batches that fit, batches that cross the limit.  Attempts: a
// plain retry (Skip 0) that meets the same backing-DA behaviour as the attempt before, or a different one; or the caller
// moves on past the blobs reported submitted (Skip = what a success would have taken) or past an arbitrary number.
func genSeq(r *rand.Rand) Call {
	c := Call{Kind: "seq"}
	c.Max = []uint64{8, 32, 100, 1000}[r.Intn(4)]
	M := int(c.Max)
	n := 1 + r.Intn(6)
	if r.Intn(8) == 0 {
		n = 7 + r.Intn(8)
	}
	fitting := func() {
		rem := M
		for i := 0; i < n; i++ {
			s := r.Intn(rem/(n-i) + 1)
			c.Sizes = append(c.Sizes, s)
			rem -= s
		}
	}
	switch p := r.Intn(100); {
	case p < 45: // oversize blob(s) among fitting ones, position uniform over first / middle / last
		fitting()
		pos := []int{0, n / 2, n - 1, r.Intn(n)}[r.Intn(4)]
		c.Sizes[pos] = M + 1 + r.Intn(3)
		if n > 2 && r.Intn(4) == 0 {
			c.Sizes[r.Intn(n)] = M + 1 + r.Intn(60)
		}
	case p < 70:
		fitting()
	default: // crosses the limit somewhere
		for i := 0; i < n; i++ {
			c.Sizes = append(c.Sizes, r.Intn(M/2+1)+r.Intn(2)*r.Intn(M/2+1))
		}
	}
	script := func() Attempt {
		a := Attempt{}
		switch p := r.Intn(100); {
		case p < 50:
			a.Resp = "ok"
		case p < 65:
			a.Resp = "dummy"
			a.L = []uint64{c.Max, c.Max / 2, c.Max * 2}[r.Intn(3)]
		case p < 85:
			a.Resp = "err"
			a.Err = genErr(r, true)
			if a.Err.Pad > 600 {
				a.Err.Pad = 600 // long texts have their own stream
			}
		case p < 90:
			a.Resp = "noids"
		default:
			a.Resp = "partial"
			a.K = r.Intn(n + 1)
		}
		a.Cancelled = r.Intn(20) == 0
		return a
	}
	k := 2 + r.Intn(4)
	off := 0
	for i := 0; i < k; i++ {
		var a Attempt
		if i > 0 && r.Intn(100) < 55 {
			a = c.Attempts[i-1]
		} else {
			a = script()
		}
		a.Skip = 0
		if i > 0 && r.Intn(100) < 30 {
			// what a success of the previous attempt would have taken: the longest prefix that fits
			t, acc := off, 0
			for t < len(c.Sizes) && c.Sizes[t] <= M && acc+c.Sizes[t] <= M {
				acc += c.Sizes[t]
				t++
			}
			a.Skip = []int{t - off, 1, r.Intn(n + 1)}[r.Intn(3)]
			if off+a.Skip > len(c.Sizes) {
				a.Skip = len(c.Sizes) - off
			}
		}
		off += a.Skip
		c.Attempts = append(c.Attempts, a)
	}
	return c
}

// seqJobs: the fixed part of the sequence stream: an oversize blob first / in the middle / last / twice among fitting
// ones, retried with the same slice against a DA that accepts everything, the real DummyDA with the same limit, a DA that
// fails once; a partial success followed by the tail of the slice (submitToDA's `marshaled[count:]`).
func seqJobs() []job {
	var js []job
	add := func(sizes []int, max uint64, at ...Attempt) {
		js = append(js, job{0, 0, &Call{Kind: "seq", Sizes: sizes, Max: max, Attempts: at}, false})
	}
	ok, dummy := Attempt{Resp: "ok"}, Attempt{Resp: "dummy", L: 100}
	timeout := Attempt{Resp: "err", Err: &ErrSpec{Sent: []int{2}, Prefix: "failed to submit"}}
	for _, sizes := range [][]int{{150, 10, 20}, {10, 150, 20}, {10, 20, 150}, {10, 150, 20, 101, 5}, {0, 101, 0, 7}, {150}} {
		add(sizes, 100, ok, ok, ok)
		add(sizes, 100, dummy, dummy)
		add(sizes, 100, timeout, ok, Attempt{Resp: "ok", Skip: 1})
	}
	add([]int{40, 30, 31, 5}, 100, ok, Attempt{Resp: "ok", Skip: 2}, Attempt{Resp: "ok", Skip: 2})
	add([]int{40, 30, 31, 5}, 100, timeout, timeout, ok, Attempt{Resp: "partial", K: 1, Skip: 2}, Attempt{Resp: "ok", Skip: 1})
	add([]int{40, 60, 1}, 100, Attempt{Resp: "ok", Cancelled: true}, ok, Attempt{Resp: "noids", Skip: 2}, Attempt{Resp: "ok"})
	return js
}

// ---- Coq terms -----------------------------------------------------------------------------------------------

func natList(a []int) string {
	iota := true
	for i, x := range a {
		if x != i {
			iota = false
		}
	}
	if iota && len(a) > 3 {
		return fmt.Sprintf("(iota %d)", len(a))
	}
	parts := make([]string, len(a))
	for i, x := range a {
		parts[i] = strconv.Itoa(x)
	}
	return "[" + strings.Join(parts, ";") + "]%N"
}

func obsCoq(kind string, o obs) string {
	if kind == "submit" {
		return fmt.Sprintf("(OSub %s %s %s %s)", o.Code, natList(o.IDs), vgen.N(o.Count), vgen.N(o.Height))
	}
	return fmt.Sprintf("(ORet %s %s %s %s %s)", o.Code, natList(o.IDs), natList(o.Blobs), vgen.N(uint64(o.TS)), vgen.N(o.Height))
}

func logCoq(l [][]int) string {
	var parts []string
	for _, x := range l {
		parts = append(parts, natList(x))
	}
	return vgen.List(parts)
}

func respCoq(resp string, l uint64, k int, e *ErrSpec) string {
	switch resp {
	case "ok":
		return "SOk"
	case "dummy":
		return fmt.Sprintf("(SDummy %s)", vgen.N(l))
	case "err":
		return "(SErr " + errCoq(e.build()) + ")"
	case "noids":
		return "SNoIDs"
	case "partial":
		return fmt.Sprintf("(SPartial %d)", k)
	}
	return ""
}

func callCoq(c *Call) string {
	if c.Kind == "submit" {
		return fmt.Sprintf("(CSubmit %s %s %s %s)", natList(c.Sizes), vgen.N(c.Max), respCoq(c.Resp, c.L, c.K, c.Err), vgen.Bool(c.Cancelled))
	}
	if c.Kind == "seq" {
		offs := c.offsets()
		var parts []string
		prev := 0
		for i, a := range c.Attempts {
			parts = append(parts, fmt.Sprintf("(%s, %s, %s)", vgen.Nat(offs[i]-prev), respCoq(a.Resp, a.L, a.K, a.Err), vgen.Bool(a.Cancelled)))
			prev = offs[i]
		}
		return fmt.Sprintf("(CSeq %s %s %s)", natList(c.Sizes), vgen.N(c.Max), vgen.List(parts))
	}
	g := ""
	switch c.G {
	case "nil":
		g = "GNil"
	case "empty":
		g = "(GRes [] 1%N)"
	case "ids":
		g = fmt.Sprintf("(GRes (iota %d) 1%%N)", c.NIDs)
	case "err":
		g = "(GErr " + errCoq(c.GErr.build()) + ")"
	}
	ge := "None"
	if c.GetBatch != 0 {
		ge = fmt.Sprintf("(Some (%s, %s))", vgen.N(uint64(c.GetBatch-1)), errCoq(c.GetErr.build()))
	}
	return fmt.Sprintf("(CRetrieve %s %s %s %s)", vgen.N(c.Height), g, ge, vgen.Bool(c.Cancelled))
}

func stepsCoq(steps []caseOut, proxied bool) string {
	var parts []string
	for _, st := range steps {
		ob, lg, mem := st.direct, st.didlog, st.dmem
		if proxied {
			ob, lg, mem = st.proxied, st.pidlog, st.pmem
		}
		parts = append(parts, fmt.Sprintf("(mk_sstep %s %s %s %s %s %s)", ob.Code, natList(ob.IDs), vgen.N(ob.Count), vgen.N(ob.Height), logCoq(lg), natList(mem)))
	}
	return "(OSeq " + vgen.List(parts) + ")"
}

func caseCoq(c *Call, o caseOut) string {
	if c.Kind == "seq" {
		return fmt.Sprintf("{| c_call := %s; c_direct := %s; c_proxied := %s; c_dlog := []; c_plog := []; c_dcalls := (0, 0)%%N; c_pcalls := (0, 0)%%N; c_indomain := true; c_dtext := None; c_ptext := None; c_dmem := []; c_pmem := [] |}",
			callCoq(c), stepsCoq(o.steps, false), stepsCoq(o.steps, true))
	}
	inDom := true
	if c.Kind == "submit" && c.Resp == "err" {
		inDom = c.Err.inDomain()
	}
	return fmt.Sprintf("{| c_call := %s; c_direct := %s; c_proxied := %s; c_dlog := %s; c_plog := %s; c_dcalls := (%d, %d)%%N; c_pcalls := (%d, %d)%%N; c_indomain := %s; c_dtext := %s; c_ptext := %s; c_dmem := %s; c_pmem := %s |}",
		callCoq(c), obsCoq(c.Kind, o.direct), obsCoq(c.Kind, o.proxied), logCoq(o.dlog), logCoq(o.plog),
		o.dcalls[0], o.dcalls[1], o.pcalls[0], o.pcalls[1], vgen.Bool(inDom), optTextCoq(o.dtext), optTextCoq(o.ptext), natList(o.dmem), natList(o.pmem))
}

// ---- shrinking --------------------------------------------------------------------------------------------------

func hasSig(vs []viol, sig string) bool {
	for _, v := range vs {
		if v.sig == sig {
			return true
		}
	}
	return false
}

func shrink(rg *rig, c Call, sig string) Call {
	fails := func(x Call) bool { return hasSig(oracle(&x, rg.run(&x)), sig) }
	if c.Kind == "seq" {
		c.Attempts = vgen.Shrink(c.Attempts, func(a []Attempt) bool { x := c; x.Attempts = a; return len(a) > 0 && fails(x) })
		for i := range c.Attempts { // a plain retry against a DA that accepts everything, if that still fails
			for _, f := range []func(a *Attempt){func(a *Attempt) { a.Skip = 0 }, func(a *Attempt) { a.Resp, a.Err, a.L, a.K = "ok", nil, 0, 0 }, func(a *Attempt) { a.Cancelled = false }} {
				x := c
				x.Attempts = append([]Attempt{}, c.Attempts...)
				f(&x.Attempts[i])
				if !reflect.DeepEqual(x.Attempts[i], c.Attempts[i]) && fails(x) {
					c = x
				}
			}
		}
	}
	if c.Kind == "submit" || c.Kind == "seq" {
		sz := vgen.Shrink(c.Sizes, func(s []int) bool { x := c; x.Sizes = s; return fails(x) })
		c.Sizes = sz
		for i := range c.Sizes { // smaller sizes
			for _, v := range []int{0, 1, c.Sizes[i] / 2} {
				if v < c.Sizes[i] {
					x := c
					x.Sizes = append([]int{}, c.Sizes...)
					x.Sizes[i] = v
					if fails(x) {
						c = x
						break
					}
				}
			}
		}
	}
	simplify := func(get func(*Call) **ErrSpec) {
		if *get(&c) == nil {
			return
		}
		for _, f := range []func(e *ErrSpec){func(e *ErrSpec) { e.Prefix = "" }, func(e *ErrSpec) { e.Suffix = "" }, func(e *ErrSpec) { e.Opaque = "" },
			func(e *ErrSpec) {
				if len(e.Sent) > 1 {
					e.Sent = e.Sent[:1]
				}
			}, func(e *ErrSpec) {
				if len(e.Sent) > 1 {
					e.Sent = e.Sent[1:]
				}
			}} {
			x := c
			cp := **get(&c)
			cp.Sent = append([]int{}, cp.Sent...)
			f(&cp)
			*get(&x) = &cp
			if fails(x) {
				c = x
			}
		}
	}
	simplify(func(c *Call) **ErrSpec { return &c.Err })
	simplify(func(c *Call) **ErrSpec { return &c.GErr })
	simplify(func(c *Call) **ErrSpec { return &c.GetErr })
	// the long context: none if possible, else plain and as short as still fails (binary search on its length)
	shrinkPad := func(get func(*Call) **ErrSpec) {
		if *get(&c) == nil || (*get(&c)).Pos == "" {
			return
		}
		try := func(mod func(e *ErrSpec)) bool {
			x := c
			cp := **get(&c)
			cp.Sent = append([]int{}, cp.Sent...)
			mod(&cp)
			*get(&x) = &cp
			if fails(x) {
				c = x
				return true
			}
			return false
		}
		if try(func(e *ErrSpec) { e.Pos, e.Pad, e.PadOff, e.Lead = "", 0, 0, 0 }) {
			return
		}
		try(func(e *ErrSpec) { e.Lead = 0 })
		try(func(e *ErrSpec) { e.PadOff = 0 })
		lo, hi := 0, (*get(&c)).Pad
		for lo < hi {
			mid := (lo + hi) / 2
			if try(func(e *ErrSpec) { e.Pad = mid }) {
				hi = mid
			} else {
				lo = mid + 1
			}
		}
	}
	shrinkPad(func(c *Call) **ErrSpec { return &c.Err })
	shrinkPad(func(c *Call) **ErrSpec { return &c.GErr })
	shrinkPad(func(c *Call) **ErrSpec { return &c.GetErr })
	if c.Cancelled {
		x := c
		x.Cancelled = false
		if fails(x) {
			c = x
		}
	}
	return c
}

type job struct {
	seed int64
	c    int
	call *Call
	seq  bool // generated by genSeq (its own PRNG stream) instead of genCall
}

// split total into n near-equal parts
func split(total, n int) []int {
	out := make([]int, n)
	for i := range out {
		out[i] = total / n
	}
	out[n-1] += total % n
	return out
}

// realSizeJobs: the real-size stream.  Server and client with their production limits (nothing overridden), single
// blobs and batches whose total is at 50/75/90/99/100% and 100%+1 byte of the client's default limit, and many
// medium blobs so that the client trims to a near-full prefix.  Only sizes go to Coq.
func realSizeJobs(def uint64) []job {
	var js []job
	D := int(def)
	add := func(c Call) { c.Kind = "submit"; c.Real = true; c.Max = def; cc := c; js = append(js, job{0, 0, &cc, false}) }
	for _, t := range []int{D / 2, D * 3 / 4, D * 9 / 10, D * 99 / 100, D, D + 1} {
		add(Call{Sizes: []int{t}, Resp: "ok"})
		add(Call{Sizes: split(t, 4), Resp: "ok"})
	}
	m := D * 243 / 1000                                         // ~480 KB with the default limit
	add(Call{Sizes: []int{m, m, m, m}, Resp: "ok"})             // 97% — fits
	add(Call{Sizes: []int{m, m, m, m, m}, Resp: "ok"})          // trimmed to the first four
	add(Call{Sizes: []int{m, m, m, m, D - 4*m, 1}, Resp: "ok"}) // first five fill the limit exactly
	add(Call{Sizes: split(D*99/100, 3), Resp: "err", Err: &ErrSpec{Sent: []int{3}, Prefix: "failed to submit"}})
	add(Call{Sizes: split(D*9/10, 2), Resp: "partial", K: 1})
	return js
}

// longTextJobs: the fixed part of the long-error stream.  Every sentinel behind a context of 300 and 5000 bytes in
// the conventional position (the error last) on both paths; one submit-path and one retrieve-path sentinel in the
// middle and at the start; whole messages of exactly 2^k-1, 2^k, 2^k+1 bytes for k = 5..13; a failing Get.
func longTextJobs() []job {
	var js []job
	add := func(c Call) { cc := c; js = append(js, job{0, 0, &cc, false}) }
	sub := func(e *ErrSpec) { add(Call{Kind: "submit", Sizes: []int{3, 4}, Max: 100, Resp: "err", Err: e}) }
	ret := func(e *ErrSpec) { add(Call{Kind: "retrieve", Height: 5, G: "err", GErr: e}) }
	for i := range sentErrs {
		for _, n := range []int{300, 5000} {
			sub(&ErrSpec{Sent: []int{i}, Pos: "end", Pad: n, Lead: 2})
			ret(&ErrSpec{Sent: []int{i}, Pos: "end", Pad: n, Lead: 1})
		}
	}
	for _, pos := range []string{"mid", "start"} {
		for _, n := range []int{300, 5000} {
			sub(&ErrSpec{Sent: []int{2}, Pos: pos, Pad: n, Lead: 3})
			ret(&ErrSpec{Sent: []int{6}, Pos: pos, Pad: n, Lead: 3})
		}
	}
	for k := 5; k <= 13; k++ {
		for d := -1; d <= 1; d++ {
			for path, idx := range []int{3, 6} {
				e := &ErrSpec{Sent: []int{idx}, Pos: "end", PadOff: k}
				if n := (1<<k + d) - len(e.build().Error()); n > 0 {
					e.Pad = n
				}
				if path == 0 {
					sub(e)
				} else {
					ret(e)
				}
			}
		}
	}
	add(Call{Kind: "retrieve", Height: 5, G: "ids", NIDs: 150, GetBatch: 2, GetErr: &ErrSpec{Opaque: "shard 7 unavailable", Pos: "end", Pad: 3000, Lead: 1}})
	add(Call{Kind: "retrieve", Height: 5, G: "ids", NIDs: 3, GetBatch: 1, GetErr: &ErrSpec{Sent: []int{0}, Pos: "mid", Pad: 700}})
	return js
}

func caseRng(seed int64, c int) *rand.Rand { return rand.New(rand.NewSource(seed*1000003 + int64(c))) }

func TestVerif(t *testing.T) {
	e := vgen.GetEnv()
	res := vgen.NewResult("C16", e)
	if err := checkSentinelSource(); err != nil {
		t.Fatalf("translator: %v", err)
	}
	rg, err := newRig()
	if err != nil {
		t.Fatalf("rig: %v", err)
	}
	defer rg.close()
	defaultMaxForGen = rg.defaultMax

	var jobs []job
	if e.Replay != "" {
		var rp Replay
		if err := vgen.LoadReplay(e.Replay, &rp); err != nil {
			t.Fatal(err)
		}
		jobs = append(jobs, job{rp.Seed, rp.Case, &rp.Call, false})
	} else {
		if os.Getenv("VERIF_NO_CORPUS") == "" {
			files, _ := filepath.Glob("../corpus/C16/*.json")
			sort.Strings(files)
			for _, f := range files {
				var rp Replay
				if vgen.LoadReplay(f, &rp) == nil && rp.Call.Kind != "" {
					jobs = append(jobs, job{rp.Seed, rp.Case, &rp.Call, false})
				}
			}
			// fixed part: every sentinel bare and wrapped, and cancellation, on both paths
			for i := range sentErrs {
				for _, pre := range []string{"", "failed to submit"} {
					jobs = append(jobs, job{0, 0, &Call{Kind: "submit", Sizes: []int{3, 4}, Max: 100, Resp: "err", Err: &ErrSpec{Sent: []int{i}, Prefix: pre}}, false})
					jobs = append(jobs, job{0, 0, &Call{Kind: "retrieve", Height: 5, G: "err", GErr: &ErrSpec{Sent: []int{i}, Prefix: pre}}, false})
				}
			}
			jobs = append(jobs, realSizeJobs(rg.defaultMax)...)
			jobs = append(jobs, longTextJobs()...)
			jobs = append(jobs, seqJobs()...)
			jobs = append(jobs, job{0, 0, &Call{Kind: "submit", Sizes: []int{3, 4}, Max: 100, Resp: "err", Err: &ErrSpec{Ctx: "canceled"}}, false})
			jobs = append(jobs, job{0, 0, &Call{Kind: "submit", Sizes: []int{3, 4}, Max: 100, Resp: "ok", Cancelled: true}, false})
			jobs = append(jobs, job{0, 0, &Call{Kind: "retrieve", Height: 5, G: "ids", NIDs: 3, Cancelled: true}, false})
		}
		for c := 0; c < e.N; c++ {
			jobs = append(jobs, job{seed: e.Seed, c: c})
		}
		for c := 0; c < e.N/4; c++ { // the sequence stream
			jobs = append(jobs, job{seed: e.Seed, c: c, seq: true})
		}
	}

	var cases []string
	distinct := map[string]bool{}
	for ji, j := range jobs {
		call := j.call
		if call == nil {
			c := genCall(caseRng(j.seed, j.c))
			if j.seq {
				c = genSeq(caseRng(j.seed, 500000+j.c))
			}
			call = &c
		}
		out := rg.run(call)
		res.Evaluations++
		res.Count("kind:" + call.Kind)
		if call.Kind == "submit" {
			res.Count("submit-backend:" + call.Resp)
			res.Count(fmt.Sprintf("submit-blobs:%s", bucket(len(call.Sizes))))
			if call.Real {
				res.Count("submit:real-size-production-limits")
			}
			if uint64(sum(call.Sizes)) > call.Max {
				res.Count("submit:batch-over-limit")
			} else if uint64(sum(call.Sizes)) == call.Max {
				res.Count("submit:batch-exactly-at-limit")
			}
			if call.Resp == "err" {
				countErr(res, "submit-err", call.Err)
			}
			res.Count("submit-direct-code:" + out.direct.Code)
			res.Count("submit-proxied-code:" + out.proxied.Code)
			countOversize(res, "submit", call.Sizes, call.Max)
		} else if call.Kind == "seq" {
			res.Count(fmt.Sprintf("seq-attempts:%d", len(call.Attempts)))
			res.Count(fmt.Sprintf("seq-blobs:%s", bucket(len(call.Sizes))))
			countOversize(res, "seq", call.Sizes, call.Max)
			offs := call.offsets()
			for i, a := range call.Attempts {
				res.Count("seq-attempt-backend:" + a.Resp)
				res.Count("seq-attempt-proxied-code:" + out.steps[i].proxied.Code)
				switch {
				case i == 0:
				case offs[i] != offs[i-1]:
					res.Count("seq-attempt:caller-moved-on-to-a-tail-of-the-slice")
				case a.sameScript(&call.Attempts[i-1]):
					res.Count("seq-attempt:retry-same-slice-same-backend-behaviour")
				default:
					res.Count("seq-attempt:retry-same-slice-other-backend-behaviour")
				}
				if a.Cancelled {
					res.Count("caller-context-cancelled")
				}
			}
		} else {
			res.Count("retrieve-backend:" + call.G)
			if call.G == "err" {
				countErr(res, "retrieve-err", call.GErr)
			}
			if call.GetBatch != 0 {
				res.Count("retrieve:get-fails")
			}
			if call.NIDs > 100 {
				res.Count("retrieve:more-than-one-batch")
			}
			res.Count("retrieve-proxied-code:" + out.proxied.Code)
		}
		if call.Cancelled {
			res.Count("caller-context-cancelled")
		}
		cc := callCoq(call)
		if !(call.Kind == "submit" && len(call.Sizes) == 0) {
			distinct[cc] = true
		}
		vs := oracle(call, out)
		seen := map[string]bool{}
		for _, v := range vs {
			if seen[v.sig] {
				continue
			}
			seen[v.sig] = true
			sh := shrink(rg, *call, v.sig)
			res.Violations = append(res.Violations, vgen.Violation{Signature: v.sig, What: v.what, Case: ji, Replay: Replay{Seed: j.seed, Case: j.c, Call: sh}})
		}
		cases = append(cases, caseCoq(call, out))
		res.Replays[fmt.Sprint(ji)] = Replay{Seed: j.seed, Case: j.c, Call: *call}
		if len(res.Samples) < 3 && ((call.Kind == "submit" && uint64(sum(call.Sizes)) > call.Max && len(res.Samples) == 0) || (call.Kind == "submit" && call.Resp == "err" && len(res.Samples) == 1) || (call.Kind == "retrieve" && len(res.Samples) == 2)) {
			res.Samples = append(res.Samples, map[string]interface{}{"call": call, "direct": out.direct, "proxied": out.proxied, "backend_log_proxied": out.plog})
		}
		if e.Replay != "" {
			fmt.Printf("replay: call=%+v\n direct =%+v\n proxied=%+v\n backend log direct=%v proxied=%v\n oracle=%v\n", *call, out.direct, out.proxied, out.dlog, out.plog, vs)
			fmt.Printf(" caller's array after the call: direct=%v proxied=%v\n", out.dmem, out.pmem)
			for i, st := range out.steps {
				fmt.Printf(" attempt %d (%+v):\n  direct =%+v received %v array after %v\n  proxied=%+v received %v array after %v\n", i+1, call.Attempts[i], st.direct, st.didlog, st.dmem, st.proxied, st.pidlog, st.pmem)
			}
		}
	}
	res.Distinct = len(distinct)
	res.Rule = "one case = one call pair (direct double vs the same double behind the real jsonrpc server+client on 127.0.0.1:0) through types.SubmitWithHelpers / types.RetrieveWithHelpers; submit: 0..20 blobs with sizes fitting / crossing / individually exceeding the client limit (1..1000), plus a real-size stream (server and client with production limits, default max blob size, totals at 50/75/90/99/100% and 100%+1 byte, 4-6 medium blobs trimmed to a near-full prefix; 17 fixed + ~1.4% of generated calls), backend answers ok / real DummyDA with its own limit / scripted error / no ids / fewer ids; retrieve: nil / empty / 1..260 ids (1-3 Get batches, optional failing batch) / scripted error; scripted errors: each of the 8 core/da sentinels bare, wrapped, joined, context.Canceled, context.DeadlineExceeded, opaque, texts that merely mention a sentinel; 45% of them inside a long context text (0..~8 KB: around 2^4..2^13 +-2, uniform, log-uniform; request-dump style with quotes, <, &, backslash, newline, tab and a hex dump) with the error last (%w at the end, the Go convention), in the middle or first; the TEXT of the error the helper is handed is recorded on both sides and compared with the model's (the wire keeps the whole text) and by the oracle (the backend's text arrives whole); 5% with the caller's context already cancelled; fixed part: every sentinel bare and wrapped on both paths, every sentinel behind 300 and 5000 bytes of context, messages of exactly 2^k-1, 2^k, 2^k+1 bytes (k=5..13) on both paths; after EVERY submit call the caller's whole array is compared byte for byte with a private copy of the batch (each side is handed an array of its own) and, as positions, with the memory model (Model/ProxyMem.v); sequence stream (N/4 generated + 21 fixed): 2..5 submissions on ONE slice as block/submitter.go submitToDA does (the same slice again after a failure, a tail of it after a partial success), batches with an individually oversize blob first / in the middle / last / twice among fitting ones, fitting batches, batches crossing the limit; per attempt the backing DA behaves as before or differently; compared per attempt: result, the blobs that reached the double (by identity = byte-equality with the original blob at a position), the caller's array; oracle: every attempt is a call pair with all the obligations of one, and a retry with the same slice meeting the same backend behaviour is answered like the attempt before; non-trivial = not the empty submit; distinct = distinct Coq call terms"
	res.Cases = len(cases)
	header := "From Coq Require Import String Ascii NArith List Bool.\nFrom Verif Require Import Model.Proxy Check.ProxyCheck."
	defs := []string{tableCoq(),
		"(* the hypotheses of the C16 theorems, discharged for the strings linked into this run *)",
		"Lemma live_table_ok : table_ok live_tbl = true.\nProof. vm_compute. reflexivity. Qed."}
	path := filepath.Join(e.Out, "cases_C16.v")
	if err := vgen.WriteCases(path, header, defs, "ccase", cases, "mismatches live_tbl"); err != nil {
		t.Fatal(err)
	}
	res.CaseFiles = []string{path}
	res.Extra["sentinel_table"] = func() map[string]string {
		m := map[string]string{}
		for i, v := range sentVars {
			m[v] = sentErrs[i].Error()
		}
		return m
	}()
	if err := res.Write(e.Out); err != nil {
		t.Fatal(err)
	}
}

// countOversize: where the individually oversize blobs of a batch stand, and whether a blob that fits follows one
func countOversize(res *vgen.Result, pfx string, sizes []int, max uint64) {
	first, n := -1, 0
	for i, s := range sizes {
		if uint64(s) > max {
			if first < 0 {
				first = i
			}
			n++
		}
	}
	if first < 0 {
		return
	}
	switch {
	case len(sizes) == 1:
		res.Count(pfx + ":oversize-blob-alone")
	case first == 0:
		res.Count(pfx + ":oversize-blob-first")
	case first == len(sizes)-1:
		res.Count(pfx + ":oversize-blob-last")
	default:
		res.Count(pfx + ":oversize-blob-in-the-middle")
	}
	if n > 1 {
		res.Count(pfx + ":several-oversize-blobs")
	}
	for _, s := range sizes[first+1:] {
		if uint64(s) <= max {
			res.Count(pfx + ":fitting-blob-after-an-oversize-one")
			break
		}
	}
}

func bucket(n int) string {
	switch {
	case n == 0:
		return "0"
	case n == 1:
		return "1"
	case n <= 6:
		return "2-6"
	}
	return "7+"
}

func countErr(res *vgen.Result, pfx string, e *ErrSpec) {
	for _, i := range e.Sent {
		res.Count(pfx + ":" + sentNames[i])
	}
	if e.Ctx != "" {
		res.Count(pfx + ":context." + e.Ctx)
	}
	if e.Prefix != "" || e.Suffix != "" {
		res.Count(pfx + ":wrapped")
	}
	if len(e.Sent) > 1 {
		res.Count(pfx + ":two-sentinels")
	}
	if !e.inDomain() {
		res.Count(pfx + ":outside-domain")
	}
	if e.Pos != "" {
		res.Count(pfx + ":long-context-error-at-" + e.Pos)
	}
	n := len(e.build().Error())
	switch {
	case n < 64:
		res.Count(pfx + "-text-bytes:0-63")
	case n < 256:
		res.Count(pfx + "-text-bytes:64-255")
	case n < 1024:
		res.Count(pfx + "-text-bytes:256-1023")
	case n < 4096:
		res.Count(pfx + "-text-bytes:1024-4095")
	default:
		res.Count(pfx + "-text-bytes:4096+")
	}
}
