// C05 correspondence harness: as C02 (real aggregator Manager produces the chain, a real syncing Manager
// runs the unmodified SyncLoop in a synctest bubble) with the recording datastore under the syncing node:
// for every event of a base history that applies blocks, and for EVERY prefix of the atomic datastore
// writes of that event (0 .. all), the process is killed there, a fresh Manager is booted on the image
// (cache files = those of the last clean shutdown), optionally killed again during start-up or during a
// later application, and all events are delivered again in a fresh order.
package c05

import (
	"fmt"
	"os"
	"path/filepath"
	"testing"

	"verif/harness/c02/syncdrv"
	"verif/harness/vgen"
)

type job struct {
	rp syncdrv.Replay
}

func genJobs(t *testing.T, seed int64, c int, tier, tmp string) []job {
	r := syncdrv.CaseRng(seed, c)
	max := 5
	if tier == "thorough" {
		max = 9
	}
	spec := syncdrv.GenChain(r, max, false)
	evs := syncdrv.GenEvents(r, spec, false)
	if r.Intn(3) == 0 {
		evs = syncdrv.InsertAt(evs, r.Intn(len(evs)+1), syncdrv.Item{T: "restart"})
	}
	chain, err := syncdrv.ChainFor(spec, tmp)
	if err != nil {
		t.Fatalf("producing the chain: %v", err)
	}
	base := syncdrv.RunCase(t, chain, spec, evs, tmp)
	var jobs []job
	for i, it := range evs {
		nw := len(base.Shapes[i+1])
		if nw == 0 || (it.T != "h" && it.T != "d") {
			continue
		}
		for k := 0; k <= nw; k++ {
			hist := append([]syncdrv.Item{}, evs[:i]...)
			hist = append(hist, syncdrv.Item{T: "crash" + it.T, I: it.I, Da: it.Da, K: k})
			if r.Intn(5) == 0 {
				hist = append(hist, syncdrv.Item{T: "crashboot", K: r.Intn(3)})
			}
			again := syncdrv.GenEvents(r, spec, false)
			// recurring crash: a second kill inside a later application
			if r.Intn(4) == 0 && len(again) > 0 {
				p := r.Intn(len(again))
				again[p] = syncdrv.Item{T: "crash" + again[p].T, I: again[p].I, Da: again[p].Da, K: r.Intn(7)}
				again = append(again, syncdrv.GenEvents(r, spec, false)...)
			}
			hist = append(hist, again...)
			jobs = append(jobs, job{rp: syncdrv.Replay{Seed: seed, Case: c, Chain: spec, History: hist}})
		}
	}
	return jobs
}

func violates(t *testing.T, spec syncdrv.ChainSpec, hist []syncdrv.Item, tmp, sig string) bool {
	c, err := syncdrv.ChainFor(spec, tmp)
	if err != nil {
		return false
	}
	r := syncdrv.RunCase(t, c, spec, hist, tmp)
	for _, v := range r.Viol {
		if v.Sig == sig {
			return true
		}
	}
	return false
}


// daStream runs the DA-ingress scenarios (real RetrieveLoop + SyncLoop on a scripted DA layer, stop at a
// generated instant, restart, converge).  Oracle only.
func daStream(t *testing.T, e *vgen.Env, res *vgen.Result, tmp string, crash bool, replay *syncdrv.DAScenario) {
	var scs []syncdrv.DAScenario
	if replay != nil {
		scs = append(scs, *replay)
	} else {
		n := 14
		if e.Tier == "thorough" {
			n = 120
		}
		for c := 0; c < n; c++ {
			sc := syncdrv.GenDAScenario(syncdrv.CaseRng(e.Seed+977, c))
			sc.Crash = crash
			scs = append(scs, sc)
		}
	}
	for _, sc := range scs {
		c, err := syncdrv.ChainFor(sc.Chain, tmp)
		if err != nil {
			t.Fatalf("producing the chain: %v", err)
		}
		r := syncdrv.RunDAScenario(t, c, sc, tmp)
		res.Evaluations++
		res.Count("da-ingress:scenarios")
		if r.StoppedAt {
			res.Count("da-ingress:stopped-right-after-a-commit")
		}
		if r.HeightEnd > r.HeightStop {
			res.Count("da-ingress:progress-after-restart")
		}
		scc := sc
		for _, v := range r.Viol {
			res.Violations = append(res.Violations, vgen.Violation{Signature: v.Sig, What: v.What, Case: -1,
				Replay: syncdrv.Replay{Seed: e.Seed, Case: -1, Chain: sc.Chain, DA: &scc}})
		}
	}
}

func TestVerif(t *testing.T) {
	e := vgen.GetEnv()
	res := vgen.NewResult("C05", e)
	tmp, err := os.MkdirTemp(e.Out, "c05tmp")
	if err != nil {
		t.Fatal(err)
	}
	defer os.RemoveAll(tmp)
	var jobs []job
	if e.Replay != "" {
		var rp syncdrv.Replay
		if err := vgen.LoadReplay(e.Replay, &rp); err != nil {
			t.Fatal(err)
		}
		if rp.DA != nil {
			daStream(t, e, res, tmp, true, rp.DA)
		} else {
			jobs = append(jobs, job{rp: rp})
		}
	} else {
		if os.Getenv("VERIF_NO_CORPUS") == "" {
			files, _ := filepath.Glob("../corpus/C05/*.json")
			for _, f := range files {
				var rp syncdrv.Replay
				if vgen.LoadReplay(f, &rp) == nil {
					jobs = append(jobs, job{rp: rp})
				}
			}
		}
		for c := 0; c < e.N; c++ {
			jobs = append(jobs, genJobs(t, e.Seed, c, e.Tier, tmp)...)
		}
	}
	if e.Replay == "" {
		daStream(t, e, res, tmp, true, nil)
	}
	var defs, cases []string
	defs = append(defs, syncdrv.BadCase)
	distinct := map[string]bool{}
	shrunk := map[string]bool{}
	for ji, j := range jobs {
		spec, hist := j.rp.Chain, j.rp.History
		c, err := syncdrv.ChainFor(spec, tmp)
		if err != nil {
			t.Fatalf("producing the chain: %v", err)
		}
		cr := syncdrv.RunCase(t, c, spec, hist, tmp)
		res.Evaluations++
		ncrash := 0
		for _, it := range hist {
			res.Count("item:" + it.T)
			switch it.T {
			case "crashh", "crashd":
				ncrash++
				res.Count(fmt.Sprintf("crash-after-writes:%02d", it.K))
			case "crashboot":
				ncrash++
			}
		}
		res.Count(fmt.Sprintf("crashes-in-history:%d", ncrash))
		if cr.BadCrash {
			res.Count("history:crash-at-write-index-1-of-an-application")
		}
		if cr.StaleFiles {
			res.Count("history:crash-with-cache-files-of-earlier-clean-stop")
		}
		if cr.Applied == len(c.Headers) {
			res.Count("outcome:fully-synced")
		} else {
			res.Count("outcome:partially-synced")
		}
		distinct[fmt.Sprintf("%v|%v", spec, hist)] = true
		for _, v := range cr.Viol {
			sig := v.Sig
			sh := hist
			if !shrunk[sig] { // shrink the first witness of each class only (cost)
				shrunk[sig] = true
				sh = vgen.Shrink(hist, func(h []syncdrv.Item) bool { return violates(t, spec, h, tmp, sig) })
			}
			res.Violations = append(res.Violations, vgen.Violation{Signature: sig, What: v.What, Case: ji,
				Replay: syncdrv.Replay{Seed: j.rp.Seed, Case: j.rp.Case, Chain: spec, History: sh}})
		}
		defs = append(defs, cr.CoqModule(ji))
		cases = append(cases, fmt.Sprintf("C%d.c", ji))
		res.Replays[fmt.Sprint(ji)] = j.rp
		if len(res.Samples) < 3 && ncrash > 1 {
			res.Samples = append(res.Samples, map[string]interface{}{"chain": spec, "history": hist, "applied": cr.Applied})
		}
	}
	res.Distinct = len(distinct)
	res.Rule = "VERIF_N base chains of 3..6 blocks (thorough ..10) with a base history as in C02 (1/3 with a clean restart, so cache files exist); for every event that applies blocks and EVERY prefix k of its atomic datastore writes: history = events before it, crash after k writes, (20%) a further crash during start-up, all events again in a fresh order, (25%) with a second crash inside a later application followed by all events again; distinct = distinct (chain, history) pairs; plus the DA-ingress scenario stream (real RetrieveLoop + SyncLoop on a scripted DA layer, stop right after a commit, restart, converge; oracle only)"
	res.Cases = len(cases)
	path := filepath.Join(e.Out, "cases_C05.v")
	if err := vgen.WriteCases(path, syncdrv.CoqHeader, defs, "scase", cases, "mismatches"); err != nil {
		t.Fatal(err)
	}
	res.CaseFiles = []string{path}
	if err := res.Write(e.Out); err != nil {
		t.Fatal(err)
	}
}
