// C09 correspondence harness: a real non-aggregator block.Manager (block.NewManager) on a scripted DA
// double.  The real RetrieveLoop runs unmodified in a testing/synctest bubble and is woken through
// m.VerifRetrieveCh(); processNextDAHeaderAndData is also called directly.  Observed: m.VerifDAHeight()
// after every item, the GetIDs/Get calls, the events taken from headerInCh/dataInCh, panics, and the
// DA-included marks of the caches.  The node is built with the chain's SignaturePayloadProvider (Replay.Scheme: the
// default or one of two chain-specific ones); genuine headers are signed over the payload it defines.  Writes cases_C09.v (Model/Retriever.v) and result.json (Go oracle).
// Tick scenario (genTickCase): long catch-up runs during which the DA double sends DA-block ticks on
// m.retrieveCh from inside GetIDs (= while an iteration runs and the continuation token is outstanding), so
// that the loop's select finds both of its channels ready; compared call by call with the two-channel loop
// model (Model/Retriever.v lturn, Check/RetrieverCheck.v drive), liveness oracle: the loop goes quiet only
// at a height it could not pass.
package c09

import (
	"bytes"
	"context"
	"crypto/sha256"
	"encoding/binary"
	"errors"
	"fmt"
	"math/rand"
	"os"
	"path/filepath"
	"runtime/debug"
	"strings"
	"testing"
	"testing/synctest"
	"time"

	ds "github.com/ipfs/go-datastore"
	dssync "github.com/ipfs/go-datastore/sync"
	logging "github.com/ipfs/go-log/v2"
	"github.com/libp2p/go-libp2p/core/crypto"
	"google.golang.org/protobuf/proto"

	"github.com/evstack/ev-node/block"
	coreda "github.com/evstack/ev-node/core/da"
	coreexec "github.com/evstack/ev-node/core/execution"
	"github.com/evstack/ev-node/pkg/config"
	"github.com/evstack/ev-node/pkg/genesis"
	"github.com/evstack/ev-node/pkg/store"
	"github.com/evstack/ev-node/types"
	pb "github.com/evstack/ev-node/types/pb/evnode/v1"

	"verif/harness/vgen"
)

const chainID = "c09"

// ---- replayable description of one case ----------------------------------------------------------

// Seg is a run of blobs of one class: H i (signed header i: 0..3 the proposer's, over the payload of the chain's
// SignaturePayloadProvider; 4,5 forgeries; 6,7 the proposer's signature over the payload of ANOTHER provider than
// the chain's), D i (signed data i), E (signed data without
// txs), N i (signed data i without Metadata), X i (the proposer's signature of data i over a tx list that
// differs from the posted one by one zero-length entry), J k (junk of kind k); junk runs may be long.
// The tx lists of the data blobs are boundary-heavy (genTxs): zero-length, one-byte, repeated and large
// transactions in every position, also lists of zero-length transactions only.  Items i below
// nHdr / nData are the proposer's own; the ones above are forgeries (foreign key, proposer's address
// claimed), which the code rejects since "fix: bind the signer's address to the signer's public key".
type Seg struct {
	C string `json:"c"`
	I int    `json:"i,omitempty"`
	N int    `json:"n,omitempty"` // count (junk only; 0 = 1)
}

// Out is one scripted fetch outcome: "listerr" (NF/Fut = text class), "nil", "chunkerr" (chunk I), "ok".
type Out struct {
	K   string `json:"k"`
	I   int    `json:"i,omitempty"`
	NF  bool   `json:"nf,omitempty"`
	Fut bool   `json:"fut,omitempty"`
	// Tick: while serving this outcome (inside GetIDs, i.e. while a loop iteration runs) the DA double sends a
	// DA-block tick: a non-blocking send on m.retrieveCh, what SyncLoop's daTicker does (tick scenario only)
	Tick bool `json:"tick,omitempty"`
}

type Height struct {
	Blobs []Seg `json:"blobs"`
	Outs  []Out `json:"outs"`
}

type Replay struct {
	Seed    int64    `json:"seed"`
	Case    int      `json:"case"`
	Stored  uint64   `json:"stored"` // DAHeight of a pre-stored state (0 = fresh store)
	Start   uint64   `json:"start"`  // config.DA.StartHeight
	SeenH   []int    `json:"seen_h"`
	SeenD   []int    `json:"seen_d"`
	DA      []Height `json:"da"`      // heights boot, boot+1, ...
	History []string `json:"history"` // "signal" | "proc"
	// Scheme: the chain's SignaturePayloadProvider (ManagerOptions.SignaturePayloadProvider), an index into
	// payloadProviders; 0 = types.DefaultSignaturePayloadProvider.  The node is built with it and the proposer's
	// genuine headers are signed over the payload it defines.
	Scheme int `json:"scheme,omitempty"`
	// Backpressure: instead of a scripted history, the back-pressure scenario (see runBackpressure)
	Backpressure bool `json:"backpressure,omitempty"`
	// Sched / Runs: the back-pressure scenario with a SCHEDULED consumer (see genSchedCase / runBackpressure):
	// Runs[k] = what DA height boot+k holds, as runs of genuine headers / genuine data; Sched = what the stand-in
	// for the sync loop does, round by round: it stays away for StallMs, then takes TakeH / TakeD events (-1 = all
	// there are).  Empty Sched = the fixed scenario of earlier replays (everything taken every 5 s).
	Sched []Round `json:"sched,omitempty"`
	Runs  [][]Run `json:"runs,omitempty"`
	// Ticks: the tick scenario (see genTickCase): a long DA, History = wake-ups sent while the loop is quiescent,
	// DA-block ticks arrive DURING the iterations (Out.Tick); checked against the two-channel loop model (lturn)
	Ticks bool `json:"ticks,omitempty"`
}

// Round: one round of the consumer of the event channels.
type Round struct {
	StallMs int `json:"stall_ms"`
	TakeH   int `json:"take_h"`
	TakeD   int `json:"take_d"`
}

// Run: N consecutive genuine blobs of one kind ("H" headers / "D" signed data) on a DA height.
type Run struct {
	K string `json:"k"`
	N int    `json:"n"`
}

func (rp *Replay) boot() uint64 {
	if rp.Stored > rp.Start {
		return rp.Stored
	}
	return rp.Start
}

// ---- pool: real keys, real signed headers / data, junk ----------------------------------------------

const (
	nHdr      = 4 // genuine headers 0..3; 4,5 = forgeries that claim the proposer's address (junk for the code)
	nHdrForge = 6 // 6,7 = signed by the proposer, but over the payload of another provider than the chain's
	nHdrAll   = 8
	nData     = 4 // genuine data 0..3; 4 = forgery claiming the proposer's address
	nDataAll  = 5
	nJunkKind = 16
)

type pool struct {
	gen      genesis.Genesis
	scheme   int // the chain's provider
	hdrBlob  [][]byte
	hdrHash  []string
	hdrSig   []int // per header id: the provider over whose payload the signature was made
	dataBlob [][]byte
	noMeta   [][]byte // same txs as dataBlob[i], Metadata absent
	dataHash []string
	empty    []byte
	junk     [][][]byte // per kind: variants
	// the transactions: a byte string is named by a number, 0 = the zero-length one, k+1 = txTable[k]
	txTable  [][]byte
	dataTxs  []string   // per data id: the posted tx list, as numbers joined by ';'
	tampered [][]byte   // per data id: the signature of dataBlob[i], but the tx list on the wire is tamperTxs[i]
	tamperTx []string   // (one zero-length entry inserted or removed)
	txKinds  [][]string // per data id: the kind of every transaction (statistics)
}

func (p *pool) txCode(b []byte) int {
	if len(b) == 0 {
		return 0
	}
	for i, t := range p.txTable {
		if bytes.Equal(t, b) {
			return i + 1
		}
	}
	return 999999 // a byte string nobody posted
}

func (p *pool) txStr(txs types.Txs) string {
	var sb []string
	for _, t := range txs {
		c := p.txCode(t)
		if c == 999999 && len(t) > 0 {
			p.txTable = append(p.txTable, append([]byte{}, t...))
			c = len(p.txTable)
		}
		sb = append(sb, fmt.Sprint(c))
	}
	return strings.Join(sb, ";")
}

// like txStr, but never extends the table: for what the implementation hands over
func (p *pool) txStrObserved(txs types.Txs) string {
	var sb []string
	for _, t := range txs {
		sb = append(sb, fmt.Sprint(p.txCode(t)))
	}
	return strings.Join(sb, ";")
}

// genTxs: 1-5 transactions, boundary-heavy, every kind in every position: zero-length (nil or empty slice),
// one byte (incl. 0x00), a repetition of an earlier transaction of the list, large, ordinary (8-31 random bytes)
func genTxs(r *rand.Rand, maxLarge int) (types.Txs, []string) {
	var txs types.Txs
	var kinds []string
	n := 1 + r.Intn(5)
	for t := 0; t < n; t++ {
		switch x := r.Intn(100); {
		case x < 26:
			if r.Intn(2) == 0 {
				txs = append(txs, nil)
			} else {
				txs = append(txs, []byte{})
			}
			kinds = append(kinds, "zero-length")
		case x < 38:
			b := rbytes(r, 1)
			if r.Intn(4) == 0 {
				b[0] = 0
			}
			txs = append(txs, b)
			kinds = append(kinds, "one-byte")
		case x < 52 && len(txs) > 0:
			txs = append(txs, append([]byte{}, txs[r.Intn(len(txs))]...))
			kinds = append(kinds, "repeated")
		case x < 60:
			sz := 1500 + r.Intn(3000)
			if sz > maxLarge {
				sz = maxLarge
			}
			if maxLarge > 100000 && r.Intn(4) == 0 {
				sz = 70000 + r.Intn(60000)
			}
			txs = append(txs, rbytes(r, sz))
			kinds = append(kinds, "large")
		default:
			txs = append(txs, rbytes(r, 8+r.Intn(24)))
			kinds = append(kinds, "ordinary")
		}
	}
	return txs, kinds
}

func rbytes(r *rand.Rand, n int) []byte { b := make([]byte, n); r.Read(b); return b }

func must(err error) {
	if err != nil {
		panic(err)
	}
}

type keyset struct {
	priv crypto.PrivKey
	sg   types.Signer
}

func newKey(r *rand.Rand) keyset {
	priv, pub, err := crypto.GenerateEd25519Key(r)
	must(err)
	sg, err := types.NewSigner(pub)
	must(err)
	return keyset{priv, sg}
}

func mkHeader(r *rand.Rand, height uint64, proposer []byte) types.Header {
	return types.Header{
		BaseHeader:      types.BaseHeader{Height: height, Time: uint64(r.Int63()), ChainID: chainID},
		Version:         types.Version{Block: 1, App: 2},
		LastHeaderHash:  rbytes(r, 32),
		LastCommitHash:  rbytes(r, 32),
		DataHash:        rbytes(r, 32),
		ConsensusHash:   rbytes(r, 32),
		AppHash:         rbytes(r, 32),
		LastResultsHash: rbytes(r, 32),
		ProposerAddress: proposer,
		ValidatorHash:   rbytes(r, 32),
	}
}

// Chain-specific signature payloads (ManagerOptions.SignaturePayloadProvider).  0 is the default (the header's
// protobuf bytes); 1 a domain-separated digest of them; 2 a canonical sign-bytes encoding of selected fields (the
// shape an ABCI-compatible chain uses).  Pure functions of the header; pairwise different payloads for every header.
var payloadProviders = []types.SignaturePayloadProvider{
	types.DefaultSignaturePayloadProvider,
	func(h *types.Header) ([]byte, error) {
		bz, err := h.MarshalBinary()
		if err != nil {
			return nil, err
		}
		sum := sha256.Sum256(append([]byte("c09/header/v1:"), bz...))
		return sum[:], nil
	},
	func(h *types.Header) ([]byte, error) {
		var b bytes.Buffer
		b.WriteString("sign-bytes|")
		b.WriteString(h.ChainID())
		var n [16]byte
		binary.BigEndian.PutUint64(n[:8], h.Height())
		binary.BigEndian.PutUint64(n[8:], h.BaseHeader.Time)
		b.Write(n[:])
		b.Write(h.Hash())
		b.Write(h.ProposerAddress)
		return b.Bytes(), nil
	},
}

var schemeNames = []string{"default", "custom-domain-separated-digest", "custom-canonical-sign-bytes"}

// signHeader signs h with k over the payload that provider scheme defines and names (addr, k.pub) as signer.
func signHeader(h types.Header, k keyset, signerAddr []byte, scheme int) *types.SignedHeader {
	bz, err := payloadProviders[scheme](&h)
	must(err)
	sig, err := k.priv.Sign(bz)
	must(err)
	return &types.SignedHeader{Header: h, Signature: sig, Signer: types.Signer{PubKey: k.sg.PubKey, Address: signerAddr}}
}

func signData(d types.Data, k keyset, signerAddr []byte) *types.SignedData {
	bz, err := d.MarshalBinary()
	must(err)
	sig, err := k.priv.Sign(bz)
	must(err)
	return &types.SignedData{Data: d, Signature: sig, Signer: types.Signer{PubKey: k.sg.PubKey, Address: signerAddr}}
}

func mb(x interface{ MarshalBinary() ([]byte, error) }) []byte {
	b, err := x.MarshalBinary()
	must(err)
	return b
}

// maxLarge bounds the size of a "large" transaction (the back-pressure scenario keeps > 20000 decoded copies alive)
func newPool(r *rand.Rand, maxLarge int, scheme int) *pool {
	p := &pool{scheme: scheme}
	prop := newKey(r)
	foreign := newKey(r)
	p.gen = genesis.NewGenesis(chainID, 1, time.Unix(1700000000, 0).UTC(), prop.sg.Address)

	for i := 0; i < nHdrForge; i++ { // the remaining ones are drawn at the end (the draws here stay as they were)
		k := prop
		if i >= nHdr {
			k = foreign // forged: foreign key, but header and signer both claim the proposer's address
		}
		sh := signHeader(mkHeader(r, uint64(1+r.Intn(50)), prop.sg.Address), k, prop.sg.Address, scheme)
		p.hdrBlob = append(p.hdrBlob, mb(sh))
		p.hdrHash = append(p.hdrHash, sh.Hash().String())
		p.hdrSig = append(p.hdrSig, scheme)
	}
	for i := 0; i < nDataAll; i++ {
		k := prop
		if i >= nData {
			k = foreign
		}
		// the commitment (= the id the caches and this harness know a Data by) is a function of the tx list:
		// the lists of the pool are pairwise distinct (redrawn otherwise)
		var txs types.Txs
		var kinds []string
		for try := 0; ; try++ {
			txs, kinds = genTxs(r, maxLarge)
			c := (&types.Data{Txs: txs}).DACommitment().String()
			dup := false
			for _, h := range p.dataHash {
				dup = dup || h == c
			}
			if !dup {
				break
			}
			if try > 1000 {
				panic("c09 harness: cannot draw pairwise distinct tx lists")
			}
		}
		d := types.Data{Metadata: &types.Metadata{ChainID: chainID, Height: uint64(1 + r.Intn(50)), Time: uint64(r.Int63()), LastDataHash: rbytes(r, 32)}, Txs: txs}
		sd := signData(d, k, prop.sg.Address)
		p.dataBlob = append(p.dataBlob, mb(sd))
		p.noMeta = append(p.noMeta, mb(signData(types.Data{Txs: txs}, k, prop.sg.Address)))
		p.dataHash = append(p.dataHash, d.DACommitment().String())
		p.dataTxs = append(p.dataTxs, p.txStr(txs))
		p.txKinds = append(p.txKinds, kinds)
		// the same signature, but one zero-length entry more or less on the wire
		var tw types.Txs
		at := -1
		for j, t := range txs {
			if len(t) == 0 && (at < 0 || r.Intn(2) == 0) {
				at = j
			}
		}
		if at >= 0 && r.Intn(2) == 0 {
			tw = append(append(types.Txs{}, txs[:at]...), txs[at+1:]...)
		} else {
			at = r.Intn(len(txs) + 1)
			tw = append(append(append(types.Txs{}, txs[:at]...), []byte{}), txs[at:]...)
		}
		tsd := *sd
		tsd.Data = types.Data{Metadata: d.Metadata, Txs: tw}
		p.tampered = append(p.tampered, mb(&tsd))
		p.tamperTx = append(p.tamperTx, p.txStr(tw))
	}
	for i := range p.dataHash {
		for j := 0; j < i; j++ {
			if p.dataHash[i] == p.dataHash[j] {
				panic("c09 harness: data commitments of the pool collide")
			}
		}
	}
	p.empty = mb(signData(types.Data{Metadata: &types.Metadata{ChainID: chainID, Height: 3, Time: 5}}, prop, prop.sg.Address))

	// ---- junk, by kind ----
	gh, gd := p.hdrBlob[0], p.dataBlob[0]
	cut := func(b []byte) [][]byte {
		var out [][]byte
		for _, n := range []int{1, 2, len(b) / 3, len(b) / 2, len(b) - 40, len(b) - 1} {
			if n > 0 && n < len(b) {
				out = append(out, append([]byte{}, b[:n]...))
			}
		}
		return out
	}
	flip := func(b []byte, at int) []byte { c := append([]byte{}, b...); c[at] ^= 0x41; return c }
	pm := func(m proto.Message) []byte { b, err := proto.Marshal(m); must(err); return b }
	fh := signHeader(mkHeader(r, 9, foreign.sg.Address), foreign, foreign.sg.Address, scheme) // valid, but another sequencer
	fhp := signHeader(mkHeader(r, 9, prop.sg.Address), foreign, foreign.sg.Address, scheme)   // proposer in header, signer = foreign
	ghd := signHeader(mkHeader(r, 9, prop.sg.Address), prop, prop.sg.Address, scheme)
	badsigH := *ghd
	badsigH.Signature = flip(ghd.Signature, 5)
	nosigH := *ghd
	nosigH.Signature = nil
	dd := types.Data{Metadata: &types.Metadata{ChainID: chainID, Height: 4, Time: 1}, Txs: types.Txs{rbytes(r, 9)}}
	fd := signData(dd, foreign, foreign.sg.Address)
	badsigD := signData(dd, prop, prop.sg.Address)
	badsigD.Signature = flip(badsigD.Signature, 7)
	nosigD := signData(dd, prop, prop.sg.Address)
	nosigD.Signature = nil
	// signed by the proposer over OTHER txs
	othersD := signData(dd, prop, prop.sg.Address)
	othersD.Txs = types.Txs{rbytes(r, 9)}
	secp, secpPub, err := crypto.GenerateSecp256k1Key(r)
	must(err)
	_ = secp
	secpBytes, err := crypto.MarshalPublicKey(secpPub)
	must(err)
	ghp, err := ghd.ToProto()
	must(err)
	withKey := func(key []byte) []byte {
		c := proto.Clone(ghp).(*pb.SignedHeader)
		c.Signer = &pb.Signer{Address: prop.sg.Address, PubKey: key}
		return pm(c)
	}
	gdp, err := signData(dd, prop, prop.sg.Address).ToProto()
	must(err)
	dWithKey := func(key []byte) []byte {
		c := proto.Clone(gdp).(*pb.SignedData)
		c.Signer = &pb.Signer{Address: prop.sg.Address, PubKey: key}
		return pm(c)
	}
	absurd := [][]byte{
		{0x0a, 0xff, 0xff, 0xff, 0xff, 0xff, 0xff, 0xff, 0xff, 0x7f, 0x01, 0x02},       // field 1, length 2^63-1
		{0x0a, 0xff, 0xff, 0xff, 0xff, 0xff, 0xff, 0xff, 0xff, 0xff, 0x01},             // over-long varint
		{0x12, 0xff, 0xff, 0xff, 0xff, 0x0f, 0x00},                                     // field 2, length 2^32-1
		{0x0a, 0x05, 0x12, 0xff, 0xff, 0xff, 0x7f},                                     // nested absurd length
		append([]byte{0x1a, 0x80, 0x80, 0x80, 0x80, 0x10}, rbytes(r, 16)...),           // field 3, length 2^32
		{0xff, 0xff, 0xff, 0xff, 0xff, 0xff, 0xff, 0xff, 0xff, 0xff, 0xff, 0xff, 0xff}, // tag overflow
		{0x0b, 0x0b, 0x0b, 0x0b, 0x0b, 0x0b},                                           // start-group tags, never closed
		{0x0f}, {0x08}, {0x0a},                                                         // reserved wire type / truncated varint / missing length
	}
	p.junk = [][][]byte{
		0:  {{}, nil},                                                                                                                                                                                                                                       // empty blob
		1:  {rbytes(r, 1), rbytes(r, 7), rbytes(r, 64), rbytes(r, 300), rbytes(r, 2000)},                                                                                                                                                                    // random bytes
		2:  cut(gh),                                                                                                                                                                                                                                         // truncated genuine header
		3:  cut(gd),                                                                                                                                                                                                                                         // truncated genuine signed data
		4:  absurd,                                                                                                                                                                                                                                          // absurd length fields / malformed varints
		5:  {pm(&pb.State{ChainId: chainID, InitialHeight: 1, LastBlockHeight: 7, DaHeight: 3, AppHash: rbytes(r, 32)}), pm(&pb.Batch{Txs: [][]byte{rbytes(r, 5), rbytes(r, 6)}}), mb(&ghd.Header), mb(&dd), pm(&pb.Metadata{ChainId: chainID, Height: 4})}, // other message types
		6:  {mb(fh)},                                                                                                                                                                                                                                        // valid header of another sequencer
		7:  {mb(fhp)},                                                                                                                                                                                                                                       // proposer's address in the header, foreign signer
		8:  {mb(&badsigH), mb(&nosigH)},                                                                                                                                                                                                                     // genuine header, signature corrupted / missing
		9:  {mb(fd)},                                                                                                                                                                                                                                        // signed data of another signer
		10: {mb(badsigD), mb(nosigD), mb(othersD)},                                                                                                                                                                                                          // genuine data: signature corrupted / missing / for other txs
		11: {withKey(secpBytes), dWithKey(secpBytes)},                                                                                                                                                                                                       // signer key of another key type (secp256k1), ed25519 signature
		12: {withKey(rbytes(r, 36)), withKey([]byte{8, 1, 18, 3, 1, 2, 3}), dWithKey(rbytes(r, 36)), dWithKey([]byte{8, 1, 18, 3, 1, 2, 3})},                                                                                                                // undecodable signer key
		13: {pm(&pb.SignedHeader{}), pm(&pb.SignedHeader{Header: &pb.Header{}}), pm(&pb.SignedData{Data: &pb.Data{Txs: [][]byte{{1}}}}), pm(&pb.SignedHeader{Signature: rbytes(r, 64)})},                                                                    // structurally valid, empty
		14: {append(append([]byte{}, gh...), 0x0a), append(append([]byte{}, gd...), 0xff, 0x01)},                                                                                                                                                            // genuine bytes with trailing garbage
		15: {[]byte("{\"header\":{}}"), []byte(strings.Repeat("\x00", 50)), []byte(strings.Repeat("\x0a\x00", 40))},                                                                                                                                         // text / zeros / repeated empty fields
	}
	// headers nHdrForge..: the proposer's own key and address, but the signature covers the payload of ANOTHER
	// provider than the chain's (on a custom chain: the default payload and the other custom one; on a default
	// chain: the two custom ones) — what a proposer configured for a different chain rule would post
	for i := nHdrForge; i < nHdrAll; i++ {
		other := (scheme + 1 + (i - nHdrForge)) % len(payloadProviders)
		sh := signHeader(mkHeader(r, uint64(1+r.Intn(50)), prop.sg.Address), prop, prop.sg.Address, other)
		p.hdrBlob = append(p.hdrBlob, mb(sh))
		p.hdrHash = append(p.hdrHash, sh.Hash().String())
		p.hdrSig = append(p.hdrSig, other)
	}
	return p
}

func (p *pool) junkBlob(kind, variant int) []byte {
	v := p.junk[kind]
	return v[variant%len(v)]
}

// blobs of one height, with their labels
type lblob struct {
	bz  []byte
	cls string // H D E N J
	id  int
}

func (p *pool) expand(segs []Seg) []lblob {
	var out []lblob
	for _, s := range segs {
		switch s.C {
		case "H":
			out = append(out, lblob{p.hdrBlob[s.I], "H", s.I})
		case "D":
			out = append(out, lblob{p.dataBlob[s.I], "D", s.I})
		case "E":
			out = append(out, lblob{p.empty, "E", 0})
		case "N":
			out = append(out, lblob{p.noMeta[s.I], "N", s.I})
		case "X":
			out = append(out, lblob{p.tampered[s.I], "X", s.I})
		case "J":
			n := s.N
			if n == 0 {
				n = 1
			}
			for v := 0; v < n; v++ {
				out = append(out, lblob{p.junkBlob(s.I, v), "J", s.I})
			}
		}
	}
	return out
}

// ---- scripted DA double -------------------------------------------------------------------------------

type daCall struct {
	Get     bool
	H       uint64
	Off, Ln int
	Served  string // getids: ok|nil|empty|nf|fut|err ; get: ok|err
	NIDs    int
	Item    int
}

type scriptDA struct {
	coreda.DA // everything not overridden panics (nil embedded interface): the retriever must not call it
	boot      uint64
	heights   [][]lblob
	outs      [][]Out
	used      []int
	cur       map[uint64]*Out // the attempt in progress per height
	log       []daCall
	item      int
	limit     int // more calls than any correct scan of this script can make: the scan runs away
	runaway   bool
	tickCh    chan struct{} // tick scenario: m.retrieveCh
	seen      [][2]bool     // tick scenario, per GetIDs call: (retrieveCh held a value on entry, a tick was sent during the call)
}

func errText(nf, fut bool, r int) error {
	switch {
	case nf && fut:
		return errors.New("blob: not found: given height is from the future")
	case nf:
		if r%2 == 0 {
			return fmt.Errorf("rpc: %w", coreda.ErrBlobNotFound)
		}
		return errors.New("wrapped (blob: not found) by a proxy")
	case fut:
		if r%2 == 0 {
			return fmt.Errorf("node says: %w", coreda.ErrHeightFromFuture)
		}
		return errors.New("given height is from the future")
	}
	return [...]error{errors.New("connection reset by peer"), context.DeadlineExceeded, errors.New("blob: temporarily unavailable"), errors.New("height is in the future")}[r%4]
}

func mkID(h uint64, i int) []byte {
	b := make([]byte, 12)
	binary.BigEndian.PutUint64(b, h)
	binary.BigEndian.PutUint32(b[8:], uint32(i))
	return b
}

func (d *scriptDA) GetIDs(ctx context.Context, h uint64, ns []byte) (*coreda.GetIDsResult, error) {
	c := daCall{H: h, Item: d.item}
	if len(d.log) > d.limit {
		d.runaway = true
		panic("c09 harness: runaway scan stopped by the DA double")
	}
	defer func() { d.log = append(d.log, c) }()
	if d.tickCh != nil {
		d.seen = append(d.seen, [2]bool{len(d.tickCh) == 1, false})
	}
	if h < d.boot || h-d.boot >= uint64(len(d.heights)) {
		c.Served = "fut"
		return nil, errText(false, true, len(d.log))
	}
	k := int(h - d.boot)
	o := Out{K: "listerr", Fut: true}
	if d.used[k] < len(d.outs[k]) {
		o = d.outs[k][d.used[k]]
		d.used[k]++
	}
	d.cur[h] = &o
	if o.Tick && d.tickCh != nil {
		// the DA-block tick of SyncLoop (sync.go: sendNonBlockingSignalToRetrieveCh), arriving while the iteration runs
		select {
		case d.tickCh <- struct{}{}:
		default:
		}
		d.seen[len(d.seen)-1][1] = true
	}
	switch o.K {
	case "listerr":
		c.Served = "err"
		if o.NF {
			c.Served = "nf"
		} else if o.Fut {
			c.Served = "fut"
		}
		return nil, errText(o.NF, o.Fut, len(d.log))
	case "nil":
		c.Served = "nil"
		return nil, nil
	}
	n := len(d.heights[k])
	c.NIDs = n
	c.Served = "ok"
	if n == 0 {
		c.Served = "empty"
	}
	ids := make([][]byte, n)
	for i := range ids {
		ids[i] = mkID(h, i)
	}
	return &coreda.GetIDsResult{IDs: ids, Timestamp: time.Unix(1700000000, 0)}, nil
}

func (d *scriptDA) Get(ctx context.Context, ids []coreda.ID, ns []byte) ([]coreda.Blob, error) {
	c := daCall{Get: true, Item: d.item, Ln: len(ids), Served: "ok"}
	defer func() { d.log = append(d.log, c) }()
	if len(ids) == 0 {
		c.Served = "err"
		return nil, errors.New("no ids")
	}
	c.H = binary.BigEndian.Uint64(ids[0])
	c.Off = int(binary.BigEndian.Uint32(ids[0][8:]))
	k := int(c.H - d.boot)
	o := d.cur[c.H]
	if o != nil && o.K == "chunkerr" && o.I == c.Off/100 {
		c.Served = "err"
		return nil, errText(o.NF, o.Fut, len(d.log))
	}
	out := make([][]byte, 0, len(ids))
	for j, id := range ids {
		i := int(binary.BigEndian.Uint32(id[8:]))
		if binary.BigEndian.Uint64(id) != c.H || i != c.Off+j || i >= len(d.heights[k]) {
			c.Served = "err"
			return nil, errors.New("bad id")
		}
		out = append(out, d.heights[k][i].bz)
	}
	return out, nil
}

// ---- running one case against the real Manager --------------------------------------------------------

type evt struct {
	ID int
	H  uint64
	Tx string // data events: the transactions the event carried, as numbers (pool.txCode) joined by ';'
}

func (p *pool) dataEvt(e block.NewDataEvent) evt {
	return evt{p.dataIDOf(e.Data.DACommitment().String()), e.DAHeight, p.txStrObserved(e.Data.Txs)}
}

type itemObs struct {
	Cursor  uint64
	Calls   []daCall
	HEv     []evt
	DEv     []evt
	Res     int // 0 nil / alive, 1 future, 2 error, 3 panic / dead
	Panic   string
	Stalled bool
	Seen    [][2]bool // tick scenario: the DA double's per-GetIDs-call record
}

type caseResult struct {
	obs     []itemObs
	marks   []string
	viol    []string
	what    []string
	err     error
	runaway bool
	hmarks  []int64 // per header id: DA-included height or -1
	dmarks  []int64
}

var sharedRoot string
var theLogger = logging.Logger("c09")

func newManager(ctx context.Context, p *pool, rp *Replay, da coreda.DA) (*block.Manager, error) {
	cfg := config.DefaultConfig
	cfg.RootDir = sharedRoot
	cfg.DA.StartHeight = rp.Start
	st := store.New(dssync.MutexWrap(ds.NewMapDatastore()))
	if rp.Stored > 0 {
		if err := st.UpdateState(ctx, types.State{ChainID: chainID, InitialHeight: 1, LastBlockHeight: 1, LastBlockTime: time.Unix(1700000001, 0), DAHeight: rp.Stored, AppHash: []byte{1}}); err != nil {
			return nil, err
		}
	}
	// non-aggregator: no signer; the chain's signature payload provider
	opts := block.DefaultManagerOptions()
	opts.SignaturePayloadProvider = payloadProviders[rp.Scheme]
	return block.NewManager(ctx, nil, cfg, p.gen, st, coreexec.NewDummyExecutor(), nil, da, theLogger, nil, nil, nil, nil, block.NopMetrics(), 1, 1, opts)
}

func (p *pool) hdrIDOf(hash string) int {
	for i, h := range p.hdrHash {
		if h == hash {
			return i
		}
	}
	return 999999
}
func (p *pool) dataIDOf(hash string) int {
	for i, h := range p.dataHash {
		if h == hash {
			return i
		}
	}
	return 999999
}

func runCase(t *testing.T, p *pool, rp *Replay) *caseResult {
	res := &caseResult{}
	synctest.Test(t, func(t *testing.T) {
		ctx, cancel := context.WithCancel(context.Background())
		defer cancel()
		da := &scriptDA{boot: rp.boot(), cur: map[uint64]*Out{}}
		total := 0
		for _, h := range rp.DA {
			da.heights = append(da.heights, p.expand(h.Blobs))
			da.outs = append(da.outs, h.Outs)
			total += len(h.Outs)
		}
		da.used = make([]int, len(rp.DA))
		nticks := 0
		for _, h := range rp.DA {
			for _, o := range h.Outs {
				if o.Tick {
					nticks++
				}
			}
		}
		da.limit = 12*(total+len(rp.DA)+len(rp.History)+nticks) + 200
		defer func() { res.runaway = da.runaway }()
		m, err := newManager(ctx, p, rp, da)
		if err != nil {
			res.err = err
			return
		}
		for _, i := range rp.SeenH {
			m.HeaderCache().SetSeen(p.hdrHash[i])
		}
		for _, i := range rp.SeenD {
			m.DataCache().SetSeen(p.dataHash[i])
		}
		if rp.Ticks {
			da.tickCh = m.VerifRetrieveCh()
		}
		dead := false
		panicMsg := ""
		done := make(chan struct{})
		go func() {
			defer close(done)
			defer func() {
				if x := recover(); x != nil {
					dead = true
					panicMsg = fmt.Sprint(x) + "\n" + firstFrames(string(debug.Stack()))
				}
			}()
			m.RetrieveLoop(ctx)
		}()
		synctest.Wait()
		settle := time.Duration(total+len(rp.History)*2+30) * 150 * time.Millisecond
		for it, kind := range rp.History {
			da.item = it
			mark := len(da.log)
			markSeen := len(da.seen)
			o := itemObs{}
			switch kind {
			case "signal":
				wasDead := dead
				if !dead {
					select {
					case m.VerifRetrieveCh() <- struct{}{}:
					default:
					}
					time.Sleep(settle)
					synctest.Wait()
					if !dead && len(m.VerifRetrieveCh()) != 0 {
						o.Stalled = true
					}
				}
				if dead {
					o.Res = 3
					if !wasDead {
						o.Panic = panicMsg
					}
				}
			case "proc":
				func() {
					defer func() {
						if x := recover(); x != nil {
							o.Res = 3
							o.Panic = fmt.Sprint(x) + "\n" + firstFrames(string(debug.Stack()))
						}
					}()
					err := m.VerifProcessNextDAHeaderAndData(ctx)
					switch {
					case err == nil:
						o.Res = 0
					case strings.Contains(err.Error(), coreda.ErrHeightFromFuture.Error()):
						o.Res = 1
					default:
						o.Res = 2
					}
				}()
				synctest.Wait()
			}
			o.Cursor = m.VerifDAHeight()
			o.Calls = append([]daCall{}, da.log[mark:]...)
			o.Seen = append([][2]bool{}, da.seen[markSeen:]...)
		drain:
			for {
				select {
				case e := <-m.VerifHeaderInCh():
					o.HEv = append(o.HEv, evt{p.hdrIDOf(e.Header.Hash().String()), e.DAHeight, ""})
				case e := <-m.VerifDataInCh():
					o.DEv = append(o.DEv, p.dataEvt(e))
				default:
					break drain
				}
			}
			res.obs = append(res.obs, o)
		}
		for _, h := range p.hdrHash {
			if v, ok := m.HeaderCache().GetDAIncludedHeight(h); ok {
				res.hmarks = append(res.hmarks, int64(v))
			} else {
				res.hmarks = append(res.hmarks, -1)
			}
		}
		for _, h := range p.dataHash {
			if v, ok := m.DataCache().GetDAIncludedHeight(h); ok {
				res.dmarks = append(res.dmarks, int64(v))
			} else {
				res.dmarks = append(res.dmarks, -1)
			}
		}
		cancel()
		<-done
	})
	if res.err == nil {
		oracle(p, rp, res)
	}
	return res
}

// ---- back-pressure scenario ---------------------------------------------------------------------------
//
// More genuine blobs than the event channels hold (cap(headerInCh) = cap(dataInCh) = 10000) are put on
// three DA heights; the real RetrieveLoop is woken with NO consumer on the channels and runs until it
// blocks; only then the channels are drained (the blocked send continues).  Oracle: every genuine blob
// was handed over exactly once and in DA order, and at the moment the loop was blocked the cursor had not
// passed a height whose blobs were not all handed over.  This is outside the Coq model (which has no
// channel capacity): oracle only.
func runBackpressure(t *testing.T, p *pool, rp *Replay) (viol, what []string, stats map[string]int) {
	stats = map[string]int{}
	fail := func(sig, w string) {
		for _, s := range viol {
			if s == sig {
				return
			}
		}
		viol = append(viol, sig)
		what = append(what, w)
	}
	r := caseRng(rp.Seed, rp.Case+7777)
	layout := [][]Seg{}
	counts := []int{6300 + r.Intn(900), 8300 + r.Intn(900), 900 + r.Intn(300)}
	for hi, n := range counts {
		var segs []Seg
		for i := 0; i < n; i++ {
			switch {
			case hi == 1 && i%2 == 1:
				segs = append(segs, Seg{C: "D", I: r.Intn(nData)})
			case hi == 2 && i%7 == 3:
				segs = append(segs, Seg{C: "J", I: 1 + r.Intn(nJunkKind-1), N: 1})
			case hi == 2:
				segs = append(segs, Seg{C: "D", I: r.Intn(nData)})
			default:
				segs = append(segs, Seg{C: "H", I: r.Intn(nHdr)})
			}
		}
		layout = append(layout, segs)
	}
	// height 1 gets enough extra data to overflow dataInCh as well (together with height 2)
	for i := 0; i < 6500; i++ {
		layout[1] = append(layout[1], Seg{C: "D", I: r.Intn(nData)})
	}
	const boot = 50
	var wantH, wantD []evt
	perH, perD := make([]int, len(layout)), make([]int, len(layout))
	synctest.Test(t, func(t *testing.T) {
		ctx, cancel := context.WithCancel(context.Background())
		defer cancel()
		da := &scriptDA{boot: boot, cur: map[uint64]*Out{}, limit: 1 << 30}
		for k, segs := range layout {
			bl := p.expand(segs)
			da.heights = append(da.heights, bl)
			da.outs = append(da.outs, []Out{{K: "ok"}})
			for _, b := range bl {
				if b.cls == "H" {
					wantH = append(wantH, evt{b.id, boot + uint64(k), ""})
					perH[k]++
				}
				if b.cls == "D" {
					wantD = append(wantD, evt{b.id, boot + uint64(k), p.dataTxs[b.id]})
					perD[k]++
				}
			}
		}
		da.used = make([]int, len(layout))
		m, err := newManager(ctx, p, &Replay{Start: boot, Scheme: rp.Scheme}, da)
		if err != nil {
			fail("harness-error", err.Error())
			return
		}
		capH, capD := cap(m.VerifHeaderInCh()), cap(m.VerifDataInCh())
		stats["chain-signature-payload-provider"] = rp.Scheme
		stats["cap-header-ch"], stats["cap-data-ch"] = capH, capD
		stats["genuine-headers-on-da"], stats["genuine-data-on-da"] = len(wantH), len(wantD)
		if len(wantH) <= capH || len(wantD) <= capD {
			fail("harness-error", fmt.Sprintf("scenario too small for the channel capacities %d/%d", capH, capD))
			return
		}
		dead := ""
		done := make(chan struct{})
		go func() {
			defer close(done)
			defer func() {
				if x := recover(); x != nil {
					dead = fmt.Sprint(x) + "\n" + firstFrames(string(debug.Stack()))
				}
			}()
			m.RetrieveLoop(ctx)
		}()
		m.VerifRetrieveCh() <- struct{}{}
		var gotH, gotD []evt
		blockedRounds := 0
		for round := 0; round < 200; round++ {
			time.Sleep(5 * time.Second)
			synctest.Wait() // the loop is idle, dead, or blocked in a channel send
			cursor := m.VerifDAHeight()
			lh, ld := len(m.VerifHeaderInCh()), len(m.VerifDataInCh())
			if lh == capH || ld == capD {
				blockedRounds++
			}
			// nothing may be lost up to here: everything of the heights below the cursor has been handed over
			needH, needD := 0, 0
			for k := range layout {
				if boot+uint64(k) < cursor {
					needH += perH[k]
					needD += perD[k]
				}
			}
			if len(gotH)+lh < needH || len(gotD)+ld < needD {
				fail("cursor-passed-unhanded-height-under-backpressure", fmt.Sprintf("cursor %d: heights below it hold %d headers / %d data, but only %d / %d were handed over so far", cursor, needH, needD, len(gotH)+lh, len(gotD)+ld))
			}
			if lh == 0 && ld == 0 {
				break
			}
			for i := 0; i < lh; i++ {
				e := <-m.VerifHeaderInCh()
				gotH = append(gotH, evt{p.hdrIDOf(e.Header.Hash().String()), e.DAHeight, ""})
			}
			for i := 0; i < ld; i++ {
				e := <-m.VerifDataInCh()
				gotD = append(gotD, p.dataEvt(e))
			}
		}
		stats["rounds-blocked-on-full-channel"] = blockedRounds
		stats["headers-handed"], stats["data-handed"] = len(gotH), len(gotD)
		if dead != "" {
			fail("panic-under-backpressure", dead)
		}
		if blockedRounds == 0 && len(gotH) == len(wantH) && len(gotD) == len(wantD) {
			fail("harness-error", "the channels never filled up: the scenario did not exercise back-pressure")
		}
		if msg := sameEvents(wantH, gotH); msg != "" {
			fail("genuine-blob-dropped-under-backpressure", "headers: "+msg)
		}
		if msg := sameEvents(wantD, gotD); msg != "" {
			fail("genuine-blob-dropped-under-backpressure", "data: "+msg)
		}
		if c := m.VerifDAHeight(); c != boot+uint64(len(layout)) {
			fail("stalled-under-backpressure", fmt.Sprintf("after draining, the cursor is %d, want %d", c, boot+len(layout)))
		}
		cancel()
		<-done
	})
	return
}

// ---- back-pressure with a scheduled consumer ------------------------------------------------------------
//
// The same situation with the consumer as an INPUT: the DA heights hold runs of genuine headers / data
// (rp.Runs; more than the channels hold), the stand-in for the sync loop follows rp.Sched: it stays away for
// StallMs (50 ms ... 20 min of virtual time: a sync loop that keeps up, one that executes a slow block, one
// that is stuck for minutes), then takes TakeH / TakeD events (a few, many, all, or none from one channel).
// When the schedule is used up the consumer takes everything once per second until nothing moves any more.
// At every round, with the loop quiescent (idle or blocked in a hand-off), the cursor and the fill of both
// channels are recorded: compared with the bounded hand-off model (Model/RetrieverQueue.v qrun) by
// Check/RetrieverQueueCheck.v, and judged by the Go oracle: nothing of a height below the cursor may be
// missing from what was handed over so far; at the end every genuine blob was handed over exactly once, in
// DA order, and the cursor is past the last height.
type qobs struct {
	Round                int
	StallMs, WantH, WantD int // the round as executed (-1 = all)
	Cursor               uint64
	LH, LD               int // fill of headerInCh / dataInCh with the loop quiescent, before the consumer takes
}

type schedResult struct {
	viol, what []string
	failRound  int // round at which the first violation was seen (-1: at the end)
	stats      map[string]int
	obs        []qobs
	capH, capD int
	err        string
}

func schedLayout(p *pool, rp *Replay) [][]Seg {
	r := caseRng(rp.Seed, rp.Case+7777)
	var layout [][]Seg
	for _, runs := range rp.Runs {
		var segs []Seg
		for _, ru := range runs {
			for i := 0; i < ru.N; i++ {
				if ru.K == "H" {
					segs = append(segs, Seg{C: "H", I: r.Intn(nHdr)})
				} else {
					segs = append(segs, Seg{C: "D", I: r.Intn(nData)})
				}
			}
		}
		layout = append(layout, segs)
	}
	return layout
}

func runSched(t *testing.T, p *pool, rp *Replay) *schedResult {
	sr := &schedResult{stats: map[string]int{}, failRound: -1}
	curRound := -1
	fail := func(sig, w string) {
		for _, s := range sr.viol {
			if s == sig {
				return
			}
		}
		if len(sr.viol) == 0 {
			sr.failRound = curRound
		}
		sr.viol = append(sr.viol, sig)
		sr.what = append(sr.what, w)
	}
	layout := schedLayout(p, rp)
	boot := rp.boot()
	var wantH, wantD []evt
	perH, perD := make([]int, len(layout)), make([]int, len(layout))
	synctest.Test(t, func(t *testing.T) {
		ctx, cancel := context.WithCancel(context.Background())
		defer cancel()
		da := &scriptDA{boot: boot, cur: map[uint64]*Out{}, limit: 1 << 30}
		for k, segs := range layout {
			bl := p.expand(segs)
			da.heights = append(da.heights, bl)
			da.outs = append(da.outs, []Out{{K: "ok"}})
			for _, b := range bl {
				if b.cls == "H" {
					wantH = append(wantH, evt{b.id, boot + uint64(k), ""})
					perH[k]++
				}
				if b.cls == "D" {
					wantD = append(wantD, evt{b.id, boot + uint64(k), p.dataTxs[b.id]})
					perD[k]++
				}
			}
		}
		da.used = make([]int, len(layout))
		m, err := newManager(ctx, p, &Replay{Start: rp.Start, Stored: rp.Stored, Scheme: rp.Scheme}, da)
		if err != nil {
			sr.err = err.Error()
			return
		}
		capH, capD := cap(m.VerifHeaderInCh()), cap(m.VerifDataInCh())
		sr.capH, sr.capD = capH, capD
		dead := ""
		done := make(chan struct{})
		go func() {
			defer close(done)
			defer func() {
				if x := recover(); x != nil {
					dead = fmt.Sprint(x) + "\n" + firstFrames(string(debug.Stack()))
				}
			}()
			m.RetrieveLoop(ctx)
		}()
		m.VerifRetrieveCh() <- struct{}{}
		var gotH, gotD []evt
		blocked, longBlocked := 0, 0
		for round := 0; round < len(rp.Sched)+400; round++ {
			curRound = round
			rd := Round{StallMs: 1000, TakeH: -1, TakeD: -1}
			if round < len(rp.Sched) {
				rd = rp.Sched[round]
			}
			time.Sleep(time.Duration(rd.StallMs) * time.Millisecond)
			synctest.Wait() // the loop is idle, dead, or blocked in a hand-off
			cursor := m.VerifDAHeight()
			lh, ld := len(m.VerifHeaderInCh()), len(m.VerifDataInCh())
			sr.obs = append(sr.obs, qobs{round, rd.StallMs, rd.TakeH, rd.TakeD, cursor, lh, ld})
			if lh == capH || ld == capD {
				blocked++
				if rd.StallMs > 30000 {
					longBlocked++
				}
			}
			needH, needD := 0, 0
			for k := range layout {
				if boot+uint64(k) < cursor {
					needH += perH[k]
					needD += perD[k]
				}
			}
			if len(gotH)+lh < needH || len(gotD)+ld < needD {
				fail("cursor-passed-unhanded-height-under-backpressure", fmt.Sprintf("round %d (consumer away for %d ms): cursor %d: heights below it hold %d headers / %d data, but only %d / %d were handed over so far", round, rd.StallMs, cursor, needH, needD, len(gotH)+lh, len(gotD)+ld))
			}
			if round >= len(rp.Sched) && lh == 0 && ld == 0 {
				break
			}
			nh, nd := lh, ld
			if rd.TakeH >= 0 && rd.TakeH < nh {
				nh = rd.TakeH
			}
			if rd.TakeD >= 0 && rd.TakeD < nd {
				nd = rd.TakeD
			}
			for i := 0; i < nh; i++ {
				e := <-m.VerifHeaderInCh()
				gotH = append(gotH, evt{p.hdrIDOf(e.Header.Hash().String()), e.DAHeight, ""})
			}
			for i := 0; i < nd; i++ {
				e := <-m.VerifDataInCh()
				gotD = append(gotD, p.dataEvt(e))
			}
		}
		curRound = -1
		sr.stats["rounds"] = len(sr.obs)
		sr.stats["rounds-with-a-full-channel"] = blocked
		sr.stats["rounds-with-a-full-channel-and-consumer-away-over-30s"] = longBlocked
		sr.stats["genuine-headers-on-da"], sr.stats["genuine-data-on-da"] = len(wantH), len(wantD)
		sr.stats["headers-handed"], sr.stats["data-handed"] = len(gotH), len(gotD)
		if dead != "" {
			fail("panic-under-backpressure", dead)
		}
		if msg := sameEvents(wantH, gotH); msg != "" {
			fail("genuine-blob-dropped-under-backpressure", "headers: "+msg)
		}
		if msg := sameEvents(wantD, gotD); msg != "" {
			fail("genuine-blob-dropped-under-backpressure", "data: "+msg)
		}
		if c := m.VerifDAHeight(); c != boot+uint64(len(layout)) {
			fail("stalled-under-backpressure", fmt.Sprintf("after draining, the cursor is %d, want %d", c, boot+uint64(len(layout))))
		}
		cancel()
		<-done
	})
	return sr
}

// genSchedCase: 3-5 DA heights holding together 10500-13000 genuine headers and as many genuine data (each
// more than a channel holds), in runs of 1-3 / 4-60 / 61-900 / 901-4000 blobs of one kind; 8-20 consumer
// rounds, the time away drawn per round from 50 ms-1 s / 1-10 s / 10-29 s / 31-120 s / 2-20 min, the number
// taken per channel from none / 1-50 / 51-2000 / all.
func genSchedCase(r *rand.Rand, seed int64, c int) *Replay {
	rp := &Replay{Seed: seed, Case: c, Backpressure: true, Scheme: genScheme(r), Start: uint64(1 + r.Intn(5000))}
	nh := 3 + r.Intn(3)
	left := map[string]int{"H": 10500 + r.Intn(2500), "D": 10500 + r.Intn(2500)}
	rp.Runs = make([][]Run, nh)
	k := "H"
	if r.Intn(2) == 0 {
		k = "D"
	}
	for left["H"] > 0 || left["D"] > 0 {
		if left[k] == 0 {
			if k == "H" {
				k = "D"
			} else {
				k = "H"
			}
		}
		n := 0
		switch x := r.Intn(10); {
		case x < 2:
			n = 1 + r.Intn(3)
		case x < 5:
			n = 4 + r.Intn(57)
		case x < 9:
			n = 61 + r.Intn(840)
		default:
			n = 901 + r.Intn(3100)
		}
		if n > left[k] {
			n = left[k]
		}
		left[k] -= n
		// any height: the runs of a height keep the order in which they were drawn
		h := r.Intn(nh)
		rp.Runs[h] = append(rp.Runs[h], Run{K: k, N: n})
		if k == "H" {
			k = "D"
		} else {
			k = "H"
		}
	}
	stall := func() int {
		switch r.Intn(5) {
		case 0:
			return 50 + r.Intn(950)
		case 1:
			return 1000 + r.Intn(9000)
		case 2:
			return 10000 + r.Intn(19000)
		case 3:
			return 31000 + r.Intn(89000)
		}
		return 120000 + r.Intn(1080000)
	}
	take := func() int {
		switch r.Intn(4) {
		case 0:
			return 0
		case 1:
			return 1 + r.Intn(50)
		case 2:
			return 51 + r.Intn(1950)
		}
		return -1
	}
	for i, n := 0, 8+r.Intn(13); i < n; i++ {
		rp.Sched = append(rp.Sched, Round{StallMs: stall(), TakeH: take(), TakeD: take()})
	}
	return rp
}

// shrinkSched: cut the schedule after the round that showed the violation, then make every earlier round short
func shrinkSched(t *testing.T, p *pool, rp *Replay, sr *schedResult, sig string) *Replay {
	has := func(x *schedResult) bool {
		for _, s := range x.viol {
			if s == sig {
				return true
			}
		}
		return false
	}
	cur := rp
	if sr.failRound >= 0 && sr.failRound+1 < len(rp.Sched) {
		c := *rp
		c.Sched = append([]Round{}, rp.Sched[:sr.failRound+1]...)
		if x := runSched(t, p, &c); x.err == "" && has(x) {
			cur = &c
		}
	}
	if len(cur.Sched) > 1 {
		c := *cur
		c.Sched = append([]Round{}, cur.Sched...)
		for i := 0; i+1 < len(c.Sched); i++ {
			c.Sched[i].StallMs = 100
		}
		if x := runSched(t, p, &c); x.err == "" && has(x) {
			cur = &c
		}
	}
	return cur
}

// qcaseCoq: the scheduled back-pressure case as a term of Check.RetrieverQueueCheck.qcase
func qcaseCoq(rp *Replay, sr *schedResult) string {
	var hs []string
	for _, runs := range rp.Runs {
		var rs []string
		for _, ru := range runs {
			rs = append(rs, fmt.Sprintf("(%v,%d)", ru.K == "H", ru.N))
		}
		hs = append(hs, "["+strings.Join(rs, ";")+"]")
	}
	var sched, obs []string
	for _, o := range sr.obs {
		th, td := o.WantH, o.WantD
		if th < 0 {
			th = sr.capH
		}
		if td < 0 {
			td = sr.capD
		}
		sched = append(sched, fmt.Sprintf("(%d,%d,%d)", o.StallMs, th, td))
		obs = append(obs, fmt.Sprintf("(%d,%d,%d)", o.Cursor, o.LH, o.LD))
	}
	return fmt.Sprintf("{| qc_cap_h := %d; qc_cap_d := %d; qc_boot := %d;\n     qc_heights := [%s];\n     qc_sched := [%s];\n     qc_obs := [%s] |}",
		sr.capH, sr.capD, rp.boot(), strings.Join(hs, ";\n       "), strings.Join(sched, ";"), strings.Join(obs, ";"))
}

func sameEvents(want, got []evt) string {
	if len(want) != len(got) {
		return fmt.Sprintf("%d genuine blobs on the DA, %d events handed over", len(want), len(got))
	}
	for i := range want {
		if want[i] != got[i] {
			return fmt.Sprintf("event %d is %v, want %v (exactly once, in DA order)", i, got[i], want[i])
		}
	}
	return ""
}

func firstFrames(s string) string {
	var keep []string
	for _, l := range strings.Split(s, "\n") {
		if strings.Contains(l, "/repo/") {
			keep = append(keep, strings.TrimSpace(l))
		}
		if len(keep) >= 4 {
			break
		}
	}
	return strings.Join(keep, " | ")
}

// ---- Go oracle: the property evaluated on what the implementation did ---------------------------------

type attempt struct {
	h      uint64
	item   int
	class  string // success | notfound | future | error | open (listed, Gets still running when the item ended)
	nids   int
	gets   []daCall
	listed bool
}

func (r *caseResult) fail(sig, what string) {
	for _, s := range r.viol {
		if s == sig {
			return
		}
	}
	r.viol = append(r.viol, sig)
	r.what = append(r.what, what)
}

func oracle(p *pool, rp *Replay, r *caseResult) {
	boot := rp.boot()
	if r.runaway {
		r.fail("runaway-scan", "the scan made more DA calls than the scripted DA can justify (it keeps advancing or retrying without waiting for a wake-up)")
	}
	content := func(h uint64) []lblob {
		if h < boot || h-boot >= uint64(len(rp.DA)) {
			return nil
		}
		return p.expand(rp.DA[h-boot].Blobs)
	}
	seenH, seenD := map[int]bool{}, map[int]bool{}
	for _, i := range rp.SeenH {
		seenH[i] = true
	}
	for _, i := range rp.SeenD {
		seenD[i] = true
	}
	var atts []*attempt
	for it, o := range r.obs {
		for _, c := range o.Calls {
			if !c.Get {
				a := &attempt{h: c.H, item: it, nids: c.NIDs}
				switch c.Served {
				case "nf", "nil", "empty":
					a.class = "notfound"
				case "fut":
					a.class = "future"
				case "err":
					a.class = "error"
				case "ok":
					a.class = "open"
					a.listed = true
				}
				atts = append(atts, a)
				continue
			}
			if len(atts) == 0 || !atts[len(atts)-1].listed || atts[len(atts)-1].h != c.H || atts[len(atts)-1].class != "open" {
				r.fail("chunking-wrong", fmt.Sprintf("Get for height %d ids %d+%d without a preceding successful listing of that height", c.H, c.Off, c.Ln))
				continue
			}
			a := atts[len(atts)-1]
			want := 0
			for _, g := range a.gets {
				want += g.Ln
			}
			if c.Off != want || c.Ln < 1 || c.Ln > 100 || (c.Ln < 100 && c.Off+c.Ln != a.nids) || c.Off+c.Ln > a.nids {
				r.fail("chunking-wrong", fmt.Sprintf("height %d with %d ids: Get of ids %d..%d after %d fetched", c.H, a.nids, c.Off, c.Off+c.Ln-1, want))
			}
			a.gets = append(a.gets, c)
			if c.Served == "err" {
				a.class = "error"
			} else if c.Off+c.Ln == a.nids {
				a.class = "success"
			}
		}
	}
	// start, order, no skip, retry
	for i, a := range atts {
		if i == 0 {
			if a.h != boot {
				r.fail("start-height-wrong", fmt.Sprintf("first examined height %d, want max(stored %d, configured %d)", a.h, rp.Stored, rp.Start))
			}
			continue
		}
		prev := atts[i-1]
		ok := prev.class == "success" || prev.class == "notfound"
		switch {
		case a.h == prev.h:
		case a.h == prev.h+1 && ok && rp.History[prev.item] == "signal":
		case a.h == prev.h+1:
			r.fail("advanced-after-failure", fmt.Sprintf("height %d examined after height %d whose last fetch was %s", a.h, prev.h, prev.class))
		default:
			r.fail("height-skipped", fmt.Sprintf("height %d examined right after height %d", a.h, prev.h))
		}
		if rp.History[prev.item] == "signal" && ok && r.obs[prev.item].Res != 3 && a.h != prev.h+1 {
			r.fail("stalled-after-success", fmt.Sprintf("height %d fetched (%s) in the loop but height %d examined next", prev.h, prev.class, a.h))
		}
	}
	// cursor after every item
	cur := boot
	ai := 0
	for it, o := range r.obs {
		var last *attempt
		for ai < len(atts) && atts[ai].item == it {
			last = atts[ai]
			ai++
		}
		if o.Cursor < cur {
			r.fail("cursor-decreased", fmt.Sprintf("item %d: cursor %d after %d", it, o.Cursor, cur))
		}
		if last == nil {
			if o.Cursor != cur {
				r.fail("cursor-moved-wrongly", fmt.Sprintf("item %d made no DA call but the cursor went %d -> %d", it, cur, o.Cursor))
			}
		} else {
			ok := (last.class == "success" || last.class == "notfound") && rp.History[it] == "signal" && o.Res != 3
			want := last.h
			if ok {
				want++
			}
			if o.Cursor != want {
				r.fail("cursor-moved-wrongly", fmt.Sprintf("item %d (%s): last fetch height %d was %s, cursor %d, want %d", it, rp.History[it], last.h, last.class, o.Cursor, want))
			}
		}
		cur = o.Cursor
		// liveness: the loop may only go quiet at a height it could not pass.  A loop iteration that passed its
		// height re-arms itself, so at quiescence the last thing the loop did is a FAILED examination (from the
		// future / error) of the height after the last passed one -- whatever ticks arrived meanwhile.
		if rp.History[it] == "signal" && o.Res != 3 && !r.runaway && last != nil && (last.class == "success" || last.class == "notfound") {
			r.fail("stalled-after-success", fmt.Sprintf("item %d: height %d was fetched (%s) in the loop, but the loop then went quiet without examining height %d (cursor %d); retrieveCh holds %d value(s)", it, last.h, last.class, last.h+1, o.Cursor, map[bool]int{false: 0, true: 1}[o.Stalled]))
		}
		if o.Stalled {
			r.fail("loop-stalled", fmt.Sprintf("item %d: the wake-up was not consumed", it))
		}
		if o.Res == 3 && o.Panic != "" && !r.runaway {
			sig := "panic-other"
			if last != nil {
				for _, b := range content(last.h) {
					if b.cls == "N" {
						sig = "panic-signed-data-without-metadata"
					}
				}
			}
			r.fail(sig, fmt.Sprintf("item %d (%s) at DA height %d: %s", it, rp.History[it], cur, o.Panic))
		}
		// every genuine, unseen blob of a successfully fetched height is handed over, in DA order
		var wantH, wantD []evt
		for _, a := range atts {
			if a.item != it || a.class != "success" {
				continue
			}
			for _, b := range content(a.h) {
				if b.cls == "H" && b.id < nHdr && !seenH[b.id] {
					wantH = append(wantH, evt{b.id, a.h, ""})
				}
				if b.cls == "D" && b.id < nData && !seenD[b.id] {
					wantD = append(wantD, evt{b.id, a.h, p.dataTxs[b.id]})
				}
			}
		}
		if !subseq(wantH, o.HEv) {
			r.fail("genuine-blob-not-handed", fmt.Sprintf("item %d: header events %v do not contain %v in order", it, o.HEv, wantH))
		}
		if !subseq(wantD, o.DEv) {
			r.fail("genuine-blob-not-handed", fmt.Sprintf("item %d: data events (id, DA height, txs) %v do not contain %v in order", it, o.DEv, wantD))
		}
		// what is handed over is what the proposer posted: a data event carries a tx list the proposer signed
		// (same number of transactions, zero-length ones included, same bytes, same order)
		for _, e := range o.DEv {
			if e.ID >= nData || e.Tx != p.dataTxs[e.ID] {
				r.fail("handed-data-not-as-posted", fmt.Sprintf("item %d: data event %v carries a tx list no genuine blob was posted with (posted: %v)", it, e, p.dataTxs[:nData]))
			}
		}
	}
}

func subseq(want, got []evt) bool {
	j := 0
	for _, g := range got {
		if j < len(want) && want[j] == g {
			j++
		}
	}
	return j == len(want)
}

// ---- generator -------------------------------------------------------------------------------------------

func genOut(r *rand.Rand, nblobs int) Out {
	nchunks := (nblobs + 99) / 100
	switch x := r.Intn(100); {
	case x < 22:
		return Out{K: "listerr"} // transient
	case x < 30:
		return Out{K: "listerr", NF: true}
	case x < 38:
		return Out{K: "listerr", Fut: true}
	case x < 40:
		return Out{K: "listerr", NF: true, Fut: true}
	case x < 44:
		return Out{K: "nil"}
	case x < 62:
		i := 0
		if nchunks > 0 {
			i = r.Intn(nchunks + 1) // may name a chunk that does not exist: then no failure
		}
		return Out{K: "chunkerr", I: i, NF: r.Intn(8) == 0, Fut: r.Intn(8) == 0}
	}
	return Out{K: "ok"}
}

func genSegs(r *rand.Rand, tier string, poison bool) []Seg {
	var segs []Seg
	switch x := r.Intn(10); {
	case x == 0:
		return nil // no ids at this height
	case x <= 2:
		// more than one chunk: bulk junk around a few real items
		parts := 2 + r.Intn(3)
		for i := 0; i < parts; i++ {
			segs = append(segs, Seg{C: "J", I: r.Intn(nJunkKind), N: 1 + r.Intn(130)})
			segs = append(segs, genItem(r, poison))
		}
		if r.Intn(3) == 0 {
			// exactly on a chunk boundary
			n := 0
			for _, s := range segs {
				if s.N == 0 {
					n++
				} else {
					n += s.N
				}
			}
			if pad := (100 - n%100) % 100; pad > 0 {
				segs = append(segs, Seg{C: "J", I: 1, N: pad})
			}
		}
	default:
		n := 1 + r.Intn(7)
		for i := 0; i < n; i++ {
			segs = append(segs, genItem(r, poison))
		}
	}
	return segs
}

func genItem(r *rand.Rand, poison bool) Seg {
	switch x := r.Intn(100); {
	case x < 28:
		return Seg{C: "H", I: r.Intn(nHdrAll)}
	case x < 54:
		return Seg{C: "D", I: r.Intn(nDataAll)}
	case x < 60:
		return Seg{C: "E"}
	case x < 63 && poison:
		return Seg{C: "N", I: r.Intn(nDataAll)} // incl. the forged one: admitted the same way
	case x >= 63 && x < 68:
		return Seg{C: "X", I: r.Intn(nData)}
	}
	return Seg{C: "J", I: r.Intn(nJunkKind), N: 1 + r.Intn(3)}
}

func genCase(r *rand.Rand, seed int64, c int, tier string) *Replay {
	rp := &Replay{Seed: seed, Case: c}
	starts := []uint64{0, 0, 1, 2, 7, 100, 1 << 20, 1<<32 - 1, 1 << 40, 1<<62 + 12345}
	rp.Start = starts[r.Intn(len(starts))]
	if r.Intn(4) == 0 {
		rp.Stored = []uint64{1, 5, 100, 1 << 20, 1 << 41}[r.Intn(5)]
	}
	for i := 0; i < nHdrAll; i++ {
		if r.Intn(6) == 0 {
			rp.SeenH = append(rp.SeenH, i)
		}
	}
	for i := 0; i < nDataAll; i++ {
		if r.Intn(6) == 0 {
			rp.SeenD = append(rp.SeenD, i)
		}
	}
	poison := r.Intn(6) == 0 // a share of cases contains metadata-less signed data (the fixed finding's class)
	nh := 1 + r.Intn(6)
	if tier == "thorough" {
		nh = 1 + r.Intn(12)
	}
	for i := 0; i < nh; i++ {
		h := Height{Blobs: genSegs(r, tier, poison)}
		nb := 0
		for _, s := range h.Blobs {
			if s.N == 0 {
				nb++
			} else {
				nb += s.N
			}
		}
		no := r.Intn(4)
		if r.Intn(10) == 0 {
			no = 9 + r.Intn(5) // long error runs: the 10-attempt limit
			for j := 0; j < no; j++ {
				h.Outs = append(h.Outs, Out{K: "listerr"})
			}
		} else {
			for j := 0; j < no; j++ {
				h.Outs = append(h.Outs, genOut(r, nb))
			}
		}
		if r.Intn(8) != 0 {
			h.Outs = append(h.Outs, Out{K: "ok"})
		}
		rp.DA = append(rp.DA, h)
	}
	ni := 1 + r.Intn(6)
	for i := 0; i < ni; i++ {
		if r.Intn(5) == 0 {
			rp.History = append(rp.History, "proc")
		} else {
			rp.History = append(rp.History, "signal")
		}
	}
	rp.Scheme = genScheme(r)
	return rp
}

// half of the chains sign headers over the default payload, the others over a chain-specific one
func genScheme(r *rand.Rand) int { return []int{0, 0, 1, 2}[r.Intn(4)] }

// ---- tick scenario: DA-block ticks arrive DURING a catch-up run -------------------------------------------
//
// A long DA (quick: 100-400 heights, thorough: up to 900), mostly empty heights (what a catching-up node sees)
// with some small non-empty ones, a few heights that need retries inside the iteration, a few that fail the
// whole iteration (ten errors, or "from the future" = the DA head of the moment) so that the loop goes quiet in
// the middle and is woken again.  The loop is woken by 1-3 signals, each sent while it is quiescent; the ticks
// are sent by the DA double from inside GetIDs, i.e. while an iteration runs and the continuation token is (about
// to be) outstanding: at the next select both channels are ready and the runtime takes either.  Tick density per
// case: one tick only / sparse / dense / every call.
func genTickCase(r *rand.Rand, seed int64, c int, tier string) *Replay {
	rp := &Replay{Seed: seed, Case: c, Ticks: true}
	rp.Start = []uint64{0, 1, 7, 100, 1 << 20}[r.Intn(5)]
	if r.Intn(5) == 0 {
		rp.Stored = []uint64{5, 100, 1 << 20}[r.Intn(3)]
	}
	for i := 0; i < nHdrAll; i++ {
		if r.Intn(8) == 0 {
			rp.SeenH = append(rp.SeenH, i)
		}
	}
	nh := 100 + r.Intn(301)
	if tier == "thorough" && r.Intn(3) == 0 {
		nh = 400 + r.Intn(501)
	}
	density := []int{0, 2, 10, 35, 100}[r.Intn(5)] // percent of outcomes that carry a tick; 0 = exactly one tick in the case
	pure := r.Intn(3) == 0                         // every height is served at once: an undisturbed catch-up to the DA head
	tick := func() bool { return density > 0 && r.Intn(100) < density }
	for i := 0; i < nh; i++ {
		h := Height{}
		if r.Intn(4) == 0 {
			n := 1 + r.Intn(3)
			for j := 0; j < n; j++ {
				h.Blobs = append(h.Blobs, genItem(r, false))
			}
		}
		if !pure {
			switch x := r.Intn(200); {
			case x < 12: // retries inside the iteration
				for j := 1 + r.Intn(3); j > 0; j-- {
					h.Outs = append(h.Outs, Out{K: "listerr", Tick: tick()})
				}
			case x < 14: // the height is not there yet: the iteration fails, the loop waits (or is re-woken by a buffered tick)
				for j := 1 + r.Intn(2); j > 0; j-- {
					h.Outs = append(h.Outs, Out{K: "listerr", Fut: true, Tick: tick()})
				}
			case x < 15: // ten errors in a row fail the iteration
				for j := 10 + r.Intn(3); j > 0; j-- {
					h.Outs = append(h.Outs, Out{K: "listerr", Tick: tick()})
				}
			case x < 19:
				h.Outs = append(h.Outs, Out{K: "listerr", NF: true, Tick: tick()}) // confirmed not-found: passes
				rp.DA = append(rp.DA, h)
				continue
			}
		}
		h.Outs = append(h.Outs, Out{K: "ok", Tick: tick()})
		rp.DA = append(rp.DA, h)
	}
	if density == 0 {
		k := r.Intn(nh * 3 / 4)
		rp.DA[k].Outs[len(rp.DA[k].Outs)-1].Tick = true
	}
	for i := 1 + r.Intn(4); i > 0; i-- {
		rp.History = append(rp.History, "signal")
	}
	rp.Scheme = genScheme(r)
	return rp
}

// the input of a tick case (what the distinct count is taken over: the observed part depends on the runtime's
// choices in select and differs between runs)
func tickInputKey(rp *Replay) string {
	var sb strings.Builder
	fmt.Fprintf(&sb, "%d/%d/%v/%d/s%d:", rp.Stored, rp.Start, rp.SeenH, len(rp.History), rp.Scheme)
	for _, h := range rp.DA {
		fmt.Fprintf(&sb, "%v%v;", h.Blobs, h.Outs)
	}
	return sb.String()
}

func isPlainEmpty(h Height) bool { return len(h.Blobs) == 0 && len(h.Outs) == 1 && h.Outs[0].K == "ok" }

func tcaseCoq(p *pool, rp *Replay, cr *caseResult) string {
	// DA: runs of empty heights served at once are written `repeat HE n`
	var da []string
	for i := 0; i < len(rp.DA); {
		j := i
		for j < len(rp.DA) && isPlainEmpty(rp.DA[j]) {
			j++
		}
		if j-i >= 2 {
			da = append(da, fmt.Sprintf("repeat HE %d", j-i))
			i = j
			continue
		}
		h := rp.DA[i]
		var segs []string
		for _, s := range h.Blobs {
			segs = append(segs, segCoq(p, s))
		}
		bl := "[]"
		if len(segs) > 0 {
			bl = strings.Join(segs, "++")
		}
		var outs []string
		for _, o := range h.Outs {
			outs = append(outs, outCoq(o))
		}
		da = append(da, fmt.Sprintf("[HI (%s) [%s]]", bl, strings.Join(outs, ";")))
		i++
	}
	if len(da) == 0 {
		da = []string{"[]"}
	}
	var segsOut []string
	for _, o := range cr.obs {
		// seen: runs of (false,false) are written `SN n`
		var seen []string
		for i := 0; i < len(o.Seen); {
			j := i
			for j < len(o.Seen) && !o.Seen[j][0] && !o.Seen[j][1] {
				j++
			}
			if j-i >= 2 {
				seen = append(seen, fmt.Sprintf("SN %d", j-i))
				i = j
				continue
			}
			seen = append(seen, fmt.Sprintf("[(%s,%s)]", vgen.Bool(o.Seen[i][0]), vgen.Bool(o.Seen[i][1])))
			i++
		}
		if len(seen) == 0 {
			seen = []string{"[]"}
		}
		// calls: runs of GetIDs h, h+1, ... (empty heights) are written `GI h n`
		var calls []string
		for i := 0; i < len(o.Calls); {
			c := o.Calls[i]
			if !c.Get {
				j := i
				for j < len(o.Calls) && !o.Calls[j].Get && o.Calls[j].H == c.H+uint64(j-i) {
					j++
				}
				if j-i >= 3 {
					// the last one of the run may be followed by its Get calls: keep it out of the run
					if j < len(o.Calls) && o.Calls[j].Get {
						j--
					}
					calls = append(calls, fmt.Sprintf("GI %d %d", c.H, j-i))
					i = j
					continue
				}
				calls = append(calls, fmt.Sprintf("[CGetIDs %d]", c.H))
			} else {
				calls = append(calls, fmt.Sprintf("[CGet %d %d %d]", c.H, c.Off, c.Ln))
			}
			i++
		}
		if len(calls) == 0 {
			calls = []string{"[]"}
		}
		segsOut = append(segsOut, fmt.Sprintf("{| ts_seen := %s;\n    ts_obs := OB %d (%s) %s %s %s %d |}", strings.Join(seen, "++"), o.Cursor, strings.Join(calls, "++"), evCoq(o.HEv), evCoq(o.DEv), dtxCoq(o.DEv), o.Res))
	}
	return fmt.Sprintf("{| tc_cfg := {| c_stored := %d; c_start := %d; c_seen_h := %s; c_seen_d := %s |};\n tc_scheme := %d;\n tc_da := %s;\n tc_segs := [%s] |}",
		rp.Stored, rp.Start, nlist(rp.SeenH), nlist(rp.SeenD), rp.Scheme, strings.Join(da, "++"), strings.Join(segsOut, ";\n  "))
}

// ---- Coq terms ----------------------------------------------------------------------------------------------

// The posts as the model is told them (Check/RetrieverCheck.v PH / PD / PX / JN): for SignedData blobs the tx
// list on the wire, Metadata present?, signed with the proposer's key?, the tx list the signature covers — the
// CLASS of such a blob is computed by the model (Model/Retriever.v classify_sd), not assigned here.
func segCoq(p *pool, s Seg) string {
	switch {
	case s.C == "H" && s.I >= nHdr && s.I < nHdrForge:
		return fmt.Sprintf("PHF %d %d", s.I, p.hdrSig[s.I]) // forged header claiming the proposer's address
	case s.C == "H":
		return fmt.Sprintf("PH %d %d", s.I, p.hdrSig[s.I]) // whether the node admits it is computed by the model
	case s.C == "D":
		return fmt.Sprintf("PD %d true %s [%s]", s.I, vgen.Bool(s.I < nData), p.dataTxs[s.I])
	case s.C == "E":
		return "PD 0 true true []"
	case s.C == "N":
		return fmt.Sprintf("PD %d false %s [%s]", s.I, vgen.Bool(s.I < nData), p.dataTxs[s.I])
	case s.C == "X":
		return fmt.Sprintf("PX %d [%s] [%s]", s.I, p.tamperTx[s.I], p.dataTxs[s.I])
	}
	n := s.N
	if n == 0 {
		n = 1
	}
	return fmt.Sprintf("JN %d %d", s.I, n)
}

func outCoq(o Out) string {
	switch o.K {
	case "listerr":
		return fmt.Sprintf("OListErr (E %s %s)", vgen.Bool(o.NF), vgen.Bool(o.Fut))
	case "nil":
		return "OListNil"
	case "chunkerr":
		return fmt.Sprintf("OChunkErr %d (E %s %s)", o.I, vgen.Bool(o.NF), vgen.Bool(o.Fut))
	}
	return "OOk"
}

func nlist(xs []int) string {
	var s []string
	for _, x := range xs {
		s = append(s, fmt.Sprint(x))
	}
	return "[" + strings.Join(s, ";") + "]"
}

func dtxCoq(es []evt) string {
	var s []string
	for _, e := range es {
		s = append(s, "["+e.Tx+"]")
	}
	return "[" + strings.Join(s, ";") + "]"
}

func evCoq(es []evt) string {
	var s []string
	for _, e := range es {
		s = append(s, fmt.Sprintf("(%d,%d)", e.ID, e.H))
	}
	return "[" + strings.Join(s, ";") + "]"
}

func caseCoq(p *pool, rp *Replay, cr *caseResult) string {
	var hs []string
	for _, h := range rp.DA {
		var segs []string
		for _, s := range h.Blobs {
			segs = append(segs, segCoq(p, s))
		}
		bl := "[]"
		if len(segs) > 0 {
			bl = strings.Join(segs, "++")
		}
		var outs []string
		for _, o := range h.Outs {
			outs = append(outs, outCoq(o))
		}
		hs = append(hs, fmt.Sprintf("HI (%s) [%s]", bl, strings.Join(outs, ";")))
	}
	var items, obs []string
	for _, k := range rp.History {
		if k == "signal" {
			items = append(items, "ISignal")
		} else {
			items = append(items, "IProc")
		}
	}
	for _, o := range cr.obs {
		var calls []string
		for _, c := range o.Calls {
			if c.Get {
				calls = append(calls, fmt.Sprintf("CGet %d %d %d", c.H, c.Off, c.Ln))
			} else {
				calls = append(calls, fmt.Sprintf("CGetIDs %d", c.H))
			}
		}
		obs = append(obs, fmt.Sprintf("OB %d [%s] %s %s %s %d", o.Cursor, strings.Join(calls, ";"), evCoq(o.HEv), evCoq(o.DEv), dtxCoq(o.DEv), o.Res))
	}
	var marks []string
	mk := func(isd bool, i int, v int64) {
		val := "None"
		if v >= 0 {
			val = fmt.Sprintf("(Some %d)", v)
		}
		marks = append(marks, fmt.Sprintf("(%s,%d,%s)", vgen.Bool(isd), i, val))
	}
	for i, v := range cr.hmarks {
		mk(false, i, v)
	}
	for i, v := range cr.dmarks {
		mk(true, i, v)
	}
	return fmt.Sprintf("{| rc_cfg := {| c_stored := %d; c_start := %d; c_seen_h := %s; c_seen_d := %s |};\n rc_scheme := %d;\n rc_da := [%s];\n rc_hist := [%s];\n rc_obs := [%s];\n rc_marks := [%s] |}",
		rp.Stored, rp.Start, nlist(rp.SeenH), nlist(rp.SeenD), rp.Scheme, strings.Join(hs, ";\n  "), strings.Join(items, ";"), strings.Join(obs, ";\n  "), strings.Join(marks, ";"))
}

// ---- shrinking ------------------------------------------------------------------------------------------------

func cloneRP(rp *Replay) *Replay {
	c := *rp
	c.DA = nil
	for _, h := range rp.DA {
		c.DA = append(c.DA, Height{Blobs: append([]Seg{}, h.Blobs...), Outs: append([]Out{}, h.Outs...)})
	}
	c.History = append([]string{}, rp.History...)
	c.SeenH = append([]int{}, rp.SeenH...)
	c.SeenD = append([]int{}, rp.SeenD...)
	return &c
}

// (the chain's provider rp.Scheme is not shrunk: the pool's headers are signed under it)
func shrink(t *testing.T, p *pool, rp *Replay, sig string) *Replay {
	fails := func(c *Replay) bool {
		r := runCase(t, p, c)
		if r.err != nil {
			return false
		}
		for _, s := range r.viol {
			if s == sig {
				return true
			}
		}
		return false
	}
	cur := cloneRP(rp)
	cur.History = vgen.Shrink(cur.History, func(h []string) bool { c := cloneRP(cur); c.History = h; return len(h) > 0 && fails(c) })
	// drop heights from the end
	for len(cur.DA) > 1 {
		c := cloneRP(cur)
		c.DA = c.DA[:len(c.DA)-1]
		if !fails(c) {
			break
		}
		cur = c
	}
	for k := range cur.DA {
		k := k
		cur.DA[k].Outs = vgen.Shrink(cur.DA[k].Outs, func(o []Out) bool { c := cloneRP(cur); c.DA[k].Outs = o; return fails(c) })
		cur.DA[k].Blobs = vgen.Shrink(cur.DA[k].Blobs, func(b []Seg) bool { c := cloneRP(cur); c.DA[k].Blobs = b; return fails(c) })
		for j := range cur.DA[k].Blobs {
			if cur.DA[k].Blobs[j].N > 1 {
				c := cloneRP(cur)
				c.DA[k].Blobs[j].N = 1
				if fails(c) {
					cur = c
				}
			}
		}
	}
	for _, f := range []func(c *Replay){func(c *Replay) { c.SeenH = nil }, func(c *Replay) { c.SeenD = nil }, func(c *Replay) { c.Stored = 0 }, func(c *Replay) { c.Start = 7 }} {
		c := cloneRP(cur)
		f(c)
		if fails(c) {
			cur = c
		}
	}
	return cur
}

// shrinkTicks: which channel select takes is the runtime's choice, so a candidate is tried a few times
func shrinkTicks(t *testing.T, p *pool, rp *Replay, sig string) *Replay {
	// a shrunk history is kept only if it fails five times out of five, so that the replay file fails reliably
	fails := func(c *Replay) bool {
		for try := 0; try < 5; try++ {
			r := runCase(t, p, c)
			if r.err != nil {
				return false
			}
			hit := false
			for _, s := range r.viol {
				if s == sig {
					hit = true
				}
			}
			if !hit {
				return false
			}
		}
		return true
	}
	cur := cloneRP(rp)
	for len(cur.History) > 1 {
		c := cloneRP(cur)
		c.History = c.History[:len(c.History)-1]
		if !fails(c) {
			break
		}
		cur = c
	}
	// fewer heights: cut from the end, then from the front (the start height moves along)
	for step := len(cur.DA) / 2; step >= 1; step /= 2 {
		for len(cur.DA) > step {
			c := cloneRP(cur)
			c.DA = c.DA[:len(c.DA)-step]
			if !fails(c) {
				break
			}
			cur = c
		}
	}
	// fewer ticks, plainer heights
	for k := range cur.DA {
		plain := false
		for _, o := range cur.DA[k].Outs {
			if o.Tick || o.K != "ok" {
				plain = true
			}
		}
		if !plain && len(cur.DA[k].Blobs) == 0 {
			continue
		}
		c := cloneRP(cur)
		c.DA[k] = Height{Outs: []Out{{K: "ok"}}}
		if fails(c) {
			cur = c
		}
	}
	for _, f := range []func(c *Replay){func(c *Replay) { c.SeenH = nil }, func(c *Replay) { c.SeenD = nil }, func(c *Replay) { c.Stored = 0 }} {
		c := cloneRP(cur)
		f(c)
		if fails(c) {
			cur = c
		}
	}
	return cur
}

func caseRng(seed int64, c int) *rand.Rand { return rand.New(rand.NewSource(seed*1000003 + int64(c))) }

func TestVerif(t *testing.T) {
	e := vgen.GetEnv()
	logging.SetAllLoggers(logging.LevelFatal)
	_ = logging.SetLogLevel("c09", "fatal")
	var err error
	sharedRoot, err = os.MkdirTemp(e.Out, "c09root")
	if err != nil {
		t.Fatal(err)
	}
	defer os.RemoveAll(sharedRoot)
	res := vgen.NewResult("C09", e)
	var jobs []*Replay
	if e.Replay != "" {
		var rp Replay
		if err := vgen.LoadReplay(e.Replay, &rp); err != nil {
			t.Fatal(err)
		}
		jobs = append(jobs, &rp)
	} else {
		if os.Getenv("VERIF_NO_CORPUS") == "" {
			files, _ := filepath.Glob("../corpus/C09/*.json")
			for _, f := range files {
				var rp Replay
				if vgen.LoadReplay(f, &rp) == nil && len(rp.History) > 0 {
					jobs = append(jobs, &rp)
				}
			}
		}
		// one back-pressure scenario per run (oracle only; not part of the Coq cases)
		jobs = append(jobs, &Replay{Seed: e.Seed, Case: 0, Backpressure: true, Scheme: genScheme(caseRng(e.Seed, 7776))})
		// back-pressure with a scheduled consumer: two cases per 300 (at least 2); part of the Coq cases
		nq := e.N / 150
		if nq < 2 {
			nq = 2
		}
		for c := 0; c < nq; c++ {
			jobs = append(jobs, genSchedCase(caseRng(e.Seed, 700000+c), e.Seed, 700000+c))
		}
		for c := 0; c < e.N; c++ {
			jobs = append(jobs, nil)
		}
		// tick scenario: one case per ten ordinary ones (at least 8)
		nt := e.N / 10
		if nt < 8 {
			nt = 8
		}
		for c := 0; c < nt; c++ {
			jobs = append(jobs, genTickCase(caseRng(e.Seed, 500000+c), e.Seed, 500000+c, e.Tier))
		}
	}
	var cases, tcases, qcases []string
	var tReplays, qReplays []*Replay
	tickHeights, tickTicks, tickBoth, tickIters := 0, 0, 0, 0
	distinct := map[string]bool{}
	gen := 0
	heights := 0
	for ji, rp := range jobs {
		if rp == nil {
			rp = genCase(caseRng(e.Seed, gen), e.Seed, gen, e.Tier)
			gen++
		}
		// the pool derives from (seed, case) only, so a shrunk history stays replayable
		maxLarge := 1 << 20
		if rp.Backpressure {
			maxLarge = 300
		}
		if rp.Scheme < 0 || rp.Scheme >= len(payloadProviders) {
			t.Fatalf("replay names signature payload provider %d, known: 0..%d", rp.Scheme, len(payloadProviders)-1)
		}
		p := newPool(rand.New(rand.NewSource(rp.Seed*7919+int64(rp.Case)+17)), maxLarge, rp.Scheme)
		res.Count("chain-signature-payload:" + schemeNames[rp.Scheme])
		if rp.Backpressure && len(rp.Sched) > 0 {
			sr := runSched(t, p, rp)
			if sr.err != "" {
				t.Fatalf("harness error: %s", sr.err)
			}
			res.Evaluations++
			res.Count("case:back-pressure-scheduled-consumer")
			for _, o := range sr.obs {
				if o.Round >= len(rp.Sched) {
					continue
				}
				full := o.LH == sr.capH || o.LD == sr.capD
				away := "under-1s"
				switch {
				case o.StallMs > 120000:
					away = "over-2min"
				case o.StallMs > 30000:
					away = "31s-2min"
				case o.StallMs >= 10000:
					away = "10-29s"
				case o.StallMs >= 1000:
					away = "1-10s"
				}
				res.Count(fmt.Sprintf("sched:round,consumer-away=%s,a-channel-full=%v", away, full))
			}
			for k, v := range sr.stats {
				res.Distribution["sched:"+k] += v
			}
			distinct["Q"+fmt.Sprint(rp.Runs, rp.Sched)] = true
			for vi, sig := range sr.viol {
				sh := shrinkSched(t, p, rp, sr, sig)
				res.Violations = append(res.Violations, vgen.Violation{Signature: sig, What: sr.what[vi], Case: ji, Replay: sh})
			}
			qcases = append(qcases, qcaseCoq(rp, sr))
			qReplays = append(qReplays, rp)
			continue
		}
		if rp.Backpressure {
			viol, what, stats := runBackpressure(t, p, rp)
			res.Evaluations++
			res.Count("case:back-pressure-scenario")
			res.Extra["back_pressure_scenario"] = stats
			for vi, sig := range viol {
				if sig == "harness-error" {
					t.Fatalf("harness error: %s", what[vi])
				}
				res.Violations = append(res.Violations, vgen.Violation{Signature: sig, What: what[vi], Case: ji, Replay: rp})
			}
			continue
		}
		cr := runCase(t, p, rp)
		if cr.err != nil {
			t.Fatalf("harness error: %v", cr.err)
		}
		res.Evaluations++
		if rp.Ticks {
			res.Count("case:tick-scenario")
			tickHeights += len(rp.DA)
			for _, h := range rp.DA {
				for _, o := range h.Outs {
					if o.Tick {
						tickTicks++
					}
				}
			}
			for _, o := range cr.obs {
				tickIters += len(o.Seen)
				// the i-th GetIDs call of the item belongs to Seen[i]
				var gh []uint64
				for _, c := range o.Calls {
					if !c.Get {
						gh = append(gh, c.H)
					}
				}
				for i := 1; i < len(o.Seen) && i < len(gh); i++ {
					// a call for the NEXT height: the previous iteration passed its height and re-armed the token;
					// if a tick was buffered or sent during it, select found BOTH channels ready: retrieveCh still
					// holding a value means it took the token, empty means it took the tick
					if gh[i] == gh[i-1]+1 && (o.Seen[i-1][0] || o.Seen[i-1][1]) {
						tickBoth++
						if o.Seen[i][0] {
							res.Count("tick:both-ready-select-took-token")
						} else {
							res.Count("tick:both-ready-select-took-tick")
						}
					}
				}
				res.Count(fmt.Sprintf("result:%d", o.Res))
			}
			distinct["T"+tickInputKey(rp)] = true
			for vi, sig := range cr.viol {
				sh := shrinkTicks(t, p, rp, sig)
				res.Violations = append(res.Violations, vgen.Violation{Signature: sig, What: cr.what[vi], Case: ji, Replay: sh})
			}
			tcases = append(tcases, tcaseCoq(p, rp, cr))
			tReplays = append(tReplays, rp)
			continue
		}
		heights += len(rp.DA)
		big, poisoned := false, false
		for _, h := range rp.DA {
			n := 0
			for _, s := range h.Blobs {
				res.Count("blob:" + s.C)
				if s.C == "H" {
					kind := "genuine"
					if s.I >= nHdrForge {
						kind = "proposer-signed-over-another-providers-payload"
					} else if s.I >= nHdr {
						kind = "forged"
					}
					res.Count("header:" + kind + ",chain-payload=" + schemeNames[rp.Scheme])
				}
				if s.C == "J" {
					res.Count(fmt.Sprintf("junk-kind:%02d", s.I))
				}
				if s.C == "N" {
					poisoned = true
				}
				if s.C == "D" && s.I < nData {
					ks := p.txKinds[s.I]
					for ti, k := range ks {
						res.Count("genuine-data-tx:" + k)
						if k == "zero-length" {
							switch {
							case len(ks) == 1:
								res.Count("genuine-data-zero-length-tx-at:only")
							case ti == 0:
								res.Count("genuine-data-zero-length-tx-at:first")
							case ti == len(ks)-1:
								res.Count("genuine-data-zero-length-tx-at:last")
							default:
								res.Count("genuine-data-zero-length-tx-at:middle")
							}
						}
					}
					allZero := true
					for _, k := range ks {
						allZero = allZero && k == "zero-length"
					}
					if allZero {
						res.Count("genuine-data-with-zero-length-txs-only")
					}
				}
				if s.N == 0 {
					n++
				} else {
					n += s.N
				}
			}
			if n > 100 {
				big = true
			}
			for _, o := range h.Outs {
				k := o.K
				if o.K == "listerr" || o.K == "chunkerr" {
					k += fmt.Sprintf(":nf=%v,fut=%v", o.NF, o.Fut)
				}
				res.Count("outcome:" + k)
			}
		}
		if big {
			res.Count("case:height-with-more-than-100-ids")
		}
		if poisoned {
			res.Count("case:contains-signed-data-without-metadata")
		}
		if rp.Stored > 0 {
			res.Count("case:stored-state-da-height")
		}
		for _, k := range rp.History {
			res.Count("item:" + k)
		}
		nev, ncalls := 0, 0
		for _, o := range cr.obs {
			nev += len(o.HEv) + len(o.DEv)
			ncalls += len(o.Calls)
			res.Count(fmt.Sprintf("result:%d", o.Res))
		}
		cc := caseCoq(p, rp, cr)
		if ncalls >= 3 && len(rp.DA) >= 2 {
			distinct[cc] = true
		}
		for vi, sig := range cr.viol {
			sh := shrink(t, p, rp, sig)
			res.Violations = append(res.Violations, vgen.Violation{Signature: sig, What: cr.what[vi], Case: ji, Replay: sh})
		}
		res.Replays[fmt.Sprint(len(cases))] = rp // keyed by the index the Coq check reports
		cases = append(cases, cc)
		if len(res.Samples) < 3 && nev > 1 && ncalls > 4 && len(rp.DA) <= 3 && !big {
			res.Samples = append(res.Samples, map[string]interface{}{"case": rp, "observed": cr.obs})
		}
	}
	res.Distribution["da-heights-scripted"] = heights
	res.Distribution["tick:da-heights-scripted"] = tickHeights
	res.Distribution["tick:ticks-scripted"] = tickTicks
	res.Distribution["tick:getids-calls"] = tickIters
	res.Distribution["tick:selects-with-both-channels-ready"] = tickBoth
	for i, rp := range tReplays {
		res.Replays[fmt.Sprint(len(cases)+i)] = rp // tick cases are numbered after the ordinary ones
	}
	for i, rp := range qReplays {
		res.Replays[fmt.Sprint(len(cases)+len(tReplays)+i)] = rp // scheduled back-pressure cases come last
	}
	res.Distinct = len(distinct)
	res.Rule = "real non-aggregator block.Manager (NewManager) on a scripted DA double; 1-6 (thorough 1-12) DA heights from max(stored, configured start), start heights from 0 to 2^62; per height 0-7 blobs or 100-500 blobs (several chunks, incl. exact multiples of 100) mixing real proposer-signed headers/data (ed25519; the tx list of a data blob has 1-5 transactions drawn per position from zero-length (26%), one byte (12%), repetition of an earlier one (14%), large 1.5-4.5 KB or 70-130 KB (8%), 8-31 random bytes (the rest) - lists of zero-length transactions only included; the tx lists of a case are pairwise distinct), the proposer's signature over a tx list that differs from the posted one by one zero-length entry (rejected), forgeries (foreign key claiming the proposer's address, rejected), signed data without txs / without metadata (ignored), and 16 kinds of junk (empty, random, truncated genuine, absurd length fields, other message types, foreign / corrupted / missing signatures, foreign key types, undecodable keys, trailing garbage, text); per height 0-4 scripted fetch outcomes (listing error with plain / not-found / from-the-future / both texts, nil listing, error on chunk i, ok) or runs of 9-13 errors, then usually ok; the node is built with the chain's SignaturePayloadProvider (ManagerOptions): the default one in half of the cases, otherwise one of two chain-specific ones (domain-separated SHA-256 digest of the header bytes; canonical sign-bytes encoding), the proposer's genuine headers and the forgeries are signed over the payload that provider defines, and two more header blobs per case carry the proposer's signature over the payload of ANOTHER provider than the chain's (not valid on this chain: rejected; the model computes admission from signer + signed payload + configured provider); histories of 1-6 items: wake-ups of the real RetrieveLoop under testing/synctest (80%) and direct calls of processNextDAHeaderAndData; some ids pre-marked seen. non-trivial = at least 3 DA calls and 2 heights; distinct = distinct Coq case terms; every data event is recorded with the tx list it carried (byte strings numbered per case, 0 = zero-length) and compared with the posted list by the oracle (handed-data-not-as-posted) and by the model (mismatch code 8)"
	res.Rule += "; PLUS the tick scenario (one case per ten, at least 8): 100-400 (thorough up to 900) DA heights, 3/4 empty, the rest 1-3 blobs, a third of the cases served at once throughout, otherwise 6% of the heights with 1-3 retried errors, 1% not yet there (from the future), 0.5% with 10-12 errors, 2% confirmed not-found; the loop is woken 1-4 times while quiescent and the DA double sends DA-block ticks (non-blocking sends on retrieveCh) from inside GetIDs, i.e. while iterations run and the continuation token is outstanding (one tick only / 2% / 10% / 35% / every call), so that select finds both channels ready and takes either; compared call by call with the two-channel loop model (lturn), liveness oracle: the loop goes quiet only at a height it could not pass; distinct for these = distinct scripted inputs"
	res.Rule += "; PLUS back-pressure with a scheduled consumer (two cases per 300, at least 2): 3-5 DA heights holding together 10500-13000 genuine headers and as many genuine data (more than the 10000 slots of headerInCh / dataInCh) in runs of 1-4000 blobs of one kind; the real RetrieveLoop is woken once and the stand-in for the sync loop follows a schedule of 8-20 rounds: away for 50 ms-1 s / 1-10 s / 10-29 s / 31-120 s / 2-20 min of virtual time, then takes none / 1-50 / 51-2000 / all events per channel; then it drains once per second; at every round (loop quiescent) cursor and fill of both channels are compared with the bounded hand-off model (qrun), and the Go oracle demands: nothing of a height below the cursor missing from what was handed over, at the end every genuine blob handed over exactly once in DA order and the cursor past the last height"
	res.Cases = len(cases) + len(tcases) + len(qcases)
	header := "From Coq Require Import NArith List Bool.\nFrom Verif Require Import Model.Retriever Check.RetrieverCheck Model.RetrieverQueue Check.RetrieverQueueCheck.\nOpen Scope N_scope."
	path := filepath.Join(e.Out, "cases_C09.v")
	if err := writeCases(path, header, cases, tcases, qcases); err != nil {
		t.Fatal(err)
	}
	res.CaseFiles = []string{path}
	if err := res.Write(e.Out); err != nil {
		t.Fatal(err)
	}
}

// like vgen.WriteCases but without opening string_scope (the model has no strings; N literals are bare)
func writeCases(path, header string, cases, tcases, qcases []string) error {
	var sb strings.Builder
	sb.WriteString(header)
	sb.WriteString("\nImport ListNotations.\nOpen Scope list_scope.\n")
	const chunk = 50
	var names []string
	for i := 0; i < len(cases); i += chunk {
		j := i + chunk
		if j > len(cases) {
			j = len(cases)
		}
		name := fmt.Sprintf("cases_%d", i/chunk)
		names = append(names, name)
		sb.WriteString(fmt.Sprintf("Definition %s : list rcase := [\n  %s\n].\n", name, strings.Join(cases[i:j], ";\n  ")))
	}
	all := "[]"
	if len(names) > 0 {
		all = strings.Join(names, " ++ ")
	}
	sb.WriteString(fmt.Sprintf("Definition cases : list rcase := %s.\n", all))
	// tick cases: numbered after the ordinary ones
	var tnames []string
	for i, c := range tcases {
		name := fmt.Sprintf("tcase_%d", i)
		tnames = append(tnames, name)
		sb.WriteString(fmt.Sprintf("Definition %s : tcase :=\n  %s.\n", name, c))
	}
	sb.WriteString(fmt.Sprintf("Definition tcases : list tcase := [%s].\n", strings.Join(tnames, "; ")))
	var qnames []string
	for i, c := range qcases {
		name := fmt.Sprintf("qcase_%d", i)
		qnames = append(qnames, name)
		sb.WriteString(fmt.Sprintf("Definition %s : qcase :=\n  %s.\n", name, c))
	}
	sb.WriteString(fmt.Sprintf("Definition qcases : list qcase := [%s].\n", strings.Join(qnames, "; ")))
	sb.WriteString("Definition M := Eval vm_compute in (mismatches cases ++ tmismatches_from (N.of_nat (length cases)) tcases ++ qmismatches_from (N.of_nat (length cases + length tcases)) qcases).\nPrint M.\nLemma cases_agree : M = [].\nProof. reflexivity. Qed.\n")
	return os.WriteFile(path, []byte(sb.String()), 0o644)
}
