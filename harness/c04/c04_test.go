// C04 correspondence harness: the REAL block.Manager (NewManager on a recording crash datastore) is killed
// after every prefix of the atomic datastore writes of a boot or production step (crashds.FailAfter: the
// writes after the cut never reach the datastore, the volatile process is discarded), a FRESH real Manager
// is booted on the surviving image (possibly killed again during that boot or the following step: nesting
// depth up to 3), and driven on.  Shutdown: the real SaveCache writes the eight gob cache files while the kernel
// (inotify) records the operations it performs on them (create / write / rename, under which names); a cut
// shutdown leaves the directory as it is after any number of those operations or INSIDE the write of a file
// (a strict prefix of its bytes under the name the code was writing to), during the first save into an empty
// directory as well as during a later one; besides the one cut of the history, EVERY crash point of every real
// SaveCache call (each operation, each byte) is checked against the real LoadFromDisk (producer.afterSave).
// A small malformed stream truncates a cache file by hand (not a crash).
// Go oracle (harness/producer/oracle.go), on the real store after every item: recorded height = state
// height, no committed block is replaced, heights advance by one, the chain stays valid; at the end a
// restart must succeed and three well-formed responses must produce a block.
// Every base history is run with ALL cut points k = 0..5 of its primary crash (a step has at most 5 writes).
package c04

import (
	"math/rand"
	"testing"

	"verif/harness/producer"
)

const cuts = 6

func wfStep(r *rand.Rand, cur *int64) producer.Item {
	it := producer.Item{T: "step"}
	switch x := r.Intn(100); {
	case x < 55:
		it.Seq = "batch"
		k := 1 + r.Intn(3)
		for j := 0; j < k; j++ {
			it.Txs = append(it.Txs, 2+r.Intn(producer.PoolSize-2))
		}
	case x < 85:
		it.Seq = "batch" // empty batch
	case x < 93:
		it.Seq = "nil"
	default:
		it.Seq = "err"
	}
	if it.Seq != "err" {
		if r.Intn(5) > 0 {
			*cur += int64(1 + r.Intn(3000))
		}
		it.Ts = *cur
	}
	it.ExecErr = r.Intn(100) < 8
	return it
}

func gen(_ *rand.Rand, tier string, c int, seed int64) (producer.Cfg, []producer.Item) {
	base := c / cuts
	k := c % cuts
	r := producer.CaseRng(seed*31+17, base) // everything but the primary cut point depends on the base only
	cfg := producer.Cfg{Initial: []uint64{1, 1, 2, 7}[r.Intn(4)], GOff: int64(r.Intn(2)) * 1000, Lazy: r.Intn(2) == 0}
	cur := cfg.GOff
	var h []producer.Item
	h = append(h, producer.Item{T: "boot"})
	pre := r.Intn(6) // prior chain length / steps
	if tier == "thorough" {
		pre = r.Intn(25)
	}
	for i := 0; i < pre; i++ {
		h = append(h, wfStep(r, &cur))
	}
	mode := r.Intn(100)
	if base%13 == 5 {
		mode = 19 // the malformed stream is always represented
	}
	switch {
	case mode < 18:
		// crash in the middle of writing the cache files at shutdown, at a point of the recorded operations of the real
		// SaveCache: between two files, after the creation of a file, inside its write (1 byte, some bytes, all but the
		// last byte), between write and rename; during the FIRST save into an empty directory, or during a later save
		// (complete files of an earlier shutdown present).  Every later start must succeed.
		j := []int{0, 0, 1, 2, 3, 4, 7, r.Intn(8)}[r.Intn(8)] // the file, in the order the code as it is writes them
		later := r.Intn(2) == 0
		tornBytes := 2 + r.Intn(1000)
		if later {
			h = append(h, producer.Item{T: "stop"}, producer.Item{T: "boot"})
			for i := r.Intn(3); i > 0; i-- {
				h = append(h, wfStep(r, &cur))
			}
		}
		cut := producer.Item{T: "stop", Crash: true}
		switch k {
		case 0:
			cut.FOps = 3*j + 1
		case 1:
			cut.FOps = 3*j + 2
		case 2:
			cut.FOps, cut.FBytes = 3*j+2, 1
		case 3:
			cut.FOps, cut.FBytes = 3*j+2, tornBytes
		case 4:
			cut.FOps, cut.FBytes = 3*j+2, -2
		default:
			cut.FOps = 3*j + 3
		}
		h = append(h, cut, producer.Item{T: "boot"})
		for i := 0; i < 2; i++ {
			h = append(h, wfStep(r, &cur))
		}
		if k%2 == 0 { // and once more, cut elsewhere
			h = append(h, producer.Item{T: "stop", Crash: true, FOps: 1 + r.Intn(25), FBytes: []int{0, -1, -2, 1 + r.Intn(1000)}[r.Intn(4)]},
				producer.Item{T: "boot"}, wfStep(r, &cur))
		}
		return cfg, h
	case mode < 22:
		// malformed stream, NOT reachable by a crash of the repaired code: a cache file truncated by hand
		f := r.Intn(8)
		if k < 3 {
			h = append(h, producer.Item{T: "stop"}, producer.Item{T: "tamper", TornFile: f, TornLen: []int{0, 1, 7}[k]},
				producer.Item{T: "boot"}, wfStep(r, &cur))
		} else {
			// damaged while the process runs, then a shutdown cut inside the write of file j: repaired iff f < j
			h = append(h, producer.Item{T: "tamper", TornFile: f, TornLen: k}, producer.Item{T: "stop", Crash: true, K: []int{0, 4, 8}[k-3]},
				producer.Item{T: "boot"}, wfStep(r, &cur))
		}
		return cfg, h
	case mode < 26:
		// clean shutdown, restart, go on
		h = append(h, producer.Item{T: "stop"}, producer.Item{T: "boot"})
		for i := 0; i < 2; i++ {
			h = append(h, wfStep(r, &cur))
		}
		return cfg, h
	}
	// primary crash: inside the first boot (rare), or inside a production step
	depth := 1 + r.Intn(2)
	if tier == "thorough" {
		depth = 1 + r.Intn(3)
	}
	crashBoot := r.Intn(10) == 0
	for d := 0; d < depth; d++ {
		kk := k
		if d > 0 {
			kk = r.Intn(cuts)
		}
		if d == 0 && crashBoot && pre == 0 {
			h[0] = producer.Item{T: "boot", Crash: true, K: kk}
		} else if d > 0 && r.Intn(3) == 0 {
			h = append(h, producer.Item{T: "boot", Crash: true, K: kk % 3, InitErr: r.Intn(8) == 0})
		} else {
			if d > 0 {
				h = append(h, producer.Item{T: "boot"})
				if r.Intn(2) == 0 {
					h = append(h, wfStep(r, &cur))
				}
			}
			it := wfStep(r, &cur)
			if r.Intn(4) > 0 { // mostly a step that would commit
				it.Seq, it.ExecErr = "batch", false
				it.Ts = cur
			}
			it.Crash, it.K = true, kk
			h = append(h, it)
		}
	}
	h = append(h, producer.Item{T: "boot"})
	n := 2 + r.Intn(3)
	for i := 0; i < n; i++ {
		h = append(h, wfStep(r, &cur))
	}
	return cfg, h
}

func TestVerif(t *testing.T) {
	rule := "groups of 6 cases = one base history (boot, 0..5 (quick) / 0..24 (thorough) well-formed steps: 55% non-empty, 30% empty batches, nil/err, 8% execution errors, non-decreasing timestamps, initial height from {1,1,2,7}) x ALL cut points k=0..5 of the primary crash; 74%: crash inside a production step (10% of chain-less bases: inside the first boot), nesting depth 1..2 (quick) / 1..3 (thorough): the recovery boot or the step after it is cut again at a random point, then restart and 2..4 more steps; 18%: shutdown cut at a point of the file operations the real SaveCache performed (recorded by inotify): for a file j the 6 cases = between two files / after the creation of the file / inside its write with 1 byte, some bytes, all but the last byte written / between write and rename; half of the bases during the FIRST save into an empty directory, half during a later save; restart, steps, half of them cut a second time at a random operation or byte; 4%: malformed stream (a cache file truncated BY HAND to 0/1/7 bytes, or damaged while running and then a cut shutdown); 4%: clean shutdown and restart; in every case EVERY crash point of every real SaveCache call (after each file operation, inside each write after each byte) is checked against the real LoadFromDisk; every case ends with the oracle's probe (restart if needed, three well-formed steps); non-trivial = a crash or shutdown item and at least one block committed; distinct = distinct (configuration, history)"
	producer.Main(t, "C04", gen, rule, func(cfg producer.Cfg, h []producer.Item, obs []producer.Obs) bool {
		crash, commits := 0, 0
		for i, it := range h {
			if it.Crash || it.T == "stop" {
				crash++
			}
			if obs[i].Res == "committed" {
				commits++
			}
		}
		return crash >= 1 && commits >= 1
	})
}
