// Scenario streams of the full-node variant beyond the plain random interleavings of genHistory, and the blobs of
// an adversarial DA layer.
//
//   - "catchup": a node that follows the chain (by P2P gossip, or through the DA scan alone) while the DA layer
//     fills at the pace of the sequencer's TWO independent submission loops: headers and data are each posted in
//     height order, but the data stream may run ahead of the header stream or lag behind it by several blocks
//     (batches of one or two consecutive items per DA height, empty DA heights, junk in between); the node scans
//     part of what is there, the includer runs at random points, then the process dies (crash after k effects /
//     failing effect / clean restart) at a random scan position, and the rest of the DA content, more scans, P2P
//     arrivals and a possible second death follow.
//   - "adversarial": the same, on a DA layer to which ANYBODY can post: next to the sequencer's blobs it holds
//     byte strings that decode as a signed header / signed data with the FIELDS of a genuine one (hence the same
//     header hash / data commitment) but are not validly signed by the proposer (random signature, the proposer's
//     signature of ANOTHER header / data, a self-consistent signature by somebody else's key), before, after,
//     next to or instead of the genuine blob.
package c07

import (
	"bytes"
	"crypto/sha256"
	"math/rand"

	"github.com/libp2p/go-libp2p/core/crypto"
	"google.golang.org/protobuf/proto"

	"github.com/evstack/ev-node/types"
	pb "github.com/evstack/ev-node/types/pb/evnode/v1"
)

// fullProfile: which scenario stream a generated full-node case (odd case index) belongs to.
func fullProfile(c int) string {
	switch c % 10 {
	case 3:
		return "catchup"
	case 7:
		return "adversarial"
	}
	return "interleaved"
}

var forgedHeaderKinds = []string{"hf", "hk", "hs"}
var forgedDataKinds = []string{"df", "dk", "ds"}

func isForgedKind(k string) bool {
	switch k {
	case "hf", "hk", "hs", "df", "dk", "ds":
		return true
	}
	return false
}

func genDeath(r *rand.Rand) Op {
	kc := 0
	if r.Intn(2) == 0 {
		kc = r.Intn(10)
	}
	switch x := r.Intn(100); {
	case x < 65:
		return Op{K: "crash", Kc: kc}
	case x < 80:
		return Op{K: "fault", Kc: kc}
	}
	return Op{K: "restart"}
}

// genHistoryCatchup: see the head of this file.
func genHistoryCatchup(r *rand.Rand, maxLen int, adversarial bool) []Op {
	nb := 2 + r.Intn(4) // blocks of the source chain
	if maxLen > 30 {
		nb += r.Intn(4)
	}
	emptyPct := []int{35, 50, 70}[r.Intn(3)] // share of empty blocks
	dataBias := []int{25, 60, 85}[r.Intn(3)] // how often the data submission loop gets its turn before the header loop
	p2p := r.Intn(100) < 75                  // the node has the blocks by P2P before they are on the DA layer
	tx := func() int {
		if r.Intn(100) < emptyPct {
			return 0
		}
		return 1 + r.Intn(len(txPool)-1)
	}
	var h []Op
	// the chain
	early := nb
	if !p2p || r.Intn(3) == 0 {
		early = r.Intn(nb + 1) // blocks the node has before it starts scanning; the others are produced only
	}
	for i := 1; i <= nb; i++ {
		if p2p && i <= early {
			h = append(h, Op{K: "append", Tx: tx()})
		} else {
			h = append(h, Op{K: "produce", Tx: tx()})
		}
	}
	// the DA layer: two streams in height order
	var posts []Op
	forged := func() BlobRef {
		if r.Intn(3) == 0 {
			return BlobRef{Kind: forgedDataKinds[r.Intn(len(forgedDataKinds))], N: 1 + r.Intn(nb)}
		}
		return BlobRef{Kind: forgedHeaderKinds[r.Intn(len(forgedHeaderKinds))], N: 1 + r.Intn(nb)}
	}
	nextH, nextD := 1, 1
	for nextH <= nb || nextD <= nb {
		k := "d"
		if nextD > nb || (nextH <= nb && r.Intn(100) >= dataBias) {
			k = "h"
		}
		var bl []BlobRef
		if adversarial && r.Intn(100) < 30 { // somebody else's blob lands first, at a DA height of its own or in front
			bl = append(bl, forged())
			if r.Intn(2) == 0 {
				posts = append(posts, Op{K: "post", Blobs: bl})
				bl = nil
			}
		}
		for j, batch := 0, 1+r.Intn(2); j < batch; j++ {
			if k == "h" && nextH <= nb {
				bl = append(bl, BlobRef{Kind: "h", N: nextH})
				nextH++
			} else if k == "d" && nextD <= nb {
				bl = append(bl, BlobRef{Kind: "d", N: nextD})
				nextD++
			}
		}
		switch x := r.Intn(100); {
		case x < 8:
			bl = append(bl, BlobRef{Kind: "junk", N: r.Intn(1000)})
		case adversarial && x < 30:
			bl = append(bl, forged())
		}
		posts = append(posts, Op{K: "post", Blobs: bl})
		if r.Intn(100) < 8 { // a DA height without anything of this chain
			posts = append(posts, Op{K: "post"})
		}
	}
	// catching up in rounds: some more DA heights appear; the node, which is faster than the DA layer, scans what is
	// there (now and then only part of it, now and then under fetch faults); the includer runs; and in every other
	// round or so the process dies (crash after k effects / failing effect / clean restart) and a new one starts
	budget := 2*maxLen + 12
	posted, cur := 0, 0 // DA heights that exist; the generator's estimate of the scan cursor (0 after a death)
	for posted < len(posts) && len(h) < budget {
		for k := 1 + r.Intn(3); k > 0 && posted < len(posts); k-- {
			h = append(h, posts[posted])
			posted++
		}
		scans := posted + 1 - cur
		if scans < 0 || r.Intn(5) == 0 {
			scans = r.Intn(posted + 2)
		}
		for ; scans > 0; scans-- {
			var fs []Fault
			if r.Intn(10) == 0 {
				fs = genFaults(r)
			}
			h = append(h, Op{K: "scan", Faults: fs})
			if len(fs) == 0 && cur <= posted {
				cur++
			}
			if r.Intn(100) < 12 {
				h = append(h, Op{K: "include"})
			}
		}
		if r.Intn(100) < 80 {
			h = append(h, Op{K: "include"})
		}
		if r.Intn(100) < 20 { // a block reaches the node by P2P
			h = append(h, Op{K: "append", Tx: tx()})
		}
		if r.Intn(100) < 55 {
			h = append(h, genDeath(r))
			cur = 0
		}
	}
	h = append(h, posts[posted:]...)
	// what follows: more scanning, blocks by P2P, includer runs, somebody else's blobs
	for n := r.Intn(5); n > 0; n-- {
		switch x := r.Intn(100); {
		case x < 40:
			h = append(h, Op{K: "scan"})
		case x < 60:
			h = append(h, Op{K: "append", Tx: tx()})
		case x < 85:
			h = append(h, Op{K: "include"})
		case x < 93:
			h = append(h, genDeath(r))
		default:
			if adversarial {
				h = append(h, Op{K: "post", Blobs: []BlobRef{forged()}})
			} else {
				h = append(h, Op{K: "scan", Faults: genFaults(r)})
			}
		}
	}
	return h
}

// ---- genuine and forged blobs -------------------------------------------------------------------------

func keyAddress(pk crypto.PubKey) []byte {
	raw, err := pk.Raw()
	if err != nil {
		return nil
	}
	a := sha256.Sum256(raw)
	return a[:]
}

// genuineHeaderBlob: the byte string is a signed header of the chain's proposer: it decodes, names the proposer,
// carries the proposer's key and a signature of the header bytes that verifies under it.  Decided here with the
// crypto library, not with the node's admission code.
func genuineHeaderBlob(bz []byte, proposer []byte) (hash string, ok bool) {
	var hp pb.SignedHeader
	if err := proto.Unmarshal(bz, &hp); err != nil {
		return "", false
	}
	h := new(types.SignedHeader)
	if err := h.FromProto(&hp); err != nil {
		return "", false
	}
	if h.Signer.PubKey == nil || len(h.Signature) == 0 || h.Height() == 0 {
		return "", false
	}
	if !bytes.Equal(h.Header.ProposerAddress, proposer) || !bytes.Equal(h.Signer.Address, proposer) || !bytes.Equal(keyAddress(h.Signer.PubKey), proposer) {
		return "", false
	}
	payload, err := h.Header.MarshalBinary()
	if err != nil {
		return "", false
	}
	if v, err := h.Signer.PubKey.Verify(payload, h.Signature); err != nil || !v {
		return "", false
	}
	return h.Hash().String(), true
}

// genuineDataBlob: the byte string is signed data of the chain's proposer with at least one transaction.
func genuineDataBlob(bz []byte, proposer []byte) (commit string, ok bool) {
	var sd types.SignedData
	if err := sd.UnmarshalBinary(bz); err != nil || len(sd.Txs) == 0 || sd.Data.Metadata == nil {
		return "", false
	}
	if sd.Signer.PubKey == nil || !bytes.Equal(sd.Signer.Address, proposer) || !bytes.Equal(keyAddress(sd.Signer.PubKey), proposer) {
		return "", false
	}
	payload, err := sd.Data.MarshalBinary()
	if err != nil {
		return "", false
	}
	if v, err := sd.Signer.PubKey.Verify(payload, sd.Signature); err != nil || !v {
		return "", false
	}
	return sd.Data.DACommitment().String(), true
}

// somebody else's key (the same in every case)
func strangerKey() (crypto.PrivKey, crypto.PubKey) {
	priv, pub, _ := crypto.GenerateEd25519Key(rand.New(rand.NewSource(4711)))
	return priv, pub
}

// forgeHeader: a byte string that decodes as a signed header with the fields of the genuine one.
//
//	hf: random signature bytes;  hk: signer and signature of somebody else's key (self-consistent);
//	hs: the proposer's genuine signature of ANOTHER header ([other]; without one: the signature with a bit flipped)
func forgeHeader(genuine, other []byte, kind string, salt int) []byte {
	var hp pb.SignedHeader
	if proto.Unmarshal(genuine, &hp) != nil {
		return nil
	}
	h := new(types.SignedHeader)
	if h.FromProto(&hp) != nil {
		return nil
	}
	switch kind {
	case "hk":
		priv, pub := strangerKey()
		payload, _ := h.Header.MarshalBinary()
		sig, _ := priv.Sign(payload)
		h.Signer = types.Signer{PubKey: pub, Address: keyAddress(pub)}
		h.Signature = sig
	case "hs":
		var op pb.SignedHeader
		o := new(types.SignedHeader)
		if other != nil && proto.Unmarshal(other, &op) == nil && o.FromProto(&op) == nil && !bytes.Equal(o.Signature, h.Signature) {
			h.Signature = append(types.Signature{}, o.Signature...)
		} else {
			s := append(types.Signature{}, h.Signature...)
			s[len(s)/2] ^= 0x10
			h.Signature = s
		}
	default:
		s := make([]byte, len(h.Signature))
		rand.New(rand.NewSource(int64(salt)*31 + 5)).Read(s)
		h.Signature = s
	}
	p, err := h.ToProto()
	if err != nil {
		return nil
	}
	out, err := proto.Marshal(p)
	if err != nil {
		return nil
	}
	return out
}

// forgeData: the same for signed data (df / dk / ds).
func forgeData(genuine, other []byte, kind string, salt int) []byte {
	var sd types.SignedData
	if sd.UnmarshalBinary(genuine) != nil {
		return nil
	}
	switch kind {
	case "dk":
		priv, pub := strangerKey()
		payload, _ := sd.Data.MarshalBinary()
		sig, _ := priv.Sign(payload)
		sd.Signer = types.Signer{PubKey: pub, Address: keyAddress(pub)}
		sd.Signature = sig
	case "ds":
		var o types.SignedData
		if other != nil && o.UnmarshalBinary(other) == nil && !bytes.Equal(o.Signature, sd.Signature) {
			sd.Signature = append(types.Signature{}, o.Signature...)
		} else {
			s := append(types.Signature{}, sd.Signature...)
			s[len(s)/2] ^= 0x10
			sd.Signature = s
		}
	default:
		s := make([]byte, len(sd.Signature))
		rand.New(rand.NewSource(int64(salt)*31 + 6)).Read(s)
		sd.Signature = s
	}
	out, err := sd.MarshalBinary()
	if err != nil {
		return nil
	}
	return out
}
