// C07 correspondence harness: the DA-included ("final") height.
// Drives a REAL block.Manager (NewManager on a real pkg/store over a recording datastore) through random
// interleavings of block production / sync, header and data submission against a scripted DA double
// (aggregator variant: the real submitHeadersToDA / submitDataToDA produce the marks; the DA double answers each
// call with ids+nil, with an error of some class, or with ids AND an error, and keeps what the script says, which
// need not be what it answered) or DA scanning (full-node variant: the real processNextDAHeaderAndData ->
// handlePotentialHeader/Data produce the marks under scripted DA fetch faults, the real SyncLoop applies what the
// scan found), runs of the real DAIncluderLoop under testing/synctest, crashes after k effects of such a run, and
// clean restarts (the real SaveCache, NewManager -> LoadCache) under a small set of RootDir / DBPath configurations.
// Writes cases_C07.v (for Model/Includer.v; full-node cases: Model/IncluderScan.v; aggregator cases:
// Model/IncluderAgg.v) and result.json.
package c07

import (
	"context"
	"encoding/binary"
	"fmt"
	"math/rand"
	"os"
	"path/filepath"
	"sort"
	"strconv"
	"strings"
	"testing"
	"testing/synctest"
	"time"

	logging "github.com/ipfs/go-log/v2"
	"github.com/libp2p/go-libp2p/core/crypto"
	"google.golang.org/protobuf/proto"

	"github.com/evstack/ev-node/block"
	coreseq "github.com/evstack/ev-node/core/sequencer"
	"github.com/evstack/ev-node/pkg/config"
	"github.com/evstack/ev-node/pkg/genesis"
	"github.com/evstack/ev-node/pkg/signer"
	"github.com/evstack/ev-node/pkg/signer/noop"
	"github.com/evstack/ev-node/pkg/store"
	"github.com/evstack/ev-node/types"
	pb "github.com/evstack/ev-node/types/pb/evnode/v1"

	"verif/harness/doubles/crashds"
	"verif/harness/vgen"
)

// ---- histories -------------------------------------------------------------------------------

type BlobRef struct {
	Kind string `json:"kind"` // h d junk; forged copies (fields of the genuine blob, not validly signed by the proposer): hf hk hs / df dk ds (profiles_test.go)
	N    int    `json:"n"`    // source block height (junk: salt)
}

type Op struct {
	K      string    `json:"k"`                // append produce subh subd post scan include crash fault restart
	Tx     int       `json:"tx,omitempty"`     // append/produce: id of the transaction list (0 = empty block)
	Script []Outcome `json:"script,omitempty"` // subh/subd: outcomes of the successive DA submit calls (then ok)
	Blobs  []BlobRef `json:"blobs,omitempty"`  // post: the blobs of one new DA height
	Faults []Fault   `json:"faults,omitempty"` // scan: what the successive fetch attempts of this iteration meet (then truthful service)
	Kc     int       `json:"kc,omitempty"`     // crash/fault: effects (datastore writes, SetFinal calls) of the includer run that still happen
}

type Replay struct {
	Seed    int64  `json:"seed"`
	Case    int    `json:"case"`
	Mode    string `json:"mode"` // agg full
	IH      uint64 `json:"ih,omitempty"` // genesis.InitialHeight (0 = 1)
	Cfg     int    `json:"cfg,omitempty"` // index into dirConfigs: config.RootDir / config.DBPath of the node under test
	History []Op   `json:"history"`
}

// dirConfigs: the directory configurations the node under test runs with (RootDir below the case's scratch
// directory, DBPath as the operator would write it in the configuration).  0 is the default configuration.
var dirConfigs = []struct{ Root, DB string }{
	{"node", "data"},
	{"node", "custom"},
	{"node", ""},
	{"n d/x", "db/sub"},
	{"data", "data/db"},
	{"node", "/abs/db"},
	{"r1/../node2", "../sibling"},
	{"deep/er/root", "data2"},
}

func genCfg(r *rand.Rand) int {
	if r.Intn(100) < 35 {
		return 0
	}
	return 1 + r.Intn(len(dirConfigs)-1)
}

var txPool = [][][]byte{nil, {[]byte("a1")}, {[]byte("b1"), []byte("b2")}, {[]byte("c1")}}

func genScript(r *rand.Rand) []Outcome {
	n := 0
	switch x := r.Intn(100); {
	case x < 45:
		n = 0
	case x < 78:
		n = 1
	case x < 99:
		n = 2 + r.Intn(3)
	default: // the DA layer fails for longer than submitToDA tries (maxSubmitAttempts = 30)
		n = 30 + r.Intn(3)
	}
	kinds := []string{"part", "part", "err", "err", "timeout", "mempool", "toobig", "deadline", "cancel", "ok"}
	var s []Outcome
	for i := 0; i < n; i++ {
		o := Outcome{Kind: kinds[r.Intn(len(kinds))]}
		if n >= 30 {
			o.Kind = "err"
		}
		if o.Kind == "part" {
			o.K = r.Intn(3)
		}
		if o.isErr() {
			// an error answer may come with ids (of blobs taken before the failure, or of nothing at all), and the DA
			// layer may have kept blobs although it answered with an error
			if r.Intn(3) == 0 {
				o.Ids = 1 + r.Intn(3)
			}
			if r.Intn(4) == 0 {
				o.St = 1 + r.Intn(3)
			}
		}
		s = append(s, o)
	}
	return s
}

// genFaults: the DA faults one scan iteration meets: mostly none or a few transient ones of every class (listing
// error, Get error after a successful listing with / without the not-found or from-the-future text, deadline),
// sometimes ten or more (the iteration gives up and is repeated later).
func genFaults(r *rand.Rand) []Fault {
	n := 0
	switch x := r.Intn(100); {
	case x < 55:
		n = 0
	case x < 80:
		n = 1
	case x < 92:
		n = 2 + r.Intn(2)
	case x < 96:
		n = 9
	default:
		n = 10 + r.Intn(2)
	}
	classes := []Fault{{"list", "plain"}, {"list", "deadline"}, {"get", "plain"}, {"get", "nf"}, {"get", "nfwrap"}, {"get", "nf"}, {"get", "deadline"}}
	var fs []Fault
	for i := 0; i < n; i++ {
		if n <= 3 && r.Intn(12) == 0 { // an answer "from the future" for a height that exists: returned at once
			fs = append(fs, []Fault{{"list", "fut"}, {"get", "fut"}}[r.Intn(2)])
			continue
		}
		fs = append(fs, classes[r.Intn(len(classes))])
	}
	return fs
}

func genTx(r *rand.Rand) int {
	if r.Intn(100) < 35 {
		return 0
	}
	return 1 + r.Intn(len(txPool)-1)
}

func genHistory(r *rand.Rand, mode string, maxLen int) []Op {
	n := 4 + r.Intn(maxLen-3)
	var h []Op
	produced, nextPost := 0, 0
	for i := 0; i < n; i++ {
		x := r.Intn(100)
		if mode == "agg" {
			switch {
			case x < 30:
				h = append(h, Op{K: "append", Tx: genTx(r)})
			case x < 46:
				h = append(h, Op{K: "subh", Script: genScript(r)})
			case x < 62:
				h = append(h, Op{K: "subd", Script: genScript(r)})
			case x < 84:
				h = append(h, Op{K: "include"})
			case x < 90:
				h = append(h, Op{K: "crash", Kc: r.Intn(10)})
			case x < 94:
				h = append(h, Op{K: "fault", Kc: r.Intn(10)})
			default:
				h = append(h, Op{K: "restart"})
			}
		} else {
			switch {
			case x < 16:
				h = append(h, Op{K: "produce", Tx: genTx(r)})
				produced++
			case x < 32:
				h = append(h, Op{K: "append", Tx: genTx(r)})
				produced++ // upper bound
			case x < 54:
				nb := 1 + r.Intn(3)
				var bl []BlobRef
				for j := 0; j < nb; j++ {
					if r.Intn(10) < 6 { // the next blob nobody posted yet, headers and data alternating
						k := "h"
						if nextPost%2 == 1 {
							k = "d"
						}
						bl = append(bl, BlobRef{Kind: k, N: nextPost/2 + 1})
						nextPost++
						continue
					}
					k := []string{"h", "h", "d", "d", "junk"}[r.Intn(5)]
					bl = append(bl, BlobRef{Kind: k, N: 1 + r.Intn(produced+1)})
				}
				h = append(h, Op{K: "post", Blobs: bl})
			case x < 72:
				h = append(h, Op{K: "scan", Faults: genFaults(r)})
			case x < 88:
				h = append(h, Op{K: "include"})
			case x < 93:
				h = append(h, Op{K: "crash", Kc: r.Intn(10)})
			case x < 96:
				h = append(h, Op{K: "fault", Kc: r.Intn(10)})
			default:
				h = append(h, Op{K: "restart"})
			}
		}
	}
	return h
}

// ---- a node (successive process incarnations over one durable image) -----------------------------

var logger = logging.Logger("c07")

type node struct {
	mode    string
	scratch string // the case's scratch directory (RootDir lies below it)
	cfg     config.Config
	gen     genesis.Genesis
	sg      signer.Signer
	cds     *crashds.DS
	w       *world
	release chan struct{}
	bud     *budget
	m       *block.Manager
	st      store.Store
	seq     *seqDouble
	da      *daDouble
}

func (n *node) boot(ctx context.Context) error {
	n.bud = newBudget(n.release)
	kds := &killDS{Batching: n.cds, bud: n.bud, w: n.w}
	n.st = store.New(kds)
	ex := &execDouble{w: n.w, bud: n.bud}
	m, err := block.NewManager(ctx, n.sg, n.cfg, n.gen, n.st, ex, n.seq, n.da, logger, nil, nil,
		nopHeaderBroadcaster{}, nopDataBroadcaster{}, block.NopMetrics(), 1, 1, block.DefaultManagerOptions())
	if err != nil {
		return err
	}
	n.m = m
	return nil
}

func newNode(ctx context.Context, mode string, sg signer.Signer, gen genesis.Genesis, scratch string, dc int, release chan struct{}) (*node, error) {
	cfg := config.DefaultConfig
	cfg.RootDir = scratch + string(filepath.Separator) + dirConfigs[dc].Root // as the operator wrote it: not cleaned
	cfg.DBPath = dirConfigs[dc].DB
	cfg.Node.MaxPendingHeadersAndData = 0
	cfg.Node.Aggregator = mode == "agg"
	n := &node{mode: mode, scratch: scratch, cfg: cfg, gen: gen, cds: crashds.New(), w: &world{}, release: release, seq: &seqDouble{}, da: newDA()}
	if mode == "agg" {
		n.sg = sg
	}
	return n, n.boot(ctx)
}

// cacheDirs: the directories, relative to the node's RootDir, that hold cache files (<dir>/cache/header/...).
func (n *node) cacheDirs() string {
	var out []string
	root := filepath.Clean(n.cfg.RootDir)
	_ = filepath.WalkDir(n.scratch, func(p string, d os.DirEntry, err error) error {
		if err != nil || !d.IsDir() || d.Name() != "cache" {
			return nil
		}
		if fi, e := os.Stat(filepath.Join(p, "header")); e != nil || !fi.IsDir() {
			return nil
		}
		rel, e := filepath.Rel(root, filepath.Dir(p))
		if e != nil {
			rel = p
		}
		out = append(out, filepath.ToSlash(rel))
		return filepath.SkipDir
	})
	sort.Strings(out)
	return strings.Join(out, "|")
}

// ---- decoding blobs independently of the manager --------------------------------------------------

func decodeHeaderBlob(bz []byte) (hash string, height uint64, ok bool) {
	var hp pb.SignedHeader
	if err := proto.Unmarshal(bz, &hp); err != nil {
		return "", 0, false
	}
	h := new(types.SignedHeader)
	if err := h.FromProto(&hp); err != nil {
		return "", 0, false
	}
	if len(h.Header.ProposerAddress) == 0 || len(h.Signature) == 0 || h.Height() == 0 {
		return "", 0, false
	}
	return h.Hash().String(), h.Height(), true
}

func decodeDataBlob(bz []byte) (commit string, height uint64, ok bool) {
	var sd types.SignedData
	if err := sd.UnmarshalBinary(bz); err != nil || len(sd.Txs) == 0 {
		return "", 0, false
	}
	h := uint64(0)
	if sd.Data.Metadata != nil {
		h = sd.Data.Metadata.Height
	}
	return sd.Data.DACommitment().String(), h, true
}

// ---- one case -------------------------------------------------------------------------------------

type obsRec struct {
	di, sh uint64
	next   bool
}

type caseRun struct {
	ctx      context.Context
	mode     string
	nd       *node
	src      *node
	srcHdr   map[uint64][]byte
	srcData  map[uint64][]byte
	srcTx    []int
	srcSeen  int // submit calls of the source DA already decoded
	synced   uint64
	hashID   map[string]uint64 // header hash -> height
	commitID map[string]uint64 // data commitment -> tx list id
	txOf     []int             // tx list id per height of the node under test
	groups   []string
	agroups  []string    // aggregator: the operations as groups of Model/IncluderAgg.v items
	aobs     [][3]uint64 // aggregator, after each operation: last-submitted header height, data height, DA tip
	saved    []string    // per SaveCache: where the cache files are afterwards (relative to RootDir)
	bmarks   []string    // per new process: the cache lookups (header marks, data marks)
	dc       int         // index into dirConfigs
	fgroups  []string   // full node: the operations as groups of Model/IncluderScan.v items
	fobs     [][2]uint64 // full node, after each operation: m.daHeight, State.DAHeight in the store
	obs      []obsRec
	ops      []Op // the operations actually run (history + quiescence suffix)
	dones    []chan struct{}
	viol     []string
	what     []string
	prevDi   uint64
	lostMark bool
	savedH   map[string]bool
	savedD   map[string]bool
	nCrash   int
	ih       uint64
	deaths   []uint64
	shared   bool
	harnessE error
	proposer []byte // genesis.ProposerAddress
	nForged  [2]int // forged header / data blobs posted
}

func (c *caseRun) fail(sig, what string) {
	for _, s := range c.viol {
		if s == sig {
			return
		}
	}
	c.viol = append(c.viol, sig)
	c.what = append(c.what, what)
}

func commitOf(tx int) string {
	d := &types.Data{Txs: make(types.Txs, 0)}
	for _, t := range txPool[tx] {
		d.Txs = append(d.Txs, types.Tx(t))
	}
	return d.DACommitment().String()
}

// aggAppend: one real block production step on an aggregator node.
func aggAppend(ctx context.Context, n *node, tx int) error {
	time.Sleep(time.Second) // virtual
	n.seq.mu.Lock()
	n.seq.next = &coreseq.GetNextBatchResponse{Batch: &coreseq.Batch{Transactions: txPool[tx]}, Timestamp: time.Now()}
	n.seq.mu.Unlock()
	before, _ := n.m.GetStoreHeight(ctx)
	if err := n.m.VerifPublishBlock(ctx); err != nil {
		return err
	}
	n.seq.mu.Lock()
	n.seq.next = nil
	n.seq.mu.Unlock()
	after, _ := n.m.GetStoreHeight(ctx)
	if after != before+1 {
		return fmt.Errorf("publishBlock did not produce a block (%d -> %d)", before, after)
	}
	return nil
}

func (c *caseRun) produce(tx int) error {
	if err := aggAppend(c.ctx, c.src, tx); err != nil {
		return err
	}
	{
		h, _ := c.src.m.GetStoreHeight(c.ctx)
		_, d, err := c.src.st.GetBlockData(c.ctx, h)
		if err != nil {
			return err
		}
		c.srcTx = append(c.srcTx, int(c.commitID[d.DACommitment().String()]))
	}
	// let the source's real submitter produce the blobs
	hs, err := c.src.m.VerifGetPendingHeaders(c.ctx)
	if err != nil {
		return err
	}
	if len(hs) > 0 {
		if err := c.src.m.VerifSubmitHeadersToDA(c.ctx, hs); err != nil {
			return err
		}
	}
	sd, err := c.src.m.VerifCreateSignedDataToSubmit(c.ctx)
	if err != nil {
		return err
	}
	if len(sd) > 0 {
		if err := c.src.m.VerifSubmitDataToDA(c.ctx, sd); err != nil {
			return err
		}
	}
	for _, call := range c.src.da.calls[c.srcSeen:] {
		for _, b := range call.Blobs {
			if hash, h, ok := decodeHeaderBlob(b); ok {
				c.srcHdr[h] = b
				c.hashID[hash] = h
			} else if _, h, ok := decodeDataBlob(b); ok {
				c.srcData[h] = b
			}
		}
	}
	c.srcSeen = len(c.src.da.calls)
	return nil
}

func item(f string, a ...interface{}) string { return fmt.Sprintf(f, a...) }

// marksOf: the mark events that correspond to blobs the DA layer holds at [height] and told the node about.
func (c *caseRun) marksOf(blobs [][]byte, height uint64) []string {
	var items []string
	for _, b := range blobs {
		if len(b) == 0 {
			continue
		}
		if hash, ok := genuineHeaderBlob(b, c.proposer); ok {
			id, known := c.hashID[hash]
			if !known {
				id = 900000
			}
			items = append(items, item("IMarkH %d %d", id, height))
		} else if commit, ok := genuineDataBlob(b, c.proposer); ok {
			id, known := c.commitID[commit]
			if !known {
				id = 900001
			}
			items = append(items, item("IMarkD %d %d", id, height))
		}
	}
	return items
}

// blobClasses: what the retriever's admission tests have to make of each blob (decided here by independent
// decoding and signature verification): BH / BD = a header / signed data of this chain validly signed by the
// proposer; BF / BG = a byte string that decodes as a header / signed data with the fields of a genuine one (same
// header hash / data commitment) but is not validly signed by the proposer; BJ = anything else.
func (c *caseRun) blobClasses(blobs [][]byte) []string {
	var out []string
	for _, b := range blobs {
		if hash, _, ok := decodeHeaderBlob(b); ok {
			if id, known := c.hashID[hash]; known {
				if _, gen := genuineHeaderBlob(b, c.proposer); gen {
					out = append(out, item("BH %d", id))
				} else {
					out = append(out, item("BF %d", id))
				}
				continue
			}
		} else if commit, _, ok := decodeDataBlob(b); ok {
			if id, known := c.commitID[commit]; known {
				if _, gen := genuineDataBlob(b, c.proposer); gen {
					out = append(out, item("BD %d", id))
				} else {
					out = append(out, item("BG %d", id))
				}
				continue
			}
		}
		out = append(out, "BJ")
	}
	return out
}

// runSync runs the real SyncLoop of the node (it first tries the next block from the caches, sync.go:27), hands it
// the events the DA scan produced — headers first, then data, each processed to quiescence — and stops it.
func (c *caseRun) runSync(hev []block.NewHeaderEvent, dev []block.NewDataEvent) {
	m := c.nd.m
	ctx, cancel := context.WithCancel(c.ctx)
	errCh := make(chan error, 8)
	done := make(chan struct{})
	go func() { m.SyncLoop(ctx, errCh); close(done) }()
	synctest.Wait()
	for _, e := range hev {
		select {
		case m.VerifHeaderInCh() <- e:
		default:
		}
		synctest.Wait()
	}
	for _, e := range dev {
		select {
		case m.VerifDataInCh() <- e:
		default:
		}
		synctest.Wait()
	}
	cancel()
	<-done
	select {
	case err := <-errCh:
		c.harnessE = fmt.Errorf("SyncLoop returned an error: %w", err)
	default:
	}
}

// noteApplied: the blocks the node under test (full node) has applied since the last look.
func (c *caseRun) noteApplied(fitems *[]string) {
	sh, _ := c.nd.m.GetStoreHeight(c.ctx)
	for h := c.synced + 1; h <= sh; h++ {
		hd, d, err := c.nd.st.GetBlockData(c.ctx, h)
		if err != nil {
			c.harnessE = err
			return
		}
		tx, known := c.commitID[d.DACommitment().String()]
		if !known && len(d.Txs) != 0 {
			c.harnessE = fmt.Errorf("commitment of applied block %d is not one of the pool's", h)
			return
		}
		if id, ok := c.hashID[hd.Hash().String()]; !ok || id != h {
			c.harnessE = fmt.Errorf("applied block %d is not the source chain's", h)
			return
		}
		c.txOf = append(c.txOf, int(tx))
		*fitems = append(*fitems, item("FApply (B %d %d)", h, tx))
		c.synced = h
	}
}

// runLoop starts the real DAIncluderLoop, signals it, waits until everything is blocked, stops it.
// k >= 0: the process dies after k effects of the run (fault: effect k+1 fails instead and the loop returns
// its error). It returns what GetDAIncludedHeight() of that process says at that instant.
func (c *caseRun) runLoop(k int, fault bool) uint64 {
	n := c.nd
	ctx, cancel := context.WithCancel(c.ctx)
	errCh := make(chan error, 8)
	done := make(chan struct{})
	if k >= 0 {
		n.bud.arm(k, fault)
	}
	m := n.m
	go func() { m.DAIncluderLoop(ctx, errCh); close(done) }()
	select {
	case m.VerifDAIncluderCh() <- struct{}{}:
	default:
	}
	synctest.Wait()
	seen := m.GetDAIncludedHeight()
	if k >= 0 && !fault {
		n.bud.kill()
		cancel()
		c.dones = append(c.dones, done)
		return seen
	}
	cancel()
	<-done
	select {
	case err := <-errCh:
		if !fault {
			c.fail("includer-loop-error", "DAIncluderLoop returned an error: "+err.Error())
		}
	default:
	}
	return seen
}

// modelK: the harness counts datastore writes and SetFinal calls (4 per height); the model has the
// in-memory publication as a fifth effect after each Put of "d". A process stopped at its (k+1)-th
// recordable effect has done every publication before it.
func modelK(k int) int { return k + k/4 }

func (c *caseRun) checkAfterDeath(seen uint64, sig, how string) {
	c.deaths = append(c.deaths, seen)
	if after := c.nd.m.GetDAIncludedHeight(); after < seen {
		c.fail(sig, fmt.Sprintf("the node reported %d %s; after the restart it reports %d", seen, how, after))
	}
}

func (c *caseRun) liveMarkSets() (map[string]bool, map[string]bool) {
	hs, dsx := map[string]bool{}, map[string]bool{}
	sh, _ := c.nd.m.GetStoreHeight(c.ctx)
	for h := uint64(1); h <= sh; h++ {
		hd, d, err := c.nd.st.GetBlockData(c.ctx, h)
		if err != nil {
			continue
		}
		if c.nd.m.HeaderCache().IsDAIncluded(hd.Hash().String()) {
			hs[hd.Hash().String()] = true
		}
		if c.nd.m.DataCache().IsDAIncluded(d.DACommitment().String()) {
			dsx[d.DACommitment().String()] = true
		}
	}
	return hs, dsx
}

// liveMarks: the DA-included marks of the running process that concern stored blocks: header hash / data
// commitment -> marked DA height.
type markSet struct{ h, d map[string]uint64 }

func (c *caseRun) liveMarks() markSet {
	ms := markSet{map[string]uint64{}, map[string]uint64{}}
	sh, _ := c.nd.m.GetStoreHeight(c.ctx)
	for h := uint64(1); h <= sh; h++ {
		hd, d, err := c.nd.st.GetBlockData(c.ctx, h)
		if err != nil {
			continue
		}
		if v, ok := c.nd.m.HeaderCache().GetDAIncludedHeight(hd.Hash().String()); ok {
			ms.h[hd.Hash().String()] = v
		}
		if v, ok := c.nd.m.DataCache().GetDAIncludedHeight(d.DACommitment().String()); ok {
			ms.d[d.DACommitment().String()] = v
		}
	}
	return ms
}

// checkMarksKept (Go oracle): after a clean stop + start every mark that was set is still set, at the same DA height.
func (c *caseRun) checkMarksKept(before markSet, how string) {
	after := c.liveMarks()
	lost := 0
	for k, v := range before.h {
		if w, ok := after.h[k]; !ok || w != v {
			lost++
		}
	}
	for k, v := range before.d {
		if w, ok := after.d[k]; !ok || w != v {
			lost++
		}
	}
	if lost > 0 {
		c.fail("clean-restart-loses-da-marks", fmt.Sprintf("%d of the %d DA-included marks set before %s (SaveCache, then NewManager/LoadCache; RootDir %q, DBPath %q) are not set in the new process",
			lost, len(before.h)+len(before.d), how, dirConfigs[c.dc].Root, dirConfigs[c.dc].DB))
	}
}

// markLookups: what the caches answer for the header hash of every stored block / every data commitment of the pool.
func (c *caseRun) markLookups() (hm, dm []string) {
	sh, _ := c.nd.m.GetStoreHeight(c.ctx)
	for h := uint64(1); h <= sh; h++ {
		hd, _, err := c.nd.st.GetBlockData(c.ctx, h)
		if err != nil {
			continue
		}
		v, ok := c.nd.m.HeaderCache().GetDAIncludedHeight(hd.Hash().String())
		hm = append(hm, fmt.Sprintf("(%d, %s)", h, optN(v, ok)))
	}
	for i := range txPool {
		v, ok := c.nd.m.DataCache().GetDAIncludedHeight(commitOf(i))
		dm = append(dm, fmt.Sprintf("(%d, %s)", i, optN(v, ok)))
	}
	return
}

// noteBoot: a new process has started: record what its caches hold.
func (c *caseRun) noteBoot() {
	hm, dm := c.markLookups()
	c.bmarks = append(c.bmarks, fmt.Sprintf("(%s, %s)", vgen.List(hm), vgen.List(dm)))
}

func (c *caseRun) exec(op Op) {
	n := c.nd
	var items, fitems, aitems []string // the operation in items of Model/Includer.v (aggregator: as the harness derives the marks from the DA double's record) / Model/IncluderScan.v (full node) / Model/IncluderAgg.v (aggregator)
	switch op.K {
	case "append":
		if c.mode == "agg" {
			if err := aggAppend(c.ctx, n, op.Tx); err != nil {
				c.harnessE = err
				return
			}
			h, _ := n.m.GetStoreHeight(c.ctx)
			hd, d, err := n.st.GetBlockData(c.ctx, h)
			if err != nil {
				c.harnessE = err
				return
			}
			// (height 1 is the block NewManager stored at genesis: always empty, the batch is not taken)
			tx, known := c.commitID[d.DACommitment().String()]
			if !known && len(d.Txs) != 0 {
				c.harnessE = fmt.Errorf("commitment of produced block is not one of the pool's")
				return
			}
			c.hashID[hd.Hash().String()] = h
			c.txOf = append(c.txOf, int(tx))
			items = append(items, item("IAppend (B %d %d)", h, tx))
			aitems = append(aitems, item("AAppend (B %d %d)", h, tx))
		} else {
			if c.synced == c.ih-1+uint64(len(c.srcTx)) {
				if err := c.produce(op.Tx); err != nil {
					c.harnessE = err
					return
				}
			}
			// the block arrives by P2P: the store-retrieve loops hand it to sync with the scan cursor as the
			// event's DA height (block/store.go:32,87); sync caches both parts and calls trySyncNextBlock
			next := c.synced + 1
			hd, d, err := c.src.st.GetBlockData(c.ctx, next)
			if err != nil {
				c.harnessE = err
				return
			}
			n.m.HeaderCache().SetItem(next, hd)
			n.m.DataCache().SetItem(next, d)
			if err := n.m.VerifTrySyncNextBlock(c.ctx, n.m.VerifDAHeight()); err != nil {
				c.harnessE = fmt.Errorf("trySyncNextBlock: %w", err)
				return
			}
			if h, _ := n.m.GetStoreHeight(c.ctx); h < next {
				c.harnessE = fmt.Errorf("sync did not apply block %d", next)
				return
			}
			c.noteApplied(&fitems) // (later blocks whose parts the DA scan had cached are applied with it)
		}
	case "produce":
		if err := c.produce(op.Tx); err != nil {
			c.harnessE = err
			return
		}
		fitems = append(fitems, "FNop")
	case "subh", "subd":
		n.da.mu.Lock()
		n.da.script = append([]Outcome{}, op.Script...)
		before := len(n.da.calls)
		n.da.mu.Unlock()
		if op.K == "subh" {
			hs, err := n.m.VerifGetPendingHeaders(c.ctx)
			if err != nil {
				c.fail("pending-headers-error", err.Error())
			} else if len(hs) > 0 {
				_ = n.m.VerifSubmitHeadersToDA(c.ctx, hs)
			}
		} else {
			sd, err := n.m.VerifCreateSignedDataToSubmit(c.ctx)
			if err != nil {
				c.fail("pending-data-error", err.Error())
			} else if len(sd) > 0 {
				_ = n.m.VerifSubmitDataToDA(c.ctx, sd)
			}
		}
		n.da.mu.Lock()
		n.da.script = nil
		calls := append([]submitCall{}, n.da.calls[before:]...)
		n.da.mu.Unlock()
		for _, call := range calls {
			if call.Acked {
				items = append(items, c.marksOf(call.Blobs[:call.Accepted], call.Height)...)
			}
		}
		var ans []string
		for _, o := range op.Script {
			ans = append(ans, o.coq())
		}
		aitems = append(aitems, map[string]string{"subh": "ASubH ", "subd": "ASubD "}[op.K]+vgen.List(ans))
	case "post":
		var blobs [][]byte
		for _, b := range op.Blobs {
			switch b.Kind {
			case "h":
				if x, ok := c.srcHdr[uint64(b.N)+c.ih-1]; ok {
					blobs = append(blobs, x)
				}
			case "d":
				if x, ok := c.srcData[uint64(b.N)+c.ih-1]; ok {
					blobs = append(blobs, x)
				}
			case "hf", "hk", "hs":
				g, ok := c.srcHdr[uint64(b.N)+c.ih-1]
				if !ok {
					continue
				}
				other := c.srcHdr[uint64(b.N)+c.ih]
				if other == nil {
					other = c.srcHdr[uint64(b.N)+c.ih-2]
				}
				if x := forgeHeader(g, other, b.Kind, b.N); x != nil {
					blobs = append(blobs, x)
					c.nForged[0]++
				}
			case "df", "dk", "ds":
				g, ok := c.srcData[uint64(b.N)+c.ih-1]
				if !ok {
					continue
				}
				var other []byte
				for d := uint64(1); d <= 3 && other == nil; d++ {
					if o := c.srcData[uint64(b.N)+c.ih-1+d]; o != nil {
						other = o
					} else if o := c.srcData[uint64(b.N)+c.ih-1-d]; o != nil {
						other = o
					}
				}
				if x := forgeData(g, other, b.Kind, b.N); x != nil {
					blobs = append(blobs, x)
					c.nForged[1]++
				}
			default:
				j := make([]byte, 40)
				rand.New(rand.NewSource(int64(b.N))).Read(j)
				blobs = append(blobs, j)
			}
		}
		n.da.post(blobs)
		fitems = append(fitems, "FPost "+vgen.List(c.blobClasses(blobs)))
	case "scan":
		// one RetrieveLoop iteration (retriever.go:35-50): the real processNextDAHeaderAndData against the DA
		// double scripted with this iteration's faults; the cursor moves iff it returned nil
		var fl []string
		for _, f := range op.Faults {
			if f.Op == "list" && f.nf() {
				c.harnessE = fmt.Errorf("a listing fault with the not-found text is outside the DA contract of this harness")
				return
			}
			if f.Op == "list" {
				fl = append(fl, "FList "+vgen.Bool(f.fut()))
			} else {
				fl = append(fl, fmt.Sprintf("FGet %s %s", vgen.Bool(f.nf()), vgen.Bool(f.fut())))
			}
		}
		n.da.mu.Lock()
		n.da.faults = append([]Fault{}, op.Faults...)
		n.da.mu.Unlock()
		h := n.m.VerifDAHeight()
		err := n.m.VerifProcessNextDAHeaderAndData(c.ctx)
		n.da.mu.Lock()
		n.da.faults = nil
		n.da.mu.Unlock()
		if err == nil {
			n.m.VerifSetDAHeight(h + 1)
		}
		fitems = append(fitems, "FScan "+vgen.List(fl))
		// what the scan found goes to the REAL SyncLoop, one event at a time in a fixed order
		var hev []block.NewHeaderEvent
		var dev []block.NewDataEvent
		for len(n.m.VerifHeaderInCh()) > 0 {
			hev = append(hev, <-n.m.VerifHeaderInCh())
		}
		for len(n.m.VerifDataInCh()) > 0 {
			dev = append(dev, <-n.m.VerifDataInCh())
		}
		c.runSync(hev, dev)
		if c.harnessE != nil {
			return
		}
		c.noteApplied(&fitems)
	case "include":
		c.runLoop(-1, false)
		items = append(items, "IInclude")
		fitems = append(fitems, "FInclude")
		aitems = append(aitems, "AInclude")
	case "crash":
		// marks that exist only in memory and belong to blocks not yet included are lost by this crash
		if c.mode == "agg" {
			hs, dsx := c.liveMarkSets()
			di := n.m.GetDAIncludedHeight()
			sh, _ := n.m.GetStoreHeight(c.ctx)
			for h := di + 1; h <= sh; h++ {
				hd, d, err := n.st.GetBlockData(c.ctx, h)
				if err != nil {
					continue
				}
				if (hs[hd.Hash().String()] && !c.savedH[hd.Hash().String()]) || (dsx[d.DACommitment().String()] && !c.savedD[d.DACommitment().String()]) {
					c.lostMark = true
				}
			}
		}
		seen := c.runLoop(op.Kc, false)
		c.nCrash++
		n.w.add(effRec{Kind: "boot"})
		n.cds = n.cds.Materialize(n.cds.Len())
		if err := n.boot(c.ctx); err != nil {
			c.fail("restart-failed", "NewManager failed after a crash: "+err.Error())
			c.harnessE = err
			return
		}
		c.checkAfterDeath(seen, "reported-height-decreases-across-crash", "at the instant of its death")
		c.noteBoot()
		items = append(items, item("ICrash %d%%nat", modelK(op.Kc)))
		fitems = append(fitems, item("FCrash %d%%nat", modelK(op.Kc)))
		aitems = append(aitems, item("ACrash %d%%nat", modelK(op.Kc)))
	case "fault":
		// effect Kc+1 of the run fails; the loop reports the error, the node shuts down cleanly and is started again
		seen := c.runLoop(op.Kc, true)
		c.savedH, c.savedD = c.liveMarkSets()
		before := c.liveMarks()
		n.bud.arm(-1, false)
		n.bud.mu.Lock()
		n.bud.dead = false
		n.bud.mu.Unlock()
		if err := n.m.SaveCache(); err != nil {
			c.harnessE = err
			return
		}
		c.saved = append(c.saved, n.cacheDirs())
		n.bud.kill()
		n.w.add(effRec{Kind: "boot"})
		if err := n.boot(c.ctx); err != nil {
			c.fail("restart-failed", "NewManager failed after a write fault: "+err.Error())
			c.harnessE = err
			return
		}
		c.checkAfterDeath(seen, "reported-height-decreases-after-write-fault", "while alive, after a failed effect")
		c.checkMarksKept(before, "a failing effect of the includer")
		c.noteBoot()
		items = append(items, item("IFault %d%%nat", modelK(op.Kc)))
		fitems = append(fitems, item("FFault %d%%nat", modelK(op.Kc)))
		aitems = append(aitems, item("AFault %d%%nat", modelK(op.Kc)))
	case "restart":
		c.savedH, c.savedD = c.liveMarkSets()
		before := c.liveMarks()
		if err := n.m.SaveCache(); err != nil {
			c.harnessE = err
			return
		}
		c.saved = append(c.saved, n.cacheDirs())
		n.bud.kill()
		n.w.add(effRec{Kind: "boot"})
		if err := n.boot(c.ctx); err != nil {
			c.fail("restart-failed", "NewManager failed after a clean shutdown: "+err.Error())
			c.harnessE = err
			return
		}
		c.checkMarksKept(before, "a clean shutdown")
		c.noteBoot()
		items = append(items, "IRestart")
		fitems = append(fitems, "FRestart")
		aitems = append(aitems, "ARestart")
	default:
		c.harnessE = fmt.Errorf("bad op %q", op.K)
		return
	}
	if c.harnessE != nil {
		return
	}
	c.ops = append(c.ops, op)
	if c.mode == "full" {
		c.fgroups = append(c.fgroups, vgen.List(fitems))
		// (no state is stored before the first block is applied: NewManager then starts from DAHeight 0)
		st, err := c.nd.st.GetState(c.ctx)
		if err != nil && !strings.Contains(err.Error(), "not found") {
			c.harnessE = fmt.Errorf("GetState: %w", err)
			return
		}
		c.fobs = append(c.fobs, [2]uint64{c.nd.m.VerifDAHeight(), st.DAHeight})
	} else {
		c.groups = append(c.groups, vgen.List(items))
		c.agroups = append(c.agroups, vgen.List(aitems))
		c.nd.da.mu.Lock()
		top := c.nd.da.top
		c.nd.da.mu.Unlock()
		c.aobs = append(c.aobs, [3]uint64{c.nd.m.VerifLastSubmittedHeaderHeight(), c.nd.m.VerifLastSubmittedDataHeight(), top})
	}
	di := c.nd.m.GetDAIncludedHeight()
	sh, _ := c.nd.m.GetStoreHeight(c.ctx)
	nx, err := c.nd.m.IsDAIncluded(c.ctx, di+1)
	c.obs = append(c.obs, obsRec{di, sh, err == nil && nx})
	c.oracle(di, sh)
}

// ---- the Go oracle: the property evaluated on the real node and the DA double ----------------------

func (c *caseRun) metaU64(key string) (uint64, bool) {
	v, err := c.nd.st.GetMetadata(c.ctx, key)
	if err != nil || len(v) != 8 {
		return 0, false
	}
	return binary.LittleEndian.Uint64(v), true
}

func (c *caseRun) daHas(height uint64, header bool, want string) bool {
	c.nd.da.mu.Lock()
	defer c.nd.da.mu.Unlock()
	for _, b := range c.nd.da.heights[height] {
		// (a byte string with the same header fields / the same transactions that the proposer did not sign is not
		// the block's header / data)
		if header {
			if hash, ok := genuineHeaderBlob(b, c.proposer); ok && hash == want {
				return true
			}
		} else if commit, ok := genuineDataBlob(b, c.proposer); ok && commit == want {
			return true
		}
	}
	return false
}

func (c *caseRun) daHasAnywhere(header bool, want string) bool {
	c.nd.da.mu.Lock()
	top := c.nd.da.top
	c.nd.da.mu.Unlock()
	for h := uint64(0); h <= top; h++ {
		if c.daHas(h, header, want) {
			return true
		}
	}
	return false
}

func (c *caseRun) oracle(di, sh uint64) {
	if di < c.prevDi {
		c.fail("height-decreased", fmt.Sprintf("DA-included height went from %d to %d", c.prevDi, di))
	}
	c.prevDi = di
	if di+1 < c.ih {
		c.fail("height-below-initial", fmt.Sprintf("DA-included height %d is below initial height - 1 = %d", di, c.ih-1))
	}
	if di > sh {
		c.fail("height-above-chain", fmt.Sprintf("DA-included height %d exceeds the chain height %d", di, sh))
	}
	// (nothing stored yet: initial height - 1)
	if v, ok := c.metaU64(store.DAIncludedHeightKey); (ok && v != di) || (!ok && di != c.ih-1) {
		c.fail("reported-differs-from-persisted", fmt.Sprintf("reported %d, metadata d = %d (present %v)", di, v, ok))
	}
	// effect log: +1 steps, SetFinal in order and before the report
	nd, lastFin := c.ih-1, c.ih-1 // the count starts just below the first block
	finSeen := map[uint64]bool{}
	bootSinceFin := false
	for _, e := range c.nd.w.snapshot() {
		switch {
		case e.Kind == "boot":
			bootSinceFin = true
		case e.Kind == "fin":
			switch {
			case e.Val == lastFin+1:
			case e.Val == lastFin && bootSinceFin && e.Val == nd+1:
			default:
				c.fail("setfinal-out-of-order", fmt.Sprintf("SetFinal(%d) after SetFinal(%d) with %d reported", e.Val, lastFin, nd))
			}
			if e.Val != nd+1 {
				c.fail("setfinal-not-next-height", fmt.Sprintf("SetFinal(%d) while the reported height is %d", e.Val, nd))
			}
			lastFin = e.Val
			finSeen[e.Val] = true
			bootSinceFin = false
		case e.Kind == "put" && e.Key == "/m/d":
			if e.Raw != 8 || e.Val != nd+1 {
				c.fail("not-plus-one", fmt.Sprintf("height stored as %d after %d", e.Val, nd))
			}
			if !finSeen[e.Val] {
				c.fail("reported-before-setfinal", fmt.Sprintf("height %d stored before SetFinal(%d)", e.Val, e.Val))
			}
			nd = e.Val
		}
	}
	if nd != di {
		c.fail("reported-differs-from-persisted", fmt.Sprintf("reported %d but the last stored height is %d", di, nd))
	}
	// every DA-included mark of a stored block is for a blob the DA layer holds at the marked DA height
	for h := c.ih; h <= sh; h++ {
		hd, d, err := c.nd.st.GetBlockData(c.ctx, h)
		if err != nil {
			continue
		}
		if v, ok := c.nd.m.HeaderCache().GetDAIncludedHeight(hd.Hash().String()); ok && !c.daHas(v, true, hd.Hash().String()) {
			c.fail("da-mark-without-blob-on-da", fmt.Sprintf("the header of height %d is marked DA-included at DA height %d; the DA layer does not hold it there (anywhere: %v)", h, v, c.daHasAnywhere(true, hd.Hash().String())))
		}
		if len(d.Txs) != 0 {
			commit := d.DACommitment().String()
			if v, ok := c.nd.m.DataCache().GetDAIncludedHeight(commit); ok && !c.daHas(v, false, commit) {
				c.fail("da-mark-without-blob-on-da", fmt.Sprintf("the data of height %d is marked DA-included at DA height %d; the DA layer does not hold it there (anywhere: %v)", h, v, c.daHasAnywhere(false, commit)))
			}
		}
	}
	// soundness of every included height, and of the recorded DA heights
	for h := c.ih; h <= di && h <= sh; h++ {
		hd, d, err := c.nd.st.GetBlockData(c.ctx, h)
		if err != nil {
			c.fail("included-block-missing", fmt.Sprintf("height %d is included but not in the store", h))
			continue
		}
		hh, okh := c.metaU64(fmt.Sprintf("%s/%d/h", store.RollkitHeightToDAHeightKey, h))
		dh, okd := c.metaU64(fmt.Sprintf("%s/%d/d", store.RollkitHeightToDAHeightKey, h))
		if !okh || !okd {
			c.fail("rhb-missing", fmt.Sprintf("no recorded DA heights for included height %d", h))
			continue
		}
		hash, commit := hd.Hash().String(), d.DACommitment().String()
		if !c.daHas(hh, true, hash) {
			if !c.daHasAnywhere(true, hash) {
				c.fail("included-without-header-on-da", fmt.Sprintf("height %d included, its header is not on the DA layer", h))
			} else {
				c.fail("rhb-header-height-wrong", fmt.Sprintf("height %d: header recorded at DA height %d, it is not there", h, hh))
			}
		}
		if len(d.Txs) == 0 {
			if dh != hh {
				c.fail("rhb-empty-data-height-differs", fmt.Sprintf("height %d is empty, recorded data height %d != header height %d", h, dh, hh))
			}
		} else if !c.daHas(dh, false, commit) {
			if !c.daHasAnywhere(false, commit) {
				c.fail("included-without-data-on-da", fmt.Sprintf("height %d included, its data is not on the DA layer", h))
			} else {
				c.fail("rhb-data-height-wrong", fmt.Sprintf("height %d: data recorded at DA height %d, it is not there", h, dh))
			}
		}
	}
}

// expectedFinal: the largest h <= chain height such that both parts of every block up to h are on the DA layer.
func (c *caseRun) expectedFinal() uint64 {
	sh, _ := c.nd.m.GetStoreHeight(c.ctx)
	var h uint64
	for h = c.ih; h <= sh; h++ { // the blocks that exist start at the initial height
		hd, d, err := c.nd.st.GetBlockData(c.ctx, h)
		if err != nil {
			break
		}
		if !c.daHasAnywhere(true, hd.Hash().String()) {
			break
		}
		if len(d.Txs) != 0 && !c.daHasAnywhere(false, d.DACommitment().String()) {
			break
		}
	}
	if h-1 < c.ih { // no existing block is completely on the DA layer
		return 0
	}
	return h - 1
}

// dataAheadOfHeader: the DA layer holds the data of some block k+1 at a lower DA height than any header of block k.
func (c *caseRun) dataAheadOfHeader() bool {
	if c.mode != "full" {
		return false
	}
	first := func(header bool, want string) uint64 {
		c.nd.da.mu.Lock()
		top := c.nd.da.top
		c.nd.da.mu.Unlock()
		for h := uint64(1); h <= top; h++ {
			if c.daHas(h, header, want) {
				return h
			}
		}
		return 0
	}
	sh, _ := c.nd.m.GetStoreHeight(c.ctx)
	for h := c.ih; h+1 <= sh; h++ {
		hd, _, err := c.nd.st.GetBlockData(c.ctx, h)
		_, d, err2 := c.nd.st.GetBlockData(c.ctx, h+1)
		if err != nil || err2 != nil || len(d.Txs) == 0 {
			continue
		}
		a, b := first(false, d.DACommitment().String()), first(true, hd.Hash().String())
		if a != 0 && b != 0 && a < b {
			return true
		}
	}
	return false
}

// quiesce: no more faults; the node does what its loops would do, then the includer runs.
func (c *caseRun) quiesce() {
	if c.mode == "agg" {
		c.exec(Op{K: "subh"})
		c.exec(Op{K: "subd"})
	} else {
		for i := 0; i < 200 && c.harnessE == nil; i++ {
			c.nd.da.mu.Lock()
			top := c.nd.da.top
			c.nd.da.mu.Unlock()
			if c.nd.m.VerifDAHeight() > top {
				break
			}
			c.exec(Op{K: "scan"})
		}
	}
	if c.harnessE == nil {
		c.exec(Op{K: "include"})
	}
	if c.harnessE != nil {
		return
	}
	want, di := c.expectedFinal(), c.nd.m.GetDAIncludedHeight()
	if di < want {
		sig := "not-eventually-included"
		if c.ih > 1 && di+1 < c.ih { // the count never reached the first block that exists
			sig = "initial-height-gt1-includer-stuck"
		} else if c.mode == "agg" && c.lostMark {
			sig = "aggregator-crash-loses-da-marks"
		}
		c.fail(sig, fmt.Sprintf("both parts of every block up to %d are on the DA layer, nothing is pending, the node reports %d and will not advance", want, di))
	}
}

type caseOut struct {
	coq      string
	viol     []string
	what     []string
	finalDi  uint64
	nOps     int
	nCrash   int
	ih       uint64
	deaths   []uint64
	shared   bool
	lost     bool
	forged   [2]int
	dataAhead bool
	err      error
	panicked string
}

func runCase(t *testing.T, mode string, ih uint64, dc int, hist []Op, idx int, withKeys bool) (out caseOut) {
	if ih == 0 {
		ih = 1
	}
	if dc < 0 || dc >= len(dirConfigs) {
		out.err = fmt.Errorf("bad directory configuration %d", dc)
		return
	}
	root, err := os.MkdirTemp("", "c07root")
	if err != nil {
		out.err = err
		return
	}
	defer os.RemoveAll(root)
	synctest.Test(t, func(t *testing.T) {
		ctx := context.Background()
		release := make(chan struct{})
		c := &caseRun{ctx: ctx, mode: mode, ih: ih, dc: dc, srcHdr: map[uint64][]byte{}, srcData: map[uint64][]byte{}, hashID: map[string]uint64{}, commitID: map[string]uint64{}, savedH: map[string]bool{}, savedD: map[string]bool{}}
		defer func() {
			if x := recover(); x != nil {
				out.panicked = fmt.Sprint(x)
			}
			close(release)
			for _, d := range c.dones {
				<-d
			}
		}()
		for i := 1; i < len(txPool); i++ {
			c.commitID[commitOf(i)] = uint64(i)
		}
		priv, pub, _ := crypto.GenerateEd25519Key(rand.New(rand.NewSource(7)))
		sg, err := noop.NewNoopSigner(priv)
		if err != nil {
			out.err = err
			return
		}
		tsig, err := types.NewSigner(pub)
		if err != nil {
			out.err = err
			return
		}
		gen := genesis.NewGenesis("c07", ih, time.Now().UTC(), tsig.Address)
		c.proposer = append([]byte{}, tsig.Address...)
		if c.nd, err = newNode(ctx, mode, sg, gen, filepath.Join(root, "ut"), dc, release); err != nil {
			out.err = err
			return
		}
		if mode == "full" {
			if c.src, err = newNode(ctx, "agg", sg, gen, filepath.Join(root, "src"), 0, release); err != nil {
				out.err = err
				return
			}
		}
		c.synced = ih - 1
		for _, op := range hist {
			c.exec(op)
			if c.harnessE != nil {
				break
			}
		}
		if c.harnessE == nil {
			c.quiesce()
		}
		if c.harnessE != nil {
			out.err = c.harnessE
			return
		}
		out.viol, out.what = c.viol, c.what
		out.finalDi = c.nd.m.GetDAIncludedHeight()
		out.nOps, out.nCrash, out.lost = len(c.ops), c.nCrash, c.lostMark
		out.forged, out.dataAhead = c.nForged, c.dataAheadOfHeader()
		seen := map[int]bool{}
		for _, tx := range c.txOf {
			if tx != 0 && seen[tx] {
				out.shared = true
			}
			seen[tx] = true
		}
		out.coq = c.coqCase(idx, withKeys)
	})
	return
}

func parseMetaKey(k string) (string, bool) {
	if k == "/m/d" {
		return "KD", true
	}
	if strings.HasPrefix(k, "/m/rhb/") {
		rest := k[len("/m/rhb/"):]
		i := strings.IndexByte(rest, '/')
		if i > 0 {
			if n, err := strconv.ParseUint(rest[:i], 10, 64); err == nil {
				switch rest[i:] {
				case "/h":
					return fmt.Sprintf("KH %d", n), true
				case "/d":
					return fmt.Sprintf("KT %d", n), true
				}
			}
		}
	}
	return "", false
}

func optN(v uint64, ok bool) string {
	if !ok {
		return "None"
	}
	return fmt.Sprintf("(Some %d)", v)
}

func (c *caseRun) coqCase(idx int, withKeys bool) string {
	var obs, trace, meta, hm, dm, keys []string
	for _, o := range c.obs {
		obs = append(obs, fmt.Sprintf("(%d, %d, %s)", o.di, o.sh, vgen.Bool(o.next)))
	}
	for _, e := range c.nd.w.snapshot() {
		switch e.Kind {
		case "fin":
			trace = append(trace, fmt.Sprintf("EFin %d", e.Val))
		case "put":
			k, ok := parseMetaKey(e.Key)
			if !ok || e.Raw != 8 {
				trace = append(trace, "EFin 999999")
				continue
			}
			trace = append(trace, fmt.Sprintf("EPut (%s) %d", k, e.Val))
		}
	}
	dump, err := crashds.Dump(c.ctx, c.nd.cds)
	if err != nil {
		c.harnessE = err
	}
	for _, p := range dump {
		if !isIncluderKey(p.Key) {
			continue
		}
		k, ok := parseMetaKey(p.Key)
		if !ok || len(p.Value) != 8 {
			meta = append(meta, "(KD, 999999)")
			continue
		}
		meta = append(meta, fmt.Sprintf("(%s, %d)", k, binary.LittleEndian.Uint64(p.Value)))
		if withKeys && len(keys) < 6 {
			keys = append(keys, fmt.Sprintf("(%s, %s)", k, vgen.Str(p.Key)))
		}
	}
	hm, dm = c.markLookups()
	var deaths []string
	for _, d := range c.deaths {
		deaths = append(deaths, fmt.Sprint(d))
	}
	var fobs []string
	for _, o := range c.fobs {
		fobs = append(fobs, fmt.Sprintf("(%d, %d)", o[0], o[1]))
	}
	var aobs, dal, saved []string
	for _, o := range c.aobs {
		aobs = append(aobs, fmt.Sprintf("(%d, %d, %d)", o[0], o[1], o[2]))
	}
	if c.mode == "agg" {
		c.nd.da.mu.Lock()
		for h := uint64(1); h <= c.nd.da.top; h++ {
			dal = append(dal, vgen.List(c.blobClasses(c.nd.da.heights[h])))
		}
		c.nd.da.mu.Unlock()
	}
	for _, d := range c.saved {
		saved = append(saved, vgen.Str(d))
	}
	return fmt.Sprintf("Definition c%d : icase := {| ic_base := %d; ic_ops := %s;\n ic_obs := %s;\n ic_trace := %s;\n ic_death := %s;\n ic_meta := %s;\n ic_hm := %s;\n ic_dm := %s;\n ic_keys := %s;\n ic_full := %s; ic_fops := %s;\n ic_fobs := %s;\n ic_cfg := (%s, %s); ic_agg := %s; ic_aops := %s;\n ic_aobs := %s;\n ic_dal := %s;\n ic_saved := %s; ic_bmarks := %s |}.",
		idx, c.ih-1, vgen.List(c.groups), vgen.List(obs), vgen.List(trace), vgen.List(deaths), vgen.List(meta), vgen.List(hm), vgen.List(dm), vgen.List(keys),
		vgen.Bool(c.mode == "full"), vgen.List(c.fgroups), vgen.List(fobs),
		vgen.Str(dirConfigs[c.dc].Root), vgen.Str(dirConfigs[c.dc].DB), vgen.Bool(c.mode == "agg"), vgen.List(c.agroups), vgen.List(aobs), vgen.List(dal), vgen.List(saved), vgen.List(c.bmarks))
}

func caseRng(seed int64, c int) *rand.Rand { return rand.New(rand.NewSource(seed*1000003 + int64(c))) }

func hasSig(o caseOut, sig string) bool {
	for _, s := range o.viol {
		if s == sig {
			return true
		}
	}
	return sig == "panic" && o.panicked != ""
}

func TestVerif(t *testing.T) {
	_ = logging.SetLogLevel("*", "fatal")
	logging.SetAllLoggers(logging.LevelFatal)
	e := vgen.GetEnv()
	res := vgen.NewResult("C07", e)
	type job struct {
		seed int64
		c    int
		mode string
		ih   uint64
		dc   int
		hist []Op
	}
	var jobs []job
	if e.Replay != "" {
		var rp Replay
		if err := vgen.LoadReplay(e.Replay, &rp); err != nil {
			t.Fatal(err)
		}
		jobs = append(jobs, job{rp.Seed, rp.Case, rp.Mode, rp.IH, rp.Cfg, rp.History})
	} else {
		files, _ := filepath.Glob("../corpus/C07/*.json")
		if os.Getenv("VERIF_NO_CORPUS") != "" {
			files = nil
		}
		for _, f := range files {
			var rp Replay
			if vgen.LoadReplay(f, &rp) == nil && rp.Mode != "" {
				jobs = append(jobs, job{rp.Seed, rp.Case, rp.Mode, rp.IH, rp.Cfg, rp.History})
			}
		}
		for c := 0; c < e.N; c++ {
			mode := "agg"
			if c%2 == 1 {
				mode = "full"
			}
			ih := uint64(1)
			if c%10 == 4 || c%10 == 9 { // one aggregator and one full-node case in ten start above height 1
				ih = 2 + uint64(c%3)
			}
			if mode == "full" && fullProfile(c) != "interleaved" && (c/10)%4 == 3 { // the other scenario streams: one case in four above height 1
				ih = 2 + uint64(c%3)
			}
			jobs = append(jobs, job{seed: e.Seed, c: c, mode: mode, ih: ih, dc: -1})
		}
	}
	maxLen := 22
	if e.Tier == "thorough" {
		maxLen = 45
	}
	var defs, cases []string
	distinct := map[string]bool{}
	sigCount := map[string]int{}
	for ji, j := range jobs {
		r := caseRng(j.seed, j.c)
		hist := j.hist
		if hist == nil {
			switch prof := fullProfile(j.c); {
			case j.mode == "full" && prof == "catchup":
				hist = genHistoryCatchup(r, maxLen, false)
			case j.mode == "full" && prof == "adversarial":
				hist = genHistoryCatchup(r, maxLen, true)
			default:
				hist = genHistory(r, j.mode, maxLen)
			}
			if j.mode == "full" {
				res.Count("stream:full-node-" + fullProfile(j.c))
			}
		}
		if j.dc < 0 {
			j.dc = genCfg(r)
		}
		out := runCase(t, j.mode, j.ih, j.dc, hist, ji, ji%10 == 0)
		if out.err != nil {
			t.Fatalf("harness error in case %d (seed %d case %d mode %s): %v", ji, j.seed, j.c, j.mode, out.err)
		}
		res.Evaluations++
		res.Count("mode:" + j.mode)
		res.Count(fmt.Sprintf("config:RootDir=%s,DBPath=%s", dirConfigs[j.dc].Root, dirConfigs[j.dc].DB))
		if j.ih > 1 {
			res.Count("history:initial-height-above-1")
		}
		for _, op := range hist {
			res.Count("op:" + op.K)
			for _, o := range op.Script {
				res.Count("da-outcome:" + o.Kind)
				if o.isErr() && o.Ids > 0 {
					res.Count("da-outcome:error-with-ids")
				}
				if o.isErr() && (o.St > 0 || o.Kind == "acklost") {
					res.Count("da-outcome:error-but-blobs-kept")
				}
			}
			if op.K == "crash" || op.K == "fault" {
				res.Count(fmt.Sprintf("%s-after-effects:%d", op.K, op.Kc))
			}
			for _, f := range op.Faults {
				res.Count("da-fetch-fault:" + f.Op + "/" + f.Text)
			}
			for _, b := range op.Blobs {
				if isForgedKind(b.Kind) {
					res.Count("da-blob:forged-" + b.Kind)
				}
			}
			if op.K == "scan" && len(op.Faults) >= 10 {
				res.Count("history:scan-iteration-with-ten-or-more-faults")
			}
		}
		res.Count(fmt.Sprintf("final-height:%d", min(out.finalDi, 10)))
		if out.shared {
			res.Count("history:two-blocks-share-a-data-commitment")
		}
		if out.lost {
			res.Count("history:aggregator-crash-with-unincluded-marks")
		}
		if out.forged[0] > 0 {
			res.Count("history:da-layer-holds-forged-copy-of-a-header")
		}
		if out.forged[1] > 0 {
			res.Count("history:da-layer-holds-forged-copy-of-signed-data")
		}
		if out.dataAhead {
			res.Count("history:data-of-a-later-block-below-the-header-of-an-earlier-one-on-da")
		}
		rp := Replay{Seed: j.seed, Case: j.c, Mode: j.mode, IH: j.ih, Cfg: j.dc, History: hist}
		if out.panicked != "" {
			out.viol = append(out.viol, "panic")
			out.what = append(out.what, out.panicked)
		}
		for vi, sig := range out.viol {
			if sigCount[sig]++; sigCount[sig] > 2 { // two shrunk witnesses per signature and run are enough
				continue
			}
			sh := vgen.Shrink(hist, func(h []Op) bool {
				o := runCase(t, j.mode, j.ih, j.dc, h, 0, false)
				return o.err == nil && hasSig(o, sig)
			})
			// then make every crash a plain crash if the failure survives
			for i := range sh {
				if (sh[i].K == "crash" || sh[i].K == "fault") && sh[i].Kc != 0 && sig != "reported-height-decreases-across-crash" && sig != "reported-height-decreases-after-write-fault" {
					cand := append([]Op{}, sh...)
					cand[i].Kc = 0
					if o := runCase(t, j.mode, j.ih, j.dc, cand, 0, false); o.err == nil && hasSig(o, sig) {
						sh = cand
					}
				}
			}
			// ... and drop every DA fetch fault the failure does not need
			for i := range sh {
				for k := 0; k < len(sh[i].Faults); {
					cand := append([]Op{}, sh...)
					cand[i].Faults = append(append([]Fault{}, sh[i].Faults[:k]...), sh[i].Faults[k+1:]...)
					if o := runCase(t, j.mode, j.ih, j.dc, cand, 0, false); o.err == nil && hasSig(o, sig) {
						sh = cand
					} else {
						k++
					}
				}
			}
			res.Violations = append(res.Violations, vgen.Violation{Signature: sig, What: out.what[vi], Case: ji,
				Replay: Replay{Seed: j.seed, Case: j.c, Mode: j.mode, IH: j.ih, Cfg: j.dc, History: sh}})
		}
		if out.panicked != "" {
			continue
		}
		if out.finalDi >= 1 && len(hist) >= 4 {
			distinct[out.coq[strings.Index(out.coq, ":="):]] = true
		}
		defs = append(defs, out.coq)
		cases = append(cases, fmt.Sprintf("c%d", ji))
		res.Replays[fmt.Sprint(len(cases)-1)] = rp
		if len(res.Samples) < 3 && out.finalDi >= 2 && out.nCrash > 0 {
			res.Samples = append(res.Samples, map[string]interface{}{"mode": j.mode, "history": hist, "final_da_included_height": out.finalDi})
		}
	}
	res.Distinct = len(distinct)
	res.Rule = "histories of 4..maxLen operations; even cases on an aggregator (real publishBlock, real submitHeadersToDA/submitDataToDA against a DA double with scripted ANSWERS per SubmitWithOptions call: ids of all / of a prefix / of no blob with a nil error; an error — generic, ErrTxTimedOut, ErrTxAlreadyInMempool, ErrBlobSizeOverLimit, ErrContextDeadline, context.Canceled — with or without ids next to it (ids of blobs it kept, or of nothing it holds) and with or without the DA layer in fact keeping a prefix of the blobs; one script in a hundred fails 30+ times in a row (maxSubmitAttempts); the model computes the marks, both watermarks and the DA content from the answers (Model/IncluderAgg.v) and all three are compared after every operation / at the end), odd cases on a full node in three scenario streams (by case index: 3 in 5 'interleaved' = the random interleavings described next, 1 in 5 'catchup', 1 in 5 'adversarial', see below): blocks and blobs come from a source aggregator's real producer / submitter; blobs (headers, data, junk; repeats; header and data of a block at the same or at different DA heights, several blocks at one DA height) are posted to the DA double; every scan operation is one RetrieveLoop iteration = the real processNextDAHeaderAndData against the DA double scripted with that iteration's fetch faults (0..11 of: GetIDs error, deadline, Get error after a truthful listing with plain / 'blob: not found' (sentinel or wrapped) / deadline / 'from the future' text; then truthful service), the cursor moved iff it returned nil, and the events it produced are handed to the REAL SyncLoop (headers, then data, each to quiescence), which applies blocks with the event's DA height; blocks also arrive as by P2P (both parts cached, real trySyncNextBlock with the scan cursor as DA height); 35% empty blocks, transaction lists drawn from 3 so that blocks share data commitments; runs of the real DAIncluderLoop under synctest; crashes (no SaveCache) after 0..9 effects (datastore writes / SetFinal calls) of an includer run with the height the dying process reports sampled at that instant, NewManager on the image; faults (effect k+1 of a run fails, the loop returns its error, clean shutdown, restart); clean restarts = the real SaveCache, then NewManager (LoadCache) on the same directories; every case runs under one of 8 directory configurations (35% the default; RootDir plain / with a space / nested / named 'data' / uncleaned with '..', DBPath 'data' / 'custom' / empty / nested / absolute / with '..'): after every SaveCache the directory below RootDir that holds the cache files is read from disk and compared with the model's, after every new process the cache lookups are compared and (oracle) every mark set before a clean stop must still be set; (oracle) after every operation every DA-included mark of a stored block must be for a blob the DA double holds at the marked height; one case in five with genesis.InitialHeight 2..4; on the full node the scan cursor m.daHeight and the State.DAHeight read back from the store are compared with the model after every operation; every history is followed by a fault-free quiescence suffix (submit what is pending / scan to the DA tip with sync, include) after which the reported height must equal the height up to which both parts of every block are on the DA double; stream 'catchup' (profiles_test.go): a chain of 2..5 blocks (35/50/70% empty) that the node mostly has by P2P before the DA layer holds it; the DA layer fills from the sequencer's two independent submission streams, headers and data each in height order in batches of 1..2 per DA height, the data stream ahead of or behind the header stream (turn bias 25/60/85%), junk and empty DA heights in between; in rounds: 1..3 more DA heights appear, the node scans up to the tip (sometimes only part of the way, sometimes under fetch faults), the includer runs, a block may arrive by P2P, and in every other round the process dies (crash after k effects 65%, failing effect 15%, clean restart 20%) so that deaths fall at every position of the DA-included frontier relative to the DA content; stream 'adversarial': the same on a DA layer to which anybody posts: forged copies of headers and of signed data = byte strings that decode with the fields of the genuine blob (same header hash / data commitment) but are not validly signed by the proposer (random signature bytes, the proposer's genuine signature of another header / data, signer and signature of a stranger's key), before, next to, after or instead of the genuine blob, typically for blocks the node already has by P2P (header hash marked seen); the harness classifies every posted blob by its own decoding AND signature verification (genuine header / data, forged copy of a known header / data, junk), the model gets these classes (BF / BG for forged copies: ignored), and the oracle counts a header / data as 'on the DA layer at height h' only if a GENUINE blob is there; one case in four of these two streams starts above height 1; the committed corpus (harness/corpus/C07) holds the full-node scenarios 'parts at different DA heights, crash after apply', 'P2P block after scanning, crash', 'Get fails after a successful listing', 'clean restarts with DBPath outside RootDir', 'data of later blocks below the headers of earlier ones on the DA layer, crash with an empty block at the DA-included frontier', 'forged copies of the header and data of blocks the node has seen', and the aggregator scenarios 'ids next to errors of every class, with and without blobs kept' and 'clean restarts / failing effect between submission and inclusion with a non-default DBPath'; non-trivial = at least 4 operations and final height >= 1; distinct = distinct projected traces"
	res.Cases = len(cases)
	header := "From Coq Require Import String NArith List Bool.\nFrom Verif Require Import Base.Keys Model.Includer Model.IncluderScan Model.IncluderAgg Check.IncluderCheck."
	defs = append([]string{"Open Scope N_scope."}, defs...)
	path := filepath.Join(e.Out, "cases_C07.v")
	if err := vgen.WriteCases(path, header, defs, "icase", cases, "mismatches"); err != nil {
		t.Fatal(err)
	}
	res.CaseFiles = []string{path}
	if err := res.Write(e.Out); err != nil {
		t.Fatal(err)
	}
}
