// Doubles of the outermost collaborators of the block Manager for the C07 harness: DA layer,
// executor, sequencer, broadcasters, and a datastore wrapper through which a process can be
// stopped dead at an exact effect (datastore write or SetFinal call).
package c07

import (
	"context"
	"crypto/sha256"
	"encoding/binary"
	"errors"
	"fmt"
	"sync"
	"time"

	ds "github.com/ipfs/go-datastore"

	coreda "github.com/evstack/ev-node/core/da"
	coreseq "github.com/evstack/ev-node/core/sequencer"
	"github.com/evstack/ev-node/types"
)

// ---- effect budget: "the process dies after k effects" ---------------------------------------

var errDead = errors.New("c07: process is dead")

type budget struct {
	mu      sync.Mutex
	limit   int // -1 = unlimited
	used    int
	dead    bool
	fault   bool // the effect beyond the limit FAILS (error returned) instead of the process dying there
	release chan struct{} // closed at the end of the case: blocked goroutines of dead processes return
}

func newBudget(release chan struct{}) *budget { return &budget{limit: -1, release: release} }

// spend is called before every effect. It returns false (after blocking until the end of the case)
// when the process is dead.
func (b *budget) spend() bool {
	b.mu.Lock()
	if b.dead || (b.limit >= 0 && b.used >= b.limit) {
		b.dead = true
		if b.fault {
			b.mu.Unlock()
			return false
		}
		b.mu.Unlock()
		<-b.release
		return false
	}
	b.used++
	b.mu.Unlock()
	return true
}
func (b *budget) arm(k int, fault bool) {
	b.mu.Lock()
	b.limit, b.used, b.fault = k, 0, fault
	b.mu.Unlock()
}
func (b *budget) kill()     { b.mu.Lock(); b.dead = true; b.mu.Unlock() }

// ---- the world's record of one node's effects ---------------------------------------------------

type effRec struct {
	Kind string // "put" "fin" "boot" (a new process incarnation: crash or restart)
	Key  string
	Val  uint64
	Raw  int // length of the value written
}

type world struct {
	mu  sync.Mutex
	log []effRec
}

func (w *world) add(e effRec) { w.mu.Lock(); w.log = append(w.log, e); w.mu.Unlock() }
func (w *world) snapshot() []effRec {
	w.mu.Lock()
	defer w.mu.Unlock()
	return append([]effRec{}, w.log...)
}

// ---- datastore wrapper ------------------------------------------------------------------------

type killDS struct {
	ds.Batching
	bud *budget
	w   *world
}

func isIncluderKey(k string) bool {
	return k == "/m/d" || (len(k) > 7 && k[:7] == "/m/rhb/")
}

func (d *killDS) Put(ctx context.Context, k ds.Key, v []byte) error {
	if !d.bud.spend() {
		return errDead
	}
	if err := d.Batching.Put(ctx, k, v); err != nil {
		return err
	}
	if isIncluderKey(k.String()) {
		e := effRec{Kind: "put", Key: k.String(), Raw: len(v)}
		if len(v) == 8 {
			e.Val = binary.LittleEndian.Uint64(v)
		}
		d.w.add(e)
	}
	return nil
}
func (d *killDS) Delete(ctx context.Context, k ds.Key) error {
	if !d.bud.spend() {
		return errDead
	}
	return d.Batching.Delete(ctx, k)
}

type killBatch struct {
	ds.Batch
	d *killDS
}

func (d *killDS) Batch(ctx context.Context) (ds.Batch, error) {
	b, err := d.Batching.Batch(ctx)
	if err != nil {
		return nil, err
	}
	return &killBatch{Batch: b, d: d}, nil
}
func (b *killBatch) Commit(ctx context.Context) error {
	if !b.d.bud.spend() {
		return errDead
	}
	return b.Batch.Commit(ctx)
}

// ---- executor ---------------------------------------------------------------------------------

type execDouble struct {
	w   *world
	bud *budget
}

func (e *execDouble) InitChain(ctx context.Context, genesisTime time.Time, initialHeight uint64, chainID string) ([]byte, uint64, error) {
	r := sha256.Sum256([]byte("c07-genesis"))
	return r[:], 1 << 20, nil
}
func (e *execDouble) GetTxs(ctx context.Context) ([][]byte, error) { return nil, nil }
func (e *execDouble) ExecuteTxs(ctx context.Context, txs [][]byte, blockHeight uint64, timestamp time.Time, prev []byte) ([]byte, uint64, error) {
	h := sha256.New()
	h.Write(prev)
	for _, t := range txs {
		h.Write([]byte{0})
		h.Write(t)
	}
	return h.Sum(nil), 1 << 20, nil
}
func (e *execDouble) SetFinal(ctx context.Context, blockHeight uint64) error {
	if !e.bud.spend() {
		return errDead
	}
	e.w.add(effRec{Kind: "fin", Val: blockHeight})
	return nil
}

// ---- sequencer --------------------------------------------------------------------------------

type seqDouble struct {
	mu   sync.Mutex
	next *coreseq.GetNextBatchResponse
}

func (s *seqDouble) SubmitBatchTxs(ctx context.Context, req coreseq.SubmitBatchTxsRequest) (*coreseq.SubmitBatchTxsResponse, error) {
	return &coreseq.SubmitBatchTxsResponse{}, nil
}
func (s *seqDouble) GetNextBatch(ctx context.Context, req coreseq.GetNextBatchRequest) (*coreseq.GetNextBatchResponse, error) {
	s.mu.Lock()
	defer s.mu.Unlock()
	r := s.next
	s.next = nil
	if r == nil {
		return &coreseq.GetNextBatchResponse{}, nil
	}
	return r, nil
}
func (s *seqDouble) VerifyBatch(ctx context.Context, req coreseq.VerifyBatchRequest) (*coreseq.VerifyBatchResponse, error) {
	return &coreseq.VerifyBatchResponse{Status: true}, nil
}

// ---- broadcasters -------------------------------------------------------------------------------

type nopHeaderBroadcaster struct{}

func (nopHeaderBroadcaster) WriteToStoreAndBroadcast(ctx context.Context, p *types.SignedHeader) error {
	return nil
}

type nopDataBroadcaster struct{}

func (nopDataBroadcaster) WriteToStoreAndBroadcast(ctx context.Context, p *types.Data) error {
	return nil
}

// ---- DA layer -----------------------------------------------------------------------------------

// Outcome of one SubmitWithOptions call: what the DA layer ANSWERS and what it in fact keeps.
//   ok            ids of all blobs, nil error; the blobs are on a new DA height
//   part          ids of the first K blobs, nil error (K = 0: a nil slice); those blobs are on a new DA height
//   err timeout mempool toobig deadline cancel
//                 an error of that class (generic / ErrTxTimedOut / ErrTxAlreadyInMempool / ErrBlobSizeOverLimit /
//                 ErrContextDeadline / context.Canceled) TOGETHER WITH the ids of the first Ids blobs (0 = nil slice),
//                 while the DA layer in fact keeps the first St blobs (0 = nothing) on a new DA height
//   acklost       = err with St = all (kept for the replay files written before Ids / St existed)
type Outcome struct {
	Kind string `json:"kind"`
	K    int    `json:"k,omitempty"`   // part: number of blobs accepted
	Ids  int    `json:"ids,omitempty"` // error answers: ids returned next to the error
	St   int    `json:"st,omitempty"`  // error answers: blobs the DA layer keeps all the same
}

func (o Outcome) isErr() bool { return o.Kind != "ok" && o.Kind != "part" }

// coq: the answer in the vocabulary of Model/IncluderAgg.v
func (o Outcome) coq() string {
	switch o.Kind {
	case "ok":
		return "AOk 1000"
	case "part":
		return fmt.Sprintf("AOk %d", o.K)
	}
	cls := "EOther"
	switch o.Kind {
	case "timeout":
		cls = "ETimeout"
	case "mempool":
		cls = "EMempool"
	case "cancel":
		cls = "ECancel"
	}
	st := o.St
	if o.Kind == "acklost" {
		st = 1000
	}
	return fmt.Sprintf("AErr %s %d %d", cls, o.Ids, st)
}

func (o Outcome) err() error {
	switch o.Kind {
	case "timeout":
		return coreda.ErrTxTimedOut
	case "mempool":
		return coreda.ErrTxAlreadyInMempool
	case "toobig":
		return coreda.ErrBlobSizeOverLimit
	case "deadline":
		return coreda.ErrContextDeadline
	case "cancel":
		return context.Canceled
	case "acklost":
		return errors.New("c07: connection lost after inclusion")
	}
	return errors.New("c07: DA unavailable")
}

type submitCall struct {
	Blobs    [][]byte
	Accepted int    // blobs stored on the DA layer
	Acked    bool   // the caller was told
	Height   uint64 // DA height they went to (0 = none)
}

// Fault: what one fetch attempt of the DA scan meets instead of being served.
//   op "list": GetIDs fails; op "get": GetIDs lists the ids truthfully and the Get fails.
//   text: "plain" (some transport error), "deadline" (coreda.ErrContextDeadline), "nf" (the sentinel
//   coreda.ErrBlobNotFound itself), "nfwrap" (an error wrapping it, as the jsonrpc proxy produces), "fut" (an error
//   wrapping coreda.ErrHeightFromFuture).  A listing that claims "not found" for a height that has blobs is not a
//   fault but a lie about the content of the DA layer: op "list" with text nf/nfwrap is rejected.
type Fault struct {
	Op   string `json:"op"`
	Text string `json:"text,omitempty"`
}

func (f Fault) nf() bool  { return f.Text == "nf" || f.Text == "nfwrap" }
func (f Fault) fut() bool { return f.Text == "fut" }
func (f Fault) err() error {
	switch f.Text {
	case "nf":
		return coreda.ErrBlobNotFound
	case "nfwrap":
		return fmt.Errorf("rpc error: failed to get blob: %w", coreda.ErrBlobNotFound)
	case "fut":
		return fmt.Errorf("c07: node is syncing: %w", coreda.ErrHeightFromFuture)
	case "deadline":
		return coreda.ErrContextDeadline
	}
	return errors.New("c07: DA unavailable")
}

type daDouble struct {
	mu      sync.Mutex
	heights map[uint64][][]byte
	top     uint64
	script  []Outcome
	calls   []submitCall
	faults  []Fault // met by the successive GetIDs / Get calls, in order; then truthful service
}

func newDA() *daDouble { return &daDouble{heights: map[uint64][][]byte{}} }

func makeID(h uint64, i int) []byte {
	id := make([]byte, 12)
	binary.LittleEndian.PutUint64(id, h)
	binary.LittleEndian.PutUint32(id[8:], uint32(i))
	return id
}

// post creates a new DA height holding the given blobs (full-node variant: someone else's submissions).
func (d *daDouble) post(blobs [][]byte) uint64 {
	d.mu.Lock()
	defer d.mu.Unlock()
	d.top++
	d.heights[d.top] = blobs
	return d.top
}

func (d *daDouble) SubmitWithOptions(ctx context.Context, blobs []coreda.Blob, gasPrice float64, ns []byte, opts []byte) ([]coreda.ID, error) {
	d.mu.Lock()
	defer d.mu.Unlock()
	o := Outcome{Kind: "ok"}
	if len(d.script) > 0 {
		o = d.script[0]
		d.script = d.script[1:]
	}
	cp := make([][]byte, len(blobs))
	for i, b := range blobs {
		cp[i] = append([]byte{}, b...)
	}
	call := submitCall{Blobs: cp}
	store := func(k int) []coreda.ID {
		d.top++
		d.heights[d.top] = cp[:k]
		call.Accepted, call.Height = k, d.top
		ids := make([]coreda.ID, k)
		for i := range ids {
			ids[i] = makeID(d.top, i)
		}
		return ids
	}
	var ids []coreda.ID
	var err error
	capn := func(k int) int {
		if k > len(cp) {
			return len(cp)
		}
		if k < 0 {
			return 0
		}
		return k
	}
	switch {
	case o.Kind == "part":
		if k := capn(o.K); k > 0 {
			ids = store(k)
			call.Acked = true
		}
	case o.isErr():
		err = o.err()
		st := capn(o.St)
		if o.Kind == "acklost" {
			st = len(cp)
		}
		h := d.top + 1 // ids that come with an error and without inclusion name a height the DA layer does not have
		if st > 0 {
			store(st)
			h = d.top
		}
		for i := 0; i < capn(o.Ids); i++ {
			ids = append(ids, makeID(h, i))
		}
	default:
		ids = store(len(cp))
		call.Acked = true
	}
	d.calls = append(d.calls, call)
	return ids, err
}
func (d *daDouble) Submit(ctx context.Context, blobs []coreda.Blob, gasPrice float64, ns []byte) ([]coreda.ID, error) {
	return d.SubmitWithOptions(ctx, blobs, gasPrice, ns, nil)
}
func (d *daDouble) GetIDs(ctx context.Context, height uint64, ns []byte) (*coreda.GetIDsResult, error) {
	d.mu.Lock()
	defer d.mu.Unlock()
	if len(d.faults) > 0 && d.faults[0].Op == "list" {
		f := d.faults[0]
		d.faults = d.faults[1:]
		return nil, f.err()
	}
	if height > d.top {
		return nil, coreda.ErrHeightFromFuture
	}
	bl := d.heights[height]
	if len(bl) == 0 {
		return nil, coreda.ErrBlobNotFound
	}
	ids := make([]coreda.ID, len(bl))
	for i := range bl {
		ids[i] = makeID(height, i)
	}
	return &coreda.GetIDsResult{IDs: ids, Timestamp: time.Now()}, nil
}
func (d *daDouble) Get(ctx context.Context, ids []coreda.ID, ns []byte) ([]coreda.Blob, error) {
	d.mu.Lock()
	defer d.mu.Unlock()
	if len(d.faults) > 0 && d.faults[0].Op == "get" {
		f := d.faults[0]
		d.faults = d.faults[1:]
		return nil, f.err()
	}
	var out []coreda.Blob
	for _, id := range ids {
		if len(id) != 12 {
			return nil, coreda.ErrBlobNotFound
		}
		h, i := binary.LittleEndian.Uint64(id), int(binary.LittleEndian.Uint32(id[8:]))
		bl := d.heights[h]
		if i >= len(bl) {
			return nil, coreda.ErrBlobNotFound
		}
		out = append(out, bl[i])
	}
	return out, nil
}
func (d *daDouble) GetProofs(ctx context.Context, ids []coreda.ID, ns []byte) ([]coreda.Proof, error) {
	return make([]coreda.Proof, len(ids)), nil
}
func (d *daDouble) Commit(ctx context.Context, blobs []coreda.Blob, ns []byte) ([]coreda.Commitment, error) {
	return make([]coreda.Commitment, len(blobs)), nil
}
func (d *daDouble) Validate(ctx context.Context, ids []coreda.ID, proofs []coreda.Proof, ns []byte) ([]bool, error) {
	r := make([]bool, len(ids))
	for i := range r {
		r[i] = true
	}
	return r, nil
}
func (d *daDouble) GasPrice(ctx context.Context) (float64, error)      { return 1, nil }
func (d *daDouble) GasMultiplier(ctx context.Context) (float64, error) { return 1, nil }
