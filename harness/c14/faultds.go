// faultds: a transient write FAULT above the recording datastore.  crashds cuts execution (the process dies and
// its result is lost); this layer makes ONE write attempt return an error while the store lives on and keeps
// being used - disk full, I/O error, cancelled context.
//
// Arm(k): write attempt number k (from 0; a Put, a Delete or a Batch.Commit, counted from the call of Arm) returns
// ErrFault and does not reach the layer below (so it is neither applied nor logged); every other attempt is
// forwarded.  Disarm returns the attempt that was refused, or nil if the operation made fewer than k+1 attempts.
package c14

import (
	"context"
	"errors"
	"sync"

	ds "github.com/ipfs/go-datastore"

	"verif/harness/doubles/crashds"
)

var ErrFault = errors.New("faultds: injected transient write error")

type faultDS struct {
	ds.Batching
	mu       sync.Mutex
	armed    bool
	k        int // the attempt to refuse
	attempts int // attempts since Arm
	failed   *crashds.Write
}

func newFaultDS(inner ds.Batching) *faultDS { return &faultDS{Batching: inner} }

func (f *faultDS) Arm(k int) {
	f.mu.Lock()
	defer f.mu.Unlock()
	f.armed, f.k, f.attempts, f.failed = true, k, 0, nil
}

func (f *faultDS) Disarm() *crashds.Write {
	f.mu.Lock()
	defer f.mu.Unlock()
	f.armed = false
	w := f.failed
	f.failed = nil
	return w
}

func (f *faultDS) hit(w crashds.Write) bool {
	f.mu.Lock()
	defer f.mu.Unlock()
	if !f.armed {
		return false
	}
	n := f.attempts
	f.attempts++
	if n == f.k && f.failed == nil {
		f.failed = &w
		return true
	}
	return false
}

func (f *faultDS) Put(ctx context.Context, k ds.Key, v []byte) error {
	if f.hit(crashds.Write{Prims: []crashds.Prim{{Key: k.String(), Value: append([]byte{}, v...)}}}) {
		return ErrFault
	}
	return f.Batching.Put(ctx, k, v)
}

func (f *faultDS) Delete(ctx context.Context, k ds.Key) error {
	if f.hit(crashds.Write{Prims: []crashds.Prim{{Key: k.String(), Del: true}}}) {
		return ErrFault
	}
	return f.Batching.Delete(ctx, k)
}

type faultBatch struct {
	ds.Batch
	f     *faultDS
	prims []crashds.Prim
}

func (f *faultDS) Batch(ctx context.Context) (ds.Batch, error) {
	b, err := f.Batching.Batch(ctx)
	if err != nil {
		return nil, err
	}
	return &faultBatch{Batch: b, f: f}, nil
}

func (b *faultBatch) Put(ctx context.Context, k ds.Key, v []byte) error {
	b.prims = append(b.prims, crashds.Prim{Key: k.String(), Value: append([]byte{}, v...)})
	return b.Batch.Put(ctx, k, v)
}

func (b *faultBatch) Delete(ctx context.Context, k ds.Key) error {
	b.prims = append(b.prims, crashds.Prim{Key: k.String(), Del: true})
	return b.Batch.Delete(ctx, k)
}

func (b *faultBatch) Commit(ctx context.Context) error {
	if b.f.hit(crashds.Write{Batch: true, Prims: b.prims}) {
		return ErrFault
	}
	return b.Batch.Commit(ctx)
}
