// The caller's OBJECTS.  SaveBlockData takes pointers (*types.SignedHeader, *types.Data) and the reads hand pointers
// back, so a history is not only a sequence of store calls: between two calls the caller goes on using the objects it
// passed in (block.Manager.publishBlockInternal sets data.Metadata and header.Signature on the very objects of its
// early "pending block" save, and returns without the second save when signing or validation fails), re-uses them for
// the next block, or modifies what a read gave it (publishBlock modifies the pending block it loaded).  The property
// speaks of what was WRITTEN: a read returns the latest acknowledged write, whatever the caller has done since to the
// objects on its side.  This file gives every save its OWN fresh objects (as a caller has), remembers them and the
// objects of the latest read, and adds the history item "mut": the caller overwrites, in place, the header and / or
// the data object of its latest save ("mutsaved") or of its latest read ("mutread") with the content of another pool
// entry (mostly a same-hash sibling: the same Header with another Signature / Signer - exactly what the node sets
// between its two saves -, sometimes any other header = the object re-used for another block).  The store is not
// called by such an item; nothing that is read afterwards may change.
package c14

import (
	"math/rand"
	"strings"

	"github.com/evstack/ev-node/types"

	"verif/harness/vgen"
)

// a fresh header object with the content of pool header i (the byte slices inside are shared with the pool and are
// never written to: modifications assign fields)
func (p *pool) freshHdr(i int) *types.SignedHeader {
	src := p.hdrs[i]
	return &types.SignedHeader{Header: src.Header, Signature: src.Signature, Signer: src.Signer}
}

func (p *pool) freshData(i int) *types.Data {
	src := p.datas[i]
	d := &types.Data{Txs: src.Txs}
	if src.Metadata != nil {
		m := *src.Metadata
		d.Metadata = &m
	}
	return d
}

// the caller modifies objects on ITS side, in place; the store is not called
func (r *runner) mutate(o *Op) {
	h, d := r.savedH, r.savedD
	if o.K == "mutread" {
		h, d = r.readH, r.readD
	}
	if strings.Contains(o.Part, "h") && h != nil {
		src := r.p.hdrs[o.H]
		h.Header, h.Signature, h.Signer = src.Header, src.Signature, src.Signer
	}
	if strings.Contains(o.Part, "d") && d != nil {
		src := r.p.datas[o.D%len(r.p.datas)]
		d.Txs = src.Txs
		if src.Metadata != nil {
			m := *src.Metadata
			d.Metadata = &m
		} else {
			d.Metadata = nil
		}
	}
}

// the process died: its objects are gone
func (r *runner) dropObjects() { r.savedH, r.savedD, r.readH, r.readD = nil, nil, nil, nil }

func (o *oracle) noteMut(op *Op) {
	if o.mutH == nil {
		o.mutH, o.mutD = map[uint64]bool{}, map[uint64]bool{}
	}
	if strings.Contains(op.Part, "h") {
		o.mutH[uint64(op.H)] = true
	}
	if strings.Contains(op.Part, "d") {
		o.mutD[uint64(op.D)] = true
	}
}

// a read that is not the latest acknowledged write: if the header or the data it returned instead is what the caller
// put into one of ITS objects after the save, say so
func (o *oracle) mutSig(def string, got out, want refBlock, found bool) string {
	if !found {
		return def
	}
	if (got.kind == "block" || got.kind == "header") && got.a != uint64(want.h) && o.mutH[got.a] {
		return "read-returns-an-object-the-caller-modified-after-the-save"
	}
	if got.kind == "block" && got.b != uint64(want.d) && o.mutD[got.b] {
		return "read-returns-an-object-the-caller-modified-after-the-save"
	}
	return def
}

func mutCoq(o *Op) string {
	h, d := "None", "None"
	if strings.Contains(o.Part, "h") {
		h = "(Some " + hname(uint64(o.H)) + ")"
	}
	if strings.Contains(o.Part, "d") {
		d = "(Some " + vgen.N(uint64(o.D)) + ")"
	}
	if o.K == "mutread" {
		return "CMutRead " + h + " " + d
	}
	return "CMutSaved " + h + " " + d
}

// the caller-objects stream: a block is saved; then - with NO further save at that height - the caller modifies the
// objects it passed in (header, data or both), or reads the block and modifies what it was given; then the height is
// read (some or all of the five kinds of read) on the SAME store handle while it is still the latest save, and the
// modifying goes on (the same objects again, the objects of the read just made); then, mostly, one of: the final save
// of a same-hash sibling (what the node does), a save at ANOTHER height followed by the reads again, a reopen, a
// second save that meets a write fault or dies in a crash (the first block must still be read) - and the reads again.
func genCallerObjectStream(r *rand.Rand, p *pool) []Item {
	var h []Item
	op := func(o *Op) { h = append(h, Item{T: "op", Op: o}) }
	some := func(os []*Op) {
		all := r.Intn(3) == 0
		n := 0
		for _, o := range os {
			if all || r.Intn(2) == 0 {
				op(o)
				n++
			}
		}
		if n == 0 {
			op(os[r.Intn(2)]) // a read that returns objects
		}
	}
	otherHdr := func(v int) int {
		if v < p.nBase*3 && r.Intn(4) > 0 { // a same-hash sibling: another Signature / Signer
			g := p.group(v)
			for {
				if c := g[r.Intn(3)]; c != v {
					return c
				}
			}
		}
		for {
			if c := r.Intn(p.nOrd); c != v {
				return c
			}
		}
	}
	mut := func(kind string, v, d int) {
		part := []string{"h", "d", "hd", "hd"}[r.Intn(4)]
		h = append(h, Item{T: "mut", Op: &Op{K: kind, Part: part, H: otherHdr(v), D: (d + 1 + r.Intn(5)) % 6}})
	}
	for i, n := 0, r.Intn(5); i < n; i++ {
		op(genOp(r, p))
	}
	for j, rounds := 0, 1+r.Intn(3); j < rounds; j++ {
		v := r.Intn(p.nOrd)
		d1, s1 := r.Intn(6), r.Intn(len(p.sigs))
		n := p.hdrs[v].Height()
		if r.Intn(3) == 0 { // an older block at another height: v is saved after it
			op(&Op{K: "save", H: r.Intn(p.nOrd), D: r.Intn(6), S: r.Intn(len(p.sigs))})
		}
		op(&Op{K: "save", H: v, D: d1, S: s1})
		if r.Intn(3) == 0 {
			some(readsOf(p, v))
		}
		for k, steps := 0, 1+r.Intn(3); k < steps; k++ {
			if r.Intn(2) == 0 {
				mut("mutsaved", v, d1)
			} else {
				op([]*Op{{K: "getblock", N: n}, {K: "getheader", N: n}, {K: "byhash", H: v}}[r.Intn(3)])
				mut("mutread", v, d1)
			}
			some(readsOf(p, v))
		}
		switch x := r.Intn(8); {
		case x < 2: // the final save: a same-hash sibling (or the identical header), other signature record
			v2 := otherHdr(v)
			if p.base(v2) != p.base(v) {
				v2 = v
			}
			op(&Op{K: "save", H: v2, D: d1, S: (s1 + 1) % len(p.sigs)})
			some(readsOf(p, v2))
			mut("mutsaved", v2, d1)
			some(readsOf(p, v2))
		case x == 2: // another height becomes the latest save
			w := r.Intn(p.nOrd)
			for p.hdrs[w].Height() == n {
				w = r.Intn(p.nOrd)
			}
			op(&Op{K: "save", H: w, D: r.Intn(6), S: r.Intn(len(p.sigs))})
			some(readsOf(p, v))
		case x == 3:
			h = append(h, Item{T: "reopen"})
			some(readsOf(p, v))
			mut("mutread", v, d1)
			some(readsOf(p, v))
		case x == 4:
			h = append(h, Item{T: "fault", Op: &Op{K: "save", H: otherHdr(v), D: r.Intn(6), S: r.Intn(len(p.sigs))}, Kc: 0})
			mut("mutsaved", v, d1)
			some(readsOf(p, v))
		case x == 5:
			h = append(h, Item{T: "crash", Op: &Op{K: "save", H: otherHdr(v), D: r.Intn(6), S: r.Intn(len(p.sigs))}, Kc: r.Intn(2)})
			mut("mutsaved", v, d1)
			some(readsOf(p, v))
		}
		for i, n := 0, r.Intn(3); i < n; i++ {
			op(genOp(r, p))
		}
	}
	return h
}
