// C14 correspondence harness: random operation histories against the real pkg/store.DefaultStore
// (on a recording datastore; a share of cases on a real on-disk badger with true close/reopen),
// with crashes inside operations and transient write faults inside operations (one datastore write attempt
// returns an error, the store lives on).  Writes cases_C14.v (for Model/Store.v) and result.json (oracle).
package c14

import (
	"bytes"
	"context"
	"encoding/binary"
	"encoding/json"
	"fmt"
	"math/rand"
	"os"
	"path/filepath"
	"sort"
	"strings"
	"testing"
	"time"

	ds "github.com/ipfs/go-datastore"

	"github.com/evstack/ev-node/pkg/store"
	"github.com/evstack/ev-node/types"

	"verif/harness/doubles/crashds"
	"verif/harness/vgen"
)

// ---- pools ---------------------------------------------------------------------------------

type pool struct {
	hdrs    []*types.SignedHeader
	hdrBlob [][]byte
	datas   []*types.Data
	datBlob [][]byte
	sigs    []types.Signature
	states  []types.State
	stBlob  [][]byte
	vals    [][]byte
	keys    []string
	heights []uint64
	nBase   int // hdrs[:nBase] have pairwise distinct hashes; hdrs[nBase+2*b], hdrs[nBase+2*b+1] are the same-hash siblings of hdrs[b]

	// byte-boundary heights of this case: bound is a height whose little-endian record has low byte(s) 00 (a multiple of
	// 256, of 65536, ..., a power of two, 2^32, ...); bheights is its neighbourhood on both sides and around the next
	// multiple of 256.  hdrs[3*nBase:] are extra headers (no siblings) at bound-1, bound, bound+1.
	bound    uint64
	bheights []uint64
	// big payloads, made on demand: (base data index, marshalled length) -> index into datas / datBlob
	big map[[2]int]int

	// hdrs[:nOrd] are the headers above; hdrs[nOrd:] are the "awkward" headers (addAwkward): their hash has, in some
	// textual form a key could be built from, neighbours under key normalisation - nbrs[index] lists them.
	nOrd int
	nbrs map[int][]nbr
	// how many bytes of a hash the Coq terms of this case carry (hashProj, or all of them when the history has reads
	// by caller-supplied hashes)
	proj int
}

// a height whose 8-byte little-endian record ends a run of low bytes: the neighbours bound-1 / bound differ in a byte
// above the lowest one, and their low bytes order the other way round
func drawBound(r *rand.Rand) uint64 {
	var b uint64
	switch r.Intn(7) {
	case 0:
		b = 256
	case 1:
		b = 256 * uint64(1+r.Intn(2000)) // a multiple of 256 a chain reaches soon
	case 2:
		b = 1 << (8 * uint(1+r.Intn(7))) // 2^8, 2^16, 2^24, 2^32, ... 2^56
	case 3:
		b = uint64(1+r.Intn(255)) << (8 * uint(1+r.Intn(7))) // k * 2^(8j)
	case 4:
		b = 1 << uint(9+r.Intn(55)) // any power of two up to 2^63
	case 5:
		b = 1<<64 - 256 // the last multiple of 256: bound+255 is the largest height
	default:
		b = r.Uint64() &^ 0xff // a large initial height, somewhere
	}
	if b < 256 {
		b = 256
	}
	return b
}

func (p *pool) pickHeight(r *rand.Rand) uint64 {
	if r.Intn(4) == 0 {
		return p.bheights[r.Intn(len(p.bheights))]
	}
	return p.heights[r.Intn(len(p.heights))]
}

// the data of a save: pool data o.D, or (o.Sz > 0) pool data o.D grown by one filler transaction so that its
// marshalled blob is o.Sz bytes long (exactly, except where a varint length step makes that length unreachable)
func (p *pool) bigData(d, sz int) int {
	d = d % 6
	if i, ok := p.big[[2]int{d, sz}]; ok {
		return i
	}
	base := p.datas[d]
	pat := make([]byte, 4096)
	for i := range pat {
		pat[i] = byte(i*131 + d*7 + sz + i>>8)
	}
	mk := func(n int) (*types.Data, []byte) {
		f := make([]byte, n)
		for o := 0; o < n; o += len(pat) {
			copy(f[o:], pat)
		}
		nd := &types.Data{Metadata: base.Metadata}
		nd.Txs = append(append(types.Txs{}, base.Txs...), f)
		b, err := nd.MarshalBinary()
		if err != nil {
			panic(err)
		}
		return nd, b
	}
	n := sz - len(p.datBlob[d]) - 4
	if n < 1 {
		n = 1
	}
	nd, blob := mk(n)
	for it := 0; it < 4 && len(blob) != sz; it++ {
		n += sz - len(blob)
		if n < 1 {
			n = 1
		}
		nd, blob = mk(n)
	}
	i := int(idx(p.datBlob, blob))
	if i == 999999 {
		p.datas = append(p.datas, nd)
		p.datBlob = append(p.datBlob, blob)
		i = len(p.datas) - 1
	}
	p.big[[2]int{d, sz}] = i
	return i
}

// the history with every big payload made and named by its pool index (what the runner, the oracle and the Coq
// terms use); replay files keep the (base data, length) form
func resolveHist(p *pool, hist []Item) []Item {
	out := make([]Item, len(hist))
	for i, it := range hist {
		out[i] = it
		if it.Op != nil && it.Op.K == "save" && it.Op.Sz > 0 {
			c := *it.Op
			c.D, c.Sz = p.bigData(it.Op.D, it.Op.Sz), 0
			out[i].Op = &c
		}
	}
	return out
}

// sibling k (1 or 2) of base header b: the same Header (hence the same Hash() and height) in a SignedHeader of
// different bytes - Header.Hash() covers neither SignedHeader.Signature nor SignedHeader.Signer.  The node itself
// saves every block twice under one hash (early save: the previous block's signature in the header; final save:
// the block's own).  k == 0 is b itself.
func (p *pool) sibling(b, k int) int {
	if k <= 0 || b >= p.nBase {
		return b
	}
	return p.nBase + 2*b + (k-1)%2
}

// the base header whose hash a header shares, and its whole same-hash group
func (p *pool) base(i int) int {
	if i < p.nBase || i >= 3*p.nBase {
		return i
	}
	return (i - p.nBase) / 2 // (the awkward headers, from nOrd on, have no siblings)
}
func (p *pool) group(i int) []int { b := p.base(i); return []int{b, p.sibling(b, 1), p.sibling(b, 2)} }

func rbytes(r *rand.Rand, n int) []byte { b := make([]byte, n); r.Read(b); return b }

func newPool(r *rand.Rand) *pool {
	p := &pool{big: map[[2]int]int{}, nbrs: map[int][]nbr{}, proj: hashProj}
	p.heights = []uint64{1, 2, 3, 4, 5, 10, 1000000, 1<<64 - 1}
	for _, h := range p.heights {
		nv := 1 + r.Intn(3)
		for v := 0; v < nv; v++ {
			sh := &types.SignedHeader{
				Header: types.Header{
					BaseHeader:      types.BaseHeader{Height: h, Time: uint64(r.Int63()), ChainID: "c14"},
					DataHash:        rbytes(r, 32),
					AppHash:         rbytes(r, 32),
					ProposerAddress: rbytes(r, 32),
					LastHeaderHash:  rbytes(r, 32),
				},
				Signature: rbytes(r, 64),
			}
			b, err := sh.MarshalBinary()
			if err != nil {
				panic(err)
			}
			p.hdrs = append(p.hdrs, sh)
			p.hdrBlob = append(p.hdrBlob, b)
		}
	}
	for i := 0; i < 6; i++ {
		d := &types.Data{}
		if i > 0 {
			d.Metadata = &types.Metadata{ChainID: "c14", Height: uint64(i), Time: uint64(r.Int63())}
			nt := r.Intn(4)
			for t := 0; t < nt; t++ {
				d.Txs = append(d.Txs, rbytes(r, 1+r.Intn(20)))
			}
		}
		b, err := d.MarshalBinary()
		if err != nil {
			panic(err)
		}
		p.datas = append(p.datas, d)
		p.datBlob = append(p.datBlob, b)
	}
	// pool blobs must be pairwise distinct for the projection to be well defined
	p.sigs = []types.Signature{{}, rbytes(r, 64), rbytes(r, 64), rbytes(r, 1)}
	for i := 0; i < 4; i++ {
		s := types.State{ChainID: "c14", InitialHeight: 1, LastBlockHeight: uint64(r.Intn(100)), LastBlockTime: time.Unix(0, r.Int63()), DAHeight: uint64(r.Intn(50)), AppHash: rbytes(r, 32)}
		s.Version = types.Version{Block: uint64(i), App: 1}
		p.states = append(p.states, s)
	}
	p.vals = [][]byte{{}, rbytes(r, 8), rbytes(r, 8), rbytes(r, 33)}
	p.keys = []string{"d", "l", "last-submitted-header-height", "last-submitted-data-height",
		"rhb/1/h", "rhb/1/d", "rhb/10/h", "h", "t/1", "m", fmt.Sprintf("k%d", r.Intn(1000))}
	// same-hash siblings (drawn last: everything above is what it was before they existed)
	p.nBase = len(p.hdrs)
	for b := 0; b < p.nBase; b++ {
		for k := 1; k <= 2; k++ {
			sh := &types.SignedHeader{Header: p.hdrs[b].Header}
			if k == 1 {
				sh.Signature = rbytes(r, 64) // another signature
			} else {
				sh.Signer = types.Signer{Address: rbytes(r, 20)} // no signature, another signer address
			}
			blob, err := sh.MarshalBinary()
			if err != nil {
				panic(err)
			}
			if !bytes.Equal(sh.Hash(), p.hdrs[b].Hash()) || bytes.Equal(blob, p.hdrBlob[b]) {
				panic("same-hash sibling: hash differs or bytes equal")
			}
			p.hdrs = append(p.hdrs, sh)
			p.hdrBlob = append(p.hdrBlob, blob)
		}
	}
	// byte-boundary heights and three headers there (drawn after everything else)
	p.bound = drawBound(r)
	for _, d := range []int64{-2, -1, 0, 1, 2, 254, 255, 256, 257} {
		h := p.bound + uint64(d)
		if (d > 0 && h < p.bound) || h == 0 {
			continue // beyond the largest height
		}
		p.bheights = append(p.bheights, h)
	}
	for _, d := range []int64{-1, 0, 1} {
		sh := &types.SignedHeader{
			Header: types.Header{
				BaseHeader:      types.BaseHeader{Height: p.bound + uint64(d), Time: uint64(r.Int63()), ChainID: "c14"},
				DataHash:        rbytes(r, 32),
				AppHash:         rbytes(r, 32),
				ProposerAddress: rbytes(r, 32),
				LastHeaderHash:  rbytes(r, 32),
			},
			Signature: rbytes(r, 64),
		}
		b, err := sh.MarshalBinary()
		if err != nil {
			panic(err)
		}
		p.hdrs = append(p.hdrs, sh)
		p.hdrBlob = append(p.hdrBlob, b)
	}
	p.nOrd = len(p.hdrs)
	return p
}

func (p *pool) hdrID(sh *types.SignedHeader) uint64 {
	b, err := sh.MarshalBinary()
	if err != nil {
		return 999998
	}
	return idx(p.hdrBlob, b)
}
func idx(pool [][]byte, b []byte) uint64 {
	for i, x := range pool {
		if bytes.Equal(x, b) {
			return uint64(i)
		}
	}
	return 999999
}
func (p *pool) dataID(d *types.Data) uint64 {
	b, err := d.MarshalBinary()
	if err != nil {
		return 999998
	}
	return idx(p.datBlob, b)
}
func (p *pool) sigID(s []byte) uint64 {
	for i, x := range p.sigs {
		if bytes.Equal(x, s) {
			return uint64(i)
		}
	}
	return 999999
}
func (p *pool) valID(v []byte) uint64 { return idx(p.vals, v) }
func stateBytes(s types.State) []byte {
	pbs, err := s.ToProto()
	if err != nil {
		return nil
	}
	b, _ := json.Marshal(pbs) // only used for equality between pool entries and read-back values
	return b
}
func (p *pool) stateID(s types.State) uint64 {
	b := stateBytes(s)
	for i, x := range p.states {
		if bytes.Equal(stateBytes(x), b) {
			return uint64(i)
		}
	}
	return 999999
}

// ---- histories -----------------------------------------------------------------------------

type Op struct {
	K    string `json:"k"`           // setheight height save getblock byhash getheader getsig sigbyhash updstate getstate setmeta getmeta
	N    uint64 `json:"n,omitempty"` // height
	H    int    `json:"h,omitempty"` // header pool index (save, byhash, sigbyhash)
	D    int    `json:"d,omitempty"`
	S    int    `json:"s,omitempty"`
	Key  string `json:"key,omitempty"`
	V    int    `json:"v,omitempty"`
	Junk bool   `json:"junk,omitempty"` // byhash on a hash that was never stored
	Sz   int    `json:"sz,omitempty"`   // save: > 0 = the data is pool data D grown to a marshalled blob of Sz bytes (pool.bigData)
	Sib  int    `json:"sib,omitempty"`  // hand-written corpus files only: H means same-hash sibling Sib (1, 2) of base header H; resolved when loaded
	Raw  bool   `json:"raw,omitempty"`  // byhash / sigbyhash: the hash is the caller-supplied byte string X (hex; any length, also empty), H is not used
	X    string `json:"x,omitempty"`
	Awk  int    `json:"awk,omitempty"` // hand-written corpus files only: the header is awkward header number Awk (1, 2, ..: one per awkward textual form) of the pool ..
	Part string `json:"part,omitempty"` // mutsaved / mutread (items of kind "mut", callerobjs_test.go): which of the caller's objects is overwritten in place - "h" (with the content of pool header H), "d" (pool data D), "hd"
	Nb   int    `json:"nb,omitempty"`  // .. and, on a by-hash read, the hash is normalisation neighbour number Nb (1, 2, ..) of that header's hash; resolved when loaded
}
type Item struct {
	T  string `json:"t"` // op reopen crash fault mut (mut: the caller modifies its objects, the store is not called)
	Op *Op    `json:"op,omitempty"`
	Kc int    `json:"kc,omitempty"` // crash: atomic writes that survive; fault: the write attempt (from 0) that returns an error
}
type Replay struct {
	Seed    int64  `json:"seed"`
	Case    int    `json:"case"`
	Disk    bool   `json:"disk"`
	History []Item `json:"history"`
}

func genOp(r *rand.Rand, p *pool) *Op {
	x := r.Intn(100)
	h := p.pickHeight(r)
	switch {
	case x < 8:
		return &Op{K: "setheight", N: h}
	case x < 14:
		return &Op{K: "height"}
	case x < 40:
		return &Op{K: "save", H: r.Intn(p.nOrd), D: r.Intn(len(p.datas)), S: r.Intn(len(p.sigs))}
	case x < 48:
		return &Op{K: "getblock", N: h}
	case x < 60:
		return &Op{K: "byhash", H: r.Intn(p.nOrd), Junk: r.Intn(10) == 0}
	case x < 65:
		return &Op{K: "getheader", N: h}
	case x < 70:
		return &Op{K: "getsig", N: h}
	case x < 78:
		return &Op{K: "sigbyhash", H: r.Intn(p.nOrd), Junk: r.Intn(10) == 0}
	case x < 83:
		return &Op{K: "updstate", S: r.Intn(len(p.states))}
	case x < 87:
		return &Op{K: "getstate"}
	case x < 94:
		return &Op{K: "setmeta", Key: p.keys[r.Intn(len(p.keys))], V: r.Intn(len(p.vals))}
	default:
		return &Op{K: "getmeta", Key: p.keys[r.Intn(len(p.keys))]}
	}
}

func genHistory(r *rand.Rand, p *pool, maxLen int) []Item {
	n := 1 + r.Intn(maxLen)
	var h []Item
	for i := 0; i < n; i++ {
		x := r.Intn(100)
		switch {
		case x < 6:
			h = append(h, Item{T: "reopen"})
		case x < 16:
			op := genOp(r, p)
			if r.Intn(2) == 0 {
				op = &Op{K: "save", H: r.Intn(p.nOrd), D: r.Intn(len(p.datas)), S: r.Intn(len(p.sigs))}
			}
			h = append(h, Item{T: "crash", Op: op, Kc: r.Intn(3)})
		case x < 26:
			// a write fault inside any operation (half of the time a writing one); mostly its first write attempt
			op := genOp(r, p)
			if r.Intn(2) == 0 {
				op, _ = genWriteOp(r, p)
			}
			k := 0
			if r.Intn(5) == 0 {
				k = 1
			}
			h = append(h, Item{T: "fault", Op: op, Kc: k})
		default:
			h = append(h, Item{T: "op", Op: genOp(r, p)})
		}
	}
	return h
}

// a writing operation and the read that observes what it writes
func genWriteOp(r *rand.Rand, p *pool) (*Op, *Op) {
	switch r.Intn(4) {
	case 0:
		return &Op{K: "setheight", N: p.pickHeight(r)}, &Op{K: "height"}
	case 1:
		h := r.Intn(p.nOrd)
		rd := &Op{K: "getblock", N: p.hdrs[h].Height()}
		if r.Intn(3) == 0 {
			rd = &Op{K: "byhash", H: h}
		}
		return &Op{K: "save", H: h, D: r.Intn(len(p.datas)), S: r.Intn(len(p.sigs))}, rd
	case 2:
		return &Op{K: "updstate", S: r.Intn(len(p.states))}, &Op{K: "getstate"}
	default:
		k := p.keys[r.Intn(len(p.keys))]
		return &Op{K: "setmeta", Key: k, V: r.Intn(len(p.vals))}, &Op{K: "getmeta", Key: k}
	}
}

// the fault / read / retry / read / reopen / read stream: for each kind of writing operation, its write fails once,
// what it would have written is read, the caller retries (mostly), reads again, the database is closed and
// reopened (mostly) and read again - between random operations.
func genFaultStream(r *rand.Rand, p *pool) []Item {
	var h []Item
	for i, n := 0, r.Intn(8); i < n; i++ {
		h = append(h, Item{T: "op", Op: genOp(r, p)})
	}
	for j, rounds := 0, 1+r.Intn(3); j < rounds; j++ {
		w, rd := genWriteOp(r, p)
		h = append(h, Item{T: "fault", Op: w, Kc: 0}, Item{T: "op", Op: rd})
		if r.Intn(4) > 0 {
			h = append(h, Item{T: "op", Op: w}, Item{T: "op", Op: rd})
		}
		if r.Intn(3) > 0 {
			h = append(h, Item{T: "reopen"}, Item{T: "op", Op: rd})
		}
		for i, n := 0, r.Intn(3); i < n; i++ {
			h = append(h, Item{T: "op", Op: genOp(r, p)})
		}
	}
	return h
}

// the five reads that observe the block at the height / under the hash of header h
func readsOf(p *pool, h int) []*Op {
	n := p.hdrs[h].Height()
	return []*Op{{K: "getblock", N: n}, {K: "getheader", N: n}, {K: "getsig", N: n}, {K: "byhash", H: h}, {K: "sigbyhash", H: h}}
}

// the same-hash overwrite stream: a height is saved, READ (some or all of the five kinds of read), and saved again
// with a header of the SAME hash but other bytes (another signature / signer inside the SignedHeader - what the node
// does with every block: early save, final save) and, independently, the same or other data and signature record;
// then all five reads, a reopen or a crash (mostly), all five reads again.  Sometimes the second save meets a write
// fault or dies in a crash (then the FIRST block must still be read), sometimes it is the identical header with other
// data / signature record only, sometimes a third save with a DIFFERENT hash follows.
func genSameHashStream(r *rand.Rand, p *pool) []Item {
	var h []Item
	ops := func(os []*Op) {
		for _, o := range os {
			h = append(h, Item{T: "op", Op: o})
		}
	}
	some := func(os []*Op) []*Op {
		if r.Intn(3) == 0 {
			return os
		}
		var out []*Op
		for _, o := range os {
			if r.Intn(2) == 0 {
				out = append(out, o)
			}
		}
		if len(out) == 0 {
			out = append(out, os[r.Intn(len(os))])
		}
		return out
	}
	for i, n := 0, r.Intn(6); i < n; i++ {
		h = append(h, Item{T: "op", Op: genOp(r, p)})
	}
	for j, rounds := 0, 1+r.Intn(3); j < rounds; j++ {
		g := p.group(r.Intn(p.nBase))
		a := r.Intn(3)
		b := (a + 1 + r.Intn(2)) % 3
		if r.Intn(6) == 0 {
			b = a // the identical header, other data / signature record
		}
		v1, v2 := g[a], g[b]
		d1, s1 := r.Intn(len(p.datas)), r.Intn(len(p.sigs))
		d2, s2 := d1, s1
		if r.Intn(2) == 0 {
			d2 = r.Intn(len(p.datas))
		}
		if r.Intn(2) == 0 || v1 == v2 {
			s2 = (s1 + 1 + r.Intn(len(p.sigs)-1)) % len(p.sigs)
		}
		h = append(h, Item{T: "op", Op: &Op{K: "save", H: v1, D: d1, S: s1}})
		ops(some(readsOf(p, v1)))
		second := &Op{K: "save", H: v2, D: d2, S: s2}
		switch x := r.Intn(10); {
		case x == 0:
			h = append(h, Item{T: "fault", Op: second, Kc: 0})
		case x == 1:
			h = append(h, Item{T: "crash", Op: second, Kc: r.Intn(2)})
		default:
			h = append(h, Item{T: "op", Op: second})
		}
		ops(readsOf(p, v2))
		switch x := r.Intn(6); {
		case x < 3:
			h = append(h, Item{T: "reopen"})
			ops(readsOf(p, v1))
		case x == 3:
			h = append(h, Item{T: "crash", Op: genOp(r, p), Kc: r.Intn(2)})
			ops(readsOf(p, v2))
		}
		if r.Intn(4) == 0 {
			// a different hash at the same height, when the pool has one
			for o := 0; o < p.nBase; o++ {
				if o != p.base(v1) && p.hdrs[o].Height() == p.hdrs[v1].Height() {
					h = append(h, Item{T: "op", Op: &Op{K: "save", H: p.sibling(o, r.Intn(3)), D: r.Intn(len(p.datas)), S: r.Intn(len(p.sigs))}})
					ops(readsOf(p, v1))
					break
				}
			}
		}
		for i, n := 0, r.Intn(3); i < n; i++ {
			h = append(h, Item{T: "op", Op: genOp(r, p)})
		}
	}
	return h
}

// the height stream: SetHeight / Height around a byte boundary of the 8-byte little-endian height record, in BOTH
// orders - an ascending walk that crosses the boundary (what a chain does block by block, here from a large initial
// height), a descending walk (nothing may lower), there-and-back triples, the next multiple of 256, random picks -
// with a Height() after most calls, crashes and write faults inside SetHeight, reopens, and saves at those heights.
func genHeightStream(r *rand.Rand, p *pool) []Item {
	var h []Item
	op := func(o *Op) { h = append(h, Item{T: "op", Op: o}) }
	set := func(n uint64) {
		switch x := r.Intn(14); {
		case x == 0:
			h = append(h, Item{T: "crash", Op: &Op{K: "setheight", N: n}, Kc: r.Intn(2)})
		case x == 1:
			h = append(h, Item{T: "fault", Op: &Op{K: "setheight", N: n}, Kc: 0})
		default:
			op(&Op{K: "setheight", N: n})
		}
		if r.Intn(4) > 0 {
			op(&Op{K: "height"})
		}
		if r.Intn(10) == 0 {
			h = append(h, Item{T: "reopen"})
			op(&Op{K: "height"})
		}
	}
	for i, n := 0, r.Intn(3); i < n; i++ {
		op(genOp(r, p))
	}
	b := p.bound
	for j, rounds := 0, 1+r.Intn(3); j < rounds; j++ {
		switch r.Intn(6) {
		case 0: // the chain reaches the boundary block by block
			for _, n := range []uint64{b - 2, b - 1, b, b + 1} {
				set(n)
			}
		case 1: // the other order: nothing of it may lower the height
			for _, n := range []uint64{b + 1, b, b - 1, b - 2} {
				set(n)
			}
		case 2: // up across the boundary and back
			set(b - 1)
			set(b)
			set(b - 1)
		case 3: // the next multiple of 256
			for _, n := range p.bheights[len(p.bheights)/2:] {
				set(n)
			}
			set(b)
		case 4: // blocks saved at the boundary heights, the height following them
			for k := 3 * p.nBase; k < p.nOrd; k++ {
				op(&Op{K: "save", H: k, D: r.Intn(6), S: r.Intn(len(p.sigs))})
				set(p.hdrs[k].Height())
				op(&Op{K: "getblock", N: p.hdrs[k].Height()})
			}
		default:
			for i, n := 0, 3+r.Intn(6); i < n; i++ {
				set(p.bheights[r.Intn(len(p.bheights))])
			}
		}
		if r.Intn(3) == 0 {
			op(genOp(r, p))
		}
	}
	op(&Op{K: "height"})
	return h
}

// the big-payload stream: an occupied height is overwritten by a block whose marshalled data is BIG - lengths on a
// log scale, 2^10 .. 2^23 bytes (the exponent cycles with the case number so that every power of two up to 8 MiB
// occurs in a quick run) and just below / at / just above / well above the power of two - and the overwrite is cut at
// EVERY crash prefix (0, 1, 2 atomic writes survive) and hit by write faults on its first and second write attempt,
// with all five reads of the old and of the new block after each, then completed, read, reopened and read again.
// Whatever the size, the save must stay one atomic write: all of the new block or all of the old one.
func genBigPayloadStream(r *rand.Rand, p *pool, c int) []Item {
	var h []Item
	op := func(o *Op) { h = append(h, Item{T: "op", Op: o}) }
	reads := func(vs ...int) {
		for _, v := range vs {
			for _, o := range readsOf(p, v) {
				op(o)
			}
		}
	}
	size := func(e int) int {
		base := 1 << uint(e)
		switch r.Intn(4) {
		case 0:
			return base - 1
		case 1:
			return base
		case 2:
			return base + 1
		}
		return base + 1 + r.Intn(base/2)
	}
	for i, n := 0, r.Intn(3); i < n; i++ {
		op(genOp(r, p))
	}
	for j, rounds := 0, 1+r.Intn(2); j < rounds; j++ {
		e := 10 + (c/10)%14
		if j > 0 {
			e = 10 + r.Intn(14)
		}
		sz := size(e)
		// two headers at one height: of different hashes when the pool has them, else same-hash siblings
		v1 := r.Intn(p.nBase)
		v2 := p.sibling(v1, 1+r.Intn(2))
		for o := 0; o < p.nBase; o++ {
			if o != v1 && p.hdrs[o].Height() == p.hdrs[v1].Height() && r.Intn(4) > 0 {
				v2 = p.sibling(o, r.Intn(3))
				break
			}
		}
		first := &Op{K: "save", H: v1, D: r.Intn(6), S: r.Intn(len(p.sigs))}
		if r.Intn(4) == 0 {
			first.Sz = size(10 + r.Intn(14)) // big over big
		}
		second := &Op{K: "save", H: v2, D: r.Intn(6), S: r.Intn(len(p.sigs)), Sz: sz}
		op(first)
		if r.Intn(2) == 0 {
			reads(v1)
		}
		for _, k := range r.Perm(3) { // every crash prefix of the overwrite; the old block is put back after a completed one
			h = append(h, Item{T: "crash", Op: second, Kc: k})
			reads(v1, v2)
			if k > 0 {
				op(first)
			}
		}
		if r.Intn(3) > 0 {
			h = append(h, Item{T: "fault", Op: second, Kc: 1}) // met only by a save that makes a second write attempt
			reads(v1, v2)
			op(first)
		}
		if r.Intn(3) > 0 {
			h = append(h, Item{T: "fault", Op: second, Kc: 0})
			reads(v1, v2)
		}
		op(second)
		reads(v1, v2)
		if r.Intn(2) == 0 {
			h = append(h, Item{T: "reopen"})
			reads(v2)
		}
		if r.Intn(3) == 0 { // a fresh height with a big payload, cut as well
			k := 3*p.nBase + r.Intn(p.nOrd-3*p.nBase)
			fresh := &Op{K: "save", H: k, D: r.Intn(6), S: r.Intn(len(p.sigs)), Sz: sz}
			h = append(h, Item{T: "crash", Op: fresh, Kc: r.Intn(2)})
			reads(k)
			op(fresh)
			reads(k)
		}
	}
	return h
}

// ---- running the real store ------------------------------------------------------------------

type out struct {
	kind string // unit err height block header sig state bytes none
	a, b uint64
}

func (o out) coq(p *pool) string {
	switch o.kind {
	case "none":
		return "None"
	case "unit":
		return "(Some RUnit)"
	case "err":
		return "(Some RErr)"
	case "height":
		return "(Some (RHeight " + vgen.N(o.a) + "))"
	case "block":
		return fmt.Sprintf("(Some (RBlock %s %s))", hname(o.a), vgen.N(o.b))
	case "header":
		return fmt.Sprintf("(Some (RHeader %s))", hname(o.a))
	case "sig":
		return "(Some (RSig " + vgen.N(o.a) + "))"
	case "state":
		return "(Some (RState " + vgen.N(o.a) + "))"
	case "bytes":
		return "(Some (RBytes " + vgen.N(o.a) + "))"
	}
	return "BAD"
}
func hname(i uint64) string { return fmt.Sprintf("H%d", i) }

type runner struct {
	p     *pool
	cds   *crashds.DS
	fds   *faultDS // store -> fds (transient write faults) -> cds (write log, crashes) -> inner
	inner ds.Batching
	st    store.Store
	disk  string
	ctx   context.Context

	// the caller's objects: what it passed to its latest SaveBlockData, what the latest read returned to it
	savedH, readH *types.SignedHeader
	savedD, readD *types.Data
}

func newRunner(p *pool, disk bool) (*runner, error) {
	r := &runner{p: p, ctx: context.Background()}
	if disk {
		dir, err := os.MkdirTemp("", "c14db")
		if err != nil {
			return nil, err
		}
		r.disk = dir
		kv, err := store.NewDefaultKVStore(dir, "db", "c14")
		if err != nil {
			return nil, err
		}
		r.inner = kv
		r.cds = crashds.Wrap(kv, nil)
	} else {
		r.cds = crashds.New()
		r.inner = r.cds.Batching
	}
	r.fds = newFaultDS(r.cds)
	r.st = store.New(r.fds)
	return r, nil
}

func (r *runner) close() {
	if r.disk != "" {
		_ = r.inner.Close()
		_ = os.RemoveAll(r.disk)
	}
}

func (r *runner) reopen() error {
	if r.disk != "" {
		if err := r.st.Close(); err != nil {
			return err
		}
		kv, err := store.NewDefaultKVStore(r.disk, "db", "c14")
		if err != nil {
			return err
		}
		r.inner = kv
		log := r.cds.Log
		r.cds = crashds.Wrap(kv, nil)
		r.cds.Log = log
	} else {
		_ = r.st.Close()
	}
	r.fds = newFaultDS(r.cds)
	r.st = store.New(r.fds)
	return nil
}

func junkHash() []byte { return bytes.Repeat([]byte{0xee}, 32) }

func (r *runner) exec(o *Op) out {
	p, ctx := r.p, r.ctx
	switch o.K {
	case "setheight":
		if err := r.st.SetHeight(ctx, o.N); err != nil {
			return out{kind: "err"}
		}
		return out{kind: "unit"}
	case "height":
		h, err := r.st.Height(ctx)
		if err != nil {
			return out{kind: "err"}
		}
		return out{kind: "height", a: h}
	case "save":
		sig := p.sigs[o.S]
		r.savedH, r.savedD = p.freshHdr(o.H), p.freshData(o.D) // every save with objects of its own, as a caller has
		if err := r.st.SaveBlockData(ctx, r.savedH, r.savedD, &sig); err != nil {
			return out{kind: "err"}
		}
		return out{kind: "unit"}
	case "getblock":
		h, d, err := r.st.GetBlockData(ctx, o.N)
		if err != nil {
			return out{kind: "err"}
		}
		r.readH, r.readD = h, d
		return out{kind: "block", a: p.hdrID(h), b: p.dataID(d)}
	case "byhash":
		hash := []byte(p.hdrs[o.H].Hash())
		if o.Junk {
			hash = junkHash()
		}
		if o.Raw {
			hash = unhex(o.X)
		}
		h, d, err := r.st.GetBlockByHash(ctx, hash)
		if err != nil {
			return out{kind: "err"}
		}
		r.readH, r.readD = h, d
		return out{kind: "block", a: p.hdrID(h), b: p.dataID(d)}
	case "getheader":
		h, err := r.st.GetHeader(ctx, o.N)
		if err != nil {
			return out{kind: "err"}
		}
		r.readH, r.readD = h, nil
		return out{kind: "header", a: p.hdrID(h)}
	case "getsig":
		s, err := r.st.GetSignature(ctx, o.N)
		if err != nil {
			return out{kind: "err"}
		}
		return out{kind: "sig", a: p.sigID(*s)}
	case "sigbyhash":
		hash := []byte(p.hdrs[o.H].Hash())
		if o.Junk {
			hash = junkHash()
		}
		if o.Raw {
			hash = unhex(o.X)
		}
		s, err := r.st.GetSignatureByHash(ctx, hash)
		if err != nil {
			return out{kind: "err"}
		}
		return out{kind: "sig", a: p.sigID(*s)}
	case "updstate":
		if err := r.st.UpdateState(ctx, p.states[o.S]); err != nil {
			return out{kind: "err"}
		}
		return out{kind: "unit"}
	case "getstate":
		s, err := r.st.GetState(ctx)
		if err != nil {
			return out{kind: "err"}
		}
		return out{kind: "state", a: p.stateID(s)}
	case "setmeta":
		if err := r.st.SetMetadata(ctx, o.Key, p.vals[o.V]); err != nil {
			return out{kind: "err"}
		}
		return out{kind: "unit"}
	case "getmeta":
		v, err := r.st.GetMetadata(ctx, o.Key)
		if err != nil {
			return out{kind: "err"}
		}
		return out{kind: "bytes", a: p.valID(v)}
	}
	panic("bad op " + o.K)
}

// ---- the oracle: the property evaluated directly on what the real store returned ---------------

type refBlock struct{ h, d, s int }
type oracle struct {
	p        *pool
	height   uint64
	blocks   map[uint64]refBlock // latest completed save per height
	state    int
	meta     map[string]int
	viol     []string // signatures
	violWhat []string

	// what Height() last reported, and whether the process was restarted (reopen / crash) since
	reported       uint64
	hasReported    bool
	restartedSince bool
	// what operations that FAILED with a write error tried to write (nothing of it may ever be read)
	failedHeights map[uint64]bool
	failedBlocks  map[uint64][]refBlock
	ackedBlocks   map[uint64][]refBlock // every block a completed save stored at the height, in order
	failedStates  map[int]bool
	failedMeta    map[string]map[int]bool
	// the contents the caller has put into its own objects after a save / a read (callerobjs_test.go)
	mutH, mutD map[uint64]bool
}

func newOracle(p *pool) *oracle {
	return &oracle{p: p, blocks: map[uint64]refBlock{}, state: -1, meta: map[string]int{},
		failedHeights: map[uint64]bool{}, failedBlocks: map[uint64][]refBlock{}, ackedBlocks: map[uint64][]refBlock{}, failedStates: map[int]bool{}, failedMeta: map[string]map[int]bool{}}
}

func (o *oracle) restarted() { o.restartedSince = true }

// a read that is not the latest acknowledged write: if it is what a FAILED operation tried to write, say so
func (o *oracle) readSig(def string, fromFailed bool) string {
	if fromFailed {
		return "failed-write-visible"
	}
	return def
}

func (o *oracle) failedBlock(n uint64, match func(refBlock) bool) bool {
	for _, b := range o.ackedBlocks[n] { // an earlier acknowledged write explains it: a stale read, not a failed write
		if match(b) {
			return false
		}
	}
	for _, b := range o.failedBlocks[n] {
		if match(b) {
			return true
		}
	}
	return false
}

// an operation ran with a write fault armed.  refused = the fault was met (one of its write attempts returned an
// error).  A met fault must surface as an error and leave everything as it was; an unmet one is an ordinary operation.
func (o *oracle) observeFault(op *Op, got out, refused bool) {
	if !refused {
		o.observe(op, got)
		return
	}
	if got.kind != "err" {
		o.fail("write-error-swallowed", fmt.Sprintf("%s: a datastore write returned an error but the operation returned %v", op.K, got))
	}
	switch op.K {
	case "setheight":
		o.failedHeights[op.N] = true
	case "save":
		n := o.p.hdrs[op.H].Height()
		o.failedBlocks[n] = append(o.failedBlocks[n], refBlock{op.H, op.D, op.S})
	case "updstate":
		o.failedStates[op.S] = true
	case "setmeta":
		if o.failedMeta[op.Key] == nil {
			o.failedMeta[op.Key] = map[int]bool{}
		}
		o.failedMeta[op.Key][op.V] = true
	}
}
func (o *oracle) fail(sig, what string) {
	o.viol = append(o.viol, sig)
	o.violWhat = append(o.violWhat, what)
}

func (o *oracle) byHash(hidx int, junk bool) (refBlock, bool) {
	if junk {
		return refBlock{}, false
	}
	want := o.p.hdrs[hidx].Hash()
	for _, b := range o.blocks {
		if bytes.Equal(o.p.hdrs[b.h].Hash(), want) {
			return b, true
		}
	}
	return refBlock{}, false
}

// a read by a caller-supplied hash: the block currently stored under exactly these bytes, or nothing.  A value that
// was never the hash of any header handed to SaveBlockData must find nothing - whatever it looks like.
func (o *oracle) observeRaw(op *Op, got out) {
	raw := unhex(op.X)
	var want refBlock
	found := false
	for _, b := range o.blocks {
		if bytes.Equal(o.p.hdrs[b.h].Hash(), raw) {
			want, found = b, true
		}
	}
	everSaved := false
	for _, l := range []map[uint64][]refBlock{o.ackedBlocks, o.failedBlocks} {
		for _, bs := range l {
			for _, b := range bs {
				if bytes.Equal(o.p.hdrs[b.h].Hash(), raw) {
					everSaved = true
				}
			}
		}
	}
	name, kind := "GetBlockByHash", "block"
	if op.K == "sigbyhash" {
		name, kind = "GetSignatureByHash", "sig"
	}
	ok := got.kind == kind && found && ((kind == "block" && got.a == uint64(want.h) && got.b == uint64(want.d)) || (kind == "sig" && got.a == uint64(want.s)))
	if !found {
		ok = got.kind == "err"
	}
	if ok {
		return
	}
	if got.kind == kind && !everSaved {
		o.fail("by-hash-read-of-a-never-saved-hash-finds-a-block", fmt.Sprintf("%s(%X) - %d bytes that were never the hash of a saved header - returned %v", name, raw, len(raw), got))
		return
	}
	o.fail("read-by-hash-not-latest-write", fmt.Sprintf("%s(%X)=%v want %v %v", name, raw, got, want, found))
}

func (o *oracle) observe(op *Op, got out) {
	if op.Raw && (op.K == "byhash" || op.K == "sigbyhash") {
		o.observeRaw(op, got)
		return
	}
	switch op.K {
	case "setheight":
		if got.kind != "unit" {
			o.fail("op-failed", "SetHeight returned an error")
		}
		if op.N > o.height && got.kind == "unit" {
			o.height = op.N
			for f := range o.failedHeights {
				if f <= op.N {
					delete(o.failedHeights, f)
				}
			}
		}
	case "height":
		if got.kind != "height" || got.a != o.height {
			sig := "height-wrong"
			if got.kind == "height" && got.a < o.height {
				sig = "height-decreased"
			}
			sig = o.readSig(sig, got.kind == "height" && o.failedHeights[got.a])
			o.fail(sig, fmt.Sprintf("Height()=%v want %d", got, o.height))
		}
		// independent of the reference: what Height() reported is never taken back
		if got.kind == "height" {
			if o.hasReported && got.a < o.reported {
				if o.restartedSince {
					o.fail("reported-height-lost-on-restart", fmt.Sprintf("Height() reported %d, after closing and reopening the database it reports %d", o.reported, got.a))
				} else {
					o.fail("height-decreased", fmt.Sprintf("Height() reported %d, later %d", o.reported, got.a))
				}
			}
			o.reported, o.hasReported, o.restartedSince = got.a, true, false
		}
	case "save":
		if got.kind != "unit" {
			o.fail("op-failed", "SaveBlockData returned an error")
		}
		if got.kind == "unit" {
			n := o.p.hdrs[op.H].Height()
			o.blocks[n] = refBlock{op.H, op.D, op.S}
			o.ackedBlocks[n] = append(o.ackedBlocks[n], o.blocks[n])
		}
	case "getblock":
		b, ok := o.blocks[op.N]
		if ok != (got.kind == "block") || (ok && (got.a != uint64(b.h) || got.b != uint64(b.d))) {
			o.fail(o.mutSig(o.readSig("read-by-height-not-latest-write", got.kind == "block" && o.failedBlock(op.N, func(f refBlock) bool { return got.a == uint64(f.h) && got.b == uint64(f.d) })), got, b, ok),
				fmt.Sprintf("GetBlockData(%d)=%v want %v %v", op.N, got, b, ok))
		}
	case "getheader":
		b, ok := o.blocks[op.N]
		if ok != (got.kind == "header") || (ok && got.a != uint64(b.h)) {
			o.fail(o.mutSig(o.readSig("read-by-height-not-latest-write", got.kind == "header" && o.failedBlock(op.N, func(f refBlock) bool { return got.a == uint64(f.h) })), got, b, ok),
				fmt.Sprintf("GetHeader(%d)=%v want %v %v", op.N, got, b, ok))
		}
	case "getsig":
		b, ok := o.blocks[op.N]
		if ok != (got.kind == "sig") || (ok && got.a != uint64(b.s)) {
			o.fail(o.readSig("read-by-height-not-latest-write", got.kind == "sig" && o.failedBlock(op.N, func(f refBlock) bool { return got.a == uint64(f.s) })),
				fmt.Sprintf("GetSignature(%d)=%v want %v %v", op.N, got, b, ok))
		}
	case "byhash":
		b, ok := o.byHash(op.H, op.Junk)
		if got.kind == "block" && !op.Junk && !bytes.Equal(o.p.hdrs[got.a%uint64(len(o.p.hdrs))].Hash(), o.p.hdrs[op.H].Hash()) {
			o.fail("by-hash-returns-block-with-other-hash", fmt.Sprintf("GetBlockByHash(hash of H%d) returned H%d", op.H, got.a))
		} else if ok != (got.kind == "block") || (ok && (got.a != uint64(b.h) || got.b != uint64(b.d))) {
			o.fail(o.mutSig(o.readSig("read-by-hash-not-latest-write", got.kind == "block" && o.failedBlock(o.p.hdrs[op.H].Height(), func(f refBlock) bool { return got.a == uint64(f.h) && got.b == uint64(f.d) })), got, b, ok),
				fmt.Sprintf("GetBlockByHash(H%d)=%v want %v %v", op.H, got, b, ok))
		}
	case "sigbyhash":
		b, ok := o.byHash(op.H, op.Junk)
		if ok != (got.kind == "sig") || (ok && got.a != uint64(b.s)) {
			sig := "read-by-hash-not-latest-write"
			if got.kind == "sig" && !ok {
				sig = "by-hash-returns-block-with-other-hash"
			}
			o.fail(sig, fmt.Sprintf("GetSignatureByHash(H%d)=%v want %v %v", op.H, got, b, ok))
		}
	case "updstate":
		if got.kind != "unit" {
			o.fail("op-failed", "UpdateState returned an error")
		}
		if got.kind == "unit" {
			o.state = op.S
		}
	case "getstate":
		if (o.state >= 0) != (got.kind == "state") || (o.state >= 0 && got.a != uint64(o.state)) {
			o.fail(o.readSig("state-not-latest-write", got.kind == "state" && o.failedStates[int(got.a)]), fmt.Sprintf("GetState=%v want %d", got, o.state))
		}
	case "setmeta":
		if got.kind != "unit" {
			o.fail("op-failed", "SetMetadata returned an error")
		}
		if got.kind == "unit" {
			o.meta[op.Key] = op.V
		}
	case "getmeta":
		v, ok := o.meta[op.Key]
		if ok != (got.kind == "bytes") || (ok && got.a != uint64(v)) {
			o.fail(o.readSig("meta-not-latest-write", got.kind == "bytes" && o.failedMeta[op.Key][int(got.a)]), fmt.Sprintf("GetMetadata(%q)=%v want %d %v", op.Key, got, v, ok))
		}
	}
}

// after a crash inside [op]: decide from the store itself whether it happened; for a save the
// four records must be all-new or all-old.
func (o *oracle) afterCrash(r *runner, op *Op) {
	switch op.K {
	case "save":
		n := o.p.hdrs[op.H].Height()
		old, hadOld := o.blocks[n]
		gh := r.exec(&Op{K: "getheader", N: n})
		gb := r.exec(&Op{K: "getblock", N: n})
		gs := r.exec(&Op{K: "getsig", N: n})
		isNew := gh.kind == "header" && gh.a == uint64(op.H) && gb.kind == "block" && gb.a == uint64(op.H) && gb.b == uint64(op.D) && gs.kind == "sig" && gs.a == uint64(op.S)
		isOld := (!hadOld && gh.kind == "err" && gb.kind == "err" && gs.kind == "err") ||
			(hadOld && gh.kind == "header" && gh.a == uint64(old.h) && gb.kind == "block" && gb.a == uint64(old.h) && gb.b == uint64(old.d) && gs.kind == "sig" && gs.a == uint64(old.s))
		// by-hash must agree with whichever happened
		if isNew {
			o.blocks[n] = refBlock{op.H, op.D, op.S}
			o.ackedBlocks[n] = append(o.ackedBlocks[n], o.blocks[n])
			bh := r.exec(&Op{K: "byhash", H: op.H})
			if bh.kind != "block" || bh.a != uint64(op.H) {
				o.fail("crash-torn-save", "after a crash the new block is readable by height but not by hash")
			}
		} else if isOld {
			if hadOld {
				bh := r.exec(&Op{K: "byhash", H: old.h})
				if bh.kind != "block" || bh.a != uint64(old.h) {
					o.fail("crash-torn-save", "after a crash the old block is readable by height but not by hash")
				}
			}
		} else {
			o.fail("crash-torn-save", fmt.Sprintf("after a crash inside SaveBlockData height %d is neither the old nor the new block: %v %v %v", n, gh, gb, gs))
			// resynchronise the reference as well as possible
			if gh.kind == "header" {
				o.blocks[n] = refBlock{int(gh.a), int(gb.b), int(gs.a)}
			} else {
				delete(o.blocks, n)
			}
		}
	case "setheight":
		g := r.exec(&Op{K: "height"})
		if g.kind == "height" && g.a == op.N && op.N > o.height {
			o.height = op.N
		} else if g.kind != "height" || g.a != o.height {
			o.fail("height-wrong", "after a crash inside SetHeight the height is neither old nor new")
		}
	case "updstate":
		g := r.exec(&Op{K: "getstate"})
		if g.kind == "state" && g.a == uint64(op.S) {
			o.state = op.S
		}
	case "setmeta":
		g := r.exec(&Op{K: "getmeta", Key: op.Key})
		if g.kind == "bytes" && g.a == uint64(op.V) {
			o.meta[op.Key] = op.V
		}
	}
}

// a completed SaveBlockData made nw > 1 atomic datastore writes; img is the database a crash after the j-th of them
// leaves behind.  The height must read as all of the old block (or nothing, on a fresh height) or all of the new one.
func (o *oracle) tornAt(img ds.Batching, op *Op, old refBlock, hadOld bool, j, nw int) {
	rr := &runner{p: o.p, ctx: context.Background(), st: store.New(img)}
	n := o.p.hdrs[op.H].Height()
	gh := rr.exec(&Op{K: "getheader", N: n})
	gb := rr.exec(&Op{K: "getblock", N: n})
	gs := rr.exec(&Op{K: "getsig", N: n})
	isNew := gh.kind == "header" && gh.a == uint64(op.H) && gb.kind == "block" && gb.a == uint64(op.H) && gb.b == uint64(op.D) && gs.kind == "sig" && gs.a == uint64(op.S)
	isOld := (!hadOld && gh.kind == "err" && gb.kind == "err" && gs.kind == "err") ||
		(hadOld && gh.kind == "header" && gh.a == uint64(old.h) && gb.kind == "block" && gb.a == uint64(old.h) && gb.b == uint64(old.d) && gs.kind == "sig" && gs.a == uint64(old.s))
	if !isNew && !isOld {
		o.fail("crash-torn-save", fmt.Sprintf("SaveBlockData(height %d, data blob of %d bytes) reached the datastore in %d atomic writes; a crash after write %d leaves the height neither the old nor the new block: header %v block %v signature %v",
			n, len(o.p.datBlob[op.D]), nw, j, gh, gb, gs))
		return
	}
	// by hash: the old block under its hash while the old one is in place, the new one under its hash once it is
	if isNew {
		if bh := rr.exec(&Op{K: "byhash", H: op.H}); bh.kind != "block" || bh.a != uint64(op.H) || bh.b != uint64(op.D) {
			o.fail("crash-torn-save", fmt.Sprintf("SaveBlockData in %d atomic writes; after a crash behind write %d the new block is readable by height but not by hash", nw, j))
		}
	} else if hadOld {
		if bh := rr.exec(&Op{K: "byhash", H: old.h}); bh.kind != "block" || bh.a != uint64(old.h) || bh.b != uint64(old.d) {
			o.fail("crash-torn-save", fmt.Sprintf("SaveBlockData in %d atomic writes; after a crash behind write %d the old block is readable by height but not by hash", nw, j))
		}
	}
}

// ---- one case ----------------------------------------------------------------------------------

func (c *caseResult) keyName(k string) string {
	if c.keyIdx == nil {
		c.keyIdx = map[string]int{}
	}
	i, ok := c.keyIdx[k]
	if !ok {
		i = len(c.keyIdx)
		c.keyIdx[k] = i
		c.keyDefs = append(c.keyDefs, fmt.Sprintf("Definition k%d := %s.", i, vgen.Str(k)))
	}
	return fmt.Sprintf("k%d", i)
}

type caseResult struct {
	p       *pool
	keyIdx  map[string]int
	keyDefs []string
	outs    []out
	image   []string // Coq (key, sval) terms
	shapes  []string
	faults  []string // the refused write attempts, in order
	traw    string   // the raw bytes of the /t record in the final database
	nMulti  int      // completed saves that reached the datastore in more than one atomic write
	nMet    int      // write faults that were met / not met
	nUnmet  int
	viol    []string
	what    []string
	err     error
}

func runCase(p *pool, hist []Item, disk bool) (res *caseResult) {
	res = &caseResult{p: p}
	defer func() {
		if x := recover(); x != nil {
			res.viol = append(res.viol, "panic")
			res.what = append(res.what, fmt.Sprint(x))
		}
	}()
	r, err := newRunner(p, disk)
	if err != nil {
		res.err = err
		return
	}
	defer r.close()
	hist = resolveHist(p, hist)
	or := newOracle(p)
	for _, it := range hist {
		switch it.T {
		case "op":
			before := r.cds.Len()
			var old refBlock
			hadOld := false
			if it.Op.K == "save" {
				old, hadOld = or.blocks[p.hdrs[it.Op.H].Height()]
			}
			o := r.exec(it.Op)
			if nw := r.cds.Len() - before; it.Op.K == "save" && nw > 1 {
				// the save reached the datastore in several atomic writes: the process can die between any two of
				// them - look at every such image (the crash-prefix machinery of the recording datastore)
				res.nMulti++
				for j := 1; j < nw; j++ {
					or.tornAt(r.cds.Materialize(before+j), it.Op, old, hadOld, j, nw)
				}
			}
			or.observe(it.Op, o)
			res.outs = append(res.outs, o)
		case "reopen":
			if err := r.reopen(); err != nil {
				or.fail("reopen-failed", err.Error())
			}
			or.restarted()
			res.outs = append(res.outs, out{kind: "none"})
		case "mut": // the store is not called and returns nothing: no entry in outs
			r.mutate(it.Op)
			or.noteMut(it.Op)
		case "fault":
			r.fds.Arm(it.Kc)
			o := r.exec(it.Op)
			w := r.fds.Disarm()
			or.observeFault(it.Op, o, w != nil)
			res.outs = append(res.outs, o)
			if w != nil {
				res.nMet++
				res.faults = append(res.faults, res.shapeOf(*w))
			} else {
				res.nUnmet++
			}
		case "crash":
			r.cds.FailAfter = r.cds.Len() + it.Kc
			_ = r.exec(it.Op)
			r.cds.FailAfter = -1
			r.st = store.New(r.fds) // the restarted process
			r.dropObjects()
			or.restarted()
			or.afterCrash(r, it.Op)
			res.outs = append(res.outs, out{kind: "none"})
		}
	}
	// final reads of everything the reference knows and of everything a failed operation tried to write (latest
	// acknowledged write; nothing of a failed write) - then the database is closed and reopened and everything is
	// read once more (everything acknowledged, and every height that was reported, survives)
	finalReads := func() {
		hs := map[uint64]bool{}
		for n := range or.blocks {
			hs[n] = true
		}
		for n := range or.failedBlocks {
			hs[n] = true
		}
		var ns []uint64
		for n := range hs {
			ns = append(ns, n)
		}
		sort.Slice(ns, func(i, j int) bool { return ns[i] < ns[j] })
		for _, n := range ns {
			or.observe(&Op{K: "getblock", N: n}, r.exec(&Op{K: "getblock", N: n}))
			or.observe(&Op{K: "getheader", N: n}, r.exec(&Op{K: "getheader", N: n}))
			or.observe(&Op{K: "getsig", N: n}, r.exec(&Op{K: "getsig", N: n}))
			if b, ok := or.blocks[n]; ok {
				or.observe(&Op{K: "byhash", H: b.h}, r.exec(&Op{K: "byhash", H: b.h}))
				or.observe(&Op{K: "sigbyhash", H: b.h}, r.exec(&Op{K: "sigbyhash", H: b.h}))
			}
		}
		var ks []string
		for k := range or.failedMeta {
			ks = append(ks, k)
		}
		sort.Strings(ks)
		for _, k := range ks {
			or.observe(&Op{K: "getmeta", Key: k}, r.exec(&Op{K: "getmeta", Key: k}))
		}
		or.observe(&Op{K: "getstate"}, r.exec(&Op{K: "getstate"}))
		or.observe(&Op{K: "height"}, r.exec(&Op{K: "height"}))
	}
	finalReads()
	if err := r.reopen(); err != nil {
		or.fail("reopen-failed", err.Error())
	}
	or.restarted()
	finalReads()
	res.viol, res.what = append(res.viol, or.viol...), append(res.what, or.violWhat...)

	dump, err := crashds.Dump(r.ctx, r.inner)
	if err != nil {
		res.err = err
		return
	}
	res.traw = "[]"
	for _, e := range dump {
		if e.Key == "/t" {
			res.traw = vgen.BytesN(e.Value)
		}
		res.image = append(res.image, fmt.Sprintf("(%s, %s)", res.keyName(projKey(p, e.Key)), decodeVal(p, e.Key, e.Value)))
	}
	for _, w := range r.cds.Log {
		res.shapes = append(res.shapes, res.shapeOf(w))
	}
	return
}

func (c *caseResult) shapeOf(w crashds.Write) string {
	var ps []string
	for _, pr := range w.Prims {
		if pr.Del {
			ps = append(ps, "SDel "+c.keyName(projKey(c.p, pr.Key)))
		} else {
			ps = append(ps, "SPut "+c.keyName(projKey(c.p, pr.Key)))
		}
	}
	return vgen.List(ps)
}

func decodeVal(p *pool, key string, v []byte) string {
	le := func() string {
		if len(v) != 8 {
			return "(VBytes 777777%N)"
		}
		return "(VHeight " + vgen.N(binary.LittleEndian.Uint64(v)) + ")"
	}
	switch {
	case strings.HasPrefix(key, "/h/"):
		return "(VHeader " + hname(idx(p.hdrBlob, v)) + ")"
	case strings.HasPrefix(key, "/d/"):
		return "(VData " + vgen.N(idx(p.datBlob, v)) + ")"
	case strings.HasPrefix(key, "/c/"):
		return "(VSig " + vgen.N(p.sigID(v)) + ")"
	case strings.HasPrefix(key, "/i/"), key == "/t":
		return le()
	case key == "/s":
		for i, s := range p.states {
			if bytes.Equal(stateBlob(s), v) {
				return "(VState " + vgen.N(uint64(i)) + ")"
			}
		}
		return "(VState 999999%N)"
	case strings.HasPrefix(key, "/m/"):
		return "(VBytes " + vgen.N(p.valID(v)) + ")"
	}
	return "(VBytes 888888%N)"
}

// the bytes UpdateState writes for a state (through the real store, so no second encoder here)
func stateBlob(s types.State) []byte {
	c := crashds.New()
	_ = store.New(c).UpdateState(context.Background(), s)
	if len(c.Log) == 1 && len(c.Log[0].Prims) == 1 {
		return c.Log[0].Prims[0].Value
	}
	return nil
}

// The model sees a 4-byte projection of each hash (the first four bytes; pool hashes are checked to
// stay pairwise distinct under it); index keys in the image and the write log are projected the same
// way.  The full-length key builder is compared on real hashes in keyPairs.  A history with reads by
// caller-supplied hashes (usesRaw) is not projected: the model gets every hash and every index key in full
// (pool.proj = 32), since those values are chosen to be close to stored hashes.
const hashProj = 4

func projKey(p *pool, k string) string {
	if strings.HasPrefix(k, "/i/") && len(k) > 3+2*p.proj {
		return k[:3+2*p.proj]
	}
	return k
}

func (p *pool) coqDefs(used map[int]bool) []string {
	var defs []string
	seen := map[string]string{}
	for i, h := range p.hdrs {
		pr := string(h.Hash()[:p.proj])
		if full, ok := seen[pr]; ok && full != string(h.Hash()) {
			panic("hash projection collision")
		}
		seen[pr] = string(h.Hash())
		if !used[i] {
			continue
		}
		defs = append(defs, fmt.Sprintf("Definition H%d := {| hid := %s; hheight := %s; hhash := %s |}.", i, vgen.N(uint64(i)), vgen.N(h.Height()), vgen.Bytes(h.Hash()[:p.proj])))
	}
	defs = append(defs, "Definition H999999 := {| hid := 999999; hheight := 0; hhash := \"\" |}.",
		"Definition H999998 := {| hid := 999998; hheight := 0; hhash := \"\" |}.")
	return defs
}

func opCoq(p *pool, o *Op) string {
	hashOf := func() string {
		if o.Raw {
			return vgen.Bytes(unhex(o.X))
		}
		if o.Junk {
			return vgen.Bytes(junkHash()[:p.proj])
		}
		return fmt.Sprintf("(hhash H%d)", o.H)
	}
	switch o.K {
	case "setheight":
		return "OSetHeight " + vgen.N(o.N)
	case "height":
		return "OHeight"
	case "save":
		return fmt.Sprintf("OSave H%d %s %s", o.H, vgen.N(uint64(o.D)), vgen.N(uint64(o.S)))
	case "getblock":
		return "OGetBlock " + vgen.N(o.N)
	case "byhash":
		return "OGetByHash " + hashOf()
	case "getheader":
		return "OGetHeader " + vgen.N(o.N)
	case "getsig":
		return "OGetSig " + vgen.N(o.N)
	case "sigbyhash":
		return "OGetSigByHash " + hashOf()
	case "updstate":
		return "OUpdState " + vgen.N(uint64(o.S))
	case "getstate":
		return "OGetState"
	case "setmeta":
		return fmt.Sprintf("OSetMeta %s %s", vgen.Str(o.Key), vgen.N(uint64(o.V)))
	case "getmeta":
		return "OGetMeta " + vgen.Str(o.Key)
	}
	panic("bad op")
}

func histCoq(p *pool, h []Item) string {
	var items []string
	for _, it := range h {
		switch it.T {
		case "op":
			items = append(items, "CI (IOp ("+opCoq(p, it.Op)+"))")
		case "reopen":
			items = append(items, "CI IReopen")
		case "crash":
			items = append(items, fmt.Sprintf("CI (ICrash (%s) %s)", opCoq(p, it.Op), vgen.Nat(it.Kc)))
		case "fault":
			items = append(items, fmt.Sprintf("CI (IFault (%s) %s)", opCoq(p, it.Op), vgen.Nat(it.Kc)))
		case "mut":
			items = append(items, mutCoq(it.Op))
		}
	}
	return vgen.List(items)
}

func caseRng(seed int64, c int) *rand.Rand { return rand.New(rand.NewSource(seed*1000003 + int64(c))) }

// key-builder correspondence through the pkg/store hook: the model's builders are compared with
// the code's in Coq (cases file), here we only collect the pairs.
func keyPairs(p *pool) []string {
	var out []string
	for _, h := range append(append([]uint64{}, p.heights...), p.bheights...) {
		out = append(out, fmt.Sprintf("(header_key %s, %s)", vgen.N(h), vgen.Str(ds.NewKey(store.VerifHeaderKey(h)).String())),
			fmt.Sprintf("(data_key %s, %s)", vgen.N(h), vgen.Str(ds.NewKey(store.VerifDataKey(h)).String())),
			fmt.Sprintf("(sig_key %s, %s)", vgen.N(h), vgen.Str(ds.NewKey(store.VerifSignatureKey(h)).String())))
	}
	for i, h := range p.hdrs {
		if i < 2 {
			out = append(out, fmt.Sprintf("(index_key %s, %s)", vgen.Bytes(h.Hash()), vgen.Str(ds.NewKey(store.VerifIndexKey(h.Hash())).String())))
		}
	}
	for _, k := range p.keys {
		out = append(out, fmt.Sprintf("(meta_key %s, %s)", vgen.Str(k), vgen.Str(ds.NewKey(store.VerifMetaKey(k)).String())))
	}
	out = append(out, fmt.Sprintf("(state_key, %s)", vgen.Str(ds.NewKey(store.VerifStateKey()).String())),
		fmt.Sprintf("(height_key, %s)", vgen.Str(ds.NewKey(store.VerifHeightKey()).String())))
	return out
}

// key correspondence for a history with caller-supplied hashes: for each of them and for every awkward stored hash the
// real database key (getIndexKey through GenerateKey, then ds.NewKey) against the model's - both the builder
// (index_key) and the normalisation of the hex text (index_text_key (hex x): equal by C14_index_key_normal_full, "/i"
// for the empty hash); and for the neighbour texts themselves the real GenerateKey / ds.NewKey against the model's
// normalisation key_clean (index_text_key) - texts with doubled slashes and dot elements.
func rawKeyPairs(p *pool, hist []Item) []string {
	var out []string
	seen := map[string]bool{}
	addHash := func(x []byte) {
		if seen[string(x)] {
			return
		}
		seen[string(x)] = true
		real := vgen.Str(ds.NewKey(store.VerifIndexKey(x)).String())
		out = append(out, fmt.Sprintf("(index_text_key (hex %s), %s)", vgen.Bytes(x), real))
		if len(x) > 0 {
			out = append(out, fmt.Sprintf("(index_key %s, %s)", vgen.Bytes(x), real))
		}
	}
	addText := func(t string) {
		if seen["t"+t] {
			return
		}
		seen["t"+t] = true
		out = append(out, fmt.Sprintf("(index_text_key %s, %s)", vgen.Str(t), vgen.Str(ds.NewKey(store.GenerateKey([]string{"i", t})).String())))
	}
	for _, it := range hist {
		o := it.Op
		if o == nil || (o.K != "save" && o.K != "byhash" && o.K != "sigbyhash") {
			continue
		}
		if o.Raw {
			addHash(unhex(o.X))
		} else if o.H >= p.nOrd {
			addHash(p.hdrs[o.H].Hash())
			for _, n := range p.nbrs[o.H] {
				addText(n.mine)
				addText(n.text)
			}
		}
	}
	return out
}

// what a caller-supplied hash is, for the distribution: a normalisation neighbour of a pool hash (in which textual
// form), or one of the generic shapes
func (p *pool) rawClass(x []byte) string {
	for _, ns := range p.nbrs {
		for _, n := range ns {
			if bytes.Equal(n.raw, x) {
				return "normalisation-neighbour-of-a-header-hash(" + n.form + ")"
			}
		}
	}
	switch {
	case len(x) == 0:
		return "empty"
	case len(x) != 32:
		return fmt.Sprintf("other-length(%d)", len(x))
	case bytes.ContainsAny(x[:8], "/.") && (x[0] == '/' || x[0] == '.'):
		return "32-bytes-starting-like-a-path"
	}
	return "32-bytes-near-a-header-hash"
}

func shrink(p *pool, hist []Item, disk bool, sig string) []Item {
	// a budget, so that shrinking ends in reasonable time on histories with multi-megabyte payloads: a run of the real
	// store costs 1 + the MiB of payload its saves carry (deterministic, unlike a clock)
	budget := 6000
	fails := func(h []Item) bool {
		cost := 1
		for _, it := range h {
			if it.Op != nil && it.Op.K == "save" {
				cost += it.Op.Sz >> 20
			}
		}
		if budget < cost {
			return false
		}
		budget -= cost
		r := runCase(p, h, disk)
		for _, s := range r.viol {
			if s == sig {
				return true
			}
		}
		return false
	}
	cur := hist
	// whole chunks first (halves, quarters, ...), then single items until nothing more can go
	for chunk := len(cur) / 2; chunk >= 2; chunk /= 2 {
		for i := 0; i+chunk <= len(cur); {
			cand := append(append([]Item{}, cur[:i]...), cur[i+chunk:]...)
			if fails(cand) {
				cur = cand
			} else {
				i += chunk
			}
		}
	}
	for changed := true; changed; {
		changed = false
		for i := 0; i < len(cur); i++ {
			cand := append(append([]Item{}, cur[:i]...), cur[i+1:]...)
			if fails(cand) {
				cur = cand
				changed = true
				i--
			}
		}
	}
	return cur
}

func TestVerif(t *testing.T) {
	e := vgen.GetEnv()
	res := vgen.NewResult("C14", e)
	type job struct {
		seed int64
		c    int
		disk bool
		hist []Item // nil = generate
	}
	var jobs []job
	if e.Replay != "" {
		var rp Replay
		if err := vgen.LoadReplay(e.Replay, &rp); err != nil {
			t.Fatal(err)
		}
		jobs = append(jobs, job{rp.Seed, rp.Case, rp.Disk, rp.History})
	} else {
		// corpus first
		files, _ := filepath.Glob("../corpus/C14/*.json")
		if os.Getenv("VERIF_NO_CORPUS") != "" {
			files = nil
		}
		for _, f := range files {
			var rp Replay
			if vgen.LoadReplay(f, &rp) == nil {
				jobs = append(jobs, job{rp.Seed, rp.Case, rp.Disk, rp.History})
			}
		}
		for c := 0; c < e.N; c++ {
			jobs = append(jobs, job{seed: e.Seed, c: c, disk: c%25 == 7})
		}
	}
	maxLen := 30
	if e.Tier == "thorough" {
		maxLen = 80
	}
	var cases []string
	var defsAll []string
	distinct := map[string]bool{}
	shrunk := map[string]bool{}
	for ji, j := range jobs {
		r := caseRng(j.seed, j.c)
		p := newPool(r)
		p.addAwkward(rand.New(rand.NewSource(j.seed*1000003 + int64(j.c) + 7777777))) // its own PRNG: the draws of r stay what they were
		hist := j.hist
		for i := range hist { // corpus files name same-hash siblings relative to a base header
			if o := hist[i].Op; o != nil && o.Sib != 0 {
				c := *o
				c.H, c.Sib = p.sibling(o.H%p.nBase, o.Sib), 0
				hist[i].Op = &c
			}
			if o := hist[i].Op; o != nil && o.Awk != 0 && len(p.hdrs) > p.nOrd {
				c := *o
				c.H = p.nOrd + (o.Awk-1)%(len(p.hdrs)-p.nOrd)
				if ns := p.nbrs[c.H]; o.Nb != 0 {
					c.H, c.Raw, c.X = 0, true, fmt.Sprintf("%x", ns[(o.Nb-1)%len(ns)].raw)
				}
				c.Awk, c.Nb = 0, 0
				hist[i].Op = &c
			}
		}
		if hist == nil {
			if j.c%10 == 4 && !j.disk {
				hist = genBigPayloadStream(r, p, j.c)
				res.Count("history:big-payload-overwrite-crash-prefix-stream")
			} else if j.c%10 == 2 {
				hist = genHeightStream(r, p)
				res.Count("history:byte-boundary-height-stream")
			} else if j.c%10 == 6 {
				hist = genClientHashStream(r, p)
				res.Count("history:caller-supplied-hash-stream")
			} else if j.c%10 == 8 {
				hist = genCallerObjectStream(r, p)
				res.Count("history:caller-modifies-its-objects-stream")
			} else if j.c%4 == 3 {
				hist = genFaultStream(r, p)
				res.Count("history:fault-read-retry-reopen-stream")
			} else if j.c%4 == 1 {
				hist = genSameHashStream(r, p)
				res.Count("history:same-hash-overwrite-stream")
			} else {
				hist = genHistory(r, p, maxLen)
			}
		}
		if usesRaw(hist) {
			p.proj = 32 // caller-supplied hashes are close to stored ones: no projection
			res.Count("history:reads-by-caller-supplied-hashes(hashes-and-index-keys-in-full)")
		}
		cr := runCase(p, hist, j.disk)
		if cr.err != nil {
			t.Fatalf("harness error: %v", cr.err)
		}
		raw := hist                // what a replay file holds: big payloads as (base data, length)
		hist = resolveHist(p, raw) // big payloads by pool index, as the run and the Coq terms name them
		res.Evaluations++
		res.Distribution["save:completed-in-more-than-one-atomic-write"] += cr.nMulti
		var setCur uint64 // the largest height a plain SetHeight of this history asked for so far
		nsave, ncrash, nreopen, over := 0, 0, 0, false
		sameOver, sameOverRead := false, false
		seenH := map[uint64]int{}
		readSince := map[uint64]bool{} // the height was read (header or block, by height or by hash) since its last save
		for _, it := range hist {
			res.Count("item:" + it.T)
			if it.Op != nil {
				res.Count("op:" + it.Op.K)
				switch it.Op.K {
				case "setheight":
					if n := it.Op.N; it.T == "op" {
						if setCur > 0 && n > setCur && n>>8 != setCur>>8 && n&0xff < setCur&0xff {
							res.Count("setheight:raises-across-a-byte-boundary(record-orders-the-other-way)")
						}
						if n < setCur && n>>8 != setCur>>8 && n&0xff > setCur&0xff {
							res.Count("setheight:lower-height-whose-record-orders-higher(must-not-lower)")
						}
						if n >= 1<<32 {
							res.Count("setheight:height>=2^32")
						}
						if n > setCur {
							setCur = n
						}
					}
				case "save":
					if l := len(p.datBlob[it.Op.D]); l >= 1<<10 {
						b := 10
						for l>>uint(b+1) > 0 {
							b++
						}
						res.Count(fmt.Sprintf("save:data-blob-bytes-2^%02d..", b) + map[string]string{"op": "", "crash": "(crashed)", "fault": "(write-fault)"}[it.T])
					}
					nsave++
					hh := p.hdrs[it.Op.H].Height()
					if prev, ok := seenH[hh]; ok && prev != it.Op.H {
						if p.base(prev) == p.base(it.Op.H) {
							sameOver = true
							if readSince[hh] {
								sameOverRead = true
							}
						} else {
							over = true
						}
					}
					seenH[hh] = it.Op.H
					readSince[hh] = false
				case "getblock", "getheader":
					if it.T == "op" {
						readSince[it.Op.N] = true
					}
				case "byhash":
					if it.T == "op" && !it.Op.Junk && !it.Op.Raw {
						readSince[p.hdrs[it.Op.H].Height()] = true
					}
				}
				if it.Op.Raw {
					res.Count("read:by-caller-supplied-hash:" + p.rawClass(unhex(it.Op.X)))
				} else if (it.Op.K == "save" || it.Op.K == "byhash" || it.Op.K == "sigbyhash") && it.Op.H >= p.nOrd && !it.Op.Junk {
					res.Count(it.Op.K + ":header-whose-hash-has-normalisation-neighbours(" + p.nbrs[it.Op.H][0].form + ")")
				}
			}
			if it.T == "crash" {
				ncrash++
			}
			if it.T == "reopen" {
				nreopen++
			}
		}
		if over {
			res.Count("history:overwrites-height-with-different-hash")
		}
		if sameOver {
			res.Count("history:overwrites-height-with-same-hash-other-header-bytes")
		}
		if sameOverRead {
			res.Count("history:overwrites-height-with-same-hash-other-header-bytes-after-a-read-of-that-height")
		}
		res.Distribution["fault:met(operation-returned-at-the-failed-write)"] += cr.nMet
		res.Distribution["fault:not-met(operation-made-fewer-write-attempts)"] += cr.nUnmet
		if j.disk {
			res.Count("history:on-disk-badger")
		}
		hc := histCoq(p, hist)
		if nsave > 0 && len(hist) >= 3 {
			distinct[hc] = true
		}
		rp := Replay{Seed: j.seed, Case: j.c, Disk: j.disk, History: raw}
		for vi, sig := range cr.viol {
			if vi > 0 && sig == cr.viol[0] {
				continue
			}
			sh := raw
			if !shrunk[sig] { // the first failing history of each signature is shrunk (bin/check reports one per signature)
				shrunk[sig] = true
				sh = shrink(p, raw, j.disk, sig)
			}
			res.Violations = append(res.Violations, vgen.Violation{Signature: sig, What: cr.what[vi], Case: ji,
				Replay: Replay{Seed: j.seed, Case: j.c, Disk: j.disk, History: sh}})
		}
		// per-case definitions are namespaced by wrapping the case in a let-free Section-less module
		var outs []string
		for _, o := range cr.outs {
			outs = append(outs, o.coq(p))
		}
		used := map[int]bool{}
		for _, it := range hist {
			if it.Op != nil && (it.Op.K == "save" || it.Op.K == "byhash" || it.Op.K == "sigbyhash") && !it.Op.Raw {
				used[it.Op.H] = true
			}
			if it.T == "mut" && strings.Contains(it.Op.Part, "h") {
				used[it.Op.H] = true
			}
		}
		kp := "[]"
		if ji%20 == 0 {
			kp = vgen.List(keyPairs(p))
		}
		if usesRaw(hist) {
			kpr := rawKeyPairs(p, hist)
			if ji%20 == 0 {
				kpr = append(keyPairs(p), kpr...)
			}
			kp = vgen.List(kpr)
		}
		mod := fmt.Sprintf("Module C%d.\n%s\n%s\nDefinition c : scase := {| sc_hist := %s;\n sc_outs := %s;\n sc_image := %s;\n sc_shapes := %s;\n sc_faults := %s;\n sc_traw := %s |}.\nDefinition keys_ok : bool := forallb (fun e => String.eqb (fst e) (snd e)) %s.\nEnd C%d.",
			ji, strings.Join(p.coqDefs(used), "\n"), strings.Join(cr.keyDefs, "\n"), hc, vgen.List(outs), vgen.List(cr.image), vgen.List(cr.shapes), vgen.List(cr.faults), cr.traw, kp, ji)
		defsAll = append(defsAll, mod)
		cases = append(cases, fmt.Sprintf("(if C%d.keys_ok then C%d.c else bad_case)", ji, ji))
		res.Replays[fmt.Sprint(ji)] = rp
		if len(res.Samples) < 3 && nsave > 1 && ncrash > 0 {
			res.Samples = append(res.Samples, map[string]interface{}{"history": raw, "outputs": outs})
		}
	}
	res.Distinct = len(distinct)
	res.Rule = "histories of 1..maxLen items over store operations (26% saves, crashes inside operations with 0..2 atomic writes surviving, transient write faults inside operations = write attempt 0 or 1 of the operation returns an error once and the store stays open, reopen) on pools of 8 heights x 1-3 headers each so that overwrites at one height with a different hash occur, every header with two same-hash siblings (same Header, other Signature / Signer inside the SignedHeader, other stored bytes; compared by the pool index of the stored bytes) so that overwrites with the SAME hash and other bytes occur; every 4th case is a same-hash overwrite stream (save, some of the five kinds of read, save of a same-hash sibling with the same or other data and signature record - sometimes faulted or crashed -, all five reads, reopen or crash, all five reads); every 4th case is a fault / read / retry / read / reopen / read stream over the four writing operations between random operations; every history ends with reads of everything acknowledged and of everything a failed operation tried to write, a close/reopen, and the same reads again; heights of SetHeight / reads are drawn (1 in 4) from the neighbourhood of a per-case byte boundary of the 8-byte little-endian height record (256, a multiple of 256, 2^16 .. 2^56, k*2^(8j), a power of two up to 2^63, the last multiple of 256 below 2^64, a random large height; bound-2 .. bound+2 and bound+254 .. bound+257), three extra headers sit at bound-1, bound, bound+1; every 10th case is a byte-boundary height stream (SetHeight / Height walking up across the boundary, down across it, there and back, over the next multiple of 256, random picks; crashes and write faults inside SetHeight, reopens, saves at those heights); every 10th case is a big-payload stream: an occupied height is overwritten by a block whose marshalled data is 2^e-1, 2^e, 2^e+1 or up to 1.5*2^e bytes long, e cycling through 10..23 with the case number (1 KiB .. 8 MiB and above), the overwrite cut at EVERY crash prefix (0, 1, 2 atomic writes survive) and hit by a write fault on its first and on its second write attempt, all five reads of old and new block after each; every completed save is checked to reach the datastore in ONE atomic write (write log compared with the model; if it made several, the database image after every proper prefix of them is materialised and read: all-old or all-new); the raw bytes of the final /t record are compared with the model's encoding of its height; every 10th case is a caller-supplied-hash stream: GetBlockByHash / GetSignatureByHash take any bytes, so besides hashes of pool headers the reads use values chosen against the way keys are built - each pool gets, for every binary-to-text form of Go's standard library whose text can hold '/' or '.' (the raw bytes, base64 std / raw-std, ascii85; found by looking at their output), one header whose REAL SHA-256 hash has neighbours under key normalisation in that form (fields redrawn until it has: the text has a doubled slash, a leading / trailing slash or a dot element), the neighbours being all other 32-byte values whose text is the same after path.Clean (the dropped '/' or './' put back elsewhere; checked with the real path.Clean and a strict decode); the stream saves such a header, reads it by its hash, then reads block and signature by the neighbours and by generic near-values (one bit off, one byte short / long, empty, the hex text instead of the bytes, reversed, '////..', '....', '../h/1'-like bytes) - before the save, after it, after a reopen, a crash or a write fault inside a second save, after the height is overwritten by another hash, at the end: every one of them must find nothing; those histories reach Coq with full-length hashes and index keys, and the real key of every such value (and GenerateKey / ds.NewKey of the neighbour texts) is compared with the model's index_key / key_clean; every save is made with FRESH header / data objects of its own and the harness keeps them, and the objects the latest read returned, as a caller does; every 10th case is a caller-objects stream: a block is saved, then - with no further save at that height - the caller overwrites IN PLACE the header and / or data object it passed in, or those a read of the block gave it (item mut: with the content of a same-hash sibling = another Signature / Signer, what the node sets between its two saves, or of any other pool header = the object re-used; other pool data), the store not being called; then some or all of the five reads of that height on the same store handle while it is still the latest save, more modifications, then the final same-hash save / a save at another height / a reopen / a faulted or crashed second save, and the reads again: every read must return what was WRITTEN (the model: Model/StoreCaller.v, such items change the caller's side only); every 25th case on a real on-disk badger with true close/reopen; non-trivial = at least 3 items and one save; distinct = distinct Coq history terms"
	res.Cases = len(cases)
	header := "From Coq Require Import String Ascii NArith List Bool.\nFrom Verif Require Import Base.KV Base.Keys Model.Store Model.StoreCaller Check.StoreCheck."
	defsAll = append([]string{"Definition bad_case : scase := {| sc_hist := []; sc_outs := [None]; sc_image := []; sc_shapes := []; sc_faults := []; sc_traw := [] |}."}, defsAll...)
	path := filepath.Join(e.Out, "cases_C14.v")
	if err := vgen.WriteCases(path, header, defsAll, "scase", cases, "mismatches"); err != nil {
		t.Fatal(err)
	}
	res.CaseFiles = []string{path}
	if err := res.Write(e.Out); err != nil {
		t.Fatal(err)
	}
}
