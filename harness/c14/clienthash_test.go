// Reads by CALLER-SUPPLIED hashes.  GetBlockByHash / GetSignatureByHash take whatever bytes the caller passes (the
// RPC service hands the request's bytes through), so the hash universe of a history is not only "hashes of pool
// headers and one junk value": it holds values chosen against the way keys are built.  Every datastore key goes
// through path.Clean (GenerateKey, ds.NewKey), which drops doubled slashes and dot elements - so the values that
// matter are those whose TEXT, in a textual form a key could be built from, is identified with the text of a stored
// hash by that normalisation.  This file finds them: for a list of binary-to-text forms (Go's standard library) it
// re-expands the cleaned text of a stored hash in every way of the same length (the redundant "/", "./" put back
// somewhere else) and keeps what decodes to a different 32-byte value; and it draws "awkward" headers whose hash has
// such neighbours.  With the code's own form (uppercase hex: one clean element, Props/C14.v
// C14_index_key_injective_after_normalisation_full) none of these values is the key of another - a read by any of
// them finds nothing.
package c14

import (
	"bytes"
	"encoding/ascii85"
	"encoding/base32"
	"encoding/base64"
	"encoding/hex"
	"math/rand"
	"path"
	"strings"
	"sync"

	"github.com/evstack/ev-node/types"
)

type textEnc struct {
	name string
	enc  func([]byte) string
	dec  func(string) ([]byte, error)
}

func a85enc(b []byte) string {
	buf := make([]byte, ascii85.MaxEncodedLen(len(b)))
	return string(buf[:ascii85.Encode(buf, b)])
}
func a85dec(s string) ([]byte, error) {
	buf := make([]byte, 4*len(s)+8)
	n, _, err := ascii85.Decode(buf, []byte(s), true)
	return buf[:n], err
}

// the textual forms of a byte string in Go's standard library (and the bytes themselves)
var textEncs = []textEnc{
	{"raw-bytes", func(b []byte) string { return string(b) }, func(s string) ([]byte, error) { return []byte(s), nil }},
	{"hex-upper", func(b []byte) string { return strings.ToUpper(hex.EncodeToString(b)) }, hex.DecodeString},
	{"hex-lower", hex.EncodeToString, hex.DecodeString},
	{"base32-std", base32.StdEncoding.EncodeToString, base32.StdEncoding.DecodeString},
	{"base32-hex", base32.HexEncoding.EncodeToString, base32.HexEncoding.DecodeString},
	{"base64-std", base64.StdEncoding.EncodeToString, base64.StdEncoding.Strict().DecodeString},
	{"base64-rawstd", base64.RawStdEncoding.EncodeToString, base64.RawStdEncoding.Strict().DecodeString},
	{"base64-url", base64.URLEncoding.EncodeToString, base64.URLEncoding.Strict().DecodeString},
	{"base64-rawurl", base64.RawURLEncoding.EncodeToString, base64.RawURLEncoding.Strict().DecodeString},
	{"ascii85", a85enc, a85dec},
}

// the forms whose text can hold a byte that path.Clean gives a meaning to ('/' or '.'), found by looking at what they
// print for 512 fixed inputs; the others (hex, base32, base64url) are one clean element always and have no neighbours
var (
	awkwardOnce sync.Once
	awkwardEncs []textEnc
)

func awkwardForms() []textEnc {
	awkwardOnce.Do(func() {
		r := rand.New(rand.NewSource(20260926))
		for _, e := range textEncs {
			for i := 0; i < 512; i++ {
				if strings.ContainsAny(e.enc(rbytes(r, 32)), "/.") {
					awkwardEncs = append(awkwardEncs, e)
					break
				}
			}
		}
	})
	return awkwardEncs
}

// all strings of n bytes that path.Clean drops: behind a '/' (end == false) runs of "/" and "./"; behind the last
// element (end == true) runs of "/" and "/."
func redundant(n int, end bool) []string {
	if n == 0 {
		return []string{""}
	}
	var out []string
	for _, x := range redundant(n-1, end) {
		out = append(out, "/"+x)
	}
	if n >= 2 {
		two := "./"
		if end {
			two = "/."
		}
		for _, x := range redundant(n-2, end) {
			out = append(out, two+x)
		}
	}
	return out
}

// every text (up to limit) made of the elements segs, in order, with d redundant bytes spread over the places in front
// of, between and behind them
func reexpand(segs []string, d, limit int) []string {
	var out []string
	var rec func(i, rem int, acc string)
	rec = func(i, rem int, acc string) {
		if len(out) >= limit {
			return
		}
		if i == len(segs) {
			for _, x := range redundant(rem, true) {
				out = append(out, acc+x)
			}
			return
		}
		for l := 0; l <= rem; l++ {
			for _, x := range redundant(l, false) {
				s := acc + x + segs[i]
				if i+1 < len(segs) {
					s += "/"
				}
				rec(i+1, rem-l, s)
			}
		}
	}
	rec(0, d, "")
	return out
}

// a neighbour of a hash under key normalisation, in one textual form
type nbr struct {
	form       string // the textual form
	text, mine string // the neighbour's text and the text of the hash it is a neighbour of: path.Clean identifies them
	raw        []byte // the neighbour: another value of the same length
}

// the values x != h of len(h) bytes whose text in form e is identified with the text of h by path.Clean
// (Clean("/i/"+e(x)) == Clean("/i/"+e(h)), checked with the real path.Clean), at most max of them
func neighbours(e textEnc, h []byte, max int) []nbr {
	t := e.enc(h)
	cl := path.Clean("/i/" + t)
	if !strings.HasPrefix(cl, "/i/") {
		return nil // the whole text vanished, or climbed out of the prefix
	}
	c := cl[3:]
	d := len(t) - len(c)
	if d <= 0 || d > 5 {
		return nil
	}
	var out []nbr
	for _, t2 := range reexpand(strings.Split(c, "/"), d, 400) {
		if t2 == t || len(t2) != len(t) || path.Clean("/i/"+t2) != cl {
			continue
		}
		raw, err := e.dec(t2)
		if err != nil || len(raw) != len(h) || bytes.Equal(raw, h) || e.enc(raw) != t2 {
			continue
		}
		out = append(out, nbr{form: e.name, text: t2, mine: t, raw: raw})
		if len(out) >= max {
			break
		}
	}
	return out
}

// addAwkward appends, for every awkward textual form, one header whose hash has neighbours in that form (drawn from
// its own PRNG: everything drawn before stays what it was).  The header hash is a real SHA-256 - the fields are
// redrawn until the hash has the shape; a few hundred draws on average, bounded.
func (p *pool) addAwkward(r *rand.Rand) {
	for _, e := range awkwardForms() {
		sh := &types.SignedHeader{
			Header: types.Header{
				BaseHeader:      types.BaseHeader{Height: p.heights[r.Intn(5)], Time: uint64(r.Int63()), ChainID: "c14"},
				DataHash:        rbytes(r, 32),
				AppHash:         rbytes(r, 32),
				ProposerAddress: rbytes(r, 32),
				LastHeaderHash:  rbytes(r, 32),
			},
			Signature: rbytes(r, 64),
		}
		for try := 0; try < 20000; try++ {
			r.Read(sh.Header.AppHash)
			ns := neighbours(e, sh.Hash(), 3)
			if len(ns) == 0 {
				continue
			}
			b, err := sh.MarshalBinary()
			if err != nil {
				panic(err)
			}
			p.nbrs[len(p.hdrs)] = ns
			p.hdrs = append(p.hdrs, sh)
			p.hdrBlob = append(p.hdrBlob, b)
			break
		}
	}
}

func unhex(s string) []byte {
	b, err := hex.DecodeString(s)
	if err != nil {
		panic("bad caller-supplied hash in history: " + s)
	}
	return b
}

// values a caller may pass for the hash of header v: its normalisation neighbours (all of them), and some of: one bit
// off at either end, one byte short, one byte long, empty, the hex text instead of the bytes (either case), the bytes
// reversed, path-like bytes ("//////..", "......", "../h/1", "../../t" padded to 32 bytes)
func clientHashes(r *rand.Rand, p *pool, v int) [][]byte {
	h := []byte(p.hdrs[v].Hash())
	var xs [][]byte
	for _, n := range p.nbrs[v] {
		xs = append(xs, n.raw)
	}
	flip := func(i int, m byte) []byte { c := append([]byte{}, h...); c[i] ^= m; return c }
	pad := func(s string) []byte { return append([]byte(s), h[len(s):]...) }
	rev := make([]byte, len(h))
	for i := range h {
		rev[len(h)-1-i] = h[i]
	}
	generic := [][]byte{flip(0, 0x01), flip(31, 0x80), h[:31], append(append([]byte{}, h...), 0), {},
		[]byte(strings.ToUpper(hex.EncodeToString(h))), []byte(hex.EncodeToString(h)), rev,
		bytes.Repeat([]byte("/"), 32), bytes.Repeat([]byte("."), 32), pad("../h/1/"), pad("../../t/"), pad("/"), append(append([]byte{}, h[:31]...), '/')}
	for _, i := range r.Perm(len(generic))[:2+r.Intn(3)] {
		xs = append(xs, generic[i])
	}
	return xs
}

// the caller-supplied-hash stream: a block is saved (mostly one whose hash is awkward in some textual form), read by
// its hash, and then read - block and signature - by values that were never the hash of anything; again after a
// reopen, after a crash inside a second save, after the height was overwritten by a header of another hash (the old
// index entry goes), and once more at the end.  All of these reads must find nothing.
func genClientHashStream(r *rand.Rand, p *pool) []Item {
	var h []Item
	op := func(o *Op) { h = append(h, Item{T: "op", Op: o}) }
	probe := func(xs [][]byte) {
		for _, x := range xs {
			switch r.Intn(4) {
			case 0:
				op(&Op{K: "byhash", X: hex.EncodeToString(x), Raw: true})
			case 1:
				op(&Op{K: "sigbyhash", X: hex.EncodeToString(x), Raw: true})
			default:
				op(&Op{K: "byhash", X: hex.EncodeToString(x), Raw: true})
				op(&Op{K: "sigbyhash", X: hex.EncodeToString(x), Raw: true})
			}
		}
	}
	for i, n := 0, r.Intn(4); i < n; i++ {
		op(genOp(r, p))
	}
	for j, rounds := 0, 1+r.Intn(3); j < rounds; j++ {
		v := r.Intn(p.nOrd)
		if len(p.hdrs) > p.nOrd && r.Intn(5) > 0 {
			v = p.nOrd + r.Intn(len(p.hdrs)-p.nOrd)
		}
		xs := clientHashes(r, p, v)
		save := &Op{K: "save", H: v, D: r.Intn(len(p.datas)), S: r.Intn(len(p.sigs))}
		if r.Intn(3) == 0 {
			probe(xs[:1+r.Intn(len(xs))]) // before anything is stored under the hash
		}
		op(save)
		op(&Op{K: "byhash", H: v})
		if r.Intn(2) == 0 {
			op(&Op{K: "sigbyhash", H: v})
		}
		probe(xs)
		switch r.Intn(5) {
		case 0:
			h = append(h, Item{T: "reopen"})
			probe(xs)
		case 1:
			h = append(h, Item{T: "crash", Op: &Op{K: "save", H: v, D: r.Intn(len(p.datas)), S: r.Intn(len(p.sigs))}, Kc: r.Intn(2)})
			probe(xs)
		case 2:
			h = append(h, Item{T: "fault", Op: save, Kc: 0})
			probe(xs[:1+r.Intn(len(xs))])
		}
		if r.Intn(3) == 0 {
			// another hash at that height: the index entry of the awkward hash is deleted, the neighbours stay unknown
			for o := 0; o < p.nBase; o++ {
				if p.hdrs[o].Height() == p.hdrs[v].Height() {
					op(&Op{K: "save", H: p.sibling(o, r.Intn(3)), D: r.Intn(len(p.datas)), S: r.Intn(len(p.sigs))})
					op(&Op{K: "byhash", H: v})
					probe(xs)
					if r.Intn(2) == 0 {
						op(save)
						probe(xs)
					}
					break
				}
			}
		}
		for i, n := 0, r.Intn(3); i < n; i++ {
			op(genOp(r, p))
		}
		if j == rounds-1 {
			probe(xs)
		}
	}
	return h
}

// does the history read by caller-supplied hashes
func usesRaw(hist []Item) bool {
	for _, it := range hist {
		if it.Op != nil && it.Op.Raw {
			return true
		}
	}
	return false
}
