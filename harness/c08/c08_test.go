// C08 correspondence harness: a REAL aggregator block.Manager (NewManager on an in-memory datastore, real
// store, real signer, real publishBlockInternal) with config.Node.MaxPendingHeadersAndData = L is driven
// through histories of
//
//   - block production attempts (m.VerifPublishBlock; the scripted sequencer hands out an empty or a
//     non-empty batch),
//
//   - header / data submission iterations: in cases with Loop = true ONE TICK OF THE REAL LOOP — the exported
//     HeaderSubmissionLoop / DataSubmissionLoop is started as the node starts it (own goroutine, its own ticker on
//     config.DA.BlockTime, virtual time), serves its first tick completely (whatever the loop does before, instead
//     of or around submit…ToDA is part of what runs) and is ended when it comes round to the top of its for loop
//     the second time (the store wrapper sees the isEmpty() read the loop itself makes and ends the goroutine
//     there); the result class is read off what the loop did (did it read the pending range, did it reach the DA
//     layer, did the loop function itself log an error) — in cases with Loop = false the loop body through the
//     block/verif_export.go hooks (isEmpty, getPendingHeaders | createSignedDataToSubmit, submit…ToDA); in cases
//     with Life = true (half of the Loop cases, and every case of the DA-outage stream) the two loop functions are
//     started ONCE per process, as node/full.go starts them, and the SAME two goroutines serve every tick of the
//     history (parked between ticks at the isEmpty() read that begins an iteration; stopped — context cancelled —
//     at a restart, where the new process starts its own): a loop function that RETURNS while the node runs
//     serves no further tick, nobody else does its work, and the oracles below see what that does to production;
//     whether each loop function is still running is reported per item and compared with Model/ThrottleLoop.v,
//
//   - node configuration per case: config.Node.LazyMode on / off, MaxPendingHeadersAndData 1..10 (and 255..1000),
//
//   - blocks whose transactions weigh 1 KB .. 1.9 MB (the DA double takes blobs up to 1,974,272 bytes),
//
//   - restarts (NewManager on the same datastore),
//
//   - INTERLEAVED production attempts (item "produce_i"): the store handed to the Manager is wrapped; at the k-th
//     store call publishBlockInternal makes (Height() of numPendingHeaders / numPendingData / getPending, the
//     GetBlockData fetches of numWaitingData, the SetMetadata of its watermark step, and every store call of
//     block building up to SetHeight) scheduled header / data submission iterations are run synchronously, then
//     the call proceeds — an interleaving of the aggregation goroutine with the submission loops that the Go
//     scheduler is free to pick.  The point at which each iteration ran is classified from the call stack (which
//     function of block/ is reading) and reported to the model as a ThrottleConc.sched,
//
//   - LAZY-LOOP stream (genLazy / runLazyCase): the blocks are produced by the REAL Manager.AggregationLoop in lazy mode
//     on its own two timers (virtual time); the history only lets time pass and places submission iterations and
//     transaction announcements; every call the loop makes of publishBlock is recorded (VerifSetPublishBlock wraps the
//     real publishBlockInternal) and compared with Model/ThrottleLazy.v; oracle: with fewer than L blocks waiting the
//     loop produces by itself within a lazy interval + a block time (no transaction needed),
//
// against a scripted DA double that answers truthfully (accept k of n | failure; script end = the DA layer
// answers "context canceled" — context.Canceled, what the DA client reports when the remote DA node drops a
// request — while the node's own context is alive).  A DA outage of length n = n failures followed by acceptance; n may exceed
// maxSubmitAttempts.  Everything runs in testing/synctest bubbles (the backoff sleeps are virtual).
// Writes cases_C08.v (for Model/Throttle.v) and result.json (Go oracle: refusal justified, resumption,
// no deadlock, limit enforced — evaluated on the real store and the DA double's own record).
package c08

import (
	"bytes"
	"context"
	"encoding/binary"
	"errors"
	"fmt"
	"math"
	"math/rand"
	"os"
	"path/filepath"
	"runtime"
	"sort"
	"strings"
	"sync"
	"testing"
	"testing/synctest"
	"time"

	ds "github.com/ipfs/go-datastore"
	logging "github.com/ipfs/go-log/v2"
	"github.com/libp2p/go-libp2p/core/crypto"

	"github.com/evstack/ev-node/block"
	coreda "github.com/evstack/ev-node/core/da"
	coreexec "github.com/evstack/ev-node/core/execution"
	coreseq "github.com/evstack/ev-node/core/sequencer"
	"github.com/evstack/ev-node/pkg/config"
	genesispkg "github.com/evstack/ev-node/pkg/genesis"
	"github.com/evstack/ev-node/pkg/signer"
	noopsigner "github.com/evstack/ev-node/pkg/signer/noop"
	"github.com/evstack/ev-node/pkg/store"
	"github.com/evstack/ev-node/types"

	"verif/harness/doubles/crashds"
	"verif/harness/vgen"
)

// ---- histories ---------------------------------------------------------------------------------

type Outcome struct {
	O string `json:"o"`           // accept | fail
	K uint64 `json:"k,omitempty"` // accept: how many blobs of the call the DA layer takes (>= 1000 = all)
	F string `json:"f,omitempty"` // fail: notincluded inmempool toobig err seq (only the backoff differs)
}
type Item struct {
	T  string    `json:"t"`            // produce produce_i produce_empty headers data restart
	NE bool      `json:"ne,omitempty"` // produce, produce_i: the sequencer hands out transactions
	N  int       `json:"n,omitempty"`  // produce_empty: number of attempts in a row without transactions
	Sz int       `json:"sz,omitempty"` // produce with NE: total number of transaction bytes of the block (0 = a few small transactions); the data blob is that plus ~200 bytes
	P  int       `json:"p,omitempty"`  // produce, produce_i with NE: 0 = a fresh transaction list never seen before, k >= 1 = the k-th list of a small fixed pool (the SAME transactions as every other block with that k)
	SC []Outcome `json:"sc,omitempty"` // headers / data: DA answers, then cancellation
	At []Inject  `json:"at,omitempty"` // produce_i: submission iterations run inside the attempt
	Ms int       `json:"ms,omitempty"` // wait (lazy-loop stream): virtual milliseconds to let pass (a multiple of 500)
}

// Inject: at the K-th store call (from 0) the production attempt makes, run these submission iterations, then let
// the call proceed.  Iterations that cannot run at that call (a data iteration while production holds the data
// watermark's mutex; a call after the decision of a refused attempt) wait for the next call that allows them;
// what has not run when the attempt returns runs right after it as ordinary iterations.
type Inject struct {
	K    int     `json:"k"`
	Subs []SubIt `json:"subs"`
}
type SubIt struct {
	T  string    `json:"t"` // headers data
	SC []Outcome `json:"sc,omitempty"`
}
type Replay struct {
	Seed    int64  `json:"seed"`
	Case    int    `json:"case"`
	Init    uint64 `json:"init"`
	Limit   uint64 `json:"limit"`
	Lazy    bool   `json:"lazy,omitempty"`  // config.Node.LazyMode
	Loop    bool   `json:"loop,omitempty"`  // submission iterations = one tick of the REAL HeaderSubmissionLoop / DataSubmissionLoop (else: the loop body through the hooks)
	Life    bool   `json:"life,omitempty"`  // with Loop: the two loop functions are started ONCE per process (as node/full.go does) and the same two goroutines serve every tick of the history (else: a fresh goroutine per tick)
	Agg     bool   `json:"agg,omitempty"`   // lazy-loop stream: the REAL AggregationLoop (lazy mode) produces the blocks on its own timers; History = wait / headers / data / notify
	LiMs    int    `json:"li_ms,omitempty"` // with Agg: config.Node.LazyBlockInterval in ms (block time = 1000 ms)
	History []Item `json:"history"`
}

// node configuration of a case beyond initial height and limit
type caseOpt struct {
	lazy bool          // config.Node.LazyMode
	loop bool          // drive the real submission loops, one tick per iteration
	life bool          // … as the two long-lived goroutines of the process (started at process start, stopped at restart)
	li   time.Duration // config.Node.LazyBlockInterval (0 = the default)
}

// daMaxBlob: what the DA double takes in one blob (the default of local-da / the jsonrpc client: 64*64*482)
const daMaxBlob = 1974272

// maxTxBytes: the largest block the generators ask for (transaction bytes; the SignedData blob stays below daMaxBlob)
const maxTxBytes = 1900000

const all = 1000

var fkinds = []string{"notincluded", "inmempool", "toobig", "err", "seq"}

func acceptAll() []Outcome { return []Outcome{{O: "accept", K: all}} }

// an outage of n answers followed by acceptance
func outage(r *rand.Rand, n int) []Outcome {
	var sc []Outcome
	f := fkinds[r.Intn(len(fkinds))]
	for i := 0; i < n; i++ {
		if r.Intn(10) == 0 {
			f = fkinds[r.Intn(len(fkinds))]
		}
		sc = append(sc, Outcome{O: "fail", F: f})
	}
	return append(sc, Outcome{O: "accept", K: all})
}

func genScript(r *rand.Rand) []Outcome {
	switch x := r.Intn(100); {
	case x < 40:
		return acceptAll()
	case x < 60: // short outage, over within one iteration
		return outage(r, 1+r.Intn(5))
	case x < 72: // outage longer than maxSubmitAttempts: the iteration gives up
		return outage(r, 30+r.Intn(36))
	case x < 80: // the DA layer is down for the whole iteration, then the context ends
		n := 1 + r.Intn(4)
		return outage(r, n)[:n]
	case x < 92: // the DA layer takes the blobs a few at a time
		var sc []Outcome
		for i, n := 0, 1+r.Intn(4); i < n; i++ {
			if r.Intn(3) == 0 {
				sc = append(sc, Outcome{O: "fail", F: fkinds[r.Intn(len(fkinds))]})
			} else {
				sc = append(sc, Outcome{O: "accept", K: uint64(1 + r.Intn(3))})
			}
		}
		if r.Intn(2) == 0 {
			sc = append(sc, Outcome{O: "accept", K: all})
		}
		return sc
	default:
		return nil // context cancelled before the first answer
	}
}

// every limit from 1 to 10, the small ones more often (a limit below any batching threshold a loop might have)
func genLimit(r *rand.Rand) uint64 {
	return []uint64{1, 2, 3, 4, 5, 6, 7, 8, 9, 10, 1, 2, 3, 10}[r.Intn(14)]
}

// lazy or normal mode; the real loops or the loop bodies through the hooks
// (of the cases on the real loops, half let the SAME two goroutines serve every tick: long-lived loops)
func genOpt(r *rand.Rand) caseOpt {
	o := caseOpt{lazy: r.Intn(2) == 0, loop: r.Intn(2) == 0}
	o.life = r.Intn(2) == 0 && o.loop
	return o
}

func genHistory(r *rand.Rand, maxLen int) (uint64, uint64, []Item) {
	init := []uint64{1, 1, 1, 2, 5, 12, 1000}[r.Intn(7)]
	limit := genLimit(r)
	mix := r.Intn(4) // 0 all-empty, 1 all non-empty, 2,3 mixed
	pNE := []int{0, 100, 50, 25}[mix]
	n := 4 + r.Intn(maxLen-3)
	var h []Item
	blocks := 0
	produce := func() {
		it := Item{T: "produce", NE: r.Intn(100) < pNE}
		if r.Intn(8) == 0 { // the submission loops get their tick while this attempt is under way
			it.T, it.At = "produce_i", genInjects(r, limit)
		}
		h = append(h, it)
		blocks++
	}
	for i := 0; i < n; i++ {
		switch x := r.Intn(100); {
		case x < 45:
			for j, k := 0, 1+r.Intn(int(limit)+1); j < k && blocks < 60; j++ {
				produce()
			}
		case x < 68:
			h = append(h, Item{T: "headers", SC: genScript(r)})
		case x < 91:
			h = append(h, Item{T: "data", SC: genScript(r)})
		default:
			h = append(h, Item{T: "restart"})
		}
	}
	// closing phase (80%): the DA layer accepts from here on; production must go on, block after block
	if r.Intn(100) < 80 {
		if r.Intn(4) == 0 {
			h = append(h, Item{T: "restart"})
		}
		for j, k := 0, 2+r.Intn(2*int(limit)+2); j < k; j++ {
			if r.Intn(2) == 0 {
				h = append(h, Item{T: "headers", SC: acceptAll()}, Item{T: "data", SC: acceptAll()})
			} else {
				h = append(h, Item{T: "data", SC: acceptAll()}, Item{T: "headers", SC: acceptAll()})
			}
			it := Item{T: "produce", NE: r.Intn(100) < pNE}
			if r.Intn(8) == 0 {
				it.T, it.At = "produce_i", genInjects(r, limit)
			}
			h = append(h, it)
		}
	}
	poolPayloads(r, h)
	return init, limit, h
}

// submission iterations to run inside one production attempt: 1..2 places among the store calls the attempt
// makes (3 reads of the limit check, up to L+1 fetches, the watermark steps, about 8 calls of block building),
// 1..2 iterations at each; mostly against a DA layer that accepts
func genInjects(r *rand.Rand, limit uint64) []Inject {
	var at []Inject
	if r.Intn(6) == 0 {
		// sweep: a header iteration at every store call of numWaitingData's window (fetches and watermark steps —
		// inside a watermark step only the header loop can run, the data watermark's mutex is held)
		for k := 3; k < 3+int(limit)+4; k++ {
			at = append(at, Inject{K: k, Subs: []SubIt{{T: "headers", SC: acceptAll()}}})
		}
		return at
	}
	for i, n := 0, 1+r.Intn(2); i < n; i++ {
		var k int
		switch x := r.Intn(10); {
		case x < 5:
			k = r.Intn(4) // the reads of the limit check
		case x < 8:
			k = 3 + r.Intn(int(limit)+2) // fetches / watermark steps
		default:
			k = r.Intn(int(limit) + 14)
		}
		in := Inject{K: k}
		for j, m := 0, 1+r.Intn(2); j < m; j++ {
			sb := SubIt{T: []string{"headers", "data", "data"}[r.Intn(3)]}
			if r.Intn(10) < 7 {
				sb.SC = acceptAll()
			} else {
				sb.SC = genScript(r)
			}
			in.Subs = append(in.Subs, sb)
		}
		at = append(at, in)
	}
	return at
}

// interleaving stream: the node is brought close to the limit (bursts of blocks, mostly with transactions, the
// header loop keeping up, the data loop lagging), then production attempts run with the submission loops
// getting their ticks INSIDE them, then rounds against an accepting DA layer.  What the limit check decided on a
// count that went out of date under its hands must not outlive that attempt.
func genInterleaved(r *rand.Rand) (uint64, uint64, []Item) {
	init := []uint64{1, 1, 1, 2, 5}[r.Intn(5)]
	limit := []uint64{1, 2, 3, 3, 4, 10, 5, 6, 7, 8, 9}[r.Intn(11)]
	pNE := []int{100, 80, 50, 30, 0}[r.Intn(5)]
	var h []Item
	pair := func() {
		if r.Intn(2) == 0 {
			h = append(h, Item{T: "headers", SC: acceptAll()}, Item{T: "data", SC: acceptAll()})
		} else {
			h = append(h, Item{T: "data", SC: acceptAll()}, Item{T: "headers", SC: acceptAll()})
		}
	}
	h = append(h, Item{T: "produce"}) // the stored genesis block
	if r.Intn(2) == 0 {
		h = append(h, Item{T: "headers", SC: acceptAll()})
	}
	for seg, nseg := 0, 1+r.Intn(3); seg < nseg; seg++ {
		for j, k := 0, int(limit)-1+r.Intn(3); j < k; j++ {
			h = append(h, Item{T: "produce", NE: r.Intn(100) < pNE})
			switch x := r.Intn(10); {
			case x < 6:
				h = append(h, Item{T: "headers", SC: acceptAll()})
			case x < 7:
				h = append(h, Item{T: "headers", SC: genScript(r)})
			case x < 8:
				h = append(h, Item{T: "data", SC: genScript(r)})
			}
		}
		for j, k := 0, 1+r.Intn(3); j < k; j++ {
			h = append(h, Item{T: "produce_i", NE: r.Intn(100) < pNE, At: genInjects(r, limit)})
			if r.Intn(3) == 0 {
				h = append(h, Item{T: "produce", NE: r.Intn(100) < pNE})
			}
		}
		if r.Intn(6) == 0 {
			h = append(h, Item{T: "restart"})
		}
	}
	for j, k := 0, 2+r.Intn(int(limit)+2); j < k; j++ {
		pair()
		it := Item{T: "produce", NE: r.Intn(100) < pNE}
		if r.Intn(3) == 0 {
			it.T, it.At = "produce_i", genInjects(r, limit)
		}
		h = append(h, it)
	}
	poolPayloads(r, h)
	return init, limit, h
}

// payloads: in half of the histories the blocks with transactions take their transaction list from a pool of 1..3
// fixed lists (each with probability 2/3, else a fresh list), so that blocks at different heights carry EQUAL
// transaction lists (equal Data.Hash / DACommitment: whatever is keyed by them is shared between the heights).
func poolPayloads(r *rand.Rand, h []Item) {
	if r.Intn(2) == 0 {
		return
	}
	pool := 1 + r.Intn(3)
	for i := range h {
		if (h[i].T == "produce" || h[i].T == "produce_i") && h[i].NE && r.Intn(3) > 0 {
			h[i].P = 1 + r.Intn(pool)
		}
	}
}

// the k-th transaction list of the pool (k >= 1): fixed bytes, the same in every case and at every height
func poolTxs(k int) [][]byte {
	txs := [][]byte{[]byte(fmt.Sprintf("heartbeat-%d", k))}
	if k%2 == 0 {
		txs = append(txs, []byte("tick"))
	}
	return txs
}

// repeated-payload stream: limits 1..3, DA layer healthy, blocks whose transaction list EQUALS that of an earlier
// block (a heartbeat transaction in every block; A, B, A; the last L blocks all equal to one already on the DA
// layer), each followed by idle tails (attempts without transactions) with rounds of both submission iterations.
// A block is a block: what an earlier height with the same transactions went through must not count for this one
// (anything memoised by data hash / DA commitment — skipping, marking, counting — shows here and nowhere else,
// because every other stream's non-empty blocks are pairwise different).
func genRepeat(r *rand.Rand, idx int) (uint64, uint64, []Item) {
	init := []uint64{1, 1, 1, 2, 5}[r.Intn(5)]
	limit := []uint64{1, 2, 3}[r.Intn(3)]
	if idx < 3 {
		init, limit = 1, uint64(idx+1)
	}
	var h []Item
	pair := func() {
		if r.Intn(2) == 0 {
			h = append(h, Item{T: "headers", SC: acceptAll()}, Item{T: "data", SC: acceptAll()})
		} else {
			h = append(h, Item{T: "data", SC: acceptAll()}, Item{T: "headers", SC: acceptAll()})
		}
	}
	ne := func(p int) { h = append(h, Item{T: "produce", NE: true, P: p}) }
	idle := func(n int) {
		for j := 0; j < n; j++ {
			pair()
			h = append(h, Item{T: "produce"})
		}
	}
	h = append(h, Item{T: "produce"}) // the stored genesis block
	shape := r.Intn(4)
	if idx < 3 {
		shape = 0
	}
	switch shape {
	case 0: // a heartbeat transaction in every block; the submission loops run after every block or after every L
		per := 1
		if r.Intn(2) == 0 {
			per = int(limit)
		}
		for j, k := 0, int(limit)+2+r.Intn(3); j < k; j++ {
			ne(1)
			if (j+1)%per == 0 {
				pair()
			}
		}
	case 1: // A, B, A (B from the pool or fresh), the loops keeping up, then the last L blocks all equal to A
		ne(1)
		pair()
		ne([]int{0, 2}[r.Intn(2)])
		pair()
		for j := uint64(0); j < limit; j++ {
			ne(1)
		}
	case 2: // the first block's list comes back after some blocks of other lists and empty blocks
		ne(1)
		if r.Intn(2) == 0 {
			pair()
		}
		for j, k := 0, 1+r.Intn(3); j < k; j++ {
			if r.Intn(3) == 0 {
				h = append(h, Item{T: "produce"})
			} else {
				ne([]int{0, 2, 3}[r.Intn(3)])
			}
			pair()
		}
		for j, k := uint64(0), 1+uint64(r.Intn(int(limit))); j < k; j++ {
			ne(1)
		}
	default: // any mix over a pool of two lists, empty blocks and fresh lists, the loops mostly keeping up
		for j, k := 0, 3+r.Intn(5); j < k; j++ {
			switch x := r.Intn(10); {
			case x < 6:
				ne(1 + r.Intn(2))
			case x < 8:
				ne(0)
			default:
				h = append(h, Item{T: "produce"})
			}
			if r.Intn(3) > 0 {
				pair()
			}
		}
	}
	if r.Intn(5) == 0 {
		h = append(h, Item{T: "restart"})
	}
	// tail: idle chain, or more of the same list, or fresh lists — with rounds against the accepting DA layer
	switch r.Intn(3) {
	case 0:
		idle(2 + int(limit) + r.Intn(2))
	case 1:
		for j, k := 0, 2+int(limit); j < k; j++ {
			pair()
			ne(1)
		}
		idle(2)
	default:
		for j, k := 0, 1+int(limit); j < k; j++ {
			pair()
			ne(0)
		}
		idle(1 + r.Intn(2))
	}
	return init, limit, h
}

// size-boundary stream: limits around 256 and above, idle stretches of 255/256/257/600 empty blocks in a
// row before / between blocks with transactions, DA layer healthy, rounds of both submission iterations.
// A per-round cap on the pending range, a fixed-size buffer, an 8-bit counter … would show here and
// nowhere in the short histories above.
func genBoundary(r *rand.Rand, idx int) (uint64, uint64, []Item) {
	if idx == 0 {
		// always present: an idle stretch of 257 blocks below a limit of 300, then transactions, DA layer healthy:
		// everything must reach the DA layer in one round of iterations and production must go on
		h := []Item{{T: "produce_empty", N: 257}, {T: "produce", NE: true}, {T: "produce", NE: true}}
		for j := 0; j < 4; j++ {
			h = append(h, Item{T: "data", SC: acceptAll()}, Item{T: "headers", SC: acceptAll()}, Item{T: "produce", NE: j%2 == 0})
		}
		return 1, 300, h
	}
	init := []uint64{1, 1, 5}[r.Intn(3)]
	limit := []uint64{255, 256, 257, 300, 1000}[r.Intn(5)]
	runs := []int{255, 256, 257, 600}
	var h []Item
	pair := func() {
		if r.Intn(2) == 0 {
			h = append(h, Item{T: "headers", SC: acceptAll()}, Item{T: "data", SC: acceptAll()})
		} else {
			h = append(h, Item{T: "data", SC: acceptAll()}, Item{T: "headers", SC: acceptAll()})
		}
	}
	if r.Intn(2) == 0 { // some blocks with transactions first, on the DA layer or not
		h = append(h, Item{T: "produce"}, Item{T: "produce", NE: true})
		if r.Intn(2) == 0 {
			pair()
		}
	}
	for seg, nseg := 0, 1+r.Intn(2); seg < nseg; seg++ {
		h = append(h, Item{T: "produce_empty", N: runs[r.Intn(len(runs))]})
		if r.Intn(3) == 0 { // only the headers of the idle stretch reach the DA layer before transactions arrive
			h = append(h, Item{T: "headers", SC: acceptAll()})
		}
		for j, k := 0, 1+r.Intn(3); j < k; j++ {
			h = append(h, Item{T: "produce", NE: true})
		}
		if r.Intn(4) == 0 {
			h = append(h, Item{T: "restart"})
		}
		if r.Intn(2) == 0 {
			pair()
		}
	}
	for j, k := 0, 3+r.Intn(3); j < k; j++ {
		pair()
		h = append(h, Item{T: "produce", NE: r.Intn(2) == 0})
	}
	return init, limit, h
}

// sizes (transaction bytes of one block) from 1 KB to 1.9 MB: log-uniform over the whole range / next to a round
// number (powers of two from 64 KiB to 1.5 MiB, 10^5 .. 1.9*10^6), a little below, at, a little above / uniform over
// the top of the range (1.0 .. 1.9 MB), where a size budget anywhere between a block and the DA layer would be
var sizeMarks = []int{1 << 16, 1 << 17, 1 << 18, 1 << 19, 1 << 20, 3 << 19, 100000, 250000, 500000, 750000, 1000000, 1250000, 1500000, 1750000, maxTxBytes}

func genSize(r *rand.Rand) int {
	var n int
	switch x := r.Intn(10); {
	case x < 4:
		n = int(1000 * math.Exp(r.Float64()*math.Log(float64(maxTxBytes)/1000)))
	case x < 7:
		n = sizeMarks[r.Intn(len(sizeMarks))] + []int{-4096, -1024, -300, -1, 0, 1, 300, 1024, 4096}[r.Intn(9)]
	default:
		n = 1000000 + r.Intn(maxTxBytes-1000000+1)
	}
	if n < 1 {
		n = 1
	}
	if n > maxTxBytes {
		n = maxTxBytes
	}
	return n
}

// blob-size stream: the REAL submission loops (one tick per iteration), lazy or normal mode, limits 1..10, blocks
// whose transactions weigh 1 KB .. 1.9 MB (the DA double takes blobs up to daMaxBlob), DA layer mostly accepting:
// 1..3 segments of (a few sized blocks, empty ones in between; then a round of both loops — sometimes after the DA
// layer took the blobs one at a time or failed a few times), then a sized block followed by L-1 more blocks with
// transactions (the pending data reaches the limit behind it) and rounds (both loops against the accepting DA
// layer, one attempt).  Whatever a block weighs, a tick offers it, the DA layer takes it, production goes on.
func genSizes(r *rand.Rand) (uint64, uint64, []Item) {
	init := []uint64{1, 1, 1, 2, 5}[r.Intn(5)]
	limit := genLimit(r)
	var h []Item
	pair := func() {
		if r.Intn(2) == 0 {
			h = append(h, Item{T: "headers", SC: acceptAll()}, Item{T: "data", SC: acceptAll()})
		} else {
			h = append(h, Item{T: "data", SC: acceptAll()}, Item{T: "headers", SC: acceptAll()})
		}
	}
	sized := func() { h = append(h, Item{T: "produce", NE: true, Sz: genSize(r)}) }
	h = append(h, Item{T: "produce"}) // the stored genesis block
	if r.Intn(2) == 0 {
		pair()
	}
	budget := 4 // sized blocks per case (each costs a few ms per store / DA round trip)
	for seg, nseg := 0, 1+r.Intn(2); seg < nseg && budget > 1; seg++ {
		for j, k := 0, 1+r.Intn(2); j < k && budget > 1; j++ {
			sized()
			budget--
			if r.Intn(3) == 0 {
				h = append(h, Item{T: "produce"})
			}
		}
		switch x := r.Intn(10); {
		case x < 5:
		case x < 7: // the DA layer takes the data blobs one at a time
			h = append(h, Item{T: "data", SC: []Outcome{{O: "accept", K: 1}, {O: "accept", K: 1}}})
		case x < 9: // a short outage
			h = append(h, Item{T: "data", SC: outage(r, 1+r.Intn(3))})
		default: // the data loop gives up once
			h = append(h, Item{T: "data", SC: outage(r, 30)[:30]})
		}
		pair()
		h = append(h, Item{T: "produce", NE: r.Intn(2) == 0})
	}
	// a sized block, then L-1 blocks with transactions behind it, then rounds
	sized()
	for j := uint64(1); j < limit; j++ {
		h = append(h, Item{T: "produce", NE: true})
	}
	h = append(h, Item{T: "produce", NE: true}) // refused iff L blocks wait
	for j, k := 0, 2+r.Intn(3); j < k; j++ {
		pair()
		h = append(h, Item{T: "produce", NE: r.Intn(3) > 0})
	}
	return init, limit, h
}

// one tick's worth of answers of a DA layer that is down: n answers of the failure kind f, after which the tick ends
// because the iteration gave up (n >= maxSubmitAttempts) or because the DA layer answered "context canceled" (the
// script ends there: coreda.ErrContextCanceled / context.Canceled from the DA client — what a DA node that is
// restarting or drops the request reports — while the node's own context is alive)
func downTick(r *rand.Rand, f string) []Outcome {
	var n int
	switch x := r.Intn(10); {
	case x < 3:
		n = 0 // "context canceled" at once
	case x < 7:
		n = 1 + r.Intn(4) // some failures, then "context canceled"
	default:
		n = 30 + r.Intn(5) // the iteration gives up
	}
	sc := make([]Outcome, n)
	for i := range sc {
		sc[i] = Outcome{O: "fail", F: f}
	}
	return sc
}

// DA-outage stream: the two LONG-LIVED loops of the process (Life), limits 1..5.  The chain is brought to the limit
// or close to it (the loops keeping up or not), then the DA layer has an outage of FINITE length that spans
// 1..4 ticks of each loop: every request of those ticks is answered with one failure kind per outage (timeout,
// mempool, too big, sequence, generic) and every tick ends with the iteration giving up or with the DA layer
// answering "context canceled"; production is attempted meanwhile (refused at the limit, rightly); optionally a
// restart in the middle.  Then the outage is over: rounds of (each loop's tick against the accepting DA layer, in
// either order, one attempt) — the backlog must reach the DA layer and production must go on, block after block.
// An outage is something the loops live through: what a tick met must not decide whether there is a next tick.
func genOutage(r *rand.Rand) (uint64, uint64, []Item) {
	init := []uint64{1, 1, 1, 2, 5}[r.Intn(5)]
	limit := []uint64{1, 2, 3, 4, 5, 2, 3}[r.Intn(7)]
	pNE := []int{100, 70, 40, 0}[r.Intn(4)]
	var h []Item
	pair := func() {
		if r.Intn(2) == 0 {
			h = append(h, Item{T: "headers", SC: acceptAll()}, Item{T: "data", SC: acceptAll()})
		} else {
			h = append(h, Item{T: "data", SC: acceptAll()}, Item{T: "headers", SC: acceptAll()})
		}
	}
	produce := func() { h = append(h, Item{T: "produce", NE: r.Intn(100) < pNE}) }
	h = append(h, Item{T: "produce"}) // the stored genesis block
	// before the outage: some blocks, the loops keeping up with some of them
	for j, k := 0, r.Intn(3); j < k; j++ {
		produce()
		if r.Intn(2) == 0 {
			pair()
		}
	}
	for seg, nseg := 0, 1+r.Intn(2); seg < nseg; seg++ {
		// the outage begins; the chain runs into the limit
		f := fkinds[r.Intn(len(fkinds))]
		ticks := 1 + r.Intn(4)
		for t := 0; t < ticks; t++ {
			for j, k := 0, r.Intn(int(limit)+2); j < k; j++ {
				produce()
			}
			switch r.Intn(4) {
			case 0:
				h = append(h, Item{T: "headers", SC: downTick(r, f)})
			case 1:
				h = append(h, Item{T: "data", SC: downTick(r, f)})
			default:
				h = append(h, Item{T: "headers", SC: downTick(r, f)}, Item{T: "data", SC: downTick(r, f)})
			}
			if r.Intn(8) == 0 {
				h = append(h, Item{T: "restart"})
			}
		}
		for j, k := 0, int(limit)+1; j < k; j++ { // whatever room is left is used up: production stands at the limit
			produce()
		}
		// the outage is over
		for j, k := 0, 2+r.Intn(int(limit)+1); j < k; j++ {
			pair()
			produce()
		}
	}
	return init, limit, h
}

// lazy-loop stream: blocks are produced by the REAL AggregationLoop in lazy mode on its own two timers (block time
// 1000 ms, lazy interval 1500 / 2500 / 3500 ms: no timer instant is a multiple of both), the history only lets
// virtual time pass and places submission iterations (through the hooks; against a DA layer that accepts, takes one
// blob, or answers "context canceled" — nothing that sleeps) and transaction announcements (the sequencer gets
// transactions and Manager.NotifyNewTransactions is called, as the reaper does) at instants strictly between timer
// instants.  Shape: some healthy rounds; then a DA OUTAGE (no iteration gets anything accepted) long enough that the
// idle chain runs into the limit and the loop's attempts are refused, mostly WITHOUT any announcement (the idle
// chain the property names); then the DA layer is back (one header + one data iteration accepted) and the chain is
// left alone for more than a lazy interval + a block time: the loop must call publishBlock again by itself and
// produce.  1..2 such outages per case; sometimes an announcement after the judged wait.
func genLazy(r *rand.Rand) (uint64, uint64, int, []Item) {
	init := []uint64{1, 1, 2, 5}[r.Intn(4)]
	limit := []uint64{1, 2, 3, 1, 2, 4}[r.Intn(6)]
	li := []int{1500, 2500, 3500}[r.Intn(3)]
	busy := r.Intn(3) == 0 // announcements also during the outage
	var h []Item
	wait := func(ms int) { h = append(h, Item{T: "wait", Ms: ms}) }
	pair := func() {
		if r.Intn(2) == 0 {
			h = append(h, Item{T: "headers", SC: acceptAll()}, Item{T: "data", SC: acceptAll()})
		} else {
			h = append(h, Item{T: "data", SC: acceptAll()}, Item{T: "headers", SC: acceptAll()})
		}
	}
	for j, k := 0, r.Intn(4); j < k; j++ { // healthy
		wait(500 * (1 + r.Intn(2*li/500)))
		if r.Intn(3) == 0 {
			h = append(h, Item{T: "notify"})
			wait(500 * (1 + r.Intn(4)))
		}
		if r.Intn(3) > 0 {
			pair()
		}
	}
	for seg, nseg := 0, 1+r.Intn(2); seg < nseg; seg++ {
		// the outage: (L+1 .. L+3) lazy intervals in 1..3 stretches
		total := (int(limit) + 1 + r.Intn(3)) * li
		parts := 1 + r.Intn(3)
		for q := 0; q < parts; q++ {
			ms := total / parts / 500 * 500
			if ms < 500 {
				ms = 500
			}
			wait(ms)
			switch r.Intn(4) {
			case 0:
				h = append(h, Item{T: "headers"}) // "context canceled" at once
			case 1:
				h = append(h, Item{T: "data"})
			case 2:
				if r.Intn(2) == 0 {
					h = append(h, Item{T: "headers", SC: []Outcome{{O: "accept", K: 1}}}) // one blob, then "context canceled"
				}
			}
			if busy && r.Intn(2) == 0 {
				h = append(h, Item{T: "notify"})
			}
		}
		wait(li / 500 * 500) // one more lazy interval: an attempt at the limit
		// the DA layer is back
		pair()
		wait(li + 1000 + 500*(1+r.Intn(4)))
		if r.Intn(3) == 0 {
			h = append(h, Item{T: "notify"})
			wait(500 * (2 + r.Intn(4)))
			pair()
			wait(li + 1500)
		}
	}
	return init, limit, li, h
}

// ---- doubles -----------------------------------------------------------------------------------

type seqDouble struct {
	mu   sync.Mutex
	next [][]byte
}

func (s *seqDouble) SubmitBatchTxs(ctx context.Context, req coreseq.SubmitBatchTxsRequest) (*coreseq.SubmitBatchTxsResponse, error) {
	return &coreseq.SubmitBatchTxsResponse{}, nil
}
func (s *seqDouble) GetNextBatch(ctx context.Context, req coreseq.GetNextBatchRequest) (*coreseq.GetNextBatchResponse, error) {
	s.mu.Lock()
	defer s.mu.Unlock()
	txs := s.next
	s.next = nil
	return &coreseq.GetNextBatchResponse{Batch: &coreseq.Batch{Transactions: txs}, Timestamp: time.Now()}, nil
}
func (s *seqDouble) VerifyBatch(ctx context.Context, req coreseq.VerifyBatchRequest) (*coreseq.VerifyBatchResponse, error) {
	return &coreseq.VerifyBatchResponse{Status: true}, nil
}

type nopBroadcaster[T any] struct{}

func (nopBroadcaster[T]) WriteToStoreAndBroadcast(ctx context.Context, payload T) error { return nil }

type daCall struct {
	kind     string // "h" "d" "?"
	heights  []uint64
	accepted int
	maxBlob  int // size of the largest blob of the request
}

type daDouble struct {
	mu       sync.Mutex
	script   []Outcome
	calls    []daCall
	accepted map[string][][]byte // kind -> accepted blobs in order
	daHeight uint64
	touched  int // requests received, including those answered "context cancelled" (script used up), which are not recorded
	ncancel  int // requests answered "context canceled"
}

func fErr(f string) error {
	switch f {
	case "notincluded":
		return coreda.ErrTxTimedOut
	case "inmempool":
		return coreda.ErrTxAlreadyInMempool
	case "toobig":
		return coreda.ErrBlobSizeOverLimit
	case "seq":
		return coreda.ErrTxIncorrectAccountSequence
	}
	return errors.New("generic DA failure")
}

// blob kind and height as the blob itself says (the oracle compares with the store)
func classify(b []byte) (string, uint64) {
	var sh types.SignedHeader
	if err := sh.UnmarshalBinary(b); err == nil && sh.ValidateBasic() == nil {
		return "h", sh.Height()
	}
	var sd types.SignedData
	if err := sd.UnmarshalBinary(b); err == nil && sd.Metadata != nil {
		return "d", sd.Height()
	}
	return "?", 0
}

func (d *daDouble) SubmitWithOptions(ctx context.Context, blobs []coreda.Blob, gasPrice float64, ns []byte, opts []byte) ([]coreda.ID, error) {
	d.mu.Lock()
	defer d.mu.Unlock()
	d.touched++
	if len(d.script) == 0 { // script used up: the DA layer answers "context canceled" (the node's own context is alive)
		d.ncancel++
		return nil, context.Canceled
	}
	o := d.script[0]
	d.script = d.script[1:]
	kind := "?"
	var hs []uint64
	maxBlob := 0
	for i, b := range blobs {
		k, h := classify(b)
		if i == 0 {
			kind = k
		} else if k != kind {
			kind = "?"
		}
		hs = append(hs, h)
		if len(b) > maxBlob {
			maxBlob = len(b)
		}
	}
	c := daCall{kind: kind, heights: hs, maxBlob: maxBlob}
	if maxBlob > daMaxBlob { // more than the DA layer takes in one blob (the generators stay below)
		d.calls = append(d.calls, c)
		return nil, fmt.Errorf("da double: %w", coreda.ErrBlobSizeOverLimit)
	}
	if o.O != "accept" {
		d.calls = append(d.calls, c)
		return nil, fmt.Errorf("da double: %w", fErr(o.F))
	}
	take := len(blobs)
	if o.K < all && o.K < uint64(take) { // K >= all = every blob, however many
		take = int(o.K)
	}
	c.accepted = take
	d.daHeight++
	var ids []coreda.ID
	for i := 0; i < take; i++ {
		d.accepted[kind] = append(d.accepted[kind], append([]byte{}, blobs[i]...))
		id := make([]byte, 8+4)
		binary.LittleEndian.PutUint64(id, d.daHeight)
		binary.LittleEndian.PutUint32(id[8:], uint32(len(d.accepted[kind])))
		ids = append(ids, id)
	}
	d.calls = append(d.calls, c)
	return ids, nil
}

func (d *daDouble) Submit(ctx context.Context, blobs []coreda.Blob, gasPrice float64, ns []byte) ([]coreda.ID, error) {
	return d.SubmitWithOptions(ctx, blobs, gasPrice, ns, nil)
}
func (d *daDouble) Get(ctx context.Context, ids []coreda.ID, ns []byte) ([]coreda.Blob, error) {
	return nil, coreda.ErrBlobNotFound
}
func (d *daDouble) GetIDs(ctx context.Context, height uint64, ns []byte) (*coreda.GetIDsResult, error) {
	return nil, coreda.ErrBlobNotFound
}
func (d *daDouble) GetProofs(ctx context.Context, ids []coreda.ID, ns []byte) ([]coreda.Proof, error) {
	return nil, nil
}
func (d *daDouble) Commit(ctx context.Context, blobs []coreda.Blob, ns []byte) ([]coreda.Commitment, error) {
	return nil, nil
}
func (d *daDouble) Validate(ctx context.Context, ids []coreda.ID, proofs []coreda.Proof, ns []byte) ([]bool, error) {
	return nil, nil
}
func (d *daDouble) GasPrice(ctx context.Context) (float64, error)      { return 1, nil }
func (d *daDouble) GasMultiplier(ctx context.Context) (float64, error) { return 1.5, nil }

// ---- the node under test -------------------------------------------------------------------------

type world struct {
	kv      ds.Batching
	st      store.Store
	sig     signer.Signer
	pub     crypto.PubKey
	gen     genesispkg.Genesis
	cfg     config.Config
	da      *daDouble
	seq     *seqDouble
	m       *block.Manager
	ctx     context.Context
	rootDir string
	att     *attemptCtx          // set while an interleaved production attempt runs
	tick    *tickCtx             // set while a real submission loop runs its tick
	loops   map[string]*loopProc // Life: the two loop goroutines of the running process ("headers", "data")
	opt     caseOpt
	res     *caseResult
	accOK   map[string]uint64 // oracle cache: accepted blob (kind, index) -> height, once compared with the block store
	neOK    map[uint64]bool   // oracle cache: committed height -> has transactions (committed blocks are immutable)
}

// what the harness sees of one tick of a real submission loop
type tickCtx struct {
	ticks   int  // iterations the loop has begun (isEmpty called by the loop itself)
	fetched bool // the iteration read the pending range (getPending)
	loopErr bool // the loop itself logged an error: its iteration ended with one
}

// recLogger is the node's logger; it notes when HeaderSubmissionLoop / DataSubmissionLoop THEMSELVES log an error
// (they do exactly when getPending… / createSignedDataToSubmit / submit…ToDA returned one) — who logs, not what.
type recLogger struct {
	logging.EventLogger
	w *world
}

func (l *recLogger) Error(args ...interface{}) {
	if t := l.w.tick; t != nil {
		pcs := make([]uintptr, 1)
		if runtime.Callers(2, pcs) == 1 {
			f, _ := runtime.CallersFrames(pcs).Next()
			if strings.HasSuffix(f.Function, ".HeaderSubmissionLoop") || strings.HasSuffix(f.Function, ".DataSubmissionLoop") {
				t.loopErr = true
			}
		}
	}
	l.EventLogger.Error(args...)
}

type rndReader struct{ r *rand.Rand }

func (x rndReader) Read(p []byte) (int, error) { return x.r.Read(p) }

func newWorld(r *rand.Rand, init, limit uint64, opt caseOpt, rootDir string) (*world, error) {
	w := &world{ctx: context.Background(), rootDir: rootDir, opt: opt, accOK: map[string]uint64{}, neOK: map[uint64]bool{}}
	priv, pub, err := crypto.GenerateEd25519Key(rndReader{r})
	if err != nil {
		return nil, err
	}
	w.pub = pub
	if w.sig, err = noopsigner.NewNoopSigner(priv); err != nil {
		return nil, err
	}
	addr, err := w.sig.GetAddress()
	if err != nil {
		return nil, err
	}
	w.gen = genesispkg.NewGenesis("c08", init, time.Now(), addr)
	w.cfg = config.DefaultConfig
	w.cfg.RootDir = rootDir
	w.cfg.Node.Aggregator = true
	w.cfg.Node.MaxPendingHeadersAndData = limit
	w.cfg.Node.LazyMode = opt.lazy
	w.cfg.Node.BlockTime.Duration = time.Second
	w.cfg.DA.BlockTime.Duration = time.Second
	if opt.li > 0 {
		w.cfg.Node.LazyBlockInterval.Duration = opt.li
	}
	w.cfg.DA.MempoolTTL = 2
	w.kv = crashds.New()
	w.da = &daDouble{accepted: map[string][][]byte{}}
	return w, w.start()
}

// start = what a process start does for the block manager: NewManager on the datastore
func (w *world) start() error {
	w.stopLoops() // the old process ends: its context is cancelled, its loops return
	w.st = store.New(w.kv)
	w.seq = &seqDouble{}
	lg := &recLogger{EventLogger: logging.Logger("c08"), w: w}
	logging.SetAllLoggers(logging.LevelFatal)
	m, err := block.NewManager(w.ctx, w.sig, w.cfg, w.gen, &hookStore{Store: w.st, w: w}, coreexec.NewDummyExecutor(), w.seq, w.da,
		lg, nil, nil, nopBroadcaster[*types.SignedHeader]{}, nopBroadcaster[*types.Data]{},
		block.NopMetrics(), 1.0, 1.5, block.DefaultManagerOptions())
	if err != nil {
		return err
	}
	w.m = m
	if w.opt.life {
		w.startLoops()
	}
	return nil
}

// ---- the scheduling hook: submission iterations inside a production attempt ------------------------------

// hookStore is the real store; while an interleaved attempt runs, every store call of publishBlockInternal
// is a point at which scheduled submission iterations may run before the call proceeds.
type hookStore struct {
	store.Store
	w *world
}

func (s *hookStore) Height(ctx context.Context) (uint64, error) {
	s.w.storeCall("Height", 0, "", nil)
	return s.Store.Height(ctx)
}
func (s *hookStore) GetBlockData(ctx context.Context, h uint64) (*types.SignedHeader, *types.Data, error) {
	s.w.storeCall("GetBlockData", h, "", nil)
	return s.Store.GetBlockData(ctx, h)
}
func (s *hookStore) GetSignature(ctx context.Context, h uint64) (*types.Signature, error) {
	s.w.storeCall("GetSignature", h, "", nil)
	return s.Store.GetSignature(ctx, h)
}
func (s *hookStore) SetMetadata(ctx context.Context, key string, value []byte) error {
	s.w.storeCall("SetMetadata", 0, key, value)
	return s.Store.SetMetadata(ctx, key, value)
}
func (s *hookStore) SaveBlockData(ctx context.Context, h *types.SignedHeader, d *types.Data, sig *types.Signature) error {
	s.w.storeCall("SaveBlockData", 0, "", nil)
	return s.Store.SaveBlockData(ctx, h, d, sig)
}
func (s *hookStore) UpdateState(ctx context.Context, st types.State) error {
	s.w.storeCall("UpdateState", 0, "", nil)
	return s.Store.UpdateState(ctx, st)
}
func (s *hookStore) SetHeight(ctx context.Context, h uint64) error {
	s.w.storeCall("SetHeight", h, "", nil)
	if a := s.w.att; a != nil && !a.busy {
		a.heightSet = true
	}
	return s.Store.SetHeight(ctx, h)
}

// where in the attempt an iteration ran = which queue of ThrottleConc.sched it belongs to
type firedSub struct {
	queue string // pre hd fetch loop build
	idx   int    // loop: before the idx-th fetched item is examined
	sub   SubIt
	res   int
	calls [][]uint64
}

type attemptCtx struct {
	due        []Inject // not yet reached, ascending K
	pend       []SubIt  // reached, waiting for a call that allows them
	calls      int
	seenNPH    bool // numPendingHeaders has made its first read
	seenNPD    bool // numPendingData has made its first read
	decided    bool // publishBlockInternal itself has called the store: the limit check let the attempt pass
	heightSet  bool
	haveFetch  bool
	firstFetch uint64
	busy       bool // iterations are running: their own store calls are not points
	fired      []firedSub
	points     []string
}

// functions of /repo on the stack above the store wrapper, innermost first, up to the attempt's entry point
func callerFuncs() []string {
	pcs := make([]uintptr, 48)
	n := runtime.Callers(2, pcs)
	frames := runtime.CallersFrames(pcs[:n])
	var out []string
	for {
		f, more := frames.Next()
		switch {
		case strings.Contains(f.Function, "harness/c08."):
		case strings.HasSuffix(f.Function, ".VerifPublishBlock"):
			return out
		default:
			out = append(out, f.Function)
		}
		if !more {
			return out
		}
	}
}

func hasFn(fs []string, name string) bool {
	for _, f := range fs {
		if strings.HasSuffix(f, "."+name) {
			return true
		}
	}
	return false
}

// storeCall classifies the point the attempt has reached from WHO is reading (the call stack), and runs the
// iterations scheduled for it:
//
//	pre    first read of numPendingHeaders (before it loads the header watermark)
//	hd     first read of numPendingData (the header watermark has been loaded, the data watermark not yet)
//	fetch  getPending inside numWaitingData: its watermark load is done; Height() and the GetBlockData fetches
//	loop   SetMetadata inside numWaitingData's watermark step over the empty item h (the data watermark's mutex is
//	       held: only header iterations can run); model: before the next item is examined
//	build  any store call made after publishBlockInternal itself has called the store (the limit check is over
//	       and let the attempt pass), up to and including SetHeight
//
// Reads made for the refusal's log message and anything after SetHeight are no points.
func (w *world) storeCall(method string, h uint64, key string, value []byte) {
	if w.opt.life {
		// long-lived loops: a store call made by one of the two loop goroutines (whenever its ticker lets it) is
		// recognised by the loop function on its stack; everything else is the aggregation goroutine
		if fs := callerFuncs(); hasFn(fs, "HeaderSubmissionLoop") {
			w.lifeCall(w.loops["headers"], method, fs)
			return
		} else if hasFn(fs, "DataSubmissionLoop") {
			w.lifeCall(w.loops["data"], method, fs)
			return
		}
	} else if t := w.tick; t != nil {
		w.tickCall(t, method)
		return
	}
	a := w.att
	if a == nil || a.busy {
		return
	}
	k := a.calls
	a.calls++
	for len(a.due) > 0 && a.due[0].K <= k {
		a.pend = append(a.pend, a.due[0].Subs...)
		a.due = a.due[1:]
	}
	fs := callerFuncs()
	queue, idx, headersOnly := "", 0, false
	direct := len(fs) > 0 && strings.HasSuffix(fs[0], ".publishBlockInternal")
	switch {
	case a.heightSet:
	case a.decided || direct:
		a.decided = true
		queue = "build"
	case hasFn(fs, "numWaitingData"):
		if hasFn(fs, "setLastSubmittedHeight") {
			if method == "SetMetadata" && key == block.LastSubmittedDataHeightKey && len(value) == 8 && a.haveFetch {
				if hh := binary.LittleEndian.Uint64(value); hh >= a.firstFetch {
					queue, idx, headersOnly = "loop", int(hh-a.firstFetch)+1, true
				}
			}
		} else if method == "Height" || method == "GetBlockData" {
			if method == "GetBlockData" && !a.haveFetch {
				a.haveFetch, a.firstFetch = true, h
			}
			queue = "fetch"
		}
	case hasFn(fs, "numPendingData"):
		if !a.seenNPD {
			a.seenNPD = true
			queue = "hd"
		}
	case hasFn(fs, "numPendingHeaders"):
		if !a.seenNPH {
			a.seenNPH = true
			queue = "pre"
		}
	}
	a.points = append(a.points, method+":"+queue)
	if queue == "" || len(a.pend) == 0 {
		return
	}
	a.busy = true
	var keep []SubIt
	for _, sb := range a.pend {
		if headersOnly && sb.T != "headers" {
			keep = append(keep, sb)
			continue
		}
		r, calls := w.sub(sb.T, sb.SC)
		a.fired = append(a.fired, firedSub{queue: queue, idx: idx, sub: sb, res: r, calls: calls})
	}
	a.pend = keep
	a.busy = false
}

// a store call made while a real submission loop runs its tick.  The loop begins every iteration with isEmpty()
// (a Height() read made by the loop function itself): the first one is the tick under test; when the loop comes
// round to the second one, the iteration under test is over — completely, with all its attempts and backoff
// sleeps — and the loop goroutine is ended right there (its deferred ticker.Stop runs), before it looks at anything.
func (w *world) tickCall(t *tickCtx, method string) {
	fs := callerFuncs()
	switch {
	case method == "Height" && hasFn(fs, "isEmpty") && (hasFn(fs, "HeaderSubmissionLoop") || hasFn(fs, "DataSubmissionLoop")):
		t.ticks++
		if t.ticks >= 2 {
			runtime.Goexit()
		}
	case hasFn(fs, "getPending"):
		t.fetched = true
	}
}

// one iteration of a submission loop: one tick of the REAL loop (HeaderSubmissionLoop / DataSubmissionLoop started
// as the node starts them, run until their first tick has been served), or — cases with Loop = false — the loop
// body through the hooks
func (w *world) sub(T string, sc []Outcome) (int, [][]uint64) {
	if w.opt.life {
		return w.runTickLife(T, sc)
	}
	if w.opt.loop {
		return w.runTick(T, sc)
	}
	return w.runSub(T, sc)
}

// tickCap: virtual time after which a loop that has not come round to its second tick is stopped (one iteration
// of 30 attempts with the longest backoff takes minutes)
const tickCap = 24 * time.Hour

func (w *world) runTick(T string, sc []Outcome) (r int, calls [][]uint64) {
	w.da.script = append([]Outcome{}, sc...)
	n0, t0 := len(w.da.calls), w.da.touched
	tk := &tickCtx{}
	ctx, cancel := context.WithCancel(w.ctx)
	done := make(chan struct{})
	w.tick = tk
	go func() {
		defer close(done)
		if T == "headers" {
			w.m.HeaderSubmissionLoop(ctx)
		} else {
			w.m.DataSubmissionLoop(ctx)
		}
	}()
	guard := time.NewTimer(tickCap)
	defer guard.Stop()
	select {
	case <-done:
	case <-guard.C:
		w.res.fail("submission-loop-never-came-round", fmt.Sprintf("%s submission loop: a day after its first tick the loop has not come back to the top of its for loop", T))
		cancel()
		<-done
	}
	cancel()
	w.tick = nil
	w.da.script = nil
	touched := w.da.touched > t0
	switch {
	case tk.loopErr && touched:
		r = 4
	case tk.loopErr:
		r = 2
	case touched:
		r = 3
	case tk.fetched:
		r = 1
	default:
		r = 0
	}
	w.res.nTicks++
	return r, w.subCalls(T, n0, r)
}

// ---- long-lived loops (Life) ------------------------------------------------------------------------------
// The process's two loop goroutines, started once by start() exactly as node/full.go Run starts them
// (go m.HeaderSubmissionLoop(ctx); go m.DataSubmissionLoop(ctx)) and stopped when the process ends (restart, end of
// the case).  Between two ticks of the history a loop goroutine is PARKED at the first thing every iteration does —
// the isEmpty() read the loop function itself makes after its ticker fired (inside the store wrapper's Height()):
// it got there by itself, on its own ticker, in virtual time.  A tick of the history lets it go on from there; the
// tick is over when the loop comes round to that read again (all attempts, all backoff sleeps of the iteration
// done) — or when the loop function RETURNS instead.  A loop function that has returned serves no tick: nobody
// else does the loop's work, as in the node.
type loopProc struct {
	kind   string
	cancel context.CancelFunc
	stop   chan struct{} // closed when the process ends: a parked goroutine ends there (deferred ticker.Stop runs)
	done   chan struct{} // closed when the loop goroutine is gone (the function returned, or the process ended)
	gate   chan *tickCtx // harness -> loop: serve one tick
	came   chan struct{} // loop -> harness: came round to the top of the for loop
	cur    *tickCtx      // the tick being served (only the loop goroutine touches it between gate and came)
}

func (w *world) startLoops() {
	w.loops = map[string]*loopProc{}
	for _, T := range []string{"headers", "data"} {
		ctx, cancel := context.WithCancel(w.ctx)
		lp := &loopProc{kind: T, cancel: cancel, stop: make(chan struct{}), done: make(chan struct{}), gate: make(chan *tickCtx), came: make(chan struct{})}
		w.loops[T] = lp
		m, T := w.m, T
		go func() {
			defer close(lp.done)
			if T == "headers" {
				m.HeaderSubmissionLoop(ctx)
			} else {
				m.DataSubmissionLoop(ctx)
			}
		}()
	}
}

// the process ends (restart / end of the case): the node's context is cancelled
func (w *world) stopLoops() {
	for _, T := range []string{"headers", "data"} {
		lp := w.loops[T]
		if lp == nil {
			continue
		}
		close(lp.stop)
		lp.cancel()
		<-lp.done
	}
	w.loops = nil
}

// is the loop function of the running process still running (has not returned)?  true when not observed
func (w *world) loopThere(T string) bool {
	lp := w.loops[T]
	if lp == nil {
		return true
	}
	select {
	case <-lp.done:
		return false
	default:
		return true
	}
}

// a store call made by a long-lived loop goroutine
func (w *world) lifeCall(lp *loopProc, method string, fs []string) {
	switch {
	case method == "Height" && hasFn(fs, "isEmpty"):
		if lp.cur != nil { // the tick under way is over
			lp.cur = nil
			select {
			case lp.came <- struct{}{}:
			case <-lp.stop:
				runtime.Goexit()
			}
		}
		select {
		case t := <-lp.gate:
			lp.cur = t
		case <-lp.stop:
			runtime.Goexit()
		}
	case hasFn(fs, "getPending"):
		if lp.cur != nil {
			lp.cur.fetched = true
		}
	}
}

// one tick of the history served by the long-lived loop goroutine of the process
func (w *world) runTickLife(T string, sc []Outcome) (r int, calls [][]uint64) {
	lp := w.loops[T]
	w.da.script = append([]Outcome{}, sc...)
	n0, t0 := len(w.da.calls), w.da.touched
	tk := &tickCtx{}
	w.tick = tk
	guard := time.NewTimer(tickCap)
	defer guard.Stop()
	served := false
	select {
	case lp.gate <- tk:
		served = true
		select {
		case <-lp.came:
		case <-lp.done: // the loop function returned in the middle of the history
		case <-guard.C:
			w.res.fail("submission-loop-never-came-round", fmt.Sprintf("%s submission loop: a day after its tick began the loop has not come back to the top of its for loop", T))
		}
	case <-lp.done: // the loop function has returned earlier: nobody serves this tick
	case <-guard.C:
		w.res.fail("submission-loop-never-came-round", fmt.Sprintf("%s submission loop: a day of ticker time and the loop has not begun an iteration", T))
	}
	w.tick = nil
	w.da.script = nil
	touched := w.da.touched > t0
	switch {
	case !served:
		r = 5
		w.res.nUnserved++
	case tk.loopErr && touched:
		r = 4
	case tk.loopErr:
		r = 2
	case touched:
		r = 3
	case tk.fetched:
		r = 1
	default:
		r = 0
	}
	w.res.nTicks++
	w.res.nLifeTicks++
	return r, w.subCalls(T, n0, r)
}

// for the oracle's messages: which loop functions of the running process have returned
func (w *world) goneNote() string {
	var g []string
	for _, T := range []string{"headers", "data"} {
		if !w.loopThere(T) {
			g = append(g, T)
		}
	}
	if len(g) == 0 {
		return ""
	}
	if len(g) == 2 {
		return " [the headers and the data submission loop functions of the running node have RETURNED: their ticks are served by nobody]"
	}
	return fmt.Sprintf(" [the %s submission loop function of the running node has RETURNED: its ticks are served by nobody]", g[0])
}

// the DA requests an iteration made (blob heights of each), with the oracle's checks on them
func (w *world) subCalls(T string, n0, r int) (calls [][]uint64) {
	want := map[string]string{"headers": "h", "data": "d"}[T]
	for _, c := range w.da.calls[n0:] {
		calls = append(calls, c.heights)
		switch {
		case len(c.heights) == 0:
			w.res.fail("empty-da-request", fmt.Sprintf("a %s submission sent a request with no blob in it to the DA layer (watermarks %d/%d, height %d)", T, w.m.VerifLastSubmittedHeaderHeight(), w.m.VerifLastSubmittedDataHeight(), w.height()))
		case c.kind != want:
			w.res.fail("blob-of-wrong-kind", fmt.Sprintf("a %s submission carried blobs of kind %q", T, c.kind))
		}
		w.res.sizeClass(c.maxBlob)
	}
	if r == 4 {
		w.res.nExhausted++
	}
	if r == 2 {
		w.res.fail("pending-range-unreadable", fmt.Sprintf("%s iteration: reading the pending range failed (watermarks %d/%d, height %d)", T, w.m.VerifLastSubmittedHeaderHeight(), w.m.VerifLastSubmittedDataHeight(), w.height()))
	}
	return
}

// one iteration of a submission loop through the hooks (the body of HeaderSubmissionLoop / DataSubmissionLoop after the tick)
func (w *world) runSub(T string, sc []Outcome) (r int, calls [][]uint64) {
	w.da.script = append([]Outcome{}, sc...)
	n0 := len(w.da.calls)
	if T == "headers" {
		if w.m.VerifLastSubmittedHeaderHeight() == w.height() { // isEmpty
			r = 0
		} else if hs, err := w.m.VerifGetPendingHeaders(w.ctx); err != nil {
			r = 2
		} else if len(hs) == 0 {
			r = 1
		} else if err := w.m.VerifSubmitHeadersToDA(w.ctx, hs); err != nil {
			r = 4
		} else {
			r = 3
		}
	} else {
		if w.m.VerifLastSubmittedDataHeight() == w.height() { // isEmpty
			r = 0
		} else if sds, err := w.m.VerifCreateSignedDataToSubmit(w.ctx); err != nil {
			r = 2
		} else if len(sds) == 0 {
			r = 1
		} else if err := w.m.VerifSubmitDataToDA(w.ctx, sds); err != nil {
			r = 4
		} else {
			r = 3
		}
	}
	w.da.script = nil
	return r, w.subCalls(T, n0, r)
}

func (w *world) persisted(kind string) uint64 {
	key := store.LastSubmittedHeaderHeightKey
	if kind == "d" {
		key = block.LastSubmittedDataHeightKey
	}
	raw, err := w.st.GetMetadata(w.ctx, key)
	if err != nil || len(raw) != 8 {
		return 0
	}
	return binary.LittleEndian.Uint64(raw)
}

func (w *world) height() uint64 {
	h, _ := w.st.Height(w.ctx)
	return h
}

func (w *world) committed(h uint64) (*types.SignedHeader, *types.Data, bool) {
	if h < w.gen.InitialHeight || h > w.height() {
		return nil, nil, false
	}
	sh, d, err := w.st.GetBlockData(w.ctx, h)
	if err != nil {
		return nil, nil, false
	}
	return sh, d, true
}

func (w *world) nonEmpty(h uint64) bool {
	if ne, ok := w.neOK[h]; ok && h <= w.height() {
		return ne
	}
	_, d, ok := w.committed(h)
	if ok {
		w.neOK[h] = len(d.Txs) > 0
	}
	return ok && len(d.Txs) > 0
}

// heights whose COMMITTED header (resp. non-empty data) the DA layer holds — the DA double's own record,
// each blob compared with the block store
func (w *world) acceptedSet(kind string) map[uint64]bool {
	set := map[uint64]bool{}
	for i, b := range w.da.accepted[kind] {
		// a blob found equal to the committed block once stays so (blobs and committed blocks are immutable)
		key := fmt.Sprintf("%s%d", kind, i)
		if h, ok := w.accOK[key]; ok {
			set[h] = true
			continue
		}
		if kind == "h" {
			var sh types.SignedHeader
			if sh.UnmarshalBinary(b) != nil {
				continue
			}
			if st, _, ok := w.committed(sh.Height()); ok && bytes.Equal(sh.Hash(), st.Hash()) && bytes.Equal(sh.Signature, st.Signature) {
				set[sh.Height()] = true
				w.accOK[key] = sh.Height()
			}
			continue
		}
		var sd types.SignedData
		if sd.UnmarshalBinary(b) != nil || sd.Metadata == nil {
			continue
		}
		if _, d, ok := w.committed(sd.Height()); ok && bytes.Equal(sd.Data.Hash(), d.Hash()) && len(sd.Txs) == len(d.Txs) {
			set[sd.Height()] = true
			w.accOK[key] = sd.Height()
		}
	}
	return set
}

// committed blocks still waiting for the DA layer: header not accepted, or data non-empty and not accepted
func (w *world) waiting() (n uint64, first uint64) {
	hs, dset := w.acceptedSet("h"), w.acceptedSet("d")
	for h := w.gen.InitialHeight; h <= w.height(); h++ {
		if !hs[h] || (w.nonEmpty(h) && !dset[h]) {
			if n == 0 {
				first = h
			}
			n++
		}
	}
	return
}

// ---- running one history -------------------------------------------------------------------------

type itemOut struct {
	coqItem string
	res     int // produce: 0 produced 1 refused;  headers/data: 0 idle 1 nothing 2 geterr 3 nil 4 err;  restart: 0
	calls   [][]uint64
	height  uint64
	wh, wd  uint64 // in-memory watermarks after the item
	ph, pd  uint64 // recorded watermarks after the item (0 = none)
	lh, ld  bool   // Life: the header / data loop function of the running process has not returned, after the item
	inter   bool   // an interleaved attempt: subs = what each iteration inside it did, in order
	subs    []firedSub
	late    []SubIt // scheduled inside the attempt but never reached: run after it
}

type caseResult struct {
	outs        []itemOut
	chain       []bool // has transactions, from the initial height on
	viol, what  []string
	err         error
	hacc, dacc  []uint64
	height      uint64
	ncalls      int
	nRefused    int
	nExhausted  int
	nProduced   int
	nRepeat     int  // blocks whose transaction list equals that of an earlier block of the chain
	stale       bool // an interleaved attempt was refused on a count that an iteration inside it made out of date
	nStale      int
	nInterRef   int
	nInterProd  int
	points      map[string]int // where interleaved iterations ran
	nTicks      int            // submission iterations served by the real loops
	nLifeTicks  int            // … of them by the long-lived loop goroutines of the process
	nUnserved   int            // ticks nobody served (the loop function had returned)
	nCancelAns  int            // DA requests answered "context canceled"
	sizes       map[string]int // DA requests by the size of their largest blob
	latts       []lazyAtt      // lazy-loop stream: every call the aggregation loop made of publishBlock
	lazyH       uint64         // … observed up to this instant (ms after genesis time)
	nLazyJudged int            // … stretches on which the no-deadlock oracle was evaluated
}

func (r *caseResult) sizeClass(n int) {
	if r.sizes == nil {
		r.sizes = map[string]int{}
	}
	switch {
	case n == 0:
		r.sizes["empty-request"]++
	case n < 4096:
		r.sizes["below-4KB"]++
	case n < 65536:
		r.sizes["4KB-64KB"]++
	case n < 1000000:
		r.sizes["64KB-1MB"]++
	case n < 1500000:
		r.sizes["1MB-1.5MB"]++
	default:
		r.sizes["1.5MB-and-more"]++
	}
}

func (r *caseResult) fail(sig, what string) {
	for _, s := range r.viol {
		if s == sig {
			return
		}
	}
	r.viol = append(r.viol, sig)
	r.what = append(r.what, what)
}

func outcomeCoq(o Outcome) string {
	if o.O == "accept" && o.K >= all {
		return "OAcceptAll"
	}
	if o.O == "accept" {
		return "OAccept " + vgen.N(o.K)
	}
	return "OFail"
}
func scriptCoq(sc []Outcome) string {
	var s []string
	for _, o := range sc {
		s = append(s, outcomeCoq(o))
	}
	return vgen.List(s)
}

func acceptsAll(it Item) bool {
	return len(it.SC) >= 1 && it.SC[0].O == "accept" && it.SC[0].K >= all
}

// items j-1 and j are one header and one data iteration (either order), both against an accepting DA layer
func acceptingPair(hist []Item, j int) bool {
	return j >= 1 && j < len(hist) && acceptsAll(hist[j]) && acceptsAll(hist[j-1]) &&
		((hist[j].T == "headers" && hist[j-1].T == "data") || (hist[j].T == "data" && hist[j-1].T == "headers"))
}

func runCase(seed int64, c int, init, limit uint64, opt caseOpt, hist []Item, rootDir string) (res *caseResult) {
	res = &caseResult{}
	defer func() {
		if x := recover(); x != nil {
			res.fail("panic", fmt.Sprint(x))
		}
	}()
	r := rand.New(rand.NewSource(seed*7919 + int64(c)*104729 + 8))
	_ = os.RemoveAll(rootDir)
	res.points = map[string]int{}
	w, err := newWorld(r, init, limit, opt, rootDir)
	if err != nil {
		res.err = err
		return
	}
	w.res = res
	defer w.stopLoops() // the bubble ends with the process
	obs := func(io *itemOut) {
		io.height = w.height()
		io.wh, io.wd = w.m.VerifLastSubmittedHeaderHeight(), w.m.VerifLastSubmittedDataHeight()
		io.ph, io.pd = w.persisted("h"), w.persisted("d")
		io.lh, io.ld = w.loopThere("headers"), w.loopThere("data")
		res.outs = append(res.outs, *io)
	}
	// the limit is enforced: never more than L committed blocks whose header the DA layer does not hold
	enforced := func() {
		hs := w.acceptedSet("h")
		n := uint64(0)
		for h := w.gen.InitialHeight; h <= w.height(); h++ {
			if !hs[h] {
				n++
			}
		}
		if n > limit {
			res.fail("limit-not-enforced", fmt.Sprintf("limit %d: %d committed blocks have no header on the DA layer (height %d)", limit, n, w.height()))
		}
	}
	// one production attempt; returns whether it was refused.  The oracle's facts are read from the store
	// and the DA double lazily (only on a refusal: a refused attempt changes nothing they depend on).
	seenTxs := map[string]bool{}
	attempt := func(i int, wantNE bool, pay, sz int, inj []Inject, io *itemOut) bool {
		before := w.height()
		interleaved := inj != nil
		var nwait0, first0 uint64
		var a *attemptCtx
		if interleaved {
			// the property's count when the attempt begins (during the attempt it can only go down: the height is
			// fixed and the DA layer only gains)
			nwait0, first0 = w.waiting()
			a = &attemptCtx{due: append([]Inject{}, inj...)}
			sort.SliceStable(a.due, func(x, y int) bool { return a.due[x].K < a.due[y].K })
			defer func() {
				w.att = nil
				io.inter, io.subs = true, a.fired
				for _, f := range a.fired {
					res.points[f.queue]++
				}
				// what did not get its point runs right after the attempt (reported as ordinary iterations)
				for _, in := range a.due {
					a.pend = append(a.pend, in.Subs...)
				}
				io.late = a.pend
			}()
		}
		if wantNE && pay > 0 {
			w.seq.next = poolTxs(pay)
		} else if wantNE && sz > 0 {
			// sz transaction bytes in 1..3 transactions
			n := 1 + r.Intn(3)
			if n > sz {
				n = 1
			}
			var txs [][]byte
			for j, left := 0, sz; j < n; j++ {
				k := left
				if j < n-1 {
					k = 1 + r.Intn(left-(n-1-j))
				}
				tx := make([]byte, k)
				r.Read(tx)
				txs = append(txs, tx)
				left -= k
			}
			w.seq.next = txs
		} else if wantNE {
			n := 1 + r.Intn(3)
			var txs [][]byte
			for j := 0; j < n; j++ {
				tx := make([]byte, 1+r.Intn(24))
				r.Read(tx)
				txs = append(txs, tx)
			}
			w.seq.next = txs
		} else {
			w.seq.next = nil
		}
		wdBefore := w.m.VerifLastSubmittedDataHeight()
		whBefore := w.m.VerifLastSubmittedHeaderHeight()
		w.att = a
		if err := w.m.VerifPublishBlock(w.ctx); err != nil {
			res.err = fmt.Errorf("publish failed: %w", err)
			return false
		}
		w.att = nil // the oracle's own reads are no points
		switch w.height() {
		case before + 1:
			res.nProduced++
			if interleaved {
				res.nInterProd++
			}
			res.chain = append(res.chain, w.nonEmpty(before+1))
			if _, d, ok := w.committed(before + 1); ok && len(d.Txs) > 0 {
				k := string(d.DACommitment())
				if seenTxs[k] {
					res.nRepeat++
				}
				seenTxs[k] = true
			}
			return false
		case before:
		default:
			res.err = fmt.Errorf("publish moved the height %d -> %d", before, w.height())
			return false
		}
		res.nRefused++
		if interleaved {
			// ---- oracle, interleaved attempt: the refusal is justified by L blocks waiting when the attempt began
			// (its count may be out of date when it returns — that costs this one attempt, see below)
			res.nInterRef++
			nwait, _ := w.waiting()
			switch {
			case nwait0 < limit:
				res.fail("interleaved-attempt-refused-with-fewer-than-limit-blocks-waiting", fmt.Sprintf("limit %d, initial height %d, height %d: an attempt with %d submission iteration(s) inside was refused although only %d committed block(s) waited for the DA layer when it began (first waiting: %d)", limit, init, before, len(a.fired), nwait0, first0))
			case nwait < limit:
				res.stale = true
				res.nStale++
			}
			if acceptingPair(hist, i-1) {
				res.fail("production-stopped-although-da-accepts", fmt.Sprintf("limit %d, initial height %d: block %d refused right after a header and a data submission iteration that the DA layer accepted%s", limit, init, before+1, w.goneNote()))
			}
			return true
		}
		// ---- oracle: a refusal is justified only by L committed blocks still waiting for the DA layer
		if nwait, first := w.waiting(); nwait < limit {
			allEmpty, anyNE := true, false
			for h := wdBefore + 1; h <= before; h++ {
				if w.nonEmpty(h) {
					allEmpty = false
					anyNE = true
				}
			}
			sig := "refused-with-fewer-than-limit-blocks-waiting"
			switch {
			case res.stale:
				// an earlier attempt was refused on a count that went out of date while it was being taken; nothing of
				// that refusal may outlive it
				sig = "refused-again-after-stale-refusal"
			case before < w.gen.InitialHeight:
				sig = "first-block-refused-initial-height-above-limit"
			case before-whBefore < limit && allEmpty:
				sig = "refused-on-empty-pending-data"
			case before-whBefore < limit && anyNE:
				sig = "refused-counting-empty-blocks-behind-unaccepted-data"
			}
			res.fail(sig, fmt.Sprintf("limit %d, initial height %d, height %d: production refused while only %d committed block(s) wait for the DA layer (first waiting: %d; header watermark %d, data watermark %d)", limit, init, before, nwait, first, whBefore, wdBefore))
		}
		// ---- oracle: resumption / no deadlock: right after a header and a data iteration against an accepting DA layer
		if acceptingPair(hist, i-1) {
			sig := "production-stopped-although-da-accepts"
			allEmpty := true
			for h := w.gen.InitialHeight; h <= before; h++ {
				if w.nonEmpty(h) {
					allEmpty = false
				}
			}
			if allEmpty && before >= w.gen.InitialHeight {
				sig = "production-stopped-although-da-accepts:all-empty-chain"
			}
			res.fail(sig, fmt.Sprintf("limit %d, initial height %d: block %d refused right after a header and a data submission iteration that the DA layer accepted%s", limit, init, before+1, w.goneNote()))
		}
		return true
	}
	for i, it := range hist {
		switch it.T {
		case "produce":
			io := itemOut{coqItem: "IProduce " + vgen.Bool(it.NE)}
			if attempt(i, it.NE, it.P, it.Sz, nil, nil) {
				io.res = 1
			}
			if res.err != nil {
				return
			}
			obs(&io)
			enforced()
		case "produce_i":
			io := itemOut{}
			inj := it.At
			if inj == nil {
				inj = []Inject{}
			}
			if attempt(i, it.NE, it.P, it.Sz, inj, &io) {
				io.res = 1
			}
			if res.err != nil {
				return
			}
			io.coqItem = "XProduceI (" + schedCoq(io.subs) + ") " + vgen.Bool(it.NE)
			obs(&io)
			enforced()
			// ---- oracle: a refused attempt inside which a DA layer that accepts took a header and a data
			// iteration leaves nothing waiting (so the next attempt must produce: judged there)
			if io.res == 1 {
				hacc, dacc := false, false
				for _, f := range io.subs {
					if f.sub.T == "headers" && acceptsAll(Item{SC: f.sub.SC}) {
						hacc = true
					}
					if f.sub.T == "data" && acceptsAll(Item{SC: f.sub.SC}) {
						dacc = true
					}
				}
				if nwait, first := w.waiting(); hacc && dacc && nwait > 0 {
					res.fail("blocks-left-waiting-after-accepting-iterations", fmt.Sprintf("limit %d, initial height %d, height %d: a refused attempt had a header and a data submission iteration inside that the DA layer accepted, yet %d committed block(s) still wait (first: %d)%s", limit, init, w.height(), nwait, first, w.goneNote()))
				}
			}
			for _, sb := range io.late {
				lo := itemOut{coqItem: subItemCoq(sb)}
				lo.res, lo.calls = w.sub(sb.T, sb.SC)
				obs(&lo)
			}
		case "produce_empty":
			io := itemOut{coqItem: "IProduceEmptyN " + vgen.N(uint64(it.N))}
			for j := 0; j < it.N; j++ {
				k := i
				if j > 0 {
					k = -1 // only the first attempt of the stretch comes right after the preceding iterations
				}
				if attempt(k, false, 0, 0, nil, nil) {
					io.res++
				}
				if res.err != nil {
					return
				}
			}
			obs(&io)
			enforced() // blocks without header on the DA layer only accumulate during the stretch
		case "restart":
			if err := w.start(); err != nil {
				res.err = fmt.Errorf("restart failed: %w", err)
				return
			}
			io := itemOut{coqItem: "IRestart"}
			obs(&io)
		case "headers", "data":
			io := itemOut{coqItem: subItemCoq(SubIt{T: it.T, SC: it.SC})}
			io.res, io.calls = w.sub(it.T, it.SC)
			// ---- oracle: a DA layer that accepts gets everything accepted: after one header and one data
			// iteration nothing committed is left waiting
			if acceptingPair(hist, i) {
				if nwait, first := w.waiting(); nwait > 0 {
					res.fail("blocks-left-waiting-after-accepting-iterations", fmt.Sprintf("limit %d, initial height %d, height %d: after a header and a data submission iteration that the DA layer accepted, %d committed block(s) still wait (first: %d, non-empty: %v; header watermark %d, data watermark %d)%s", limit, init, w.height(), nwait, first, w.nonEmpty(first), w.m.VerifLastSubmittedHeaderHeight(), w.m.VerifLastSubmittedDataHeight(), w.goneNote()))
				}
			}
			obs(&io)
		}
	}
	res.height = w.height()
	res.ncalls = len(w.da.calls)
	res.nCancelAns = w.da.ncancel
	for _, c := range w.da.calls {
		for i := 0; i < c.accepted; i++ {
			if c.kind == "d" {
				res.dacc = append(res.dacc, c.heights[i])
			} else {
				res.hacc = append(res.hacc, c.heights[i])
			}
		}
	}
	return
}

func nlist(xs []uint64) string {
	s := make([]string, len(xs))
	for i, x := range xs {
		s[i] = vgen.N(x)
	}
	return vgen.List(s)
}

func callsCoq(calls [][]uint64) string {
	var cs []string
	for _, c := range calls {
		cs = append(cs, nlist(c))
	}
	return vgen.List(cs)
}

func (io itemOut) coq() string {
	o := fmt.Sprintf("mk_obs %s %s %s %s %s %s %s", vgen.N(uint64(io.res)), callsCoq(io.calls), vgen.N(io.height), vgen.N(io.wh), vgen.N(io.wd), vgen.N(io.ph), vgen.N(io.pd))
	if !io.inter {
		return "xo (" + o + ")"
	}
	var ss []string
	for _, f := range io.subs {
		ss = append(ss, "("+vgen.N(uint64(f.res))+", "+callsCoq(f.calls)+")")
	}
	return "(" + o + ", " + vgen.List(ss) + ")"
}

func (io itemOut) item() string {
	if io.inter {
		return io.coqItem
	}
	return "XI (" + io.coqItem + ")"
}

func subItemCoq(sb SubIt) string {
	if sb.T == "headers" {
		return "IHeaders " + scriptCoq(sb.SC)
	}
	return "IData " + scriptCoq(sb.SC)
}

func subCoq(sb SubIt) string {
	if sb.T == "headers" {
		return "SHeaders " + scriptCoq(sb.SC)
	}
	return "SData " + scriptCoq(sb.SC)
}

// the ThrottleConc.sched of an attempt, from where its iterations actually ran (q_dd — between the load of
// numPendingData and the load of getPending — has no store call in it and is never driven)
func schedCoq(fired []firedSub) string {
	q := map[string][]string{}
	var loop [][]string
	for _, f := range fired {
		if f.queue == "loop" {
			for len(loop) <= f.idx {
				loop = append(loop, nil)
			}
			loop[f.idx] = append(loop[f.idx], subCoq(f.sub))
			continue
		}
		q[f.queue] = append(q[f.queue], subCoq(f.sub))
	}
	var ls []string
	for _, l := range loop {
		ls = append(ls, vgen.List(l))
	}
	return fmt.Sprintf("mk_sched %s %s [] %s %s %s", vgen.List(q["pre"]), vgen.List(q["hd"]), vgen.List(q["fetch"]), vgen.List(ls), vgen.List(q["build"]))
}

// run a case inside a synctest bubble (virtual time)
func runBubble(t *testing.T, seed int64, c int, init, limit uint64, opt caseOpt, hist []Item, rootDir string) *caseResult {
	var res *caseResult
	synctest.Test(t, func(t *testing.T) {
		res = runCase(seed, c, init, limit, opt, hist, rootDir)
	})
	return res
}

// ---- lazy-loop stream: the real AggregationLoop produces the blocks --------------------------------------------

type lazyAtt struct {
	ms       uint64 // instant of the call of publishBlock, ms after genesis time
	produced bool
	height   uint64
}

const lazyBT = 1000 // block time of the lazy-loop stream, ms

func runLazyCase(seed int64, c int, init, limit uint64, liMs int, hist []Item, rootDir string) (res *caseResult) {
	res = &caseResult{}
	defer func() {
		if x := recover(); x != nil {
			res.fail("panic", fmt.Sprint(x))
		}
	}()
	r := rand.New(rand.NewSource(seed*7919 + int64(c)*104729 + 8))
	_ = os.RemoveAll(rootDir)
	res.points = map[string]int{}
	w, err := newWorld(r, init, limit, caseOpt{lazy: true, li: time.Duration(liMs) * time.Millisecond}, rootDir)
	if err != nil {
		res.err = err
		return
	}
	w.res = res
	S := w.gen.GenesisDAStartTime
	now := func() uint64 { return uint64(time.Since(S) / time.Millisecond) }
	var mu sync.Mutex
	// every call the aggregation loop makes of publishBlock (the real publishBlockInternal runs behind it)
	w.m.VerifSetPublishBlock(func(ctx context.Context) error {
		before := w.height()
		t := now()
		err := w.m.VerifPublishBlock(ctx)
		h := w.height()
		mu.Lock()
		defer mu.Unlock()
		res.latts = append(res.latts, lazyAtt{ms: t, produced: h == before+1, height: h})
		if h == before+1 {
			res.nProduced++
			res.chain = append(res.chain, w.nonEmpty(h))
		} else if err == nil && ctx.Err() == nil {
			res.nRefused++
			// ---- oracle: a refusal is justified only by L committed blocks still waiting for the DA layer
			if nwait, first := w.waiting(); nwait < limit || limit == 0 {
				res.fail("refused-with-fewer-than-limit-blocks-waiting", fmt.Sprintf("lazy loop, limit %d, initial height %d, height %d, instant %d ms: production refused while only %d committed block(s) wait for the DA layer (first waiting: %d)", limit, init, before, t, nwait, first))
			}
		}
		return err
	})
	ctx, cancel := context.WithCancel(w.ctx)
	errCh := make(chan error, 1)
	done := make(chan struct{})
	go func() {
		defer close(done)
		w.m.AggregationLoop(ctx, errCh)
	}()
	defer func() {
		cancel()
		<-done
	}()
	cursor := uint64(lazyBT + 250) // the loop's first select is at genesis time + block time
	sleepUntil := func(ms uint64) {
		if d := time.Until(S.Add(time.Duration(ms) * time.Millisecond)); d > 0 {
			time.Sleep(d)
		}
		synctest.Wait()
	}
	sleepUntil(cursor)
	obs := func(io *itemOut) {
		io.height = w.height()
		io.wh, io.wd = w.m.VerifLastSubmittedHeaderHeight(), w.m.VerifLastSubmittedDataHeight()
		io.ph, io.pd = w.persisted("h"), w.persisted("d")
		res.outs = append(res.outs, *io)
	}
	txsWaiting := false
	for _, it := range hist {
		switch it.T {
		case "wait":
			if it.Ms <= 0 {
				continue
			}
			T, D := cursor, uint64(it.Ms)
			h0 := w.height()
			nwait, _ := w.waiting()
			mu.Lock()
			n0 := len(res.latts)
			mu.Unlock()
			cursor += D
			sleepUntil(cursor)
			// ---- oracle, no deadlock in lazy mode: fewer than L committed blocks wait for the DA layer and nothing
			// else happens for a lazy interval + a block time => the loop has produced a block by itself
			bound := uint64(liMs + lazyBT)
			if (limit == 0 || nwait < limit) && D >= bound {
				ok := false
				mu.Lock()
				for _, a := range res.latts[n0:] {
					if a.produced && a.ms <= T+bound {
						ok = true
					}
				}
				natt := len(res.latts) - n0
				mu.Unlock()
				res.nLazyJudged++
				if !ok {
					sig := "lazy-loop-stopped-producing-although-fewer-than-limit-blocks-wait"
					if !txsWaiting {
						sig += ":idle-chain"
					}
					res.fail(sig, fmt.Sprintf("lazy mode (block time %d ms, lazy interval %d ms), limit %d, initial height %d: at %d ms only %d committed block(s) waited for the DA layer (height %d); during the following %d ms, with nothing else happening, the aggregation loop called publishBlock %d time(s) and produced no block by %d ms (height now %d)", lazyBT, liMs, limit, init, T, nwait, h0, D, natt, T+bound, w.height()))
				}
			}
		case "headers", "data":
			io := itemOut{coqItem: fmt.Sprintf("(%s, %s)", vgen.N(cursor), map[string]string{"headers": "LHeaders ", "data": "LData "}[it.T]+scriptCoq(it.SC))}
			t0 := time.Now()
			io.res, io.calls = w.runSub(it.T, it.SC)
			if !time.Now().Equal(t0) {
				res.err = fmt.Errorf("lazy-loop stream: a submission iteration took virtual time (%v)", time.Since(t0))
				return
			}
			obs(&io)
		case "notify":
			n := 1 + r.Intn(3)
			var txs [][]byte
			for j := 0; j < n; j++ {
				tx := make([]byte, 1+r.Intn(24))
				r.Read(tx)
				txs = append(txs, tx)
			}
			w.seq.mu.Lock()
			w.seq.next = txs
			w.seq.mu.Unlock()
			txsWaiting = true
			w.m.NotifyNewTransactions()
			synctest.Wait()
			io := itemOut{coqItem: fmt.Sprintf("(%s, LNotify)", vgen.N(cursor))}
			obs(&io)
		}
		if res.err != nil {
			return
		}
		w.seq.mu.Lock()
		txsWaiting = txsWaiting && w.seq.next != nil
		w.seq.mu.Unlock()
	}
	select {
	case e := <-errCh:
		res.fail("aggregation-loop-ended-with-error", fmt.Sprint(e))
	default:
	}
	res.lazyH = cursor
	res.height = w.height()
	res.ncalls = len(w.da.calls)
	res.nCancelAns = w.da.ncancel
	for _, c := range w.da.calls {
		for i := 0; i < c.accepted; i++ {
			if c.kind == "d" {
				res.dacc = append(res.dacc, c.heights[i])
			} else {
				res.hacc = append(res.hacc, c.heights[i])
			}
		}
	}
	// the limit is enforced
	if limit != 0 {
		hs := w.acceptedSet("h")
		n := uint64(0)
		for h := w.gen.InitialHeight; h <= w.height(); h++ {
			if !hs[h] {
				n++
			}
		}
		if n > limit {
			res.fail("limit-not-enforced", fmt.Sprintf("lazy loop, limit %d: %d committed blocks have no header on the DA layer (height %d)", limit, n, w.height()))
		}
	}
	return
}

func runLazyBubble(t *testing.T, seed int64, c int, init, limit uint64, liMs int, hist []Item, rootDir string) *caseResult {
	var res *caseResult
	synctest.Test(t, func(t *testing.T) {
		res = runLazyCase(seed, c, init, limit, liMs, hist, rootDir)
	})
	return res
}

func hasSig(r *caseResult, sig string) bool {
	for _, s := range r.viol {
		if s == sig {
			return true
		}
	}
	return false
}

// second shrinking pass: drop the places inside interleaved attempts that the failure does not need
func shrinkInjects(h []Item, fails func([]Item) bool) []Item {
	for changed := true; changed; {
		changed = false
	scan:
		for i := range h {
			for j := range h[i].At {
				h2 := append([]Item{}, h...)
				h2[i].At = append(append([]Inject{}, h[i].At[:j]...), h[i].At[j+1:]...)
				if fails(h2) {
					h, changed = h2, true
					break scan
				}
			}
		}
	}
	return h
}

func caseRng(seed int64, c int) *rand.Rand { return rand.New(rand.NewSource(seed*1000003 + int64(c))) }

func TestVerif(t *testing.T) {
	logging.SetAllLoggers(logging.LevelFatal)
	e := vgen.GetEnv()
	res := vgen.NewResult("C08", e)
	rootDir, err := os.MkdirTemp("", "c08root")
	if err != nil {
		t.Fatal(err)
	}
	defer os.RemoveAll(rootDir)
	type job struct {
		seed        int64
		c           int
		init, limit uint64
		hist        []Item
		opt         caseOpt
		boundary    bool
		inter       bool
		repeat      bool
		sizes       bool
		outage      bool
		lazyloop    bool
		liMs        int
	}
	var jobs []job
	if e.Replay != "" {
		var rp Replay
		if err := vgen.LoadReplay(e.Replay, &rp); err != nil {
			t.Fatal(err)
		}
		jobs = append(jobs, job{seed: rp.Seed, c: rp.Case, init: rp.Init, limit: rp.Limit, hist: rp.History, opt: caseOpt{lazy: rp.Lazy, loop: rp.Loop || rp.Life, life: rp.Life}, lazyloop: rp.Agg, liMs: rp.LiMs})
	} else {
		files, _ := filepath.Glob("../corpus/C08/*.json")
		if os.Getenv("VERIF_NO_CORPUS") != "" {
			files = nil
		}
		for _, f := range files {
			var rp Replay
			if vgen.LoadReplay(f, &rp) == nil && rp.History != nil {
				jobs = append(jobs, job{seed: rp.Seed, c: rp.Case, init: rp.Init, limit: rp.Limit, hist: rp.History, opt: caseOpt{lazy: rp.Lazy, loop: rp.Loop || rp.Life, life: rp.Life}, lazyloop: rp.Agg, liMs: rp.LiMs})
			}
		}
		// the size-boundary stream: 2 cases per run (quick), 3 per shard (thorough)
		nb := 2
		if e.Tier == "thorough" {
			nb = 3
		}
		for c := 0; c < nb && e.N > 0; c++ {
			jobs = append(jobs, job{seed: e.Seed, c: 1000000 + c, boundary: true})
		}
		// the interleaving stream: N/3 cases on top of the N general ones
		for c := 0; c < e.N/3; c++ {
			jobs = append(jobs, job{seed: e.Seed, c: 2000000 + c, inter: true})
		}
		// the repeated-payload stream: N/6 cases on top
		for c := 0; c < e.N/6; c++ {
			jobs = append(jobs, job{seed: e.Seed, c: 3000000 + c, repeat: true})
		}
		// the blob-size stream: N/10 cases on top
		for c := 0; c < e.N/10; c++ {
			jobs = append(jobs, job{seed: e.Seed, c: 4000000 + c, sizes: true})
		}
		// the DA-outage stream (long-lived loops): N/10 cases on top
		for c := 0; c < e.N/10; c++ {
			jobs = append(jobs, job{seed: e.Seed, c: 5000000 + c, outage: true})
		}
		// the lazy-loop stream (the real AggregationLoop in lazy mode produces the blocks): N/10 cases on top
		for c := 0; c < e.N/10; c++ {
			jobs = append(jobs, job{seed: e.Seed, c: 6000000 + c, lazyloop: true})
		}
		for c := 0; c < e.N; c++ {
			jobs = append(jobs, job{seed: e.Seed, c: c})
		}
	}
	maxLen := 14
	if e.Tier == "thorough" {
		maxLen = 40
	}
	var cases, defsAll []string
	var lcases, ldefs []string
	distinct := map[string]bool{}
	shrunk := map[string]bool{}
	for ji, j := range jobs {
		init, limit, hist, opt := j.init, j.limit, j.hist, j.opt
		if j.lazyloop {
			liMs := j.liMs
			if hist == nil {
				init, limit, liMs, hist = genLazy(caseRng(j.seed, j.c))
			}
			cr := runLazyBubble(t, j.seed, j.c, init, limit, liMs, hist, rootDir)
			if cr.err != nil {
				t.Fatalf("harness error (seed %d case %d): %v", j.seed, j.c, cr.err)
			}
			res.Evaluations++
			res.Count("stream:lazy-loop")
			res.Count(fmt.Sprintf("initial-height:%d", init))
			res.Count(fmt.Sprintf("limit:%d", limit))
			res.Count("mode:lazy")
			res.Count(fmt.Sprintf("lazy-loop:lazy-interval-ms:%d", liMs))
			for _, it := range hist {
				res.Count("item:" + it.T)
			}
			for _, b := range cr.chain {
				res.Count(map[bool]string{true: "block:with-txs", false: "block:empty"}[b])
			}
			res.Distribution["da-calls"] += cr.ncalls
			res.Distribution["produce:refused"] += cr.nRefused
			res.Distribution["produce:produced"] += cr.nProduced
			res.Distribution["lazy-loop:publishBlock-called-by-the-loop"] += len(cr.latts)
			res.Distribution["lazy-loop:refused"] += cr.nRefused
			res.Distribution["lazy-loop:quiet-stretch-judged-for-resumption"] += cr.nLazyJudged
			if cr.nRefused > 0 && cr.nLazyJudged > 0 {
				res.Count("lazy-loop:case-with-refusal-and-judged-stretch")
			}
			var evs, outs, atts, chain []string
			for _, o := range cr.outs {
				evs = append(evs, o.coqItem)
				outs = append(outs, fmt.Sprintf("mk_obs %s %s %s %s %s %s %s", vgen.N(uint64(o.res)), callsCoq(o.calls), vgen.N(o.height), vgen.N(o.wh), vgen.N(o.wd), vgen.N(o.ph), vgen.N(o.pd)))
			}
			for _, a := range cr.latts {
				atts = append(atts, fmt.Sprintf("(%s, (%s, %s))", vgen.N(a.ms), vgen.Bool(a.produced), vgen.N(a.height)))
			}
			for _, b := range cr.chain {
				chain = append(chain, vgen.Bool(b))
			}
			if cr.nProduced > 0 && cr.nRefused > 0 && cr.ncalls > 0 {
				distinct[fmt.Sprintf("lazy|%d|%d|%d|%s", init, limit, liMs, strings.Join(evs, ";"))] = true
			}
			for vi, sig := range cr.viol {
				fails := func(h []Item) bool {
					if len(h) == 0 {
						return false
					}
					r2 := runLazyBubble(t, j.seed, j.c, init, limit, liMs, h, rootDir)
					return r2.err == nil && hasSig(r2, sig)
				}
				sh := hist
				if !shrunk[sig] {
					shrunk[sig] = true
					sh = vgen.Shrink(hist, fails)
				}
				res.Violations = append(res.Violations, vgen.Violation{Signature: sig, What: cr.what[vi], Case: ji,
					Replay: Replay{Seed: j.seed, Case: j.c, Init: init, Limit: limit, Lazy: true, Agg: true, LiMs: liMs, History: sh}})
			}
			ldefs = append(ldefs, fmt.Sprintf("Module C%d.\nDefinition c : lcase := {| lc_idx := %s; lc_init := %s; lc_limit := %s; lc_bt := %s; lc_li := %s;\n lc_evs := %s;\n lc_H := %s;\n lc_outs := %s;\n lc_atts := %s;\n lc_chain := %s; lc_hacc := %s; lc_dacc := %s |}.\nEnd C%d.",
				ji, vgen.N(uint64(ji)), vgen.N(init), vgen.N(limit), vgen.N(lazyBT), vgen.N(uint64(liMs)), vgen.List(evs), vgen.N(cr.lazyH), vgen.List(outs), vgen.List(atts), vgen.List(chain), nlist(cr.hacc), nlist(cr.dacc), ji))
			lcases = append(lcases, fmt.Sprintf("C%d.c", ji))
			res.Replays[fmt.Sprint(ji)] = Replay{Seed: j.seed, Case: j.c, Init: init, Limit: limit, Lazy: true, Agg: true, LiMs: liMs, History: hist}
			continue
		}
		if hist == nil {
			// mode of the node and of the harness: from a stream of their own, so that the histories do not depend on them
			opt = genOpt(rand.New(rand.NewSource(j.seed*999983 + int64(j.c)*31 + 17)))
		}
		if hist == nil && j.sizes {
			init, limit, hist = genSizes(caseRng(j.seed, j.c))
			opt.loop = true
			res.Count("stream:blob-sizes")
		} else if hist == nil && j.outage {
			init, limit, hist = genOutage(caseRng(j.seed, j.c))
			opt.loop, opt.life = true, true
			res.Count("stream:da-outage")
		} else if hist == nil && j.boundary {
			init, limit, hist = genBoundary(caseRng(j.seed, j.c), j.c-1000000)
			res.Count("stream:size-boundary")
		} else if hist == nil && j.inter {
			init, limit, hist = genInterleaved(caseRng(j.seed, j.c))
			res.Count("stream:interleaving")
		} else if hist == nil && j.repeat {
			init, limit, hist = genRepeat(caseRng(j.seed, j.c), j.c-3000000)
			res.Count("stream:repeated-payloads")
		} else if hist == nil {
			init, limit, hist = genHistory(caseRng(j.seed, j.c), maxLen)
		}
		cr := runBubble(t, j.seed, j.c, init, limit, opt, hist, rootDir)
		if cr.err != nil {
			t.Fatalf("harness error (seed %d case %d): %v", j.seed, j.c, cr.err)
		}
		res.Evaluations++
		res.Count(fmt.Sprintf("initial-height:%d", init))
		res.Count(fmt.Sprintf("limit:%d", limit))
		res.Count(map[bool]string{true: "mode:lazy", false: "mode:normal"}[opt.lazy])
		res.Count(map[bool]string{true: "iterations:real-loop-tick", false: "iterations:loop-body-through-hooks"}[opt.loop])
		if opt.life {
			res.Count("iterations:real-loop-tick:long-lived-goroutines")
		}
		res.Distribution["iteration:served-by-the-real-loop"] += cr.nTicks
		res.Distribution["iteration:served-by-a-long-lived-loop-goroutine"] += cr.nLifeTicks
		res.Distribution["iteration:served-by-nobody-the-loop-function-had-returned"] += cr.nUnserved
		res.Distribution["da-answer:context-canceled"] += cr.nCancelAns
		if opt.life {
			res.Distribution["da-answer:context-canceled:to-a-long-lived-loop-goroutine"] += cr.nCancelAns
		}
		for k, n := range cr.sizes {
			res.Distribution["da-request:largest-blob:"+k] += n
		}
		for _, it := range hist {
			res.Count("item:" + it.T)
			if it.T == "produce_empty" {
				res.Count(fmt.Sprintf("idle-stretch:%d", it.N))
			}
			nf := 0
			for _, o := range it.SC {
				if o.O == "fail" {
					nf++
				}
			}
			switch {
			case it.T != "headers" && it.T != "data":
			case nf >= 30:
				res.Count("outage:30-or-more-answers")
			case nf > 0:
				res.Count("outage:1-29-answers")
			case len(it.SC) == 0:
				res.Count("outage:cancelled-before-first-answer")
			default:
				res.Count("outage:none")
			}
		}
		ne := 0
		for _, b := range cr.chain {
			if b {
				ne++
				res.Count("block:with-txs")
			} else {
				res.Count("block:empty")
			}
		}
		switch {
		case len(cr.chain) == 0:
			res.Count("chain:no-block")
		case ne == 0:
			res.Count("chain:all-empty")
		case ne >= len(cr.chain)-1:
			res.Count("chain:all-non-empty-after-genesis-block")
		default:
			res.Count("chain:mixed")
		}
		res.Distribution["da-calls"] += cr.ncalls
		res.Distribution["produce:refused"] += cr.nRefused
		res.Distribution["produce:produced"] += cr.nProduced
		res.Distribution["block:with-txs-equal-to-an-earlier-block"] += cr.nRepeat
		if cr.nRepeat > 0 {
			res.Count("chain:with-repeated-transaction-lists")
		}
		res.Distribution["iteration:gave-up-after-30-attempts"] += cr.nExhausted
		res.Distribution["interleaved-attempt:produced"] += cr.nInterProd
		res.Distribution["interleaved-attempt:refused"] += cr.nInterRef
		res.Distribution["interleaved-attempt:refused-on-a-count-out-of-date-at-return"] += cr.nStale
		for q, n := range cr.points {
			res.Distribution["iteration-inside-attempt:"+q] += n
		}
		var items, outs []string
		for _, o := range cr.outs {
			items = append(items, o.item())
			outs = append(outs, o.coq())
		}
		if cr.nProduced > 0 && cr.nRefused > 0 && cr.ncalls > 0 {
			distinct[fmt.Sprintf("%d|%d|%s", init, limit, strings.Join(items, ";"))] = true
		}
		rp := Replay{Seed: j.seed, Case: j.c, Init: init, Limit: limit, Lazy: opt.lazy, Loop: opt.loop, Life: opt.life, History: hist}
		for vi, sig := range cr.viol {
			fails := func(h []Item) bool {
				if len(h) == 0 {
					return false
				}
				r2 := runBubble(t, j.seed, j.c, init, limit, opt, h, rootDir)
				return r2.err == nil && hasSig(r2, sig)
			}
			// the first failing history of every signature is shrunk; further ones are reported as they are
			sh := hist
			if !shrunk[sig] {
				shrunk[sig] = true
				sh = shrinkInjects(vgen.Shrink(hist, fails), fails)
			}
			res.Violations = append(res.Violations, vgen.Violation{Signature: sig, What: cr.what[vi], Case: ji,
				Replay: Replay{Seed: j.seed, Case: j.c, Init: init, Limit: limit, Lazy: opt.lazy, Loop: opt.loop, Life: opt.life, History: sh}})
		}
		var chain []string
		for _, b := range cr.chain {
			chain = append(chain, vgen.Bool(b))
		}
		var live []string
		if opt.life {
			for _, o := range cr.outs {
				live = append(live, "("+vgen.Bool(o.lh)+", "+vgen.Bool(o.ld)+")")
			}
		}
		mod := fmt.Sprintf("Module C%d.\nDefinition c : tcase := {| tc_init := %s; tc_limit := %s;\n tc_hist := %s;\n tc_outs := %s;\n tc_chain := %s; tc_hacc := %s; tc_dacc := %s; tc_live := %s |}.\nEnd C%d.",
			ji, vgen.N(init), vgen.N(limit), vgen.List(items), vgen.List(outs), vgen.List(chain), nlist(cr.hacc), nlist(cr.dacc), vgen.List(live), ji)
		defsAll = append(defsAll, mod)
		cases = append(cases, fmt.Sprintf("C%d.c", ji))
		res.Replays[fmt.Sprint(ji)] = rp
		if len(res.Samples) < 3 && cr.nProduced > 1 && cr.nRefused > 0 && cr.ncalls > 2 {
			res.Samples = append(res.Samples, map[string]interface{}{"initial_height": init, "limit": limit, "history": hist, "model_items": items, "observed": outs})
		}
	}
	res.Distinct = len(distinct)
	res.Rule = "real aggregator Manager (NewManager, real store/signer/publishBlockInternal) with MaxPendingHeadersAndData L in 1..10 and initial height in {1 (3/7), 2, 5, 12, 1000}; block mix per case: all-empty, all non-empty, 50% or 25% non-empty (the block at the initial height is always the stored genesis block, empty); histories of 4..maxLen items: bursts of 1..L+1 production attempts, single header / data submission iterations through the hooks (body of HeaderSubmissionLoop / DataSubmissionLoop), restarts (NewManager on the same datastore); every DA call answered truthfully from a script: accept all (40%), outage of 1..5 answers then acceptance, outage of 30..65 answers (> maxSubmitAttempts), outage until the context ends, acceptance of 1..3 blobs at a time, context cancelled at once; 80% of histories end with 2..2L+3 rounds of (header iteration, data iteration in either order against an accepting DA layer, then one production attempt) on which resumption / no-deadlock is judged; after every such pair of iterations no committed block may be left waiting; refusal-justified and limit-enforced are judged at every production attempt; CONFIGURATION per case, drawn independently of the history: config.Node.LazyMode on / off (1/2 each), and how a submission iteration is run (1/2 each): ONE TICK OF THE REAL HeaderSubmissionLoop / DataSubmissionLoop (the exported loop function started in its own goroutine with its own ticker, virtual time; it serves its first tick completely — all attempts, all backoff sleeps — and is ended when it calls isEmpty() for the second time; result class from what the loop did: read the pending range? reached the DA layer? logged an error itself?) or the loop body through the verif hooks; of the cases on the real loops, half (and every case of the DA-outage stream) run with LONG-LIVED loops: HeaderSubmissionLoop and DataSubmissionLoop are started once per process exactly as node/full.go starts them, the same two goroutines serve every tick of the history (parked in between at the isEmpty() read that begins an iteration, reached on their own ticker), a restart cancels their context and the new process starts its own; a loop function that has returned serves no tick (result class 5) and nobody does its work; per item the harness reports whether each loop function is still running (compared with Model/ThrottleLoop.v: always); plus a DA-OUTAGE stream of N/10 cases (long-lived loops, limit 1..5, initial height 1/2/5, block mix 100/70/40/0 % with transactions): some blocks with the loops keeping up or not, then 1..2 outages of finite length spanning 1..4 ticks of each loop, one failure kind per outage (timeout / mempool / too big / sequence / generic), every tick of the outage ending with the iteration giving up after 30..34 failures or with the DA layer answering 'context canceled' (at once or after 1..4 failures; the node's own context is alive), production attempted meanwhile up to and at the limit, a restart now and then, then 2..L+2 rounds against the accepting DA layer (both ticks in either order, one attempt) judged by the same oracles; limits of the general stream: every value 1..10 (1, 2, 3, 10 twice as often); plus a BLOB-SIZE stream of N/10 cases, always on the real loops: limit 1..10, lazy or normal, blocks whose transactions weigh 1 KB .. 1.9 MB (40% log-uniform over the whole range, 30% within 4 KB of 64 KiB / 128 KiB / 256 KiB / 512 KiB / 1 MiB / 1.5 MiB / 100 000 / 250 000 / 500 000 / 750 000 / 1 000 000 / 1 250 000 / 1 500 000 / 1 750 000 / 1 900 000, 30% uniform in 1.0 .. 1.9 MB; 1..3 transactions; the DA double takes blobs up to 1 974 272 bytes), up to 4 such blocks per case with empty blocks in between, the data loop meeting a DA layer that takes one blob at a time / fails 1..3 times / fails 30 times, then a sized block followed by L-1 more blocks with transactions and 2..4 rounds — same model comparison (blob heights of EVERY DA request, watermarks) and oracles, plus: no request without a blob (empty-da-request); plus a size-boundary stream (2 cases per run, 3 per thorough shard): limit in {255,256,257,300,1000}, idle stretches of 255/256/257/600 attempts without transactions in a row (run-length item IProduceEmptyN, expanded inside Coq) before / between blocks with transactions, DA layer healthy, 3..5 closing rounds, same oracles; INTERLEAVED attempts (item produce_i: 1/8 of the attempts of the general histories, plus an interleaving stream of N/3 cases: limit in 1..10, bursts of L-1..L+1 blocks with the header loop keeping up and the data loop lagging, then 1..3 attempts with submission iterations inside, restarts, closing rounds): the store handed to the Manager is wrapped and at chosen store calls of publishBlockInternal (reads of numPendingHeaders / numPendingData / getPending, the fetches and watermark steps of numWaitingData, the calls of block building up to SetHeight) 1..2 header / data iterations (70% against an accepting DA layer, else any script) run synchronously before the call proceeds, or a header iteration at every call of numWaitingData's window; the point is classified from the call stack and handed to the model as a ThrottleConc.sched; oracle for such an attempt: a refusal needs L blocks waiting when the attempt BEGAN (it may be out of date when it returns), a refused attempt with an accepted header and data iteration inside leaves nothing waiting, and any later refusal with fewer than L blocks waiting is reported as refused-again-after-stale-refusal; PAYLOADS: a block with transactions carries either a fresh random transaction list (1..3 txs) or, in half of the general and interleaving histories with probability 2/3 per block, one of a pool of 1..3 FIXED lists, so that blocks at different heights have equal transaction lists (equal Data.Hash / DACommitment); plus a repeated-payload stream of N/6 cases (the first three: limit 1, 2, 3 with a heartbeat transaction in every block): limit in {1,2,3}, DA layer accepting, shapes: the same list in every block with the loops running after every block or every L blocks / A, B, A and then the last L blocks all equal to A / the first list coming back after other lists and empty blocks / any mix over a pool of two lists, fresh lists and empty blocks; then optionally a restart, and a tail of rounds (both iterations against the accepting DA layer, one attempt): an idle chain of L+2..L+3 empty blocks, or L+2 more blocks of the same list, or L+1 fresh lists, then idle; the model identifies a block by empty / non-empty only (a repeated list is a block with transactions like any other) and the same comparison and oracles apply; plus a LAZY-LOOP stream of N/10 cases: the blocks are produced by the REAL Manager.AggregationLoop in lazy mode (own goroutine, its own lazyTimer / blockTimer, block time 1000 ms, lazy interval 1500 / 2500 / 3500 ms, real publishBlockInternal behind publishBlock) with limit 1..4 and initial height 1/2/5; the history lets virtual time pass (multiples of 500 ms, events at 250 ms mod 500: never at a timer instant) and places header / data submission iterations (through the hooks; DA answers that do not sleep: accept all, accept one blob, 'context canceled') and transaction announcements (the sequencer gets transactions + Manager.NotifyNewTransactions) at chosen instants: 0..3 healthy rounds, then 1..2 DA outages of L+1..L+3 lazy intervals during which nothing is accepted and the loop's attempts are refused at the limit (in 2/3 of the cases without any announcement: the idle chain), then one accepted header + data iteration and a quiet stretch longer than lazy interval + block time, sometimes an announcement afterwards; compared with Model/ThrottleLazy.v (second case file cases_C08_lazy.v): EVERY call the loop made of publishBlock (instant, produced / refused, height), each iteration's observation, emptiness of the blocks, accepted heights; Go oracle: whenever fewer than L committed blocks wait for the DA layer and nothing else happens for lazy interval + block time, the loop has produced a block by then; a refusal needs L blocks waiting; limit enforced; all in synctest bubbles (virtual time); non-trivial = at least one block produced, one refusal and one DA call; distinct = distinct (initial height, limit, model history) terms"
	res.Cases = len(cases)
	header := "From Coq Require Import NArith List Bool.\nFrom Verif Require Import Model.Throttle Model.ThrottleConc Check.ThrottleCheck."
	path := filepath.Join(e.Out, "cases_C08.v")
	if err := vgen.WriteCases(path, header, defsAll, "tcase", cases, "mismatches"); err != nil {
		t.Fatal(err)
	}
	lpath := filepath.Join(e.Out, "cases_C08_lazy.v")
	lheader := "From Coq Require Import NArith List Bool.\nFrom Verif Require Import Model.Throttle Model.ThrottleLazy Check.ThrottleLazyCheck."
	if err := vgen.WriteCases(lpath, lheader, ldefs, "lcase", lcases, "lmismatches"); err != nil {
		t.Fatal(err)
	}
	res.Cases += len(lcases)
	res.CaseFiles = []string{path, lpath}
	if err := res.Write(e.Out); err != nil {
		t.Fatal(err)
	}
}
