// Package crashds is a recording datastore: it forwards to an inner ds.Batching and logs every
// atomic write (Put, Delete, Batch.Commit) in order, so that the image after any prefix of the
// log can be materialised into a fresh datastore ("the process died here").
package crashds

import (
	"context"
	"sort"
	"sync"

	ds "github.com/ipfs/go-datastore"
	dsq "github.com/ipfs/go-datastore/query"
	dssync "github.com/ipfs/go-datastore/sync"
)

// Prim is one primitive write.
type Prim struct {
	Key   string
	Value []byte
	Del   bool
}

// Write is one atomic unit as it reaches the datastore.
type Write struct {
	Batch bool
	Prims []Prim
}

type DS struct {
	ds.Batching
	mu   sync.Mutex
	base map[string][]byte // image at construction
	Log  []Write
	// FailAfter >= 0: writes with index >= FailAfter are dropped silently (the process is "dead")
	FailAfter int
	// OnDrop, if set, is called (outside the lock) for every dropped write: the instant of death as seen
	// from the datastore. Harnesses use it to sample what an outside observer could last have seen of the
	// dying process (e.g. a reported height) - values published BEFORE the write that made them durable.
	OnDrop func(w Write)
	// ErrOnDrop, if non-nil, is returned for dropped writes instead of nil (a store write FAULT rather
	// than a process death: the caller sees the error and goes on living).
	ErrOnDrop error
}

func New() *DS { return Wrap(dssync.MutexWrap(ds.NewMapDatastore()), nil) }

// Wrap records writes on top of inner, whose current content is base (may be nil for empty).
func Wrap(inner ds.Batching, base map[string][]byte) *DS {
	b := map[string][]byte{}
	for k, v := range base {
		b[k] = v
	}
	return &DS{Batching: inner, base: b, FailAfter: -1}
}

func (d *DS) record(w Write) bool {
	d.mu.Lock()
	defer d.mu.Unlock()
	if d.FailAfter >= 0 && len(d.Log) >= d.FailAfter {
		return false
	}
	d.Log = append(d.Log, w)
	return true
}

func (d *DS) dropped(w Write) error {
	if d.OnDrop != nil {
		d.OnDrop(w)
	}
	return d.ErrOnDrop
}

func (d *DS) Put(ctx context.Context, k ds.Key, v []byte) error {
	cp := append([]byte{}, v...)
	if w := (Write{Prims: []Prim{{Key: k.String(), Value: cp}}}); !d.record(w) {
		return d.dropped(w)
	}
	return d.Batching.Put(ctx, k, v)
}

func (d *DS) Delete(ctx context.Context, k ds.Key) error {
	if w := (Write{Prims: []Prim{{Key: k.String(), Del: true}}}); !d.record(w) {
		return d.dropped(w)
	}
	return d.Batching.Delete(ctx, k)
}

type batch struct {
	d     *DS
	prims []Prim
}

func (d *DS) Batch(ctx context.Context) (ds.Batch, error) { return &batch{d: d}, nil }

func (b *batch) Put(ctx context.Context, k ds.Key, v []byte) error {
	b.prims = append(b.prims, Prim{Key: k.String(), Value: append([]byte{}, v...)})
	return nil
}
func (b *batch) Delete(ctx context.Context, k ds.Key) error {
	b.prims = append(b.prims, Prim{Key: k.String(), Del: true})
	return nil
}
func (b *batch) Commit(ctx context.Context) error {
	if w := (Write{Batch: true, Prims: b.prims}); !b.d.record(w) {
		return b.d.dropped(w)
	}
	inner, err := b.d.Batching.Batch(ctx)
	if err != nil {
		return err
	}
	for _, p := range b.prims {
		if p.Del {
			if err := inner.Delete(ctx, ds.NewKey(p.Key)); err != nil {
				return err
			}
		} else if err := inner.Put(ctx, ds.NewKey(p.Key), p.Value); err != nil {
			return err
		}
	}
	b.prims = nil
	return inner.Commit(ctx)
}

// Len is the number of atomic writes recorded so far.
func (d *DS) Len() int { d.mu.Lock(); defer d.mu.Unlock(); return len(d.Log) }

// ImageAfter returns the key/value image after the first n recorded atomic writes.
func (d *DS) ImageAfter(n int) map[string][]byte {
	d.mu.Lock()
	defer d.mu.Unlock()
	img := map[string][]byte{}
	for k, v := range d.base {
		img[k] = v
	}
	for i := 0; i < n && i < len(d.Log); i++ {
		for _, p := range d.Log[i].Prims {
			if p.Del {
				delete(img, p.Key)
			} else {
				img[p.Key] = p.Value
			}
		}
	}
	return img
}

// Materialize builds a fresh recording datastore holding the image after the first n writes.
func (d *DS) Materialize(n int) *DS {
	img := d.ImageAfter(n)
	inner := dssync.MutexWrap(ds.NewMapDatastore())
	for k, v := range img {
		_ = inner.Put(context.Background(), ds.NewKey(k), v)
	}
	return Wrap(inner, img)
}

// Dump returns the current content of the inner datastore, sorted by key.
func Dump(ctx context.Context, d ds.Datastore) ([]Prim, error) {
	res, err := d.Query(ctx, dsq.Query{})
	if err != nil {
		return nil, err
	}
	defer res.Close()
	var out []Prim
	for r := range res.Next() {
		if r.Error != nil {
			return nil, r.Error
		}
		out = append(out, Prim{Key: r.Key, Value: append([]byte{}, r.Value...)})
	}
	sort.Slice(out, func(i, j int) bool { return out[i].Key < out[j].Key })
	return out, nil
}
