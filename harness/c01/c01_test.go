// C01 correspondence harness: the REAL block.Manager (NewManager, aggregator with signer, on a recording
// map datastore) is driven one publishBlockInternal step at a time through random sequences of
// sequencing-layer responses (non-empty / empty / absent batches, transient errors, equal, increasing and
// decreasing timestamps, transactions of 0..64 bytes and one of 100 kB) and execution-layer outcomes
// (errors; state roots of length 0; returned maxBytes values from 0 to 1<<20, mostly below the size of later batches),
// with RESTARTS of the node on the same database between steps - in particular after steps that failed in the
// execution layer and left the early-saved pending block above the recorded state (Props/C01.v (4), (4')).
// Go oracle (harness/producer/oracle.go): every committed block is hash-linked, time-monotone, commits to
// the batch it was built from, carries the delayed state root, is signed by the genesis proposer and
// passes ValidateBasic / types.Validate / execValidate; plus the no-wedge probe (three well-formed
// responses must produce a block).  All reads go through the store object the Manager runs on (what an RPC
// client, the DA submitter or the sync services of the node see), after every item and — for a quarter of
// the steps — also from inside ExecuteTxs (between the early and the final save of a block), and are
// cross-checked against a freshly opened store.  In a third of the cases the steps are made by the node's OWN production
// loop: the real Manager.AggregationLoop (normal / lazy) runs under virtual time and each of its rounds consumes the next
// step item (harness/producer/loop.go); the oracle then also requires that a round answered by a sequencer fault of any
// error class leaves the loop running.  In the directly driven cases the PROCESS also DIES inside production steps (after
// any number of the step's atomic datastore writes, mostly between the state write and the store-height write of a commit)
// and the node is started again on what is on disk (Props/C01.v (4'')); and the sequencing layer also hands out batches
// whose timestamp was never set (the zero time.Time) or lies before 1970.
// Writes cases_C01.v for Check/ProducerLoopCheck.v and result.json.
package c01

import (
	"math/rand"
	"testing"

	"verif/harness/producer"
)

func gen(r *rand.Rand, tier string, c int, _ int64) (producer.Cfg, []producer.Item) {
	cfg := producer.Cfg{Initial: []uint64{1, 1, 2, 5, 1000}[r.Intn(5)], GOff: int64(r.Intn(3)) * 2500, Lazy: r.Intn(2) == 0}
	// in a third of the cases the steps are made by the node's own production loop (the real AggregationLoop, normal or
	// lazy, under virtual time): a round that hands an error back to the loop halts the node until it is restarted
	cfg.Loop = r.Intn(100) < 35
	maxLen := 40
	if tier == "thorough" {
		maxLen = 120
		if c%10 == 0 {
			maxLen = 300
		}
	}
	n := 1 + r.Intn(maxLen)
	var h []producer.Item
	if r.Intn(20) == 0 {
		h = append(h, producer.Item{T: "boot", InitErr: true}) // the execution layer is not up yet
	}
	// what the execution layer hands back with a success: a root of length 0 in a fraction of the calls, and a
	// maxBytes value that is often far below the size of the batches that follow
	execOutcome := func(it *producer.Item) {
		it.EmptyRoot = r.Intn(100) < 12
		if r.Intn(100) < 40 {
			it.MaxB = []int64{-1, 1, 10, 100, 100, 1000}[r.Intn(6)]
		}
	}
	first := producer.Item{T: "boot"}
	execOutcome(&first)
	h = append(h, first)
	cur := cfg.GOff
	for i := 0; i < n; i++ {
		it := producer.Item{T: "step"}
		x := r.Intn(100)
		switch {
		case x < 50:
			it.Seq = "batch"
			k := 1 + r.Intn(5)
			for j := 0; j < k; j++ {
				switch y := r.Intn(40); {
				case y == 0:
					it.Txs = append(it.Txs, 1) // 100 kB
				case y < 3:
					it.Txs = append(it.Txs, 0) // zero-length transaction
				default:
					it.Txs = append(it.Txs, 2+r.Intn(producer.PoolSize-2))
				}
			}
		case x < 75:
			it.Seq = "batch"
		case x < 87:
			it.Seq = "nil"
		default:
			// a transient fault of the sequencing layer, of any error class (plain, a request-level deadline or
			// cancellation - bare, wrapped, joined -, a wrapped "no batch", I/O errors)
			it.Seq = "err"
			it.ErrKind = 1 + r.Intn(producer.NSeqErrKinds)
		}
		if cfg.Loop {
			it.Notify = r.Intn(100) < 40 // new transactions are announced before the round (lazy mode: the block timer then produces)
		}
		regressed := false
		if it.Seq != "err" {
			d := int64(0)
			switch y := r.Intn(100); {
			case y < 15:
				d = -int64(1 + r.Intn(5000))
			case y < 25:
				d = 0
			default:
				d = int64(1 + r.Intn(5000))
			}
			it.Ts = cur + d
			regressed = d < 0 && it.Seq == "batch" && len(it.Txs) > 0
			// an unusual VALUE from the sequencing layer: a response whose Timestamp was never set (the zero time.Time,
			// year 1: outside what UnixNano can represent) or that lies before 1970-01-01 (the last millisecond of 1969,
			// some day of the 1960s, the 19th century) - for a node whose chain started after 1970 just another batch
			// older than the last block.  The generator's own clock is not moved by it.
			if y := r.Intn(100); y < 5 {
				switch r.Intn(4) {
				case 0, 1:
					it.ZeroTs, it.Ts = true, producer.ZeroTimeMs
				case 2:
					it.Ts = producer.EpochMs - 1 - int64(r.Intn(2))*int64(r.Intn(300_000_000_000))
				default:
					it.Ts = producer.EpochMs - 2_000_000_000_000 - int64(r.Intn(1_000_000_000))
				}
				regressed = it.Seq == "batch" && len(it.Txs) > 0
			} else if it.Seq == "batch" {
				cur = it.Ts
			}
		}
		it.ExecErr = r.Intn(100) < 7
		// the PROCESS DIES inside this production step (kill, power loss, a failed write): after K of its atomic datastore
		// writes - cursor, early block, final block, state, store height; a retried pending block has only the last three -
		// the rest never reaches the datastore, the process is gone, and the node is started again on what is on disk
		// (NewManager on the same database; that start-up may die as well).  Usually in a step whose responses are
		// well-formed (it commits a block: K = 4 of a block built from a batch / K = 2 of a retried pending block falls
		// BETWEEN the state write and the store-height write).  Steps driven directly only: under the node's own loop
		// (Cfg.Loop) a crash is not scripted.
		crashed := false
		if !cfg.Loop && r.Intn(100) < 7 && lastBootWorks(h) {
			crashed = true
			it.Crash = true
			it.K = []int{0, 1, 2, 2, 3, 4, 4, 4, 4, 5}[r.Intn(10)]
			if r.Intn(100) < 75 {
				it.Seq, it.ErrKind, it.ExecErr, it.ZeroTs = "batch", 0, false, false
				if it.Ts < cur {
					it.Ts = cur + int64(r.Intn(3000))
				}
				cur = it.Ts
			}
		}
		it.Peek = r.Intn(100) < 25 // a client reads the store while the execution layer works
		execOutcome(&it)
		h = append(h, it)
		// the node is RESTARTED on the same database between two steps (NewManager -> getInitialState with
		// whatever the steps so far left in the store; no crash inside a step: the responses were well-formed
		// or not, the step returned).  Rarely after a step that went through, often after one that the
		// execution layer failed (the early-saved pending block then lies above the recorded state), and
		// sometimes twice in a row; the InitChain answer of a restart is only consulted when no state is stored.
		if crashed {
			if r.Intn(8) == 0 {
				h = append(h, producer.Item{T: "boot", Crash: true, K: r.Intn(2)}) // the recovery start-up dies as well
			}
			b := producer.Item{T: "boot"}
			execOutcome(&b)
			h = append(h, b)
			continue
		}
		p := 5
		if it.ExecErr {
			p = 45
		}
		if cfg.Loop && (it.ExecErr || regressed) {
			p = 80 // the production loop has probably halted the node: it is usually restarted (by its supervisor)
		}
		for k := 0; k < 2 && r.Intn(100) < p; k++ {
			b := producer.Item{T: "boot", InitErr: r.Intn(100) < 8}
			execOutcome(&b)
			h = append(h, b)
			if b.InitErr && r.Intn(2) == 0 {
				b2 := producer.Item{T: "boot"}
				execOutcome(&b2)
				h = append(h, b2)
			}
			p = 30
		}
	}
	return cfg, h
}

// the last start-up of the history so far was not scripted to fail (a process runs)
func lastBootWorks(h []producer.Item) bool {
	for i := len(h) - 1; i >= 0; i-- {
		if h[i].T == "boot" {
			return !h[i].InitErr && !h[i].Crash
		}
	}
	return false
}

func TestVerif(t *testing.T) {
	rule := "boot (5%: a first boot whose InitChain fails) then 1..40 (quick) / 1..120, every 10th case 1..300 (thorough) production steps; sequencer response 50% non-empty batch (1-5 txs of 1-64 bytes, 5% zero-length, 2.5% one 100 kB tx), 25% empty batch, 12% absent batch, 13% transient error of one of eight classes (plain; context.DeadlineExceeded bare / wrapped; context.Canceled wrapped / joined with another error; a wrapped ErrNoBatch; os.ErrDeadlineExceeded; io.ErrUnexpectedEOF) returned while the node's context is live; timestamp delta 15% regress / 10% equal / 75% advance by 1..5000 ms, and 5% of the responses that carry a timestamp carry an unusual VALUE instead: the zero time.Time of a response whose Timestamp field was never set (half of them), the last millisecond of 1969 or an instant up to ten years before 1970, or an instant of the year 1906 (all older than every block of a chain that started after 1970: the model's step skips / refuses them like any other regressed batch; the generator's clock is not moved by them); 7% execution errors; in the directly driven cases (65%) the PROCESS DIES inside 7% of the production steps issued while a process runs: after K of the step's atomic datastore writes (cursor, early block, final block, state, store height; a retried pending block has only the last three), K from {0,1,2,2,3,4,4,4,4,5}, the remaining writes never reach the datastore (crashds.FailAfter) and the process is discarded; three quarters of these steps are given well-formed responses first (they commit a block: K = 4 resp. K = 2 on a retried pending block cuts BETWEEN the state write and the store-height write); the node is then started again on the same database (in 1 of 8 cases that start-up dies as well, before or after its only write, and is repeated); the two fixed corpus cases crash-between-state-and-height-write and batch-with-unset-or-pre-1970-timestamp go through these classes on every run; after a step the node is restarted on the same database (boot item: NewManager + getInitialState, the running process is discarded; no crash inside a step) with probability 5%, 45% after a step whose execution was scripted to fail (the early-saved pending block then lies above the recorded state), a second restart follows with 30%, 8% of the restarts have a failing InitChain (consulted only when no state is stored); every successful InitChain / ExecuteTxs hands back a state root of length 0 (nil or empty) with probability 12% and a maxBytes value of 1<<20 (60%) or one of {0, 1, 10, 100, 100, 1000} (40%) - the sequencer double ignores the MaxBytes of the request, so later batches (1-5 txs of 1-64 bytes, the 100 kB tx) are routinely larger than the last reported value; in 25% of the steps a client of the node reads the height being produced and the one below through the node's store while the execution layer works (between the early and the final save); after EVERY item the blocks the node's store serves (same store object as the Manager's) at the tip, the pending height, the heights written and two older heights are checked and compared with a freshly opened store; initial height from {1,1,2,5,1000}; lazy/normal mode flag random; in 35% of the cases (and in two fixed corpus cases, normal and lazy, that go through all eight error classes) the steps are NOT driven by direct calls of publishBlockInternal but made by the node's own production loop: the real Manager.AggregationLoop (normal or lazy by the flag; start-up delay, block timer, lazy timer, NotifyNewTransactions before 40% of the rounds) is started after every successful NewManager under testing/synctest virtual time with the node's one-slot error channel, each of its calls of m.publishBlock runs the real publishBlockInternal on the next step item with the loop's own context; a round that hands an error back ends the loop (the node halts: the items up to the next boot find no process; in these cases a restart follows a round that probably failed with 80%), and per item 'the loop is still running' is observed next to everything else; non-trivial = at least 3 steps and one committed block; distinct = distinct (configuration, history)"
	producer.MainOpts(t, "C01", gen, rule, func(cfg producer.Cfg, h []producer.Item, obs []producer.Obs) bool {
		steps, commits := 0, 0
		for i, it := range h {
			if it.T == "step" {
				steps++
			}
			if obs[i].Res == "committed" {
				commits++
			}
		}
		return steps >= 3 && commits >= 1
	}, producer.Opts{Unified: true})
}
