// Package syncdrv drives the real block.Manager for the C02/C05 harnesses: a real aggregator Manager
// produces the proposer's chain (scripted sequencer double, deterministic executor double), and a
// second real Manager without signer runs the unmodified SyncLoop; events are pushed through the
// headerInCh/dataInCh accessors.  Node.Deliver etc. must be called from inside a synctest bubble.
package syncdrv

import (
	"bytes"
	"context"
	"crypto/sha256"
	"encoding/binary"
	"fmt"
	"sync"
	"testing/synctest"
	"time"

	goheader "github.com/celestiaorg/go-header"
	ds "github.com/ipfs/go-datastore"
	logging "github.com/ipfs/go-log/v2"
	"github.com/libp2p/go-libp2p/core/crypto"

	coreda "github.com/evstack/ev-node/core/da"
	coresequencer "github.com/evstack/ev-node/core/sequencer"
	"github.com/evstack/ev-node/block"
	"github.com/evstack/ev-node/pkg/config"
	"github.com/evstack/ev-node/pkg/genesis"
	"github.com/evstack/ev-node/pkg/signer"
	noopsigner "github.com/evstack/ev-node/pkg/signer/noop"
	"github.com/evstack/ev-node/pkg/store"
	"github.com/evstack/ev-node/types"

	"verif/harness/doubles/crashds"
)

// ---- doubles ---------------------------------------------------------------------------------

// ExecCall is one ExecuteTxs call as the executor double saw it.
type ExecCall struct {
	Height uint64
	Time   int64
	Prev   []byte
	Txs    [][]byte
	Root   []byte
}

// Exec is a deterministic execution layer: the new root is a hash of (previous root, height, time, txs).
type Exec struct {
	mu    sync.Mutex
	Calls []ExecCall
	Inits int
}

func InitRoot(chainID string) []byte {
	h := sha256.Sum256([]byte("init:" + chainID))
	return h[:]
}

func ExecRoot(prev []byte, height uint64, ts int64, txs [][]byte) []byte {
	h := sha256.New()
	h.Write(prev)
	var b [8]byte
	binary.BigEndian.PutUint64(b[:], height)
	h.Write(b[:])
	binary.BigEndian.PutUint64(b[:], uint64(ts))
	h.Write(b[:])
	for _, tx := range txs {
		binary.BigEndian.PutUint64(b[:], uint64(len(tx)))
		h.Write(b[:])
		h.Write(tx)
	}
	return h.Sum(nil)
}

func (e *Exec) InitChain(ctx context.Context, genesisTime time.Time, initialHeight uint64, chainID string) ([]byte, uint64, error) {
	e.mu.Lock()
	defer e.mu.Unlock()
	e.Inits++
	return InitRoot(chainID), 1 << 20, nil
}
func (e *Exec) GetTxs(ctx context.Context) ([][]byte, error) { return nil, nil }
func (e *Exec) ExecuteTxs(ctx context.Context, txs [][]byte, blockHeight uint64, timestamp time.Time, prevStateRoot []byte) ([]byte, uint64, error) {
	e.mu.Lock()
	defer e.mu.Unlock()
	r := ExecRoot(prevStateRoot, blockHeight, timestamp.UnixNano(), txs)
	cp := make([][]byte, len(txs))
	for i := range txs {
		cp[i] = append([]byte{}, txs[i]...)
	}
	e.Calls = append(e.Calls, ExecCall{Height: blockHeight, Time: timestamp.UnixNano(), Prev: append([]byte{}, prevStateRoot...), Txs: cp, Root: r})
	return r, 1 << 20, nil
}
func (e *Exec) SetFinal(ctx context.Context, blockHeight uint64) error { return nil }
func (e *Exec) NumCalls() int                                          { e.mu.Lock(); defer e.mu.Unlock(); return len(e.Calls) }

// Batch is one scripted sequencer response.
type Batch struct {
	Txs [][]byte
	Ts  time.Time
}

// Seq is a scripted sequencer: every GetNextBatch pops the next response.
type Seq struct {
	mu    sync.Mutex
	Queue []Batch
}

func (s *Seq) SubmitBatchTxs(ctx context.Context, req coresequencer.SubmitBatchTxsRequest) (*coresequencer.SubmitBatchTxsResponse, error) {
	return &coresequencer.SubmitBatchTxsResponse{}, nil
}
func (s *Seq) GetNextBatch(ctx context.Context, req coresequencer.GetNextBatchRequest) (*coresequencer.GetNextBatchResponse, error) {
	s.mu.Lock()
	defer s.mu.Unlock()
	if len(s.Queue) == 0 {
		return &coresequencer.GetNextBatchResponse{}, nil
	}
	b := s.Queue[0]
	s.Queue = s.Queue[1:]
	return &coresequencer.GetNextBatchResponse{Batch: &coresequencer.Batch{Transactions: b.Txs}, Timestamp: b.Ts, BatchData: [][]byte{[]byte("c")}}, nil
}
func (s *Seq) VerifyBatch(ctx context.Context, req coresequencer.VerifyBatchRequest) (*coresequencer.VerifyBatchResponse, error) {
	return &coresequencer.VerifyBatchResponse{Status: true}, nil
}

type bcast[T any] struct {
	mu  sync.Mutex
	Got []T
}

func (b *bcast[T]) WriteToStoreAndBroadcast(ctx context.Context, payload T) error {
	b.mu.Lock()
	defer b.mu.Unlock()
	b.Got = append(b.Got, payload)
	return nil
}

// ---- signature payload providers ------------------------------------------------------------------

// Provider returns the harness's id-th types.SignaturePayloadProvider (block.ManagerOptions): 0 is
// types.DefaultSignaturePayloadProvider (the header's bytes); id > 0 signs a domain-separated digest of them, so
// a signature made under one provider never verifies under another.
func Provider(id int) types.SignaturePayloadProvider {
	if id == 0 {
		return types.DefaultSignaturePayloadProvider
	}
	tag := []byte(fmt.Sprintf("verif-c02-payload/%d/", id))
	return func(h *types.Header) ([]byte, error) {
		bz, err := h.MarshalBinary()
		if err != nil {
			return nil, err
		}
		sum := sha256.Sum256(append(append([]byte{}, tag...), bz...))
		return sum[:], nil
	}
}

// NumProviders: ids 0..NumProviders-1 exist (used when a signature is labelled with the provider it verifies under).
const NumProviders = 3

func managerOptions(id int) block.ManagerOptions {
	o := block.DefaultManagerOptions()
	o.SignaturePayloadProvider = Provider(id)
	return o
}

// ---- transient store read faults -------------------------------------------------------------------

var ErrTransientRead = fmt.Errorf("verif: transient store read error")

// FaultStore is the store handed to the syncing Manager.  While armed, its k-th Height() call fails once
// (ArmHeight(k), k >= 1) and / or its GetBlockData calls fail (ArmBlockData); every other call goes to the real store.
// The harness reads the node's state through Node.Store (the real store), never through this wrapper.
type FaultStore struct {
	store.Store
	mu      sync.Mutex
	heightK int // fail the heightK-th Height() call from now (0: off)
	heightN int // Height() calls seen since armed
	blockG  bool
	FiredH  bool // the Height() fault was delivered
	FiredG  bool // a GetBlockData fault was delivered
}

func (f *FaultStore) Arm(k int, g bool) {
	f.mu.Lock()
	defer f.mu.Unlock()
	f.heightK, f.heightN, f.blockG, f.FiredH, f.FiredG = k, 0, g, false, false
}

// Disarm switches the faults off and reports whether they were delivered.
func (f *FaultStore) Disarm() (bool, bool) {
	f.mu.Lock()
	defer f.mu.Unlock()
	f.heightK, f.blockG = 0, false
	return f.FiredH, f.FiredG
}

func (f *FaultStore) Height(ctx context.Context) (uint64, error) {
	f.mu.Lock()
	if f.heightK > 0 {
		f.heightN++
		if f.heightN == f.heightK {
			f.heightK = 0
			f.FiredH = true
			f.mu.Unlock()
			return 0, ErrTransientRead
		}
	}
	f.mu.Unlock()
	return f.Store.Height(ctx)
}

func (f *FaultStore) GetBlockData(ctx context.Context, height uint64) (*types.SignedHeader, *types.Data, error) {
	f.mu.Lock()
	if f.blockG {
		f.FiredG = true
		f.mu.Unlock()
		return nil, nil, ErrTransientRead
	}
	f.mu.Unlock()
	return f.Store.GetBlockData(ctx, height)
}

// ---- the proposer's chain ----------------------------------------------------------------------

const ChainID = "c02chain"

var GenesisTime = time.Unix(1_700_000_000, 0).UTC()

type Chain struct {
	Provider int // signature payload provider of the chain (aggregator and full nodes): see Provider
	Genesis genesis.Genesis
	Signer  signer.Signer
	PubKey  crypto.PubKey
	Initial uint64
	Headers []*types.SignedHeader // index i = height Initial+i, as stored by the aggregator
	Datas   []*types.Data
	Calls   []ExecCall // the aggregator's execution calls, one per block
	States  []types.State
	// what the aggregator would post to the DA layer: one blob per header, one signed-data blob per
	// non-empty block (nil for empty blocks), built by the real createSignedDataToSubmit
	HeaderBlobs [][]byte
	DataBlobs   [][]byte
}

func quietLogger() logging.EventLogger {
	l := logging.Logger("verif-c02")
	_ = logging.SetLogLevel("verif-c02", "fatal")
	return l
}

func baseConfig(rootDir string) config.Config {
	cfg := config.DefaultConfig
	cfg.RootDir = rootDir
	cfg.Node.BlockTime = config.DurationWrapper{Duration: time.Second}
	cfg.DA.BlockTime = config.DurationWrapper{Duration: 6 * time.Second}
	return cfg
}

// Produce runs a real aggregator Manager for 1+len(batches) blocks (the first block of every chain is
// the genesis block the aggregator saved at start-up) and reads the chain back from its store.
func Produce(seed int64, initial uint64, batches []Batch, rootDir string) (*Chain, error) {
	return ProduceP(seed, initial, batches, rootDir, 0)
}

// ProduceP: the aggregator signs with the prov-th signature payload provider (block.ManagerOptions).
func ProduceP(seed int64, initial uint64, batches []Batch, rootDir string, prov int) (*Chain, error) {
	ctx := context.Background()
	var seedBytes [32]byte
	binary.BigEndian.PutUint64(seedBytes[:], uint64(seed))
	priv, pub, err := crypto.GenerateEd25519Key(bytes.NewReader(append(seedBytes[:], seedBytes[:]...)))
	if err != nil {
		return nil, err
	}
	sg, err := noopsigner.NewNoopSigner(priv)
	if err != nil {
		return nil, err
	}
	addr, err := sg.GetAddress()
	if err != nil {
		return nil, err
	}
	gen := genesis.NewGenesis(ChainID, initial, GenesisTime, addr)
	st := store.New(crashds.New())
	ex := &Exec{}
	sq := &Seq{Queue: append([]Batch{}, batches...)}
	m, err := block.NewManager(ctx, sg, baseConfig(rootDir), gen, st, ex, sq, nil, quietLogger(), nil, nil,
		&bcast[*types.SignedHeader]{}, &bcast[*types.Data]{}, block.NopMetrics(), 1, 1, managerOptions(prov))
	if err != nil {
		return nil, fmt.Errorf("aggregator NewManager: %w", err)
	}
	c := &Chain{Provider: prov, Genesis: gen, Signer: sg, PubKey: pub, Initial: initial}
	for i := 0; i < 1+len(batches); i++ {
		if err := m.VerifPublishBlock(ctx); err != nil {
			return nil, fmt.Errorf("aggregator step %d: %w", i, err)
		}
		h, err := st.Height(ctx)
		if err != nil {
			return nil, err
		}
		if h != initial+uint64(i) {
			return nil, fmt.Errorf("aggregator step %d did not commit (height %d)", i, h)
		}
		s, err := st.GetState(ctx)
		if err != nil {
			return nil, err
		}
		c.States = append(c.States, s)
	}
	for i := 0; i < 1+len(batches); i++ {
		h, d, err := st.GetBlockData(ctx, initial+uint64(i))
		if err != nil {
			return nil, err
		}
		c.Headers = append(c.Headers, h)
		c.Datas = append(c.Datas, d)
	}
	sds, err := m.VerifCreateSignedDataToSubmit(ctx)
	if err != nil {
		return nil, fmt.Errorf("createSignedDataToSubmit: %w", err)
	}
	c.DataBlobs = make([][]byte, len(c.Headers))
	for _, sd := range sds {
		i := int(sd.Height() - initial)
		if i < 0 || i >= len(c.Headers) {
			return nil, fmt.Errorf("signed data at height %d outside the chain", sd.Height())
		}
		bz, err := sd.MarshalBinary()
		if err != nil {
			return nil, err
		}
		c.DataBlobs[i] = bz
	}
	for i, h := range c.Headers {
		bz, err := h.MarshalBinary()
		if err != nil {
			return nil, err
		}
		c.HeaderBlobs = append(c.HeaderBlobs, bz)
		if (len(c.Datas[i].Txs) > 0) != (c.DataBlobs[i] != nil) {
			return nil, fmt.Errorf("block %d: signed data blob presence does not match its transactions", i)
		}
	}
	c.Calls = append(c.Calls, ex.Calls...)
	if len(c.Calls) != len(c.Headers) {
		return nil, fmt.Errorf("aggregator made %d execution calls for %d blocks", len(c.Calls), len(c.Headers))
	}
	return c, nil
}

// ---- the syncing node ---------------------------------------------------------------------------

type Node struct {
	Chain   *Chain
	RootDir string
	DS      *crashds.DS
	Store   store.Store // the real store (observations)
	FS      *FaultStore // what the Manager gets: Store behind the read-fault switch
	Exec    *Exec // one log across restarts
	M       *block.Manager
	cancel  context.CancelFunc
	errCh   chan error
	done    chan struct{}
	Dead    bool  // SyncLoop returned by itself (error on errCh)
	LoopErr error
	BootErr error
	// DA ingress scenarios: a DA layer for the real RetrieveLoop, and a hook on the height record
	DA    coreda.DA
	Retr  bool
	rdone chan struct{}
	Hook  *Hook
	// P2P-ingress scenarios: the go-header stores handed to NewManager (nil otherwise)
	HStore goheader.Store[*types.SignedHeader]
	DStore goheader.Store[*types.Data]
}

// Hook lets a scenario act at the instant a block commits (the SetHeight write of height HoldAt /
// StopAt): hold the SyncLoop there until released, or cancel the node's context right there.
type Hook struct {
	HoldAt  uint64
	Release chan struct{}
	Held    bool
	StopAt  uint64
	Stopped bool
	Commits int
}

type hookDS struct {
	*crashds.DS
	n *Node
}

func (h *hookDS) Put(ctx context.Context, k ds.Key, v []byte) error {
	err := h.DS.Put(ctx, k, v)
	hk := h.n.Hook
	if hk != nil && k.String() == "/t" && len(v) == 8 {
		height := binary.LittleEndian.Uint64(v)
		hk.Commits++
		if hk.StopAt != 0 && height == hk.StopAt {
			hk.Stopped = true
			hk.StopAt = 0
			h.n.cancel()
		}
		if hk.HoldAt != 0 && height == hk.HoldAt {
			hk.HoldAt = 0
			hk.Held = true
			<-hk.Release
			hk.Held = false
		}
	}
	return err
}

// NewNode boots a full node (no signer) on the given datastore and starts the unmodified SyncLoop.
func NewNode(c *Chain, rootDir string, d *crashds.DS, ex *Exec) *Node {
	n := &Node{Chain: c, RootDir: rootDir, DS: d, Exec: ex}
	n.boot()
	return n
}

func (n *Node) boot() {
	n.Dead, n.LoopErr, n.BootErr = false, nil, nil
	if n.Hook != nil {
		n.Store = store.New(&hookDS{DS: n.DS, n: n})
	} else {
		n.Store = store.New(n.DS)
	}
	n.FS = &FaultStore{Store: n.Store}
	ctx, cancel := context.WithCancel(context.Background())
	n.cancel = cancel
	m, err := block.NewManager(context.Background(), nil, baseConfig(n.RootDir), n.Chain.Genesis, n.FS, n.Exec, &Seq{}, n.DA, quietLogger(), n.HStore, n.DStore,
		&bcast[*types.SignedHeader]{}, &bcast[*types.Data]{}, block.NopMetrics(), 1, 1, managerOptions(n.Chain.Provider))
	if err != nil {
		n.BootErr = err
		n.M = nil
		return
	}
	n.M = m
	n.errCh = make(chan error, 1)
	n.done = make(chan struct{})
	go func() {
		defer close(n.done)
		m.SyncLoop(ctx, n.errCh)
	}()
	n.rdone = nil
	if n.Retr {
		n.rdone = make(chan struct{})
		go func() {
			defer close(n.rdone)
			m.RetrieveLoop(ctx)
		}()
	}
	synctest.Wait()
}

func (n *Node) settle() {
	synctest.Wait()
	select {
	case err := <-n.errCh:
		n.LoopErr = err
	default:
	}
	select {
	case <-n.done:
		n.Dead = true
	default:
	}
}

// IngressHeader is the header object an ingress path hands to SyncLoop: a private copy (the loop mutates the
// cached header; never share with the chain) with the node's signature payload provider attached, as both
// ingress paths do before they send (block/retriever.go handlePotentialHeader, block/store.go HeaderStoreRetrieveLoop).
func (n *Node) IngressHeader(h *types.SignedHeader) *types.SignedHeader {
	cp := *h
	cp.SetCustomVerifier(Provider(n.Chain.Provider))
	return &cp
}

// DeliverHeader / DeliverData push one event into the running loop and wait until it is quiescent.
func (n *Node) DeliverHeader(h *types.SignedHeader, da uint64) {
	n.DeliverHeaderF(h, da, 0, false)
}
func (n *Node) DeliverData(d *types.Data, da uint64) {
	n.DeliverDataF(d, da, 0, false)
}

// DeliverHeaderF / DeliverDataF: the same while the store's k-th Height() call fails (k = 0: none) and, if g, its
// GetBlockData calls fail — transient read errors, the process lives on.  They report whether the faults were delivered.
func (n *Node) DeliverHeaderF(h *types.SignedHeader, da uint64, k int, g bool) (bool, bool) {
	if n.M == nil {
		return false, false
	}
	n.FS.Arm(k, g)
	n.M.VerifHeaderInCh() <- block.NewHeaderEvent{Header: n.IngressHeader(h), DAHeight: da}
	n.settle()
	return n.FS.Disarm()
}
func (n *Node) DeliverDataF(d *types.Data, da uint64, k int, g bool) (bool, bool) {
	if n.M == nil {
		return false, false
	}
	cp := *d
	n.FS.Arm(k, g)
	n.M.VerifDataInCh() <- block.NewDataEvent{Data: &cp, DAHeight: da}
	n.settle()
	return n.FS.Disarm()
}

// Stop cancels the loop and waits for it to return.
func (n *Node) Stop() {
	if n.M == nil {
		return
	}
	n.cancel()
	if n.Hook != nil && n.Hook.Held {
		n.Hook.Release <- struct{}{}
	}
	<-n.done
	if n.rdone != nil {
		<-n.rdone
	}
	// drain what the dead loop left unread
	for {
		select {
		case <-n.M.VerifHeaderInCh():
			continue
		case <-n.M.VerifDataInCh():
			continue
		default:
		}
		break
	}
}

// RestartClean: stop, save the caches as FullNode.Run does on shutdown, boot a new Manager on the same store.
func (n *Node) RestartClean() error {
	var err error
	if n.M != nil {
		n.Stop()
		err = n.M.SaveCache()
	}
	n.boot()
	return err
}

// CrashTo: the process died when only the first k recorded writes had reached the datastore; a new
// process boots on that image (cache files are whatever the last clean shutdown left).
func (n *Node) CrashTo(k int) {
	if n.M != nil {
		n.Stop()
	}
	n.DS = n.DS.Materialize(k)
	n.boot()
}

func (n *Node) Height() uint64 {
	h, _ := n.Store.Height(context.Background())
	return h
}

func (n *Node) State() (types.State, bool) {
	s, err := n.Store.GetState(context.Background())
	return s, err == nil
}

func (n *Node) Block(h uint64) (*types.SignedHeader, *types.Data, bool) {
	sh, d, err := n.Store.GetBlockData(context.Background(), h)
	return sh, d, err == nil
}

var _ ds.Batching = (*crashds.DS)(nil)

func blockHeaderEvent(h *types.SignedHeader, da uint64) block.NewHeaderEvent {
	return block.NewHeaderEvent{Header: h, DAHeight: da}
}
func blockDataEvent(d *types.Data, da uint64) block.NewDataEvent {
	return block.NewDataEvent{Data: d, DAHeight: da}
}
