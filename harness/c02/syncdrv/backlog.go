package syncdrv

import "math/rand"

// ---- long backlogs behind one missing block ------------------------------------------------------------
// A full node that catches up holds, in its caches, a long run of COMPLETE blocks (header and data, or the
// header of an empty block) above a block of which a part is still missing (the hole).  When the hole is
// filled — by the last fresh event the node ever gets — the whole run has to be applied: nothing else will
// call trySyncNextBlock again (tickers do not, re-deliveries are dropped as seen before it).  The model's
// try_sync has no bound per call (fuel = cached headers + 1); these histories make the code show the same on
// runs of 8..301 blocks, sizes around powers of two and ten (quick tier: up to 257).

// BacklogSizes: the run lengths by stratum (small / around one hundred / around two hundred and 256 / around
// three hundred).  The quick tier uses the first three strata (evaluating the model on a history of n headers
// costs about n^3: the hash link makes a header term as deep as its height), the thorough tier all four.
var BacklogSizes = [][]int{
	{8, 9, 10, 11, 15, 16, 17, 31, 32, 33, 63, 64, 65},
	{99, 100, 101, 102, 127, 128, 129},
	{199, 200, 201, 255, 256, 257},
	{299, 300, 301},
}

// GenBacklog: chain = p blocks delivered in order first (applied at once), the hole, a run of L complete
// blocks, t further blocks that stay incomplete.  Everything above the hole arrives first (five orders), the
// parts of the hole last.  Variants: a clean restart before the hole is filled (the run goes through the
// cache files); the closing event meets a failing store.Height() read inside trySyncNextBlock at the first or
// at a later iteration (SyncLoop returns, the rest of the run is in the files of the clean stop and the
// start-up call of the next process has to apply it); re-deliveries afterwards (dropped as seen).
func GenBacklog(r *rand.Rand, stratum int) (ChainSpec, []Item) {
	sizes := BacklogSizes[stratum%len(BacklogSizes)]
	L := sizes[r.Intn(len(sizes))]
	p := []int{0, 0, 1, 2, 3}[r.Intn(5)]
	t := []int{0, 0, 1, 2}[r.Intn(4)]
	cs := ChainSpec{Initial: []uint64{1, 1, 2, 5, 1000}[r.Intn(5)]}
	if r.Intn(3) == 0 {
		cs.Provider = 1 + r.Intn(NumProviders-1)
	}
	nb := p + 1 + L + t // blocks of the chain, index 0 = the block at the initial height
	mode := r.Intn(3)   // 0: empty blocks only, 1: about half, 2: no empty block
	next := 1
	for i := 1; i < nb; i++ {
		b := BlockSpec{Dt: []int64{0, 0, 0, 0, 1, 1000}[r.Intn(6)]}
		if mode == 2 || (mode == 1 && r.Intn(2) == 0) || (i == p && r.Intn(2) == 0) {
			for k := 1 + r.Intn(2); k > 0; k-- {
				b.Txs = append(b.Txs, next)
				next++
			}
		}
		cs.Blocks = append(cs.Blocks, b)
	}
	empty := func(i int) bool { return i == 0 || len(cs.Blocks[i-1].Txs) == 0 }
	da := func() uint64 { return uint64(r.Intn(20)) }
	var hist []Item
	for i := 0; i < p; i++ {
		hist = append(hist, Item{T: "h", I: i, Da: da()})
		if !empty(i) {
			hist = append(hist, Item{T: "d", I: i, Da: da()})
		}
	}
	// everything above the hole; the t topmost blocks stay incomplete (non-empty: header only; empty: nothing)
	var hs, ds []Item
	for i := p + 1; i < nb; i++ {
		tail := i > p+L
		if !tail || !empty(i) {
			hs = append(hs, Item{T: "h", I: i, Da: da()})
		}
		if !tail && !empty(i) {
			ds = append(ds, Item{T: "d", I: i, Da: da()})
		}
	}
	rev := func(a []Item) []Item {
		out := make([]Item, len(a))
		for i := range a {
			out[len(a)-1-i] = a[i]
		}
		return out
	}
	byBlock := func() []Item { // header, then data, block by block upwards
		var out []Item
		di := 0
		for _, h := range hs {
			out = append(out, h)
			if di < len(ds) && ds[di].I == h.I {
				out = append(out, ds[di])
				di++
			}
		}
		return out
	}
	var above []Item
	switch r.Intn(5) {
	case 0:
		above = rev(byBlock())
	case 1:
		above = byBlock()
	case 2:
		above = append(append([]Item{}, hs...), rev(ds)...)
	case 3:
		above = append(append([]Item{}, ds...), rev(hs)...)
	default:
		above = byBlock()
		r.Shuffle(len(above), func(i, j int) { above[i], above[j] = above[j], above[i] })
	}
	hist = append(hist, above...)
	variant := r.Intn(10)
	if variant < 2 {
		hist = append(hist, Item{T: "restart"})
	}
	// the hole is filled last
	closing := []Item{{T: "h", I: p, Da: da()}}
	if !empty(p) {
		d := Item{T: "d", I: p, Da: da()}
		if r.Intn(2) == 0 {
			closing = append(closing, d)
		} else {
			closing = []Item{d, closing[0]}
		}
	}
	if variant >= 2 && variant < 5 {
		// a height read inside trySyncNextBlock fails while the closing event is handled: at the first
		// iteration, or after some blocks of the run were applied; clean restart; nothing is delivered again
		last := &closing[len(closing)-1]
		if r.Intn(2) == 0 {
			last.F = 2
		} else {
			last.F = 2 + r.Intn(L+1)
		}
		hist = append(hist, closing...)
		hist = append(hist, Item{T: "restart"})
	} else {
		hist = append(hist, closing...)
	}
	if variant >= 5 && variant < 8 {
		// re-deliveries of what the node already has: dropped before trySyncNextBlock
		for k := 3 + r.Intn(8); k > 0; k-- {
			it := above[r.Intn(len(above))]
			it.Da = da()
			hist = append(hist, it)
		}
	}
	return cs, hist
}
