package syncdrv

import (
	"bytes"
	"context"
	"fmt"
	"math/rand"
	"os"
	"strings"
	"testing"
	"testing/synctest"

	goheader "github.com/celestiaorg/go-header"

	"github.com/evstack/ev-node/types"

	"verif/harness/doubles/crashds"
	"verif/harness/vgen"
)

// ---- P2P-ingress scenarios: the REAL HeaderStoreRetrieveLoop / DataStoreRetrieveLoop (+ SyncLoop) ------------
// The node's only ingress is P2P: two fake go-header stores (Height / GetByHeight, the only methods
// block/store.go uses) serve the proposer's chain; the harness moves their head heights between signals
// (bursts of 1..300 heights, stores far ahead of a node that starts or restarts, one store lagging the other,
// a read that fails for a while), sends the signals that SyncLoop's block ticker sends, and lets the loops run
// to quiescence under synctest.  Two modes: "tap" — SyncLoop is stopped and the harness itself takes the
// events from headerInCh / dataInCh, so what each wake-up handed over is observed exactly; "e2e" — the real
// SyncLoop consumes them and the node must reach the height both stores hold.  Every wake-up of every loop
// (store height it got, GetByHeight calls it made, events it sent) is compared with Model/P2PIngress.v
// (cases_C02_p2p.v, Check.P2PIngressCheck); the Go oracle evaluates the property directly.

// P2PChain is the compact description of a long chain (expanded deterministically by Spec).
type P2PChain struct {
	Initial uint64 `json:"initial"`
	N       int    `json:"n"` // blocks after the genesis block
	Seed    int64  `json:"seed"`
	Provider int   `json:"provider,omitempty"` // signature payload provider of the chain (syncdrv.Provider)
}

// Spec: ~30 % empty blocks with runs, every non-empty block has its own transactions (distinct commitments).
func (pc P2PChain) Spec() ChainSpec {
	r := rand.New(rand.NewSource(pc.Seed*7919 + int64(pc.N)*31 + int64(pc.Initial)))
	cs := ChainSpec{Initial: pc.Initial, Provider: pc.Provider}
	next, emptyRun := 1, 0
	for i := 0; i < pc.N; i++ {
		b := BlockSpec{Dt: []int64{0, 1, 1000}[r.Intn(3)]}
		switch {
		case emptyRun > 0:
			emptyRun--
		case r.Intn(100) < 22:
			if r.Intn(3) == 0 {
				emptyRun = 1 + r.Intn(3)
			}
		default:
			for k := 1 + r.Intn(2); k > 0; k-- {
				b.Txs = append(b.Txs, next)
				next++
			}
		}
		cs.Blocks = append(cs.Blocks, b)
	}
	return cs
}

// P2PStep is one step of a scenario.
//
//	"set"     the header store holds the first H blocks of the chain, the data store the first D
//	"sig"     signal the loops named by W ("h", "d", "hd") and run to quiescence
//	"gap"     GetByHeight of store W fails at block At (1-based) until cleared (At = 0)
//	"da"      the DA scan position becomes Da
//	"restart" clean stop at quiescence (SaveCache) and a new process; At = blocks the new process has applied
//	          by other means before its P2P loops start (only ever raises the height)
//	"sigstop" signal both loops and stop the process right after block At commits, events still queued
type P2PStep struct {
	T  string `json:"t"`
	H  int    `json:"h,omitempty"`
	D  int    `json:"d,omitempty"`
	W  string `json:"w,omitempty"`
	At int    `json:"at,omitempty"`
	Da uint64 `json:"da,omitempty"`
}

type P2PScenario struct {
	Chain P2PChain  `json:"chain"`
	Tap   bool      `json:"tap"`  // the harness consumes headerInCh/dataInCh instead of SyncLoop
	Pre   int       `json:"pre"`  // blocks the first process has applied before its P2P loops start
	Junk  []int     `json:"junk"` // blocks (1-based) whose header in the P2P store is not the proposer's (tap only)
	Steps []P2PStep `json:"steps"`
}

// ---- the fake go-header store --------------------------------------------------------------------------------

// FakeP2P implements what block/store.go uses of goheader.Store.  Like the real store, Height() is 0 while
// the store is empty and GetByHeight fails for heights it does not hold.
type FakeP2P[H goheader.Header[H]] struct {
	goheader.Store[H]
	Initial uint64
	Items   []H // index i = height Initial+i
	Junk    map[uint64]H
	N       int    // blocks held: heights Initial .. Initial+N-1
	Gap     uint64 // GetByHeight fails at this height (0 = none)
	clone   func(H) H
	rec     *loopRec
}

func (s *FakeP2P[H]) head() uint64 {
	if s.N <= 0 {
		return 0
	}
	return s.Initial + uint64(s.N) - 1
}

func (s *FakeP2P[H]) Height() uint64 {
	ret := s.head()
	if s.rec != nil {
		s.rec.onHeight(ret, s.Initial, s.Gap)
	}
	return ret
}

func (s *FakeP2P[H]) GetByHeight(ctx context.Context, h uint64) (H, error) {
	var zero H
	ok := s.N > 0 && h >= s.Initial && h <= s.head() && h != s.Gap
	if s.rec != nil {
		s.rec.onGet(h)
	}
	if !ok {
		return zero, fmt.Errorf("fake p2p store: height %d: %w", h, goheader.ErrNotFound)
	}
	if j, isJunk := s.Junk[h]; isJunk {
		return s.clone(j), nil
	}
	return s.clone(s.Items[h-s.Initial]), nil
}

// ---- observations ----------------------------------------------------------------------------------------------

type sigObs struct {
	Store, Tail, Gap, Da uint64
	Reads                []uint64
	Emit                 [][2]uint64 // tap mode: (height, DA tag)
}

type loopObs struct {
	C0   uint64
	Junk []uint64
	Sigs []sigObs
}

type loopRec struct {
	obs   *loopObs
	daNow func() uint64
}

func (r *loopRec) onHeight(ret, tail, gap uint64) {
	r.obs.Sigs = append(r.obs.Sigs, sigObs{Store: ret, Tail: tail, Gap: gap, Da: r.daNow()})
}
func (r *loopRec) onGet(h uint64) {
	if k := len(r.obs.Sigs); k > 0 {
		r.obs.Sigs[k-1].Reads = append(r.obs.Sigs[k-1].Reads, h)
	}
}

type runObs struct {
	Hdr, Data loopObs
	Synced    bool
	Quiescent bool
	HeightEnd uint64
}

type P2PResult struct {
	Chain    *Chain
	Sc       P2PScenario
	Runs     []runObs
	Viol     []Violation
	Known    bool // a loop is wedged (finding fixed by 2ae5bf0): signalled on an empty store (initial height > 1), now every batch read starts below the store's tail
	EmptySig bool // some wake-up found its store empty on a chain with initial height > 1
	MaxJump  uint64
	Restarts int
	Stopped  int
	Applied  int
}

func (r *P2PResult) fail(sig, what string) {
	for _, v := range r.Viol {
		if v.Sig == sig {
			return
		}
	}
	r.Viol = append(r.Viol, Violation{sig, what})
}

// ---- the driver ----------------------------------------------------------------------------------------------------

type p2pDriver struct {
	res     *P2PResult
	sc      P2PScenario
	c       *Chain
	n       *Node
	hs      *FakeP2P[*types.SignedHeader]
	dst     *FakeP2P[*types.Data]
	lcancel context.CancelFunc
	hdone   chan struct{}
	ddone   chan struct{}
	run     *runObs
	maxH    uint64
}

func (d *p2pDriver) top() uint64 { return d.c.Initial + uint64(len(d.c.Headers)) - 1 }

// startProcess: NewManager + SyncLoop, bring the node to [pre] applied blocks by other means, then start the
// two store loops (they read the node's height as their cursor).
func (d *p2pDriver) startProcess(pre int) bool {
	n := d.n
	n.boot()
	if n.BootErr != nil {
		d.res.fail("boot-failed", n.BootErr.Error())
		return false
	}
	for i := 0; i < pre && i < len(d.c.Headers); i++ {
		if d.c.Initial+uint64(i) <= n.Height() {
			continue
		}
		n.DeliverHeader(d.c.Headers[i], 0)
		n.DeliverData(d.c.Datas[i], 0)
	}
	if d.sc.Tap {
		n.cancel()
		<-n.done
	}
	d.res.Runs = append(d.res.Runs, runObs{Synced: !d.sc.Tap, Quiescent: true})
	d.run = &d.res.Runs[len(d.res.Runs)-1]
	d.run.Hdr.C0, d.run.Data.C0 = n.Height(), n.Height()
	for h := range d.hs.Junk {
		d.run.Hdr.Junk = append(d.run.Hdr.Junk, h)
	}
	sortU64(d.run.Hdr.Junk)
	daNow := func() uint64 { return n.M.VerifDAHeight() }
	d.hs.rec = &loopRec{obs: &d.run.Hdr, daNow: daNow}
	d.dst.rec = &loopRec{obs: &d.run.Data, daNow: daNow}
	lctx, lcancel := context.WithCancel(context.Background())
	d.lcancel = lcancel
	d.hdone, d.ddone = make(chan struct{}), make(chan struct{})
	m := n.M
	go func() { defer close(d.hdone); m.HeaderStoreRetrieveLoop(lctx) }()
	go func() { defer close(d.ddone); m.DataStoreRetrieveLoop(lctx) }()
	synctest.Wait()
	return true
}

func (d *p2pDriver) stopLoops() {
	if d.lcancel != nil {
		d.lcancel()
		<-d.hdone
		<-d.ddone
		d.lcancel = nil
	}
	d.hs.rec, d.dst.rec = nil, nil
}

func (d *p2pDriver) signal(w string) {
	m := d.n.M
	if strings.Contains(w, "h") {
		select {
		case m.VerifHeaderStoreCh() <- struct{}{}:
		default:
		}
	}
	if strings.Contains(w, "d") {
		select {
		case m.VerifDataStoreCh() <- struct{}{}:
		default:
		}
	}
	d.n.settle()
	if d.sc.Tap {
		d.drain()
	}
}

// tap mode: take what the loops sent
func (d *p2pDriver) drain() {
	m := d.n.M
	for {
		select {
		case ev := <-m.VerifHeaderInCh():
			if k := len(d.run.Hdr.Sigs); k > 0 {
				d.run.Hdr.Sigs[k-1].Emit = append(d.run.Hdr.Sigs[k-1].Emit, [2]uint64{ev.Header.Height(), ev.DAHeight})
			} else {
				d.res.fail("p2p-event-without-signal", "a header event was sent before any signal")
			}
			continue
		case ev := <-m.VerifDataInCh():
			if k := len(d.run.Data.Sigs); k > 0 {
				d.run.Data.Sigs[k-1].Emit = append(d.run.Data.Sigs[k-1].Emit, [2]uint64{ev.Data.Height(), ev.DAHeight})
			} else {
				d.res.fail("p2p-event-without-signal", "a data event was sent before any signal")
			}
			continue
		default:
		}
		break
	}
}

// endRun: the block ticker keeps signalling both loops for ever; with nothing failing any more, one more
// signal each must have handed over everything the stores hold.  Then the oracle.
func (d *p2pDriver) endRun(quiescent bool) {
	if quiescent {
		d.hs.Gap, d.dst.Gap = 0, 0
		d.signal("hd")
	}
	d.run.Quiescent = quiescent
	d.run.HeightEnd = d.n.Height()
	d.oracleRun()
	d.stopLoops()
}

// the property evaluated directly on what the real loops / the real node did in this process
func (d *p2pDriver) oracleRun() {
	r, c, run := d.res, d.c, d.run
	h := run.HeightEnd
	if h < d.maxH {
		r.fail("height-decreased", fmt.Sprintf("store height went from %d to %d", d.maxH, h))
	}
	if h > d.maxH {
		d.maxH = h
	}
	if d.n.Dead && run.Synced && run.Quiescent {
		r.fail("sync-loop-died", fmt.Sprintf("SyncLoop returned: %v", d.n.LoopErr))
	}
	// the class of the finding repaired by 2ae5bf0 (must not come back): the cursor fell to 0 at a wake-up on
	// an empty store (chain with initial height > 1) and from then on every batch read starts below the
	// store's lowest height and fails
	wedged := func(l *loopObs) bool {
		k := len(l.Sigs)
		if k == 0 || c.Initial <= 1 {
			return false
		}
		last := l.Sigs[k-1]
		sawEmpty := false
		for _, s := range l.Sigs {
			if s.Store == 0 {
				sawEmpty = true
			}
		}
		return sawEmpty && last.Store > 0 && len(last.Reads) > 0 && last.Reads[len(last.Reads)-1] < last.Tail
	}
	if wedged(&run.Hdr) || wedged(&run.Data) {
		r.Known = true
	}
	if c.Initial > 1 {
		for _, l := range []*loopObs{&run.Hdr, &run.Data} {
			for _, sg := range l.Sigs {
				if sg.Store == 0 {
					r.EmptySig = true
				}
			}
		}
	}
	// (a) loop level, tap mode: what was handed over
	if !run.Synced {
		for li, l := range []*loopObs{&run.Hdr, &run.Data} {
			name := []string{"header", "data"}[li]
			junk := map[uint64]bool{}
			for _, j := range l.Junk {
				junk[j] = true
			}
			count := map[uint64]int{}
			var seq []uint64
			for _, s := range l.Sigs {
				for _, e := range s.Emit {
					count[e[0]]++
					seq = append(seq, e[0])
					if e[1] != s.Da {
						r.fail("p2p-event-da-tag", fmt.Sprintf("%s event of height %d tagged with DA height %d, scan position was %d", name, e[0], e[1], s.Da))
					}
					if e[0] > s.Store || junk[e[0]] {
						r.fail("p2p-event-not-in-store", fmt.Sprintf("%s event of height %d, store height %d (junk: %v)", name, e[0], s.Store, junk[e[0]]))
					}
				}
			}
			// since 2ae5bf0 the read position only moves forward: strictly increasing whatever the store heights do
			for i := 1; i < len(seq); i++ {
				if seq[i] <= seq[i-1] {
					r.fail("p2p-loop-order-or-duplicate", fmt.Sprintf("%s loop handed over height %d after height %d", name, seq[i], seq[i-1]))
					break
				}
			}
			if k := len(l.Sigs); k > 0 && run.Quiescent {
				last := l.Sigs[k-1]
				for x := l.C0 + 1; x <= last.Store; x++ {
					if !junk[x] && count[x] == 0 {
						sig := "p2p-loop-height-never-handed-over"
						if wedged(l) {
							sig = "p2p-wedged-after-signal-on-empty-store-initial-gt-1"
						}
						r.fail(sig, fmt.Sprintf("the %s loop started at height %d, the P2P %s store holds every height up to %d and the loop was signalled with nothing failing, but height %d was never handed to the sync loop",
							name, l.C0, name, last.Store, x))
						break
					}
				}
			}
		}
		return
	}
	// (b) node level: both parts of every block up to H are in the P2P stores, the loops were signalled
	// after that with nothing failing — the node must have applied H
	if run.Quiescent {
		H := d.hs.head()
		if x := d.dst.head(); x < H {
			H = x
		}
		if H > d.top() {
			H = d.top()
		}
		if h < H {
			sig := "p2p-ingress-height-not-applied"
			if wedged(&run.Hdr) || wedged(&run.Data) {
				sig = "p2p-wedged-after-signal-on-empty-store-initial-gt-1"
			}
			r.fail(sig, fmt.Sprintf("header and data of every block up to height %d are in the node's P2P stores (header store height %d, data store height %d) and both loops were signalled afterwards, but the node stays at height %d (it started this process at height %d)",
				H, d.hs.head(), d.dst.head(), h, run.Hdr.C0))
		}
	}
	// the node holds exactly the proposer's blocks and state, executed each height once, in order
	if h > d.top() {
		r.fail("height-beyond-chain", fmt.Sprintf("height %d beyond the proposer's chain", h))
		h = d.top()
	}
	for x := c.Initial; x <= h; x++ {
		i := int(x - c.Initial)
		sh, dat, ok := d.n.Block(x)
		if !ok || !bytes.Equal(sh.Hash(), c.Headers[i].Hash()) || !sameTxs(dat.Txs, c.Datas[i].Txs) {
			r.fail("block-differs", fmt.Sprintf("block at height %d is not the proposer's", x))
			break
		}
	}
	if h >= c.Initial {
		if s, ok := d.n.State(); !ok || s.LastBlockHeight != h || !bytes.Equal(s.AppHash, c.States[h-c.Initial].AppHash) {
			r.fail("state-not-at-height", fmt.Sprintf("recorded state does not correspond to chain height %d", h))
		}
	}
	for i, call := range d.n.Exec.Calls {
		want := c.Initial + uint64(i)
		if call.Height != want {
			r.fail("exec-out-of-order", fmt.Sprintf("ExecuteTxs call %d at height %d, expected %d", i, call.Height, want))
			break
		}
		if int(want-c.Initial) < len(c.Calls) && !bytes.Equal(call.Root, c.Calls[want-c.Initial].Root) {
			r.fail("exec-differs", fmt.Sprintf("ExecuteTxs at height %d differs from the proposer's", call.Height))
			break
		}
	}
}

func sortU64(a []uint64) {
	for i := 1; i < len(a); i++ {
		for j := i; j > 0 && a[j] < a[j-1]; j-- {
			a[j], a[j-1] = a[j-1], a[j]
		}
	}
}

// RunP2PScenario drives one scenario in its own bubble.
func RunP2PScenario(t *testing.T, c *Chain, sc P2PScenario, tmp string) *P2PResult {
	res := &P2PResult{Chain: c, Sc: sc}
	dir, err := os.MkdirTemp(tmp, "p2pnode")
	if err != nil {
		t.Fatal(err)
	}
	defer os.RemoveAll(dir)
	synctest.Test(t, func(t *testing.T) {
		hook := &Hook{Release: make(chan struct{})}
		hs := &FakeP2P[*types.SignedHeader]{Initial: c.Initial, Items: c.Headers, Junk: map[uint64]*types.SignedHeader{},
			clone: func(h *types.SignedHeader) *types.SignedHeader { cp := *h; return &cp }}
		dst := &FakeP2P[*types.Data]{Initial: c.Initial, Items: c.Datas,
			clone: func(x *types.Data) *types.Data { cp := *x; return &cp }}
		n := &Node{Chain: c, RootDir: dir, DS: crashds.New(), Exec: &Exec{}, Hook: hook, HStore: hs, DStore: dst}
		d := &p2pDriver{res: res, sc: sc, c: c, n: n, hs: hs, dst: dst}
		defer func() {
			if x := recover(); x != nil {
				res.fail("panic", fmt.Sprint(x))
				if d.lcancel != nil {
					d.lcancel()
				}
				if n.M != nil {
					n.cancel()
				}
			}
		}()
		if sc.Tap {
			for _, j := range sc.Junk {
				if j >= 1 && j <= len(c.Headers) {
					cp := *c.Headers[j-1]
					cp.ProposerAddress = append([]byte{0x6a}, cp.ProposerAddress...)
					hs.Junk[c.Initial+uint64(j)-1] = &cp
				}
			}
		}
		if !d.startProcess(sc.Pre) {
			return
		}
		for h, j := range hs.Junk {
			if n.M.VerifIsUsingExpectedSingleSequencer(j) {
				res.fail("harness-junk-accepted", fmt.Sprintf("the junk header at height %d passes isUsingExpectedSingleSequencer", h))
			}
		}
		clamp := func(x int) int {
			if x < 0 {
				return 0
			}
			if x > len(c.Headers) {
				return len(c.Headers)
			}
			return x
		}
		restart := func(pre int) bool {
			n.Stop()
			if err := n.M.SaveCache(); err != nil {
				res.fail("save-cache-failed", err.Error())
			}
			hook.HoldAt, hook.StopAt, hook.Stopped = 0, 0, false
			res.Restarts++
			return d.startProcess(pre)
		}
		for _, st := range sc.Steps {
			switch st.T {
			case "set":
				oh, od := hs.N, dst.N
				hs.N, dst.N = clamp(st.H), clamp(st.D)
				for _, p := range [][2]int{{oh, hs.N}, {od, dst.N}} {
					if p[1] > p[0] && uint64(p[1]-p[0]) > res.MaxJump {
						res.MaxJump = uint64(p[1] - p[0])
					}
				}
			case "sig":
				d.signal(st.W)
			case "gap":
				g := uint64(0)
				if st.At > 0 {
					g = c.Initial + uint64(st.At) - 1
				}
				if st.W == "d" {
					dst.Gap = g
				} else {
					hs.Gap = g
				}
			case "da":
				n.M.VerifSetDAHeight(st.Da)
			case "restart":
				d.endRun(true)
				if !restart(st.At) {
					return
				}
			case "sigstop":
				if sc.Tap || st.At <= 0 {
					d.signal("hd")
					break
				}
				hook.StopAt = c.Initial + uint64(st.At) - 1
				d.signal("hd")
				if hook.Stopped {
					res.Stopped++
					d.endRun(false)
					if !restart(0) {
						return
					}
				} else {
					hook.StopAt = 0
				}
			default:
				t.Fatalf("bad p2p step %q", st.T)
			}
		}
		d.endRun(true)
		if h := n.Height(); h >= c.Initial {
			res.Applied = int(h-c.Initial) + 1
		}
		n.Stop()
	})
	return res
}

// ---- projection onto Check/P2PIngressCheck.v ---------------------------------------------------------------------

func rleReads(a []uint64) string {
	var segs []string
	for i := 0; i < len(a); {
		j := i
		for j+1 < len(a) && a[j+1] == a[j]+1 {
			j++
		}
		segs = append(segs, fmt.Sprintf("(%s, %s)", vgen.N(a[i]), vgen.N(uint64(j-i+1))))
		i = j + 1
	}
	return vgen.List(segs)
}

func rleEmit(a [][2]uint64) string {
	var segs []string
	for i := 0; i < len(a); {
		j := i
		for j+1 < len(a) && a[j+1][0] == a[j][0]+1 && a[j+1][1] == a[j][1] {
			j++
		}
		segs = append(segs, fmt.Sprintf("(%s, %s, %s)", vgen.N(a[i][0]), vgen.N(uint64(j-i+1)), vgen.N(a[i][1])))
		i = j + 1
	}
	return vgen.List(segs)
}

func (l *loopObs) coq(tap bool) string {
	var junk, sigs, reads, emit []string
	for _, j := range l.Junk {
		junk = append(junk, vgen.N(j))
	}
	for _, s := range l.Sigs {
		gap := "None"
		if s.Gap != 0 {
			gap = "Some " + vgen.N(s.Gap)
		}
		sigs = append(sigs, fmt.Sprintf("{| ps_store := %s; ps_tail := %s; ps_gap := %s; ps_da := %s |}", vgen.N(s.Store), vgen.N(s.Tail), gap, vgen.N(s.Da)))
		reads = append(reads, rleReads(s.Reads))
		emit = append(emit, rleEmit(s.Emit))
	}
	em := "None"
	if tap {
		em = "Some " + vgen.List(emit)
	}
	return fmt.Sprintf("{| lr_c0 := %s; lr_junk := %s; lr_sigs := %s; lr_reads := %s; lr_emit := %s |}",
		vgen.N(l.C0), vgen.List(junk), vgen.List(sigs), vgen.List(reads), em)
}

// CoqCase: the scenario's observations as a term of type pcase.
func (r *P2PResult) CoqCase() string {
	var runs []string
	for i := range r.Runs {
		ru := &r.Runs[i]
		runs = append(runs, fmt.Sprintf("{| pr_hdr := %s;\n  pr_data := %s;\n  pr_synced := %s; pr_quiescent := %s; pr_height_end := %s |}",
			ru.Hdr.coq(!ru.Synced), ru.Data.coq(!ru.Synced), vgen.Bool(ru.Synced), vgen.Bool(ru.Quiescent), vgen.N(ru.HeightEnd)))
	}
	return fmt.Sprintf("{| pc_initial := %s; pc_len := %s; pc_runs := %s |}", vgen.N(r.Chain.Initial), vgen.N(uint64(len(r.Chain.Headers))), vgen.List(runs))
}

const P2PCoqHeader = "From Coq Require Import String NArith ZArith List Bool.\nFrom Verif Require Import Model.P2PIngress Check.P2PIngressCheck."

// ---- generation ------------------------------------------------------------------------------------------------------

func p2pJump(r *rand.Rand) int {
	switch x := r.Intn(10); {
	case x < 3:
		return 1 + r.Intn(5)
	case x < 6:
		return 6 + r.Intn(95)
	default:
		return 101 + r.Intn(200)
	}
}

// GenP2PScenario: the stores start empty or already far ahead of the node; then 4..11 steps: mostly "a
// burst arrives at one or both stores, then the ticker signals", interleaved with redundant signals, a
// transient read failure, DA position changes, clean restarts (with the node possibly advanced by other
// means meanwhile) and a stop in the middle of a burst.  Some tap scenarios let a store height go down.
func GenP2PScenario(r *rand.Rand, chain P2PChain) P2PScenario {
	L := chain.N + 1
	sc := P2PScenario{Chain: chain, Tap: r.Intn(2) == 0}
	h, dd := 0, 0
	if r.Intn(4) == 0 {
		sc.Pre = r.Intn(60)
	}
	clampL := func(x int) int {
		if x > L {
			return L
		}
		return x
	}
	if r.Intn(3) == 0 {
		h = clampL(sc.Pre + p2pJump(r))
		dd = h
		if r.Intn(3) == 0 {
			dd = clampL(sc.Pre + p2pJump(r))
		}
	}
	if sc.Tap {
		for k := r.Intn(4); k > 0; k-- {
			sc.Junk = append(sc.Junk, 1+r.Intn(L))
		}
	}
	sc.Steps = append(sc.Steps, P2PStep{T: "set", H: h, D: dd})
	if r.Intn(3) > 0 {
		sc.Steps = append(sc.Steps, P2PStep{T: "sig", W: "hd"})
	}
	ws := []string{"hd", "hd", "hd", "h", "d"}
	for k := 4 + r.Intn(8); k > 0; k-- {
		switch x := r.Intn(20); {
		case x < 11: // a burst, then the tick
			switch r.Intn(4) {
			case 0:
				h = clampL(h + p2pJump(r))
			case 1:
				dd = clampL(dd + p2pJump(r))
			default:
				j := p2pJump(r)
				h, dd = clampL(h+j), clampL(dd+j)
				if r.Intn(3) == 0 { // the two stores level
					if h > dd {
						dd = h
					} else {
						h = dd
					}
				}
			}
			sc.Steps = append(sc.Steps, P2PStep{T: "set", H: h, D: dd}, P2PStep{T: "sig", W: ws[r.Intn(len(ws))]})
		case x < 13:
			sc.Steps = append(sc.Steps, P2PStep{T: "sig", W: ws[r.Intn(len(ws))]})
		case x < 15: // a read fails at the next signal(s), then works again
			w := []string{"h", "d"}[r.Intn(2)]
			j := p2pJump(r)
			h, dd = clampL(h+j), clampL(dd+j)
			at := h
			if w == "d" {
				at = dd
			}
			if at > 0 {
				at -= r.Intn(min(at, 1+j)) // a height of the burst (or just below it)
			}
			sc.Steps = append(sc.Steps, P2PStep{T: "gap", W: w, At: at}, P2PStep{T: "set", H: h, D: dd}, P2PStep{T: "sig", W: "hd"})
			if r.Intn(2) == 0 {
				sc.Steps = append(sc.Steps, P2PStep{T: "sig", W: "hd"})
			}
			sc.Steps = append(sc.Steps, P2PStep{T: "gap", W: w, At: 0}, P2PStep{T: "sig", W: "hd"})
		case x < 16:
			sc.Steps = append(sc.Steps, P2PStep{T: "da", Da: uint64(r.Intn(50))})
		case x < 18:
			pre := 0
			if r.Intn(3) == 0 {
				pre = min(h, dd) + r.Intn(40) // the node got further by other means while it was down
			}
			sc.Steps = append(sc.Steps, P2PStep{T: "restart", At: pre})
			// while the node was down the stores went on
			if r.Intn(2) == 0 {
				j := p2pJump(r)
				h, dd = clampL(h+j), clampL(dd+j)
				sc.Steps = append(sc.Steps, P2PStep{T: "set", H: h, D: dd})
			}
			sc.Steps = append(sc.Steps, P2PStep{T: "sig", W: "hd"})
		case x < 19:
			if sc.Tap {
				if r.Intn(3) == 0 && h > 3 { // a store whose height goes down (outside go-header's contract)
					h -= 1 + r.Intn(min(h-1, 30))
					sc.Steps = append(sc.Steps, P2PStep{T: "set", H: h, D: dd}, P2PStep{T: "sig", W: "hd"})
				}
			} else {
				lo := min(h, dd)
				j := p2pJump(r)
				h, dd = clampL(h+j), clampL(dd+j)
				if min(h, dd) > lo {
					sc.Steps = append(sc.Steps, P2PStep{T: "set", H: h, D: dd},
						P2PStep{T: "sigstop", At: lo + 1 + r.Intn(min(h, dd)-lo)}, P2PStep{T: "sig", W: "hd"})
				}
			}
		default:
			sc.Steps = append(sc.Steps, P2PStep{T: "sig", W: "hd"})
		}
	}
	return sc
}
