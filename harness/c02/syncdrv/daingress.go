package syncdrv

import (
	"bytes"
	"context"
	"encoding/binary"
	"fmt"
	"math/rand"
	"os"
	"testing"
	"testing/synctest"
	"time"

	coreda "github.com/evstack/ev-node/core/da"

	"verif/harness/doubles/crashds"
)

// ---- DA-ingress scenarios: the REAL RetrieveLoop + SyncLoop on a scripted DA layer ------------------
// The chain's header blobs and signed-data blobs are placed at generated DA heights (several per height,
// out of block order); some parts are only available by P2P (delivered as events tagged with the
// current DA scan position, as Header/DataStoreRetrieveLoop do).  The node is stopped cleanly (SaveCache)
// or killed at a generated instant — in particular right after a block commits while fetched events are
// still buffered in the channels — restarted with NewManager on the same store / root dir, and must
// reach the proposer's height with the DA layer unchanged.  Oracle only (no Coq model of the retriever
// here: C09 models the scan).

// SimDA: blobs per DA height; heights above Max are "from the future".  While Gated, every GetIDs
// waits for a token, so the scenario decides how far the scan has got.
type SimDA struct {
	coreda.DA
	Blobs map[uint64][][]byte
	Max   uint64
	Gated bool
	Gate  chan struct{}
	Calls []uint64
}

func (d *SimDA) GetIDs(ctx context.Context, h uint64, ns []byte) (*coreda.GetIDsResult, error) {
	if d.Gated {
		select {
		case <-d.Gate:
		case <-ctx.Done():
			return nil, ctx.Err()
		}
	}
	d.Calls = append(d.Calls, h)
	if h > d.Max {
		return nil, fmt.Errorf("sim: %w", coreda.ErrHeightFromFuture)
	}
	bs := d.Blobs[h]
	if len(bs) == 0 {
		return nil, fmt.Errorf("sim: %w", coreda.ErrBlobNotFound)
	}
	ids := make([][]byte, len(bs))
	for i := range bs {
		id := make([]byte, 12)
		binary.BigEndian.PutUint64(id, h)
		binary.BigEndian.PutUint32(id[8:], uint32(i))
		ids[i] = id
	}
	return &coreda.GetIDsResult{IDs: ids, Timestamp: GenesisTime}, nil
}

func (d *SimDA) Get(ctx context.Context, ids []coreda.ID, ns []byte) ([]coreda.Blob, error) {
	var out [][]byte
	for _, id := range ids {
		h := binary.BigEndian.Uint64(id)
		i := int(binary.BigEndian.Uint32(id[8:]))
		if i >= len(d.Blobs[h]) {
			return nil, fmt.Errorf("sim: bad id")
		}
		out = append(out, d.Blobs[h][i])
	}
	return out, nil
}

// DAScenario is the replayable description of one DA-ingress case.
type DAScenario struct {
	Chain ChainSpec `json:"chain"`
	// placement per block: DA height of the header blob / data blob; 0 = not on DA (P2P only)
	HdrDA  []uint64 `json:"hdr_da"`
	DataDA []uint64 `json:"data_da"`
	// first process: hold SyncLoop inside the commit of block HoldAt (index+1; 0 = never) after
	// delivering the P2P parts listed in P2PFirst; meanwhile the retriever scans Scan DA heights; then
	// the P2P parts in P2PThen are delivered (tagged with the scan position reached); then the hold is
	// released and the node is stopped at the commit of block StopAt (index+1; 0 = at quiescence)
	P2PFirst []Item `json:"p2p_first"`
	HoldAt   int    `json:"hold_at"`
	Scan     int    `json:"scan"`
	P2PThen  []Item `json:"p2p_then"`
	StopAt   int    `json:"stop_at"`
	Crash    bool   `json:"crash"` // kill (caches and buffers lost) instead of a clean stop (SaveCache)
	// Backlog (block index+1; 0 = none): the DA height of that block's header carries, ahead of it, as many
	// further copies of the header blob as headerInCh has capacity (re-submitted blobs; the retriever hands
	// over every copy until SyncLoop has marked the header seen) — with SyncLoop held inside a commit the
	// ingress channel is full when the retriever reaches the blobs behind them, and it has to wait
	Backlog int `json:"backlog,omitempty"`
}

type DAResult struct {
	Viol        []Violation
	HeightStop  uint64 // store height when the first process ended
	HeightEnd   uint64
	StoppedAt   bool // the stop hook fired at a commit
	StateDAStop uint64
}

func (n *Node) kickRetriever() {
	select {
	case n.M.VerifRetrieveCh() <- struct{}{}:
	default:
	}
}

func (n *Node) p2p(c *Chain, it Item) {
	if n.M == nil || n.Dead {
		return
	}
	da := n.M.VerifDAHeight()
	if it.T == "h" {
		n.M.VerifHeaderInCh() <- blockHeaderEvent(n.IngressHeader(c.Headers[it.I]), da)
	} else {
		cp := *c.Datas[it.I]
		n.M.VerifDataInCh() <- blockDataEvent(&cp, da)
	}
	synctest.Wait()
}

// RunDAScenario drives one scenario in its own bubble.
func RunDAScenario(t *testing.T, c *Chain, sc DAScenario, tmp string) *DAResult {
	res := &DAResult{}
	fail := func(sig, what string) {
		for _, v := range res.Viol {
			if v.Sig == sig {
				return
			}
		}
		res.Viol = append(res.Viol, Violation{sig, what})
	}
	dir, err := os.MkdirTemp(tmp, "danode")
	if err != nil {
		t.Fatal(err)
	}
	defer os.RemoveAll(dir)
	synctest.Test(t, func(t *testing.T) {
		da := &SimDA{Blobs: map[uint64][][]byte{}, Gated: true, Gate: make(chan struct{})}
		for i := range c.Headers {
			if h := sc.HdrDA[i]; h > 0 {
				da.Blobs[h] = append(da.Blobs[h], c.HeaderBlobs[i])
				if h > da.Max {
					da.Max = h
				}
			}
			if h := sc.DataDA[i]; h > 0 && c.DataBlobs[i] != nil {
				da.Blobs[h] = append(da.Blobs[h], c.DataBlobs[i])
				if h > da.Max {
					da.Max = h
				}
			}
		}
		hook := &Hook{Release: make(chan struct{})}
		n := &Node{Chain: c, RootDir: dir, DS: crashds.New(), Exec: &Exec{}, DA: da, Retr: true, Hook: hook}
		defer func() {
			if x := recover(); x != nil {
				fail("panic", fmt.Sprint(x))
				if n.M != nil {
					n.cancel()
				}
			}
		}()
		n.boot()
		if n.BootErr != nil {
			fail("boot-failed", n.BootErr.Error())
			return
		}
		top := c.Initial + uint64(len(c.Headers)) - 1
		if b := sc.Backlog; b > 0 && b <= len(c.Headers) && sc.HdrDA[b-1] > 0 {
			h := sc.HdrDA[b-1]
			copies := make([][]byte, cap(n.M.VerifHeaderInCh()))
			for i := range copies {
				copies[i] = c.HeaderBlobs[b-1]
			}
			da.Blobs[h] = append(copies, da.Blobs[h]...)
		}
		// ---- first process
		if sc.HoldAt > 0 {
			hook.HoldAt = c.Initial + uint64(sc.HoldAt) - 1
		}
		for _, it := range sc.P2PFirst {
			n.p2p(c, it)
		}
		n.kickRetriever()
		synctest.Wait()
		for k := 0; k < sc.Scan; k++ {
			select {
			case da.Gate <- struct{}{}:
			default: // the retriever is not asking (waiting for the next tick after a future height)
				n.kickRetriever()
				synctest.Wait()
				select {
				case da.Gate <- struct{}{}:
				default:
				}
			}
			synctest.Wait()
		}
		for _, it := range sc.P2PThen {
			n.p2p(c, it)
		}
		if sc.StopAt > 0 {
			hook.StopAt = c.Initial + uint64(sc.StopAt) - 1
		}
		if hook.Held {
			hook.Release <- struct{}{}
		}
		synctest.Wait()
		if !hook.Stopped {
			// no stop at a commit: let the scan run on to quiescence (or to the stop hook)
			da.Gated = false
			for r := 0; r < 3 && !hook.Stopped; r++ {
				select {
				case da.Gate <- struct{}{}:
				default:
				}
				n.kickRetriever()
				time.Sleep(7 * time.Second)
				synctest.Wait()
			}
		}
		res.StoppedAt = hook.Stopped
		if sc.Backlog > 0 && !hook.Stopped && !n.Dead && n.Height() < top {
			fail("da-ingress-backlog-dropped", fmt.Sprintf("every header and data of the chain is on the DA layer (the DA height of one header also carries %d re-submitted copies of it); the first process scanned the whole DA layer and ran to quiescence but stays at height %d, proposer's height %d",
				cap(n.M.VerifHeaderInCh()), n.Height(), top))
		}
		n.Stop()
		res.HeightStop = n.Height()
		if s, ok := n.State(); ok {
			res.StateDAStop = s.DAHeight
		}
		// ---- restart: clean (SaveCache) or kill; the DA layer is unchanged and no longer gated
		da.Gated = false
		hook.HoldAt, hook.StopAt, hook.Stopped = 0, 0, false
		if sc.Crash {
			n.DS = n.DS.Materialize(n.DS.Len())
		} else if err := n.M.SaveCache(); err != nil {
			fail("save-cache-failed", err.Error())
		}
		n.boot()
		if n.BootErr != nil {
			fail("boot-failed", n.BootErr.Error())
			return
		}
		// P2P serves again everything above the node's height (Header/DataStoreRetrieveLoop start there)
		redeliver := func() {
			for i := range c.Headers {
				if c.Initial+uint64(i) <= n.Height() {
					continue
				}
				if sc.HdrDA[i] == 0 {
					n.p2p(c, Item{T: "h", I: i})
				}
				if sc.DataDA[i] == 0 && len(c.Datas[i].Txs) > 0 {
					n.p2p(c, Item{T: "d", I: i})
				}
			}
		}
		redeliver()
		for r := 0; r < 4; r++ {
			n.kickRetriever()
			time.Sleep(7 * time.Second)
			synctest.Wait()
		}
		redeliver()
		time.Sleep(7 * time.Second)
		synctest.Wait()
		res.HeightEnd = n.Height()
		if n.Dead {
			fail("sync-loop-died", fmt.Sprintf("SyncLoop returned: %v", n.LoopErr))
		}
		if res.HeightEnd < top {
			mode := "clean stop"
			if sc.Crash {
				mode = "kill"
			}
			fail("da-ingress-restart-stuck", fmt.Sprintf("every header and data of the chain is on the DA layer or served by P2P, but after a %s at height %d (persisted State.DAHeight %d) and a restart the node stays at height %d, proposer's height %d",
				mode, res.HeightStop, res.StateDAStop, res.HeightEnd, top))
		}
		for h := c.Initial; h <= res.HeightEnd && h <= top; h++ {
			i := int(h - c.Initial)
			sh, d, ok := n.Block(h)
			if !ok || !bytes.Equal(sh.Hash(), c.Headers[i].Hash()) || !sameTxs(d.Txs, c.Datas[i].Txs) {
				fail("da-ingress-block-differs", fmt.Sprintf("block at height %d is not the proposer's", h))
			}
		}
		if s, ok := n.State(); ok && res.HeightEnd >= c.Initial && int(res.HeightEnd-c.Initial) < len(c.States) {
			if !bytes.Equal(s.AppHash, c.States[res.HeightEnd-c.Initial].AppHash) || s.LastBlockHeight != res.HeightEnd {
				fail("da-ingress-state-differs", "recorded state is not the proposer's state at the node's height")
			}
		}
		n.Stop()
	})
	return res
}

// GenDAScenario: chains of 3..6 blocks; every part is placed on a DA height in 1..K (several per height,
// out of block order) or is P2P-only; the first process is biased to the pattern "SyncLoop busy in a
// commit while the retriever runs ahead, then a P2P header tagged with the advanced scan position
// triggers a commit, stop right there".
func GenDAScenario(r *rand.Rand) DAScenario {
	if r.Intn(2) == 0 {
		return genDABehind(r)
	}
	spec := GenChain(r, 5, false)
	nb := 1 + len(spec.Blocks)
	sc := DAScenario{Chain: spec, HdrDA: make([]uint64, nb), DataDA: make([]uint64, nb)}
	K := uint64(2 + r.Intn(4))
	p2pH := map[int]bool{}
	for i := 0; i < nb; i++ {
		empty := i == 0 || len(spec.Blocks[i-1].Txs) == 0
		if i <= 1 || r.Intn(4) == 0 {
			p2pH[i] = true // header by P2P only
		} else {
			sc.HdrDA[i] = 1 + uint64(r.Intn(int(K)))
		}
		if !empty {
			if r.Intn(6) == 0 {
				sc.DataDA[i] = 0
			} else {
				sc.DataDA[i] = 1 + uint64(r.Intn(int(K)))
			}
		}
	}
	// first process
	sc.P2PFirst = []Item{{T: "h", I: 0}}
	sc.HoldAt = 1
	sc.Scan = 1 + r.Intn(int(K)+2)
	for i := 1; i < nb; i++ {
		if p2pH[i] {
			sc.P2PThen = append(sc.P2PThen, Item{T: "h", I: i})
		}
		empty := len(spec.Blocks[i-1].Txs) == 0
		if !empty && sc.DataDA[i] == 0 {
			sc.P2PThen = append(sc.P2PThen, Item{T: "d", I: i})
		}
	}
	switch r.Intn(5) {
	case 0:
		sc.StopAt = 0
	default:
		sc.StopAt = 2 + r.Intn(nb-1)
	}
	if r.Intn(6) == 0 {
		sc.HoldAt = 0
	}
	sc.Crash = r.Intn(2) == 0
	return sc
}

// genDABehind: the data blobs of blocks 2.. sit at LOW DA heights, their headers at higher ones, blocks
// 0 and 1 (empty) come by P2P.  While SyncLoop is busy committing block 0 the retriever fetches the low
// heights (data events buffered in dataInCh); then the P2P header of block 1 arrives, tagged with the
// advanced scan position; the node is stopped right after block 1 commits.  Whatever data event SyncLoop
// had not yet taken from the channel is lost and must be fetched again after the restart.
func genDABehind(r *rand.Rand) DAScenario {
	spec := ChainSpec{Initial: []uint64{1, 1, 2, 7}[r.Intn(4)]}
	spec.Blocks = append(spec.Blocks, BlockSpec{Dt: 1000}) // block 1: empty
	n := 2 + r.Intn(3)
	next := 1
	for i := 0; i < n; i++ {
		b := BlockSpec{Dt: int64(r.Intn(3)) * 500}
		for k := 1 + r.Intn(2); k > 0; k-- {
			b.Txs = append(b.Txs, next)
			next++
		}
		spec.Blocks = append(spec.Blocks, b)
	}
	nb := 1 + len(spec.Blocks)
	sc := DAScenario{Chain: spec, HdrDA: make([]uint64, nb), DataDA: make([]uint64, nb)}
	a := uint64(1 + r.Intn(2))
	for i := 2; i < nb; i++ {
		sc.DataDA[i] = 1 + uint64(r.Intn(int(a)))
		sc.HdrDA[i] = a + 1 + uint64(r.Intn(3))
	}
	sc.P2PFirst = []Item{{T: "h", I: 0}}
	sc.HoldAt = 1
	sc.Scan = int(a) + 1 // DA height 0 (nothing) and 1..a
	sc.P2PThen = []Item{{T: "h", I: 1}}
	sc.StopAt = 2
	sc.Crash = r.Intn(2) == 0
	return sc
}

// GenDABacklog: ingress back-pressure.  Block 0 (empty) comes by P2P and SyncLoop is held inside its commit;
// every other part is on the DA layer, block i at DA height i (data ahead of the header or behind it); the
// DA height of block 1's header also carries a channel-capacity of re-submitted copies of that header, ahead
// of everything else at that height.  The retriever scans on while SyncLoop is held; then SyncLoop is
// released and the first process must reach the proposer's height without a restart.
func GenDABacklog(r *rand.Rand) DAScenario {
	spec := GenChain(r, 4, false)
	nb := 1 + len(spec.Blocks)
	sc := DAScenario{Chain: spec, HdrDA: make([]uint64, nb), DataDA: make([]uint64, nb)}
	for i := 1; i < nb; i++ {
		sc.HdrDA[i] = uint64(i)
		sc.DataDA[i] = uint64(1 + r.Intn(i))
	}
	sc.P2PFirst = []Item{{T: "h", I: 0}}
	sc.HoldAt = 1
	sc.Scan = nb + 1
	sc.Backlog = 2
	sc.Crash = r.Intn(2) == 0
	return sc
}
