package syncdrv

import (
	"bytes"
	"context"
	"encoding/binary"
	"errors"
	"fmt"
	"math/rand"
	"os"
	"testing"
	"testing/synctest"
	"time"

	coreda "github.com/evstack/ev-node/core/da"

	"verif/harness/doubles/crashds"
	"verif/harness/vgen"
)

// ---- DA-ingress scenarios: the REAL RetrieveLoop + SyncLoop on a scripted DA layer ------------------
// The chain's header blobs and signed-data blobs are placed at generated DA heights (several per height,
// out of block order); some parts are only available by P2P (delivered as events tagged with the
// current DA scan position, as Header/DataStoreRetrieveLoop do).  The node is stopped cleanly (SaveCache)
// or killed at a generated instant — in particular right after a block commits while fetched events are
// still buffered in the channels — restarted with NewManager on the same store / root dir, and must
// reach the proposer's height with the DA layer unchanged.  Oracle only (no Coq model of the retriever
// here: C09 models the scan).

// SimDA: blobs per DA height; heights above Max are "from the future".  While Gated, every GetIDs
// waits for a token, so the scenario decides how far the scan has got.  Faults: per DA height the outcomes the
// layer gives to the successive requests for that height (one per GetIDs call; when the script is used up the
// height is served normally).  Every request served is recorded in Reqs.
type SimDA struct {
	coreda.DA
	Blobs map[uint64][][]byte
	Max   uint64
	Gated bool
	Gate  chan struct{}
	Calls []uint64
	// fault scripts
	Faults  map[uint64][]DAFault
	pos     map[uint64]int
	pendGet map[uint64]int // class+1 of the error the next Get for that height returns
	Reqs    []DAReq
}

// DAFault is the outcome of one request for a DA height.  Site "ids": GetIDs returns an error of class Class;
// "get": GetIDs lists the ids, the Get call for them returns the error; "hang": GetIDs does not answer until the
// request's own context ends (the 30 s dAefetcherTimeout of fetchBlobs) and returns that context's error.
type DAFault struct {
	Site  string `json:"site"`
	Class int    `json:"class"`
}

// error classes of a DA request (Model/DAIngress.v derr, in this order)
const (
	DAErrGeneric = iota
	DAErrDeadlineCtx
	DAErrDeadlineDA
	DAErrCanceledCtx
	DAErrCanceledDA
	DAErrFuture
	DAErrNotFound
	NumDAErrClasses
)

var daErrCoq = []string{"EGeneric", "EDeadlineCtx", "EDeadlineDA", "ECanceledCtx", "ECanceledDA", "EFuture", "ENotFound"}
var daErrName = []string{"generic", "context.DeadlineExceeded", "coreda.ErrContextDeadline", "context.Canceled", "coreda.ErrContextCanceled", "coreda.ErrHeightFromFuture", "coreda.ErrBlobNotFound"}

// daErr builds an error of the class the way a DA client hands it back (wrapped in the client's own text).
func daErr(class int) error {
	switch class {
	case DAErrDeadlineCtx:
		return fmt.Errorf("sim: rpc call: %w", context.DeadlineExceeded)
	case DAErrDeadlineDA:
		return fmt.Errorf("sim: rpc call blob.GetAll: %w", coreda.ErrContextDeadline)
	case DAErrCanceledCtx:
		return fmt.Errorf("sim: rpc call: %w", context.Canceled)
	case DAErrCanceledDA:
		return fmt.Errorf("sim: rpc call blob.GetAll: %w", coreda.ErrContextCanceled)
	case DAErrFuture:
		return fmt.Errorf("sim: %w", coreda.ErrHeightFromFuture)
	case DAErrNotFound:
		return fmt.Errorf("sim: %w", coreda.ErrBlobNotFound)
	}
	return errors.New("sim: connection reset by peer")
}

// DAFaultName: "site:class" of a scripted outcome, for the statistics.
func DAFaultName(f DAFault) string { return f.Site + ":" + daErrName[f.Class] }

// DAReq: one request as the DA double served it.  Site "ok": the blobs; "ids"/"get": an error of class Class.
type DAReq struct {
	H     uint64
	Site  string
	Class int
}

func (q DAReq) coq() string {
	switch q.Site {
	case "ids":
		return fmt.Sprintf("(%d, OIds %s)", q.H, daErrCoq[q.Class])
	case "get":
		return fmt.Sprintf("(%d, OGet %s)", q.H, daErrCoq[q.Class])
	}
	return fmt.Sprintf("(%d, OOk)", q.H)
}

// Pending: some height the scan has not passed yet (and that exists) still has scripted outcomes to serve.
func (d *SimDA) Pending(cur uint64) bool {
	for h, sc := range d.Faults {
		if h >= cur && h <= d.Max && d.pos[h] < len(sc) {
			return true
		}
	}
	return false
}

func (d *SimDA) GetIDs(ctx context.Context, h uint64, ns []byte) (*coreda.GetIDsResult, error) {
	if d.Gated {
		select {
		case <-d.Gate:
		case <-ctx.Done():
			return nil, ctx.Err()
		}
	}
	d.Calls = append(d.Calls, h)
	if h > d.Max {
		d.Reqs = append(d.Reqs, DAReq{h, "ids", DAErrFuture})
		return nil, fmt.Errorf("sim: %w", coreda.ErrHeightFromFuture)
	}
	bs := d.Blobs[h]
	if sc := d.Faults[h]; d.pos[h] < len(sc) {
		if d.pos == nil {
			d.pos, d.pendGet = map[uint64]int{}, map[uint64]int{}
		}
		f := sc[d.pos[h]]
		d.pos[h]++
		switch f.Site {
		case "ids":
			d.Reqs = append(d.Reqs, DAReq{h, "ids", f.Class})
			return nil, daErr(f.Class)
		case "hang":
			d.Reqs = append(d.Reqs, DAReq{h, "ids", DAErrDeadlineCtx})
			<-ctx.Done()
			return nil, ctx.Err()
		case "get":
			if len(bs) > 0 {
				d.Reqs = append(d.Reqs, DAReq{h, "get", f.Class})
				d.pendGet[h] = f.Class + 1
				return d.ids(h, bs), nil
			}
		}
	}
	if len(bs) == 0 {
		d.Reqs = append(d.Reqs, DAReq{h, "ids", DAErrNotFound})
		return nil, fmt.Errorf("sim: %w", coreda.ErrBlobNotFound)
	}
	d.Reqs = append(d.Reqs, DAReq{h, "ok", 0})
	return d.ids(h, bs), nil
}

func (d *SimDA) ids(h uint64, bs [][]byte) *coreda.GetIDsResult {
	ids := make([][]byte, len(bs))
	for i := range bs {
		id := make([]byte, 12)
		binary.BigEndian.PutUint64(id, h)
		binary.BigEndian.PutUint32(id[8:], uint32(i))
		ids[i] = id
	}
	return &coreda.GetIDsResult{IDs: ids, Timestamp: GenesisTime}
}

func (d *SimDA) Get(ctx context.Context, ids []coreda.ID, ns []byte) ([]coreda.Blob, error) {
	if len(ids) > 0 {
		h := binary.BigEndian.Uint64(ids[0])
		if c := d.pendGet[h]; c > 0 {
			delete(d.pendGet, h)
			return nil, daErr(c - 1)
		}
	}
	var out [][]byte
	for _, id := range ids {
		h := binary.BigEndian.Uint64(id)
		i := int(binary.BigEndian.Uint32(id[8:]))
		if i >= len(d.Blobs[h]) {
			return nil, fmt.Errorf("sim: bad id")
		}
		out = append(out, d.Blobs[h][i])
	}
	return out, nil
}

// DAScenario is the replayable description of one DA-ingress case.
type DAScenario struct {
	Chain ChainSpec `json:"chain"`
	// placement per block: DA height of the header blob / data blob; 0 = not on DA (P2P only)
	HdrDA  []uint64 `json:"hdr_da"`
	DataDA []uint64 `json:"data_da"`
	// first process: hold SyncLoop inside the commit of block HoldAt (index+1; 0 = never) after
	// delivering the P2P parts listed in P2PFirst; meanwhile the retriever scans Scan DA heights; then
	// the P2P parts in P2PThen are delivered (tagged with the scan position reached); then the hold is
	// released and the node is stopped at the commit of block StopAt (index+1; 0 = at quiescence)
	P2PFirst []Item `json:"p2p_first"`
	HoldAt   int    `json:"hold_at"`
	Scan     int    `json:"scan"`
	P2PThen  []Item `json:"p2p_then"`
	StopAt   int    `json:"stop_at"`
	Crash    bool   `json:"crash"` // kill (caches and buffers lost) instead of a clean stop (SaveCache)
	// Backlog (block index+1; 0 = none): the DA height of that block's header carries, ahead of it, as many
	// further copies of the header blob as headerInCh has capacity (re-submitted blobs; the retriever hands
	// over every copy until SyncLoop has marked the header seen) — with SyncLoop held inside a commit the
	// ingress channel is full when the retriever reaches the blobs behind them, and it has to wait
	Backlog int `json:"backlog,omitempty"`
	// Faults: per DA height the outcomes of the successive requests for it (errors of every class at GetIDs or at
	// Get, requests that hang until their deadline); afterwards the height is served normally
	Faults map[uint64][]DAFault `json:"faults,omitempty"`
}

type DAResult struct {
	Viol        []Violation
	HeightStop  uint64 // store height when the first process ended
	HeightEnd   uint64
	StoppedAt   bool // the stop hook fired at a commit
	StateDAStop uint64
	// for Check/DAIngressCheck.v
	Chain   *Chain
	Content map[uint64][]string // DA height -> parts (Coq terms) in DA order
	Procs   []DAProc
	// statistics
	FaultsServed map[string]int // "site:class" -> requests answered that way
	Rounds       int            // retrieve rounds (DA ticks) the scenario waited through
}

// DAProc: what one process of the node did, for the comparison with Model/DAIngress.v
type DAProc struct {
	C0, H0    uint64
	Reqs      []DAReq
	P2P       []Item
	Quiescent bool
	Cursor    uint64
	Height    uint64
	RealReqs  int // requests for DA heights that exist
}

func (n *Node) kickRetriever() {
	select {
	case n.M.VerifRetrieveCh() <- struct{}{}:
	default:
	}
}

func (n *Node) p2p(c *Chain, it Item) {
	if n.M == nil || n.Dead {
		return
	}
	da := n.M.VerifDAHeight()
	if it.T == "h" {
		n.M.VerifHeaderInCh() <- blockHeaderEvent(n.IngressHeader(c.Headers[it.I]), da)
	} else {
		cp := *c.Datas[it.I]
		n.M.VerifDataInCh() <- blockDataEvent(&cp, da)
	}
	synctest.Wait()
}

// RunDAScenario drives one scenario in its own bubble.
func RunDAScenario(t *testing.T, c *Chain, sc DAScenario, tmp string) *DAResult {
	res := &DAResult{Chain: c, Content: map[uint64][]string{}, FaultsServed: map[string]int{}}
	fail := func(sig, what string) {
		for _, v := range res.Viol {
			if v.Sig == sig {
				return
			}
		}
		res.Viol = append(res.Viol, Violation{sig, what})
	}
	dir, err := os.MkdirTemp(tmp, "danode")
	if err != nil {
		t.Fatal(err)
	}
	defer os.RemoveAll(dir)
	synctest.Test(t, func(t *testing.T) {
		da := &SimDA{Blobs: map[uint64][][]byte{}, Gated: true, Gate: make(chan struct{}), Faults: sc.Faults}
		for i := range c.Headers {
			if h := sc.HdrDA[i]; h > 0 {
				da.Blobs[h] = append(da.Blobs[h], c.HeaderBlobs[i])
				if h > da.Max {
					da.Max = h
				}
			}
			if h := sc.DataDA[i]; h > 0 && c.DataBlobs[i] != nil {
				da.Blobs[h] = append(da.Blobs[h], c.DataBlobs[i])
				if h > da.Max {
					da.Max = h
				}
			}
		}
		hook := &Hook{Release: make(chan struct{})}
		n := &Node{Chain: c, RootDir: dir, DS: crashds.New(), Exec: &Exec{}, DA: da, Retr: true, Hook: hook}
		defer func() {
			if x := recover(); x != nil {
				fail("panic", fmt.Sprint(x))
				if n.M != nil {
					n.cancel()
				}
			}
		}()
		n.boot()
		if n.BootErr != nil {
			fail("boot-failed", n.BootErr.Error())
			return
		}
		top := c.Initial + uint64(len(c.Headers)) - 1
		if b := sc.Backlog; b > 0 && b <= len(c.Headers) && sc.HdrDA[b-1] > 0 {
			h := sc.HdrDA[b-1]
			copies := make([][]byte, cap(n.M.VerifHeaderInCh()))
			for i := range copies {
				copies[i] = c.HeaderBlobs[b-1]
			}
			da.Blobs[h] = append(copies, da.Blobs[h]...)
		}
		// the DA layer's content as parts of the chain (Model/DAIngress.v part)
		partOf := map[string]string{}
		for i := range c.Headers {
			partOf[string(c.HeaderBlobs[i])] = fmt.Sprintf("PH %d", i)
			if c.DataBlobs[i] != nil {
				partOf[string(c.DataBlobs[i])] = fmt.Sprintf("PD %d", i)
			}
		}
		for h, bs := range da.Blobs {
			for _, b := range bs {
				res.Content[h] = append(res.Content[h], partOf[string(b)])
			}
		}
		// per process: the requests served, the parts delivered by P2P while SyncLoop ran
		var proc *DAProc
		startProc := func() {
			da.Reqs = nil
			proc = &DAProc{C0: n.M.VerifDAHeight(), H0: n.Height()}
		}
		endProc := func(quiescent bool) {
			n.settle()
			proc.Reqs = append([]DAReq{}, da.Reqs...)
			proc.Quiescent = quiescent && !n.Dead
			proc.Cursor, proc.Height = n.M.VerifDAHeight(), n.Height()
			for _, q := range proc.Reqs {
				if q.H <= da.Max {
					proc.RealReqs++
				}
				if q.Site != "ok" && !(q.Site == "ids" && (q.Class == DAErrNotFound && len(da.Blobs[q.H]) == 0 || q.Class == DAErrFuture && q.H > da.Max)) {
					res.FaultsServed[q.Site+":"+daErrName[q.Class]]++
				}
			}
			res.Procs = append(res.Procs, *proc)
		}
		p2p := func(it Item) {
			n.settle()
			if n.M != nil && !n.Dead {
				proc.P2P = append(proc.P2P, it)
			}
			n.p2p(c, it)
		}
		// run on until nothing moves any more: the scripted outcomes of the heights the scan still has to pass are
		// used up (every DA tick starts a round of up to 10 attempts; a request that hangs takes 30 s), the scan
		// position is beyond the highest DA height that exists, and [min] further rounds have passed
		settleScan := func(min int) bool {
			calm := 0
			for r := 0; r < 200 && calm < min && !hook.Stopped; r++ {
				select {
				case da.Gate <- struct{}{}:
				default:
				}
				n.kickRetriever()
				time.Sleep(7 * time.Second)
				synctest.Wait()
				res.Rounds++
				if cur := n.M.VerifDAHeight(); da.Pending(cur) || cur <= da.Max {
					calm = 0
				} else {
					calm++
				}
			}
			return calm >= min
		}
		// ---- first process
		startProc()
		if sc.HoldAt > 0 {
			hook.HoldAt = c.Initial + uint64(sc.HoldAt) - 1
		}
		for _, it := range sc.P2PFirst {
			p2p(it)
		}
		n.kickRetriever()
		synctest.Wait()
		for k := 0; k < sc.Scan; k++ {
			select {
			case da.Gate <- struct{}{}:
			default: // the retriever is not asking (waiting for the next tick after a future height)
				n.kickRetriever()
				synctest.Wait()
				select {
				case da.Gate <- struct{}{}:
				default:
				}
			}
			synctest.Wait()
		}
		for _, it := range sc.P2PThen {
			p2p(it)
		}
		if sc.StopAt > 0 {
			hook.StopAt = c.Initial + uint64(sc.StopAt) - 1
		}
		if hook.Held {
			hook.Release <- struct{}{}
		}
		synctest.Wait()
		quiet := false
		if !hook.Stopped {
			// no stop at a commit: let the scan run on to quiescence (or to the stop hook)
			da.Gated = false
			quiet = settleScan(3)
		}
		res.StoppedAt = hook.Stopped
		endProc(quiet && !hook.Stopped)
		if sc.Backlog > 0 && !hook.Stopped && !n.Dead && n.Height() < top {
			fail("da-ingress-backlog-dropped", fmt.Sprintf("every header and data of the chain is on the DA layer (the DA height of one header also carries %d re-submitted copies of it); the first process scanned the whole DA layer and ran to quiescence but stays at height %d, proposer's height %d",
				cap(n.M.VerifHeaderInCh()), n.Height(), top))
		}
		// the property on the first process, evaluated directly: the scan has been through every DA height that
		// exists, every request that failed has been repeated until it was answered; every block whose header and
		// (if not empty) data lie on the DA layer — at a height the layer did not deny — or came by P2P must be applied
		if quiet && !hook.Stopped && !n.Dead {
			denied := map[uint64]bool{}
			for _, q := range proc.Reqs {
				if q.Site == "ids" && q.Class == DAErrNotFound && len(da.Blobs[q.H]) > 0 {
					denied[q.H] = true
				}
			}
			gotH, gotD := map[int]bool{}, map[int]bool{}
			for _, it := range proc.P2P {
				if it.T == "h" {
					gotH[it.I] = true
				} else {
					gotD[it.I] = true
				}
			}
			m := 0
			for ; m < len(c.Headers); m++ {
				okH := gotH[m] || (sc.HdrDA[m] > 0 && !denied[sc.HdrDA[m]])
				okD := len(c.Datas[m].Txs) == 0 || gotD[m] || (sc.DataDA[m] > 0 && !denied[sc.DataDA[m]])
				if !okH || !okD {
					break
				}
			}
			if m > 0 && n.Height() < c.Initial+uint64(m)-1 {
				var failed []string
				for _, q := range proc.Reqs {
					if q.Site != "ok" && q.H <= da.Max && len(da.Blobs[q.H]) > 0 {
						failed = append(failed, fmt.Sprintf("DA height %d: %s at %s", q.H, daErrName[q.Class], map[string]string{"ids": "GetIDs", "get": "Get"}[q.Site]))
					}
				}
				fail("da-ingress-height-skipped", fmt.Sprintf("header and data of every block up to height %d lie on the DA layer (or came by P2P) and the scan has been through every DA height that exists (scan position %d, DA tip %d), but the node stays at height %d; requests for DA heights that carry blobs which came back with an error: %v",
					c.Initial+uint64(m)-1, n.M.VerifDAHeight(), da.Max, n.Height(), failed))
			}
		}
		n.Stop()
		res.HeightStop = n.Height()
		if s, ok := n.State(); ok {
			res.StateDAStop = s.DAHeight
		}
		// ---- restart: clean (SaveCache) or kill; the DA layer is unchanged and no longer gated
		da.Gated = false
		hook.HoldAt, hook.StopAt, hook.Stopped = 0, 0, false
		if sc.Crash {
			n.DS = n.DS.Materialize(n.DS.Len())
		} else if err := n.M.SaveCache(); err != nil {
			fail("save-cache-failed", err.Error())
		}
		n.boot()
		if n.BootErr != nil {
			fail("boot-failed", n.BootErr.Error())
			return
		}
		startProc()
		// P2P serves again everything above the node's height (Header/DataStoreRetrieveLoop start there); in a
		// scenario whose DA layer denied a height that carries blobs (the scan went past it, and the position a new
		// process starts from may lie above it) P2P serves every part
		lied := false
		for h, fs := range sc.Faults {
			for _, f := range fs {
				if f.Site == "ids" && f.Class == DAErrNotFound && len(da.Blobs[h]) > 0 {
					lied = true
				}
			}
		}
		redeliver := func() {
			for i := range c.Headers {
				if c.Initial+uint64(i) <= n.Height() {
					continue
				}
				if sc.HdrDA[i] == 0 || lied {
					p2p(Item{T: "h", I: i})
				}
				if (sc.DataDA[i] == 0 || lied) && len(c.Datas[i].Txs) > 0 {
					p2p(Item{T: "d", I: i})
				}
			}
		}
		redeliver()
		quiet = settleScan(4)
		redeliver()
		time.Sleep(7 * time.Second)
		synctest.Wait()
		res.HeightEnd = n.Height()
		endProc(quiet)
		if n.Dead {
			fail("sync-loop-died", fmt.Sprintf("SyncLoop returned: %v", n.LoopErr))
		}
		if res.HeightEnd < top {
			mode := "clean stop"
			if sc.Crash {
				mode = "kill"
			}
			fail("da-ingress-restart-stuck", fmt.Sprintf("every header and data of the chain is on the DA layer or served by P2P, but after a %s at height %d (persisted State.DAHeight %d) and a restart the node stays at height %d, proposer's height %d",
				mode, res.HeightStop, res.StateDAStop, res.HeightEnd, top))
		}
		for h := c.Initial; h <= res.HeightEnd && h <= top; h++ {
			i := int(h - c.Initial)
			sh, d, ok := n.Block(h)
			if !ok || !bytes.Equal(sh.Hash(), c.Headers[i].Hash()) || !sameTxs(d.Txs, c.Datas[i].Txs) {
				fail("da-ingress-block-differs", fmt.Sprintf("block at height %d is not the proposer's", h))
			}
		}
		if s, ok := n.State(); ok && res.HeightEnd >= c.Initial && int(res.HeightEnd-c.Initial) < len(c.States) {
			if !bytes.Equal(s.AppHash, c.States[res.HeightEnd-c.Initial].AppHash) || s.LastBlockHeight != res.HeightEnd {
				fail("da-ingress-state-differs", "recorded state is not the proposer's state at the node's height")
			}
		}
		n.Stop()
	})
	return res
}

// CoqCase: the scenario as a Check.DAIngressCheck.dcase.
func (r *DAResult) CoqCase() string {
	c := r.Chain
	var ne, ct, procs []string
	for i, d := range c.Datas {
		if len(d.Txs) > 0 {
			ne = append(ne, fmt.Sprint(i))
		}
	}
	var hs []uint64
	for h := range r.Content {
		hs = append(hs, h)
	}
	sortU64(hs)
	for _, h := range hs {
		ct = append(ct, fmt.Sprintf("(%d, %s)", h, vgen.List(r.Content[h])))
	}
	for _, p := range r.Procs {
		var reqs, parts []string
		for _, q := range p.Reqs {
			reqs = append(reqs, q.coq())
		}
		for _, it := range p.P2P {
			if it.T == "h" {
				parts = append(parts, fmt.Sprintf("PH %d", it.I))
			} else {
				parts = append(parts, fmt.Sprintf("PD %d", it.I))
			}
		}
		procs = append(procs, fmt.Sprintf("{| dp_c0 := %d; dp_h0 := %d; dp_reqs := %s; dp_p2p := %s; dp_quiescent := %s; dp_cursor := %d; dp_height := %d |}",
			p.C0, p.H0, vgen.List(reqs), vgen.List(parts), vgen.Bool(p.Quiescent), p.Cursor, p.Height))
	}
	return fmt.Sprintf("{| dc_initial := %d; dc_len := %d; dc_nonempty := %s; dc_content := %s;\n dc_procs := %s |}",
		c.Initial, len(c.Headers), vgen.List(ne), vgen.List(ct), vgen.List(procs))
}

// DABadCase: a scenario that produced no process record (boot failed): disagrees with every model (code 4).
const DABadCase = "{| dc_initial := 1; dc_len := 0; dc_nonempty := []; dc_content := []; dc_procs := [{| dp_c0 := 0; dp_h0 := 0; dp_reqs := []; dp_p2p := []; dp_quiescent := false; dp_cursor := 0; dp_height := 9 |}] |}"

const DACoqHeader = "From Coq Require Import String NArith ZArith List Bool.\nFrom Verif Require Import Base.KV Base.Keys Model.Types Model.Syncer Model.DAIngress Check.DAIngressCheck.\nOpen Scope N_scope."

// GenDAScenario: chains of 3..6 blocks; every part is placed on a DA height in 1..K (several per height,
// out of block order) or is P2P-only; the first process is biased to the pattern "SyncLoop busy in a
// commit while the retriever runs ahead, then a P2P header tagged with the advanced scan position
// triggers a commit, stop right there".
func GenDAScenario(r *rand.Rand) DAScenario {
	if r.Intn(2) == 0 {
		return genDABehind(r)
	}
	spec := GenChain(r, 5, false)
	nb := 1 + len(spec.Blocks)
	sc := DAScenario{Chain: spec, HdrDA: make([]uint64, nb), DataDA: make([]uint64, nb)}
	K := uint64(2 + r.Intn(4))
	p2pH := map[int]bool{}
	for i := 0; i < nb; i++ {
		empty := i == 0 || len(spec.Blocks[i-1].Txs) == 0
		if i <= 1 || r.Intn(4) == 0 {
			p2pH[i] = true // header by P2P only
		} else {
			sc.HdrDA[i] = 1 + uint64(r.Intn(int(K)))
		}
		if !empty {
			if r.Intn(6) == 0 {
				sc.DataDA[i] = 0
			} else {
				sc.DataDA[i] = 1 + uint64(r.Intn(int(K)))
			}
		}
	}
	// first process
	sc.P2PFirst = []Item{{T: "h", I: 0}}
	sc.HoldAt = 1
	sc.Scan = 1 + r.Intn(int(K)+2)
	for i := 1; i < nb; i++ {
		if p2pH[i] {
			sc.P2PThen = append(sc.P2PThen, Item{T: "h", I: i})
		}
		empty := len(spec.Blocks[i-1].Txs) == 0
		if !empty && sc.DataDA[i] == 0 {
			sc.P2PThen = append(sc.P2PThen, Item{T: "d", I: i})
		}
	}
	switch r.Intn(5) {
	case 0:
		sc.StopAt = 0
	default:
		sc.StopAt = 2 + r.Intn(nb-1)
	}
	if r.Intn(6) == 0 {
		sc.HoldAt = 0
	}
	sc.Crash = r.Intn(2) == 0
	return sc
}

// genDABehind: the data blobs of blocks 2.. sit at LOW DA heights, their headers at higher ones, blocks
// 0 and 1 (empty) come by P2P.  While SyncLoop is busy committing block 0 the retriever fetches the low
// heights (data events buffered in dataInCh); then the P2P header of block 1 arrives, tagged with the
// advanced scan position; the node is stopped right after block 1 commits.  Whatever data event SyncLoop
// had not yet taken from the channel is lost and must be fetched again after the restart.
func genDABehind(r *rand.Rand) DAScenario {
	spec := ChainSpec{Initial: []uint64{1, 1, 2, 7}[r.Intn(4)]}
	spec.Blocks = append(spec.Blocks, BlockSpec{Dt: 1000}) // block 1: empty
	n := 2 + r.Intn(3)
	next := 1
	for i := 0; i < n; i++ {
		b := BlockSpec{Dt: int64(r.Intn(3)) * 500}
		for k := 1 + r.Intn(2); k > 0; k-- {
			b.Txs = append(b.Txs, next)
			next++
		}
		spec.Blocks = append(spec.Blocks, b)
	}
	nb := 1 + len(spec.Blocks)
	sc := DAScenario{Chain: spec, HdrDA: make([]uint64, nb), DataDA: make([]uint64, nb)}
	a := uint64(1 + r.Intn(2))
	for i := 2; i < nb; i++ {
		sc.DataDA[i] = 1 + uint64(r.Intn(int(a)))
		sc.HdrDA[i] = a + 1 + uint64(r.Intn(3))
	}
	sc.P2PFirst = []Item{{T: "h", I: 0}}
	sc.HoldAt = 1
	sc.Scan = int(a) + 1 // DA height 0 (nothing) and 1..a
	sc.P2PThen = []Item{{T: "h", I: 1}}
	sc.StopAt = 2
	sc.Crash = r.Intn(2) == 0
	return sc
}

// GenDABacklog: ingress back-pressure.  Block 0 (empty) comes by P2P and SyncLoop is held inside its commit;
// every other part is on the DA layer, block i at DA height i (data ahead of the header or behind it); the
// DA height of block 1's header also carries a channel-capacity of re-submitted copies of that header, ahead
// of everything else at that height.  The retriever scans on while SyncLoop is held; then SyncLoop is
// released and the first process must reach the proposer's height without a restart.
func GenDABacklog(r *rand.Rand) DAScenario {
	spec := GenChain(r, 4, false)
	nb := 1 + len(spec.Blocks)
	sc := DAScenario{Chain: spec, HdrDA: make([]uint64, nb), DataDA: make([]uint64, nb)}
	for i := 1; i < nb; i++ {
		sc.HdrDA[i] = uint64(i)
		sc.DataDA[i] = uint64(1 + r.Intn(i))
	}
	sc.P2PFirst = []Item{{T: "h", I: 0}}
	sc.HoldAt = 1
	sc.Scan = nb + 1
	sc.Backlog = 2
	sc.Crash = r.Intn(2) == 0
	return sc
}

// GenDAFaults: the DA layer answers requests with ERRORS before it serves a height.  Chains of 3..6 blocks;
// nearly every part lies on the DA layer at heights 1..K (several per height, out of block order, some heights
// empty), a few parts come by P2P.  One to three DA heights — the first of them carries blobs — get a script of
// 1..3 (sometimes 9..12: more than one round of 10 attempts) outcomes that the successive requests for the height
// meet before it is served: an error at GetIDs or at Get of a class from the whole vocabulary (generic,
// context.DeadlineExceeded, coreda.ErrContextDeadline, context.Canceled, coreda.ErrContextCanceled, height from
// the future, not found), or a request that hangs until its own deadline.  The scenario number picks the class and
// the site most outcomes of the scenario use, so that every combination occurs in every run.  Three of four
// scenarios let the first process run on until nothing moves (it must then hold every block whose parts were
// available); the others stop it right after a commit, cleanly or by a kill, and restart it.
func GenDAFaults(r *rand.Rand, c int) DAScenario {
	spec := GenChain(r, 5, false)
	nb := 1 + len(spec.Blocks)
	sc := DAScenario{Chain: spec, HdrDA: make([]uint64, nb), DataDA: make([]uint64, nb), Faults: map[uint64][]DAFault{}}
	K := 3 + r.Intn(5)
	var byP2P []Item
	for i := 0; i < nb; i++ {
		empty := i == 0 || len(spec.Blocks[i-1].Txs) == 0
		if r.Intn(8) == 0 || (i == 0 && r.Intn(2) == 0) {
			byP2P = append(byP2P, Item{T: "h", I: i})
		} else {
			sc.HdrDA[i] = uint64(1 + r.Intn(K))
		}
		if !empty {
			if r.Intn(8) == 0 {
				byP2P = append(byP2P, Item{T: "d", I: i})
			} else {
				sc.DataDA[i] = uint64(1 + r.Intn(K))
			}
		}
	}
	for _, it := range byP2P {
		if r.Intn(2) == 0 {
			sc.P2PFirst = append(sc.P2PFirst, it)
		} else {
			sc.P2PThen = append(sc.P2PThen, it)
		}
	}
	var full []uint64 // DA heights that carry blobs
	seen := map[uint64]bool{}
	for i := 0; i < nb; i++ {
		for _, h := range []uint64{sc.HdrDA[i], sc.DataDA[i]} {
			if h > 0 && !seen[h] {
				seen[h] = true
				full = append(full, h)
			}
		}
	}
	sortU64(full)
	var top uint64
	if len(full) > 0 {
		top = full[len(full)-1]
	}
	class := c % NumDAErrClasses
	site := []string{"ids", "get", "ids"}[(c/NumDAErrClasses)%3]
	hang := class == DAErrDeadlineCtx && (c/NumDAErrClasses)%3 == 2
	for k := 1 + r.Intn(3); k > 0 && len(full) > 0; k-- {
		h := full[r.Intn(len(full))]
		if k > 1 && r.Intn(3) == 0 {
			h = uint64(r.Intn(int(top) + 1)) // any height that exists, empty ones too
		}
		if len(sc.Faults[h]) > 0 {
			continue
		}
		n := 1 + r.Intn(3)
		if r.Intn(10) < 3 {
			n = 9 + r.Intn(4)
		}
		hangs := 0
		for ; n > 0; n-- {
			f := DAFault{Site: site, Class: class}
			if r.Intn(5) >= 3 {
				f = DAFault{Site: []string{"ids", "get"}[r.Intn(2)], Class: r.Intn(NumDAErrClasses)}
			} else if hang && hangs < 2 {
				f = DAFault{Site: "hang", Class: DAErrDeadlineCtx}
				hangs++
			}
			sc.Faults[h] = append(sc.Faults[h], f)
		}
	}
	if r.Intn(4) == 0 {
		sc.StopAt = 2 + r.Intn(nb-1)
	}
	sc.Crash = r.Intn(2) == 0
	return sc
}
