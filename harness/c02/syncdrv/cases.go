package syncdrv

import (
	"bytes"
	"fmt"
	"math/rand"
	"os"
	"path/filepath"
	"strings"
	"testing"
	"testing/synctest"
	"time"

	"github.com/evstack/ev-node/block"
	"github.com/evstack/ev-node/types"

	"verif/harness/doubles/crashds"
	"verif/harness/vgen"
)

// ---- replayable descriptions ---------------------------------------------------------------------

type BlockSpec struct {
	Txs []int `json:"txs"` // transaction pool ids; empty = empty block
	Dt  int64 `json:"dt"`  // milliseconds after the previous block (>= 0)
}
type ChainSpec struct {
	Initial  uint64      `json:"initial"`
	Blocks   []BlockSpec `json:"blocks"`             // after the genesis block (which every chain starts with)
	Provider int         `json:"provider,omitempty"` // signature payload provider of the chain and its nodes (Provider)
}

// Item of a history.  T: "h" header event of block I, "d" data event of block I, "restart" clean restart,
// "crashh"/"crashd" the process dies while handling that event after K atomic writes, "crashboot" the
// process dies and the next start dies after K writes.
// Transient read faults of the store (items "h"/"d" only; the process lives on): F = k > 0 makes the k-th
// store.Height() call made while the event is handled fail (k = 1: the read of the SyncLoop case itself, k >= 2:
// iteration k-2 of trySyncNextBlock); G makes the GetBlockData calls made meanwhile fail (handleEmptyDataHash).
type Item struct {
	T  string `json:"t"`
	I  int    `json:"i,omitempty"`
	Da uint64 `json:"da,omitempty"`
	K  int    `json:"k,omitempty"`
	F  int    `json:"f,omitempty"`
	G  bool   `json:"g,omitempty"`
}
type Replay struct {
	Seed    int64     `json:"seed"`
	Case    int       `json:"case"`
	Chain   ChainSpec `json:"chain"`
	History []Item    `json:"history"`
	DA      *DAScenario `json:"da,omitempty"` // a DA-ingress scenario instead of an event history
	P2P     *P2PScenario `json:"p2p,omitempty"` // a P2P-ingress scenario instead of an event history
}

func TxBytes(id int) []byte { return []byte(fmt.Sprintf("tx-%05d", id)) }

func (cs ChainSpec) Batches() []Batch {
	ts := GenesisTime
	var out []Batch
	for _, b := range cs.Blocks {
		ts = ts.Add(time.Duration(b.Dt) * time.Millisecond)
		var txs [][]byte
		for _, id := range b.Txs {
			txs = append(txs, TxBytes(id))
		}
		out = append(out, Batch{Txs: txs, Ts: ts})
	}
	return out
}

// ---- observations -----------------------------------------------------------------------------------

type Obs struct {
	Height  uint64
	Status  int // 0 running, 1 loop returned with error, 2 boot failed
	HasSt   bool
	St      [3]int64 // disk state: height, time, root idx
	Last    [3]int64 // Manager.GetLastState
	Calls   int
	DASt    int64 // State.DAHeight in the store (-1: no state)
	DALast  uint64
	DAMgr   uint64 // Manager.daHeight (DA scan position)
}

type Violation struct{ Sig, What string }

type CaseResult struct {
	Chain   *Chain
	Spec    ChainSpec
	Hist    []Item
	Obs     []Obs
	Shapes  [][]string
	Log     []ExecCall
	Blocks  []string // Coq terms (height, option (sheader, txs))
	Viol    []Violation
	roots   map[string]int
	times   map[int64]string // big time literals are defined once per case (T<i>) and referred to by name
	rootSeq [][]byte
	execTbl []string
	// statistics
	FaultsFired int // read faults that were actually delivered to the node
	Halts       int // SyncLoop returned at a failed height read inside trySyncNextBlock (expected behaviour)
	LostEvents  int // events skipped because the height read of their SyncLoop case failed
	BadCrash   bool // some crash landed at write index 1 of an application (before f41125c: after the state write, before the block save)
	StaleFiles bool // a crash happened after a clean restart had written non-empty cache files
	Applied    int
	MaxStep    int // the largest number of blocks applied while one item was handled
}

func (r *CaseResult) rootID(b []byte) int {
	if id, ok := r.roots[string(b)]; ok {
		return id
	}
	id := len(r.rootSeq)
	r.roots[string(b)] = id
	r.rootSeq = append(r.rootSeq, append([]byte{}, b...))
	return id
}

func (r *CaseResult) fail(sig, what string) {
	for _, v := range r.Viol {
		if v.Sig == sig {
			return
		}
	}
	r.Viol = append(r.Viol, Violation{sig, what})
}

func shapeOf(w crashds.Write) string {
	if !w.Batch && len(w.Prims) == 1 && !w.Prims[0].Del {
		switch w.Prims[0].Key {
		case "/s":
			return "WS"
		case "/t":
			v := w.Prims[0].Value
			if len(v) == 8 {
				var n uint64
				for i := 7; i >= 0; i-- {
					n = n<<8 | uint64(v[i])
				}
				return "WT " + vgen.N(n)
			}
		}
		return "WOther"
	}
	if w.Batch && len(w.Prims) == 4 {
		var n uint64
		if _, err := fmt.Sscanf(w.Prims[0].Key, "/h/%d", &n); err == nil &&
			w.Prims[1].Key == fmt.Sprintf("/d/%d", n) && w.Prims[2].Key == fmt.Sprintf("/c/%d", n) && strings.HasPrefix(w.Prims[3].Key, "/i/") {
			for _, p := range w.Prims {
				if p.Del {
					return "WOther"
				}
			}
			return "(WB " + vgen.N(n) + ")"
		}
	}
	return "WOther"
}

type runner struct {
	res      *CaseResult
	n        *Node
	logPos   int
	files    bool // cache files on disk are non-empty
	lastBoot int  // index in Hist after which the current process started with an empty "delivered" set
	hdrSeen  map[int]bool
	datSeen  map[int]bool
	maxH     uint64
	// SyncLoop of the current process returned at a height read inside trySyncNextBlock that the harness made
	// fail: the code's answer to that error (sync.go: return err); the node continues after the next start
	haltExpected bool
}

// deliver pushes one "h"/"d" item (with its read faults) into the node and keeps the oracle's books: an event
// counts as received by the current process if SyncLoop was running when it arrived and the height read of its own
// SyncLoop case was not made to fail (a failed read there makes the loop skip the event: it is lost, like a message
// that never arrived, and the sender delivers it again).
func (rn *runner) deliver(it Item, header bool) {
	n, c, r := rn.n, rn.res.Chain, rn.res
	wasLive := n.M != nil && !n.Dead
	var fh bool
	if header {
		fh, _ = n.DeliverHeaderF(c.Headers[it.I], it.Da, it.F, it.G)
	} else {
		fh, _ = n.DeliverDataF(c.Datas[it.I], it.Da, it.F, it.G)
	}
	if fh {
		r.FaultsFired++
		if it.F == 1 {
			r.LostEvents++
		} else {
			rn.haltExpected = true
			if n.Dead {
				r.Halts++
			}
		}
	}
	if wasLive && !(fh && it.F == 1) {
		if header {
			rn.hdrSeen[it.I] = true
		} else {
			rn.datSeen[it.I] = true
		}
	}
}

func (rn *runner) takeShapes(ws []crashds.Write) []string {
	var out []string
	for _, w := range ws {
		out = append(out, shapeOf(w))
	}
	return out
}

func (rn *runner) newWrites() []crashds.Write {
	ws := append([]crashds.Write{}, rn.n.DS.Log[rn.logPos:]...)
	rn.logPos = len(rn.n.DS.Log)
	return ws
}

func (rn *runner) observe() {
	n, r := rn.n, rn.res
	o := Obs{Height: n.Height(), Calls: len(n.Exec.Calls)}
	if n.BootErr != nil {
		o.Status = 2
	} else if n.Dead {
		o.Status = 1
	}
	if s, ok := n.State(); ok {
		o.HasSt = true
		o.DASt = int64(s.DAHeight)
		o.St = [3]int64{int64(s.LastBlockHeight), s.LastBlockTime.UnixNano(), int64(r.rootID(s.AppHash))}
	}
	if n.M != nil {
		s := n.M.GetLastState()
		o.DALast = s.DAHeight
		o.DAMgr = n.M.VerifDAHeight()
		o.Last = [3]int64{int64(s.LastBlockHeight), s.LastBlockTime.UnixNano(), int64(r.rootID(s.AppHash))}
	} else {
		o.Last = [3]int64{int64(r.Chain.Initial) - 1, GenesisTime.UnixNano(), 0}
	}
	r.Obs = append(r.Obs, o)
	rn.oracleStep(o)
}

// the property evaluated directly on the real node, after every item
func (rn *runner) oracleStep(o Obs) {
	r, c := rn.res, rn.res.Chain
	if o.Height < rn.maxH {
		r.fail("height-decreased", fmt.Sprintf("store height went from %d to %d", rn.maxH, o.Height))
	}
	if o.Height > rn.maxH {
		if len(r.Obs) > 1 && int(o.Height-rn.maxH) > r.MaxStep {
			r.MaxStep = int(o.Height - rn.maxH)
		}
		rn.maxH = o.Height
	}
	if o.Status == 1 && !rn.haltExpected {
		r.fail("sync-loop-died", fmt.Sprintf("SyncLoop returned: %v", rn.n.LoopErr))
	}
	if o.Status == 2 {
		r.fail("boot-failed", fmt.Sprintf("NewManager failed: %v", rn.n.BootErr))
	}
	// execution calls: strictly in height order, the proposer's transactions and roots.  After a crash a
	// block may be executed again, so the log is compared block by block allowing repeats only then.
	for i, call := range rn.n.Exec.Calls {
		idx := int(call.Height) - int(c.Initial)
		if idx < 0 || idx >= len(c.Calls) {
			r.fail("exec-foreign-height", fmt.Sprintf("ExecuteTxs at height %d outside the chain", call.Height))
			continue
		}
		want := c.Calls[idx]
		if !bytes.Equal(call.Prev, want.Prev) || !bytes.Equal(call.Root, want.Root) || len(call.Txs) != len(want.Txs) {
			r.fail("exec-differs", fmt.Sprintf("ExecuteTxs call %d at height %d differs from the proposer's", i, call.Height))
		}
		if i > 0 {
			prev := rn.n.Exec.Calls[i-1].Height
			if call.Height != prev+1 && rn.lastBoot == 0 {
				r.fail("exec-out-of-order", fmt.Sprintf("ExecuteTxs heights %d then %d", prev, call.Height))
			}
		} else if call.Height != c.Initial && rn.lastBoot == 0 {
			r.fail("exec-out-of-order", fmt.Sprintf("first ExecuteTxs at height %d, initial height %d", call.Height, c.Initial))
		}
	}
	// every height up to the recorded height holds the proposer's block; the recorded state is that height's
	for h := c.Initial; h <= o.Height; h++ {
		i := int(h - c.Initial)
		if i >= len(c.Headers) {
			r.fail("height-beyond-chain", fmt.Sprintf("height %d beyond the proposer's chain", o.Height))
			break
		}
		sh, d, ok := rn.n.Block(h)
		if !ok {
			r.fail(rn.recoverySig("block-missing"), fmt.Sprintf("no block at height %d although the chain height is %d", h, o.Height))
			continue
		}
		if !bytes.Equal(sh.Hash(), c.Headers[i].Hash()) || !bytes.Equal(sh.Signature, c.Headers[i].Signature) || !sameTxs(d.Txs, c.Datas[i].Txs) {
			r.fail(rn.recoverySig("block-differs"), fmt.Sprintf("block at height %d is not the proposer's", h))
		}
	}
	if o.Height >= c.Initial {
		i := int(o.Height - c.Initial)
		if i < len(c.States) {
			want := c.States[i]
			if !o.HasSt || uint64(o.St[0]) != o.Height || o.St[2] != int64(r.rootID(want.AppHash)) {
				r.fail(rn.recoverySig("state-not-at-height"), fmt.Sprintf("recorded state %v does not correspond to chain height %d", o.St, o.Height))
			}
		}
	} else if o.HasSt {
		r.fail(rn.recoverySig("state-not-at-height"), fmt.Sprintf("recorded state %v with chain height %d", o.St, o.Height))
	}
}

// violations of the recovery part are classed by what the history contains
func (rn *runner) recoverySig(base string) string {
	if rn.res.BadCrash {
		return "crash-after-state-before-block"
	}
	return base
}

func sameTxs(a, b types.Txs) bool {
	if len(a) != len(b) {
		return false
	}
	for i := range a {
		if !bytes.Equal(a[i], b[i]) {
			return false
		}
	}
	return true
}

// completeness: the longest prefix of the chain whose header and (if non-empty) data were delivered
// to the current process must have been applied
func (rn *runner) oracleEnd() {
	r, c := rn.res, rn.res.Chain
	h := rn.n.Height()
	m := 0
	base := 0
	if h >= c.Initial {
		base = int(h-c.Initial) + 1 // blocks already applied need no redelivery
	}
	for m = base; m < len(c.Headers); m++ {
		if !rn.hdrSeen[m] || (len(c.Datas[m].Txs) > 0 && !rn.datSeen[m]) {
			break
		}
	}
	if m < base {
		m = base
	}
	if rn.n.BootErr != nil || rn.n.Dead {
		return
	}
	if uint64(m) > h+1-c.Initial {
		stuck := int(h + 1 - c.Initial)
		sig := "incomplete"
		if len(c.Datas[stuck].Txs) > 0 {
			for j := 0; j < len(c.Datas); j++ {
				if j != stuck && sameTxs(c.Datas[j].Txs, c.Datas[stuck].Txs) {
					sig = "incomplete-equal-tx-lists"
				}
			}
		}
		if sig == "incomplete" && r.StaleFiles {
			sig = "incomplete-stale-cache-files-after-crash"
		}
		r.fail(sig, fmt.Sprintf("header and data of every block up to height %d were delivered but the node stopped at height %d", c.Initial+uint64(m)-1, h))
	}
}

// RunCase drives one history; it creates its own synctest bubble.
func RunCase(t *testing.T, c *Chain, spec ChainSpec, hist []Item, tmp string) *CaseResult {
	res := &CaseResult{Chain: c, Spec: spec, Hist: hist, roots: map[string]int{}}
	res.rootID(InitRoot(ChainID))
	for _, call := range c.Calls {
		res.rootID(call.Root)
	}
	dir, err := os.MkdirTemp(tmp, "node")
	if err != nil {
		t.Fatal(err)
	}
	defer os.RemoveAll(dir)
	synctest.Test(t, func(t *testing.T) {
		rn := &runner{res: res, hdrSeen: map[int]bool{}, datSeen: map[int]bool{}}
		defer func() {
			if x := recover(); x != nil {
				res.fail("panic", fmt.Sprint(x))
				if rn.n != nil && rn.n.M != nil && !rn.n.Dead {
					rn.n.cancel()
				}
			}
		}()
		rn.n = NewNode(c, dir, crashds.New(), &Exec{})
		res.Shapes = append(res.Shapes, rn.takeShapes(rn.newWrites()))
		rn.observe()
		for hi, it := range hist {
			n := rn.n
			switch it.T {
			case "h":
				rn.deliver(it, true)
				res.Shapes = append(res.Shapes, rn.takeShapes(rn.newWrites()))
			case "d":
				rn.deliver(it, false)
				res.Shapes = append(res.Shapes, rn.takeShapes(rn.newWrites()))
			case "restart":
				if err := n.RestartClean(); err != nil {
					res.fail("save-cache-failed", err.Error())
				}
				rn.haltExpected = false
				rn.files = true
				res.Shapes = append(res.Shapes, rn.takeShapes(rn.newWrites()))
			case "crashh", "crashd":
				e0 := len(n.Exec.Calls)
				if it.T == "crashh" {
					n.DeliverHeader(c.Headers[it.I], it.Da)
				} else {
					n.DeliverData(c.Datas[it.I], it.Da)
				}
				ws := rn.newWrites()
				k := it.K
				if k > len(ws) {
					k = len(ws)
				}
				if k < len(ws) && k%3 == 1 {
					res.BadCrash = true
				}
				if rn.files {
					res.StaleFiles = true
				}
				n.Exec.Calls = n.Exec.Calls[:e0]
				base := rn.logPos - len(ws)
				n.CrashTo(base + k)
				rn.logPos = 0
				res.Shapes = append(res.Shapes, append(rn.takeShapes(ws[:k]), rn.takeShapes(rn.newWrites())...))
				rn.hdrSeen, rn.datSeen, rn.lastBoot, rn.haltExpected = map[int]bool{}, map[int]bool{}, hi+1, false
			case "crashboot":
				if rn.files {
					res.StaleFiles = true
				}
				e0 := len(n.Exec.Calls)
				n.CrashTo(rn.logPos) // a process starts on the current image ...
				bw := append([]crashds.Write{}, n.DS.Log...)
				n.Exec.Calls = n.Exec.Calls[:e0] // ... its execution calls are not those of a completed step
				k := it.K
				if k > len(bw) {
					k = len(bw)
				}
				n.CrashTo(k) // ... and dies after k writes; the next one starts
				rn.logPos = 0
				res.Shapes = append(res.Shapes, append(rn.takeShapes(bw[:k]), rn.takeShapes(rn.newWrites())...))
				rn.hdrSeen, rn.datSeen, rn.lastBoot, rn.haltExpected = map[int]bool{}, map[int]bool{}, hi+1, false
			default:
				t.Fatalf("bad item %q", it.T)
			}
			rn.observe()
		}
		rn.oracleEnd()
		// final store, execution log
		n := rn.n
		res.Log = append(res.Log, n.Exec.Calls...)
		for i := range c.Headers {
			h := c.Initial + uint64(i)
			res.Blocks = append(res.Blocks, fmt.Sprintf("(%s, %s)", vgen.N(h), res.projBlock(n, h)))
		}
		if h := n.Height(); h >= c.Initial {
			res.Applied = int(h-c.Initial) + 1
		}
		n.Stop()
	})
	// execution table: every call either node made
	seen := map[string]bool{}
	for _, call := range append(append([]ExecCall{}, c.Calls...), res.Log...) {
		e := fmt.Sprintf("(%s, %s, %s)", vgen.N(uint64(res.rootID(call.Prev))), vgen.N(call.Height), vgen.N(uint64(res.rootID(call.Root))))
		if !seen[e] {
			seen[e] = true
			res.execTbl = append(res.execTbl, e)
		}
	}
	return res
}

// ---- projection onto the model's terms -----------------------------------------------------------------

func (r *CaseResult) txID(tx []byte) uint64 {
	var id int
	if _, err := fmt.Sscanf(string(tx), "tx-%05d", &id); err == nil && bytes.Equal(TxBytes(id), tx) {
		return uint64(id)
	}
	return 999999
}
func (r *CaseResult) txList(txs types.Txs) string {
	var out []string
	for _, tx := range txs {
		out = append(out, vgen.N(r.txID(tx)))
	}
	return vgen.List(out)
}

// the stored block at height h, labelled against the chain
func (r *CaseResult) projBlock(n *Node, h uint64) string {
	sh, d, ok := n.Block(h)
	if !ok {
		return "None"
	}
	c := r.Chain
	label := "SJunk"
	for i, x := range c.Headers {
		a, _ := x.MarshalBinary()
		b, _ := sh.MarshalBinary()
		if bytes.Equal(a, b) {
			label = fmt.Sprintf("S%d", i)
		}
	}
	if label == "SJunk" && len(sh.Signature) == 0 && sh.Signer.PubKey == nil && bytes.Equal(sh.Signer.Address, c.Genesis.ProposerAddress) &&
		bytes.Equal(sh.Hash(), c.Headers[0].Hash()) {
		label = "(fst (genesis_block g))"
	}
	return fmt.Sprintf("Some (%s, %s)", label, r.txList(d.Txs))
}

// CoqDefs: the chain as symbolic terms.  Every field is derived from the real bytes with the
// implementation's own hash and verify functions (DESIGN 2.4).
func (r *CaseResult) CoqDefs() []string {
	c := r.Chain
	var defs []string
	r.times = map[int64]string{}
	defs = append(defs, fmt.Sprintf("Definition TG : Z := %s.", vgen.Z(GenesisTime.UnixNano())))
	r.times[GenesisTime.UnixNano()] = "TG"
	for i, sh := range c.Headers {
		if _, ok := r.times[sh.Time().UnixNano()]; !ok {
			defs = append(defs, fmt.Sprintf("Definition T%d : Z := %s.", i, vgen.Z(sh.Time().UnixNano())))
			r.times[sh.Time().UnixNano()] = fmt.Sprintf("T%d", i)
		}
	}
	defs = append(defs, fmt.Sprintf("Definition g : config := {| g_chain := 1; g_initial := %s; g_time := TG; g_proposer := Addr 1; g_initroot := 0 |}.",
		vgen.N(c.Initial)))
	defs = append(defs, "Definition HJunk : header := {| h_height := 0; h_time := 0%Z; h_chain := 0; h_last := None; h_data := [999999]; h_app := 999999; h_proposer := AddrEmpty |}.",
		"Definition SJunk : sheader := {| sh_hdr := HJunk; sh_sig := SigJunk 0; sh_signer := {| sg_pub := None; sg_addr := AddrEmpty |} |}.")
	empty := block.VerifDataHashForEmptyTxs()
	addrOK := func(a []byte) string {
		if bytes.Equal(a, c.Genesis.ProposerAddress) && bytes.Equal(a, types.KeyAddress(c.PubKey)) {
			return "Addr 1"
		}
		if len(a) == 0 {
			return "AddrEmpty"
		}
		return "AddrRaw 7"
	}
	for i, sh := range c.Headers {
		last := "None"
		if len(sh.LastHeaderHash) > 0 {
			last = "Some HJunk"
			for j := 0; j < i; j++ {
				if bytes.Equal(sh.LastHeaderHash, c.Headers[j].Hash()) {
					last = fmt.Sprintf("Some H%d", j)
				}
			}
		}
		dh := "[999999]"
		if bytes.Equal(sh.DataHash, empty) {
			dh = "[]"
		} else {
			for j := range c.Datas {
				if bytes.Equal(sh.DataHash, c.Datas[j].DACommitment()) {
					dh = r.txList(c.Datas[j].Txs)
				}
			}
		}
		app := 999998
		if id, ok := r.roots[string(sh.AppHash)]; ok {
			app = id
		}
		chain := 0
		if sh.ChainID() == c.Genesis.ChainID {
			chain = 1
		}
		defs = append(defs, fmt.Sprintf("Definition H%d : header := {| h_height := %s; h_time := %s; h_chain := %d; h_last := %s; h_data := %s; h_app := %d; h_proposer := %s |}.",
			i, vgen.N(sh.Height()), r.zt(sh.Time().UnixNano()), chain, last, dh, app, addrOK(sh.ProposerAddress)))
		// the signature is labelled with the provider under whose payload the proposer's key verifies it
		sig := "SigJunk 1"
		if len(sh.Signature) == 0 {
			sig = "SigEmpty"
		} else {
			for p := 0; p < NumProviders; p++ {
				payload, err := Provider(p)(&sh.Header)
				if err != nil {
					continue
				}
				if ok, err := c.PubKey.Verify(payload, sh.Signature); err == nil && ok {
					if p == 0 {
						sig = fmt.Sprintf("Sig 1 H%d", i)
					} else {
						sig = fmt.Sprintf("Sig 1 (payload %d H%d)", p, i)
					}
					break
				}
			}
		}
		pub := "None"
		if sh.Signer.PubKey != nil {
			pub = "Some (Pub 2)"
			if sh.Signer.PubKey.Equals(c.PubKey) {
				pub = "Some (Pub 1)"
			}
		}
		defs = append(defs, fmt.Sprintf("Definition S%d : sheader := {| sh_hdr := H%d; sh_sig := %s; sh_signer := {| sg_pub := %s; sg_addr := %s |} |}.",
			i, i, sig, pub, addrOK(sh.Signer.Address)))
		d := c.Datas[i]
		meta := "None"
		if d.Metadata != nil {
			mc := 0
			if d.Metadata.ChainID == c.Genesis.ChainID {
				mc = 1
			}
			meta = fmt.Sprintf("Some {| m_chain := %d; m_height := %s; m_time := %s |}", mc, vgen.N(d.Metadata.Height), r.zt(int64(d.Metadata.Time)))
		}
		defs = append(defs, fmt.Sprintf("Definition D%d : data := {| d_meta := %s; d_txs := %s |}.", i, meta, r.txList(d.Txs)))
	}
	return defs
}

// itemCoq: the model's item.  A Height() fault is part of the history (FF e n: the (n+1)-th call fails); a
// GetBlockData fault is not (the model says it changes nothing: handleEmptyDataHash ignores the error).
func itemCoq(it Item) string {
	ev := func(e string) string {
		if it.F > 0 {
			return fmt.Sprintf("FF (%s) %s", e, vgen.Nat(it.F-1))
		}
		return fmt.Sprintf("FE (%s)", e)
	}
	switch it.T {
	case "h":
		return ev(fmt.Sprintf("EvHeader S%d %s", it.I, vgen.N(it.Da)))
	case "d":
		return ev(fmt.Sprintf("EvData D%d %s", it.I, vgen.N(it.Da)))
	case "restart":
		return "FRestart"
	case "crashh":
		return fmt.Sprintf("FCrash (EvHeader S%d %s) %s", it.I, vgen.N(it.Da), vgen.Nat(it.K))
	case "crashd":
		return fmt.Sprintf("FCrash (EvData D%d %s) %s", it.I, vgen.N(it.Da), vgen.Nat(it.K))
	case "crashboot":
		return "FCrashBoot " + vgen.Nat(it.K)
	}
	return "BAD"
}

// zt: a time as a Coq term — the name of the case's definition that holds it, if there is one
func (r *CaseResult) zt(v int64) string {
	if n, ok := r.times[v]; ok {
		return n
	}
	return vgen.Z(v)
}

func (r *CaseResult) t3(x [3]int64) string {
	return fmt.Sprintf("(%d, %s, %d)", x[0], r.zt(x[1]), x[2])
}

// CoqModule: one case as a Coq module named C<idx> defining c : scase.
func (r *CaseResult) CoqModule(idx int) string {
	var sb strings.Builder
	fmt.Fprintf(&sb, "Module C%d.\n%s\n", idx, strings.Join(r.CoqDefs(), "\n"))
	var chain, hist, obs, ws, log []string
	for i := range r.Chain.Headers {
		chain = append(chain, fmt.Sprintf("(S%d, D%d)", i, i))
	}
	for _, it := range r.Hist {
		hist = append(hist, itemCoq(it))
	}
	for _, o := range r.Obs {
		// ob height status state last calls da-in-store da-in-lastState da-scan-position (Check.SyncerCheck.ob; N_scope is open)
		st, dast := "None", "None"
		if o.HasSt {
			st = "(Some " + r.t3(o.St) + ")"
			dast = fmt.Sprintf("(Some %d)", o.DASt)
		}
		obs = append(obs, fmt.Sprintf("ob %d %d %s %s %d %s %d %d", o.Height, o.Status, st, r.t3(o.Last), o.Calls, dast, o.DALast, o.DAMgr))
	}
	for _, s := range r.Shapes {
		ws = append(ws, vgen.List(s))
	}
	for _, call := range r.Log {
		var txs []string
		for _, tx := range call.Txs {
			txs = append(txs, vgen.N(r.txID(tx)))
		}
		log = append(log, fmt.Sprintf("(%s, %s, %s, %s)", vgen.N(call.Height), r.zt(call.Time), vgen.N(uint64(r.rootID(call.Prev))), vgen.List(txs)))
	}
	fmt.Fprintf(&sb, "Definition c : scase := {| sc_cfg := g; sc_prov := %d; sc_exec := %s;\n sc_chain := %s;\n sc_hist := %s;\n sc_obs := %s;\n sc_ws := %s;\n sc_log := %s;\n sc_blocks := %s |}.\nEnd C%d.",
		r.Chain.Provider, vgen.List(r.execTbl), vgen.List(chain), vgen.List(hist), vgen.List(obs), vgen.List(ws), vgen.List(log), vgen.List(r.Blocks), idx)
	return sb.String()
}

const CoqHeader = "From Coq Require Import String NArith ZArith List Bool.\nFrom Verif Require Import Base.KV Base.Keys Model.Types Model.Syncer Check.SyncerCheck."
const BadCase = "Open Scope N_scope.\nDefinition bad_case : scase := {| sc_cfg := {| g_chain := 0; g_initial := 0; g_time := 0%Z; g_proposer := AddrEmpty; g_initroot := 0 |}; sc_prov := 0; sc_exec := []; sc_chain := []; sc_hist := []; sc_obs := []; sc_ws := []; sc_log := []; sc_blocks := [] |}."

// ---- generation ------------------------------------------------------------------------------------------

func CaseRng(seed int64, c int) *rand.Rand { return rand.New(rand.NewSource(seed*1000003 + int64(c))) }

// GenChain: 2..maxBlocks blocks after genesis, ~40 % empty with runs, sometimes a repeated tx list.
func GenChain(r *rand.Rand, maxBlocks int, allowRepeat bool) ChainSpec {
	cs := ChainSpec{Initial: []uint64{1, 1, 1, 2, 5, 1000}[r.Intn(6)]}
	n := 2 + r.Intn(maxBlocks-1)
	next := 1
	emptyRun := 0
	for i := 0; i < n; i++ {
		b := BlockSpec{Dt: []int64{0, 1, 1000, 1000, 2500}[r.Intn(5)]}
		if emptyRun > 0 || r.Intn(100) < 30 {
			if emptyRun > 0 {
				emptyRun--
			} else if r.Intn(3) == 0 {
				emptyRun = 1 + r.Intn(3)
			}
		} else {
			k := 1 + r.Intn(3)
			for j := 0; j < k; j++ {
				b.Txs = append(b.Txs, next)
				next++
			}
		}
		cs.Blocks = append(cs.Blocks, b)
	}
	if allowRepeat && r.Intn(10) == 0 {
		// repeat an earlier non-empty list in a later block
		var ne []int
		for i, b := range cs.Blocks {
			if len(b.Txs) > 0 {
				ne = append(ne, i)
			}
		}
		if len(ne) >= 1 {
			src := ne[r.Intn(len(ne))]
			dst := r.Intn(len(cs.Blocks))
			if dst != src {
				cs.Blocks[dst].Txs = append([]int{}, cs.Blocks[src].Txs...)
			}
		}
	}
	// a third of the chains is produced and synced with a non-default signature payload provider
	if r.Intn(3) == 0 {
		cs.Provider = 1 + r.Intn(NumProviders-1)
	}
	return cs
}

// AddFaults puts transient store read faults into a history of events and restarts: 1..3 events get a failing
// store.Height() call (60 %: the read of the SyncLoop case, which makes the loop skip the event; otherwise a read
// inside trySyncNextBlock, which makes SyncLoop return), some a failing GetBlockData.  Every event lost to a failed
// read is delivered again at a later point (the sender retries / the other ingress path brings it too); after a
// fault that can stop SyncLoop a clean restart follows somewhere later in 3 of 4 cases.
func AddFaults(r *rand.Rand, evs []Item) []Item {
	out := append([]Item{}, evs...)
	for k := 1 + r.Intn(3); k > 0 && len(out) > 0; k-- {
		p := r.Intn(len(out))
		it := out[p]
		if (it.T != "h" && it.T != "d") || it.F != 0 {
			continue
		}
		if r.Intn(5) < 3 {
			it.F = 1
		} else {
			it.F = 2 + r.Intn(3)
		}
		it.G = r.Intn(4) == 0
		out[p] = it
		again := Item{T: it.T, I: it.I, Da: uint64(r.Intn(20))}
		at := p + 1 + r.Intn(len(out)-p)
		out = InsertAt(out, at, again)
		if it.F >= 2 && r.Intn(4) != 0 {
			q := p + 1 + r.Intn(len(out)-p)
			out = InsertAt(out, q, Item{T: "restart"})
			// what arrived while SyncLoop was down is lost: deliver the event once more after the restart
			out = InsertAt(out, q+1+r.Intn(len(out)-q), again)
		}
	}
	for k := r.Intn(2); k > 0 && len(out) > 0; k-- {
		p := r.Intn(len(out))
		if out[p].T == "h" && out[p].F == 0 {
			out[p].G = true
		}
	}
	return out
}

// GenEvents: every header and data event of the chain (data of empty blocks sometimes too), duplicated
// 1..3 times, in an order biased to sorted / reversed / by channel / random, with random DA tags.
func GenEvents(r *rand.Rand, cs ChainSpec, drop bool) []Item {
	nb := 1 + len(cs.Blocks)
	var evs []Item
	for i := 0; i < nb; i++ {
		empty := i == 0 || len(cs.Blocks[i-1].Txs) == 0
		dup := 1
		if r.Intn(3) == 0 {
			dup = 2 + r.Intn(2)
		}
		for k := 0; k < dup; k++ {
			if !(drop && r.Intn(12) == 0) {
				evs = append(evs, Item{T: "h", I: i, Da: uint64(r.Intn(20))})
			}
			if (!empty || r.Intn(3) == 0) && !(drop && r.Intn(12) == 0) {
				evs = append(evs, Item{T: "d", I: i, Da: uint64(r.Intn(20))})
			}
		}
	}
	switch r.Intn(6) {
	case 0: // in order
	case 1: // reversed
		for i, j := 0, len(evs)-1; i < j; i, j = i+1, j-1 {
			evs[i], evs[j] = evs[j], evs[i]
		}
	case 2: // all headers first (P2P headers, DA data later)
		var a, b []Item
		for _, e := range evs {
			if e.T == "h" {
				a = append(a, e)
			} else {
				b = append(b, e)
			}
		}
		evs = append(a, b...)
	case 3: // all data first
		var a, b []Item
		for _, e := range evs {
			if e.T == "d" {
				a = append(a, e)
			} else {
				b = append(b, e)
			}
		}
		evs = append(a, b...)
	case 4: // near sorted: local swaps
		for k := 0; k < len(evs); k++ {
			i := r.Intn(len(evs))
			j := i + r.Intn(4)
			if j < len(evs) {
				evs[i], evs[j] = evs[j], evs[i]
			}
		}
	default:
		r.Shuffle(len(evs), func(i, j int) { evs[i], evs[j] = evs[j], evs[i] })
	}
	return evs
}

func InsertAt(evs []Item, pos int, it Item) []Item {
	out := append([]Item{}, evs[:pos]...)
	out = append(out, it)
	return append(out, evs[pos:]...)
}

// chain cache: producing a chain is deterministic in (seed, spec)
var chainCache = map[string]*Chain{}

func ChainFor(spec ChainSpec, tmp string) (*Chain, error) {
	key := fmt.Sprintf("%v", spec)
	if c, ok := chainCache[key]; ok {
		return c, nil
	}
	dir, err := os.MkdirTemp(tmp, "agg")
	if err != nil {
		return nil, err
	}
	defer os.RemoveAll(dir)
	c, err := ProduceP(1, spec.Initial, spec.Batches(), filepath.Join(dir, "a"), spec.Provider)
	if err != nil {
		return nil, err
	}
	if len(chainCache) > 64 {
		chainCache = map[string]*Chain{}
	}
	chainCache[key] = c
	return c, nil
}

// HasEqualTxLists: the signature predicate of the F2 class, on the chain description.
func (cs ChainSpec) HasEqualTxLists() bool {
	for i, a := range cs.Blocks {
		for j, b := range cs.Blocks {
			if i < j && len(a.Txs) > 0 && fmt.Sprint(a.Txs) == fmt.Sprint(b.Txs) {
				return true
			}
		}
	}
	return false
}
