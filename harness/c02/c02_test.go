// C02 correspondence harness: a real aggregator block.Manager produces the proposer's chain; a second
// real Manager (no signer) runs the unmodified SyncLoop in a synctest bubble and receives the chain's
// header and data events in generated orders (duplicates, arbitrary interleaving of the two channels,
// arbitrary DA tags, clean restarts with cache files).  Writes cases_C02.v (for Model/Syncer.v) and
// result.json (oracle verdicts).
package c02

import (
	"fmt"
	"os"
	"path/filepath"
	"testing"

	"verif/harness/c02/syncdrv"
	"verif/harness/vgen"
)

func genCase(seed int64, c int, tier string) (syncdrv.ChainSpec, []syncdrv.Item) {
	r := syncdrv.CaseRng(seed, c)
	max := 12
	if tier == "thorough" {
		max = 40
	}
	spec := syncdrv.GenChain(r, max, true)
	evs := syncdrv.GenEvents(r, spec, r.Intn(4) == 0)
	for k := r.Intn(3); k > 0; k-- {
		evs = syncdrv.InsertAt(evs, r.Intn(len(evs)+1), syncdrv.Item{T: "restart"})
	}
	// transient read faults of the store in 2 of 5 histories
	if r.Intn(5) < 2 {
		evs = syncdrv.AddFaults(r, evs)
	}
	return spec, evs
}

func violates(t *testing.T, spec syncdrv.ChainSpec, hist []syncdrv.Item, tmp, sig string) bool {
	c, err := syncdrv.ChainFor(spec, tmp)
	if err != nil {
		return false
	}
	for _, it := range hist {
		if (it.T == "h" || it.T == "d" || it.T == "crashh" || it.T == "crashd") && it.I >= len(c.Headers) {
			return false
		}
	}
	r := syncdrv.RunCase(t, c, spec, hist, tmp)
	for _, v := range r.Viol {
		if v.Sig == sig {
			return true
		}
	}
	return false
}


// shrinkHist: greedy one-at-a-time removal for short histories; for long ones (hundreds of events, every
// evaluation re-runs the whole history on a real node) removal of blocks of halving size under a budget of
// evaluations — the result still fails, it is just not minimal.
func shrinkHist(hist []syncdrv.Item, fails func([]syncdrv.Item) bool) []syncdrv.Item {
	if len(hist) <= 60 {
		return vgen.Shrink(hist, fails)
	}
	cur := hist
	budget := 40
	for size := len(cur) / 2; size >= 1 && budget > 0; size /= 2 {
		for at := 0; at+size <= len(cur) && budget > 0; {
			cand := append(append([]syncdrv.Item{}, cur[:at]...), cur[at+size:]...)
			budget--
			if fails(cand) {
				cur = cand
			} else {
				at += size
			}
		}
	}
	return cur
}

// daStream runs the DA-ingress scenarios (real RetrieveLoop + SyncLoop on a scripted DA layer whose requests may
// come back with errors of every class, stop at a generated instant, restart, converge).  Go oracle + cases for
// Check.DAIngressCheck (third cases file).
func daStream(t *testing.T, e *vgen.Env, res *vgen.Result, tmp string, crash bool, replay *syncdrv.DAScenario) string {
	var scs []syncdrv.DAScenario
	if replay != nil {
		scs = append(scs, *replay)
	} else {
		n := 14
		if e.Tier == "thorough" {
			n = 120
		}
		for c := 0; c < n; c++ {
			sc := syncdrv.GenDAScenario(syncdrv.CaseRng(e.Seed+977, c))
			sc.Crash = crash
			scs = append(scs, sc)
		}
		// ingress back-pressure: a backlog of channel capacity while SyncLoop is busy
		nb := 1
		if e.Tier == "thorough" {
			nb = 2
		}
		for c := 0; c < nb; c++ {
			sc := syncdrv.GenDABacklog(syncdrv.CaseRng(e.Seed+1489, c))
			sc.Crash = crash
			scs = append(scs, sc)
		}
		// requests that come back with errors: every class x {GetIDs, Get, a request that hangs} in every run
		nf := 3 * syncdrv.NumDAErrClasses
		if e.Tier == "thorough" {
			nf *= 4
		}
		for c := 0; c < nf; c++ {
			scs = append(scs, syncdrv.GenDAFaults(syncdrv.CaseRng(e.Seed+3313, c), c+int(e.Seed%7+7)))
		}
	}
	var cases []string
	for k, sc := range scs {
		c, err := syncdrv.ChainFor(sc.Chain, tmp)
		if err != nil {
			t.Fatalf("producing the chain: %v", err)
		}
		r := syncdrv.RunDAScenario(t, c, sc, tmp)
		res.Evaluations++
		res.Count("da-ingress:scenarios")
		if sc.Backlog > 0 {
			res.Count("da-ingress:backlog-of-channel-capacity")
		}
		if len(sc.Faults) > 0 {
			res.Count("da-ingress:scenarios-with-failing-requests")
		}
		if r.StoppedAt {
			res.Count("da-ingress:stopped-right-after-a-commit")
		}
		if r.HeightEnd > r.HeightStop {
			res.Count("da-ingress:progress-after-restart")
		}
		// scripted failing requests by site and class (what was served before a stop depends on scheduling)
		for _, fs := range sc.Faults {
			for _, f := range fs {
				res.Distribution["da-ingress:scripted-failing-request:"+syncdrv.DAFaultName(f)]++
			}
		}
		for _, p := range r.Procs {
			if p.Quiescent {
				res.Count("da-ingress:processes-run-to-quiescence")
			}
		}
		idx := 200000 + k
		scc := sc
		rp := syncdrv.Replay{Seed: e.Seed, Case: idx, Chain: sc.Chain, DA: &scc}
		for _, v := range r.Viol {
			res.Violations = append(res.Violations, vgen.Violation{Signature: v.Sig, What: v.What, Case: idx, Replay: rp})
		}
		if len(r.Procs) > 0 {
			cases = append(cases, r.CoqCase())
		} else {
			cases = append(cases, syncdrv.DABadCase)
		}
		res.Replays[fmt.Sprint(idx)] = rp
	}
	res.Cases += len(cases)
	path := filepath.Join(e.Out, "cases_C02_da.v")
	if err := vgen.WriteCases(path, syncdrv.DACoqHeader, nil, "dcase", cases, "mismatches"); err != nil {
		t.Fatal(err)
	}
	return path
}

// p2pChains: the two long chains all P2P-ingress scenarios of one run share (producing a chain with the real
// aggregator is the expensive part).
func p2pChains(e *vgen.Env) []syncdrv.P2PChain {
	n := 319
	if e.Tier == "thorough" {
		n = 419
	}
	// the second chain is produced and synced with a non-default signature payload provider
	return []syncdrv.P2PChain{{Initial: 1, N: n, Seed: e.Seed}, {Initial: []uint64{2, 7, 1000}[int(e.Seed%3+3)%3], N: n, Seed: e.Seed, Provider: 1}}
}

func p2pViolates(t *testing.T, sc syncdrv.P2PScenario, steps []syncdrv.P2PStep, tmp, sig string) bool {
	c, err := syncdrv.ChainFor(sc.Chain.Spec(), tmp)
	if err != nil {
		return false
	}
	sc.Steps = steps
	for _, v := range syncdrv.RunP2PScenario(t, c, sc, tmp).Viol {
		if v.Sig == sig {
			return true
		}
	}
	return false
}

// p2pStream runs the P2P-ingress scenarios (real Header/DataStoreRetrieveLoop + SyncLoop on fake go-header
// stores).  Go oracle + cases for Check.P2PIngressCheck (second cases file).
func p2pStream(t *testing.T, e *vgen.Env, res *vgen.Result, tmp string, replay *syncdrv.P2PScenario) (string, bool) {
	var scs []syncdrv.P2PScenario
	if replay != nil {
		scs = append(scs, *replay)
	} else {
		n := 96
		if e.Tier == "thorough" {
			n = 300
		}
		chains := p2pChains(e)
		for c := 0; c < n; c++ {
			r := syncdrv.CaseRng(e.Seed+4409, c)
			scs = append(scs, syncdrv.GenP2PScenario(r, chains[r.Intn(len(chains))]))
		}
	}
	var cases []string
	shrunk := map[string]bool{}
	for k, sc := range scs {
		c, err := syncdrv.ChainFor(sc.Chain.Spec(), tmp)
		if err != nil {
			t.Fatalf("producing the chain: %v", err)
		}
		r := syncdrv.RunP2PScenario(t, c, sc, tmp)
		res.Evaluations++
		mode := "e2e"
		if sc.Tap {
			mode = "tap"
		}
		res.Count("p2p-ingress:scenarios-" + mode)
		res.Count(fmt.Sprintf("p2p-ingress:initial-height:%d", sc.Chain.Initial))
		res.Count(fmt.Sprintf("p2p-ingress:largest-burst:%03d+", (r.MaxJump/50)*50))
		res.Distribution["p2p-ingress:clean-restarts"] += r.Restarts
		res.Distribution["p2p-ingress:stops-inside-a-burst"] += r.Stopped
		res.Distribution["p2p-ingress:blocks-applied-by-syncer"] += r.Applied
		for _, ru := range r.Runs {
			res.Distribution["p2p-ingress:loop-wake-ups"] += len(ru.Hdr.Sigs) + len(ru.Data.Sigs)
		}
		if r.EmptySig {
			res.Count("p2p-ingress:wake-up-on-empty-store-initial-gt-1")
		}
		idx := 100000 + k
		scc := sc
		for _, v := range r.Viol {
			sig := v.Sig
			rp := scc
			if !shrunk[sig] && replay == nil {
				shrunk[sig] = true
				rp.Steps = vgen.Shrink(sc.Steps, func(s []syncdrv.P2PStep) bool { return p2pViolates(t, scc, s, tmp, sig) })
			}
			res.Violations = append(res.Violations, vgen.Violation{Signature: sig, What: v.What, Case: idx,
				Replay: syncdrv.Replay{Seed: e.Seed, Case: idx, P2P: &rp}})
		}
		cases = append(cases, r.CoqCase())
		res.Replays[fmt.Sprint(idx)] = syncdrv.Replay{Seed: e.Seed, Case: idx, P2P: &scc}
		if len(res.Samples) < 1 && !sc.Tap && r.MaxJump > 100 && r.Restarts > 0 {
			res.Samples = append(res.Samples, map[string]interface{}{"p2p_scenario": sc, "applied": r.Applied})
		}
	}
	res.Cases += len(cases)
	path := filepath.Join(e.Out, "cases_C02_p2p.v")
	if err := vgen.WriteCases(path, syncdrv.P2PCoqHeader, nil, "pcase", cases, "mismatches"); err != nil {
		t.Fatal(err)
	}
	return path, true
}

func TestVerif(t *testing.T) {
	e := vgen.GetEnv()
	res := vgen.NewResult("C02", e)
	tmp, err := os.MkdirTemp(e.Out, "c02tmp")
	if err != nil {
		t.Fatal(err)
	}
	defer os.RemoveAll(tmp)
	type job struct {
		rp      syncdrv.Replay
		gen     bool
		backlog bool
	}
	var jobs []job
	if e.Replay != "" {
		var rp syncdrv.Replay
		if err := vgen.LoadReplay(e.Replay, &rp); err != nil {
			t.Fatal(err)
		}
		if rp.P2P != nil {
			path, _ := p2pStream(t, e, res, tmp, rp.P2P)
			res.CaseFiles = append(res.CaseFiles, path)
		} else if rp.DA != nil {
			daStream(t, e, res, tmp, false, rp.DA)
		} else {
			jobs = append(jobs, job{rp: rp})
		}
	} else {
		if os.Getenv("VERIF_NO_CORPUS") == "" {
			files, _ := filepath.Glob("../corpus/C02/*.json")
			for _, f := range files {
				var rp syncdrv.Replay
				if vgen.LoadReplay(f, &rp) == nil {
					jobs = append(jobs, job{rp: rp})
				}
			}
		}
		for c := 0; c < e.N; c++ {
			spec, hist := genCase(e.Seed, c, e.Tier)
			jobs = append(jobs, job{rp: syncdrv.Replay{Seed: e.Seed, Case: c, Chain: spec, History: hist}, gen: true})
		}
		// long backlogs behind one missing block, the hole filled last (quick: one per size stratum up to 257; thorough: two per stratum up to 301)
		nbk := 3
		if e.Tier == "thorough" {
			nbk = 2 * len(syncdrv.BacklogSizes)
		}
		for c := 0; c < nbk; c++ {
			spec, hist := syncdrv.GenBacklog(syncdrv.CaseRng(e.Seed+2671, c), c)
			jobs = append(jobs, job{rp: syncdrv.Replay{Seed: e.Seed, Case: e.N + c, Chain: spec, History: hist}, gen: true, backlog: true})
		}
	}
	if e.Replay == "" {
		res.CaseFiles = append(res.CaseFiles, daStream(t, e, res, tmp, false, nil))
		path, _ := p2pStream(t, e, res, tmp, nil)
		res.CaseFiles = append(res.CaseFiles, path)
	}
	var defs, cases []string
	defs = append(defs, syncdrv.BadCase)
	distinct := map[string]bool{}
	for ji, j := range jobs {
		spec, hist := j.rp.Chain, j.rp.History
		c, err := syncdrv.ChainFor(spec, tmp)
		if err != nil {
			t.Fatalf("producing the chain: %v", err)
		}
		cr := syncdrv.RunCase(t, c, spec, hist, tmp)
		res.Evaluations++
		res.Count(fmt.Sprintf("chain-blocks:%02d", (len(c.Headers)/5)*5))
		res.Count(fmt.Sprintf("initial-height:%d", spec.Initial))
		nempty := 0
		for _, b := range spec.Blocks {
			if len(b.Txs) == 0 {
				nempty++
			}
		}
		res.Distribution["blocks-total"] += len(c.Headers)
		res.Distribution["blocks-empty"] += nempty + 1
		res.Distribution["blocks-applied-by-syncer"] += cr.Applied
		if spec.HasEqualTxLists() {
			res.Count("chain:equal-non-empty-tx-lists")
		}
		res.Count(fmt.Sprintf("signature-payload-provider:%d", spec.Provider))
		if j.backlog {
			res.Count("backlog:histories")
			res.Count(fmt.Sprintf("backlog:chain-blocks:%03d+", (len(c.Headers)/50)*50))
			res.Count(fmt.Sprintf("backlog:most-blocks-applied-while-one-item-was-handled:%03d+", (cr.MaxStep/50)*50))
		}
		pendingAtRestart := false
		for _, it := range hist {
			res.Count("item:" + it.T)
			switch {
			case it.F == 1:
				res.Count("read-fault:height-read-of-the-loop-case")
			case it.F >= 2:
				res.Count("read-fault:height-read-inside-trySyncNextBlock")
			}
			if it.G {
				res.Count("read-fault:GetBlockData")
			}
			if it.T == "restart" {
				pendingAtRestart = true
			}
		}
		if spec.Provider != 0 && pendingAtRestart {
			res.Count("custom-provider-chain-with-clean-restart")
		}
		res.Distribution["read-faults-delivered"] += cr.FaultsFired
		res.Distribution["events-lost-to-a-failed-height-read"] += cr.LostEvents
		res.Distribution["sync-loop-returned-at-a-failed-height-read"] += cr.Halts
		if cr.Applied == len(c.Headers) {
			res.Count("outcome:fully-synced")
		} else {
			res.Count("outcome:partially-synced")
		}
		key := fmt.Sprintf("%v|%v", spec, hist)
		if len(hist) >= 4 && cr.Applied >= 2 {
			distinct[key] = true
		}
		for _, v := range cr.Viol {
			sig := v.Sig
			sh := shrinkHist(hist, func(h []syncdrv.Item) bool { return violates(t, spec, h, tmp, sig) })
			res.Violations = append(res.Violations, vgen.Violation{Signature: sig, What: v.What, Case: ji,
				Replay: syncdrv.Replay{Seed: j.rp.Seed, Case: j.rp.Case, Chain: spec, History: sh}})
		}
		defs = append(defs, cr.CoqModule(ji))
		cases = append(cases, fmt.Sprintf("C%d.c", ji))
		res.Replays[fmt.Sprint(ji)] = j.rp
		if len(res.Samples) < 3 && len(hist) > 6 && cr.Applied > 2 {
			res.Samples = append(res.Samples, map[string]interface{}{"chain": spec, "history": hist, "applied": cr.Applied})
		}
	}
	res.Distinct = len(distinct)
	res.Rule = "chains of 3..13 blocks (thorough: ..41) from a real aggregator Manager (initial height in {1,2,5,1000}, ~35% empty blocks with runs, 10% of chains repeat a non-empty tx list); history = every header/data event of the chain (25% of histories drop ~8% of events), duplicated 1-3x, order in {sorted, reversed, headers-first, data-first, near-sorted, shuffled}, random DA tags, 0-2 clean restarts (SaveCache + NewManager); a third of the chains is produced by an aggregator and synced by a node with a NON-default signature payload provider (block.ManagerOptions; headers are handed to SyncLoop with the provider attached, as both ingress paths do); 40% of the histories carry 1-3 transient store read faults (the store handed to the syncing Manager fails one chosen store.Height() call while one event is handled: the read of the SyncLoop case, or a read inside trySyncNextBlock which makes SyncLoop return until the next start; GetBlockData failing in handleEmptyDataHash), every event lost to a failed read is delivered again later; non-trivial = at least 4 items and 2 applied blocks; distinct = distinct (chain, history) pairs; plus long backlogs (one history per size stratum: a run of 8..65 / 99..129 / 199..257 (thorough: ..301) complete blocks waiting behind one missing block, delivered top-down / bottom-up / by channel / shuffled, the hole filled last, nothing new afterwards; clean restarts and failing height reads inside the long trySyncNextBlock call); plus the DA-ingress scenario stream (real RetrieveLoop + SyncLoop on a scripted DA layer, stop right after a commit, restart, converge; requests that come back with errors of every class — generic, deadline and cancellation in both spellings, height from the future, not found — at GetIDs or at Get or hang until their deadline, 1..12 times per DA height before the height is served; every request served, the scan position and the node's height compared with Model/DAIngress.v in cases_C02_da.v); plus the P2P-ingress scenario stream (real HeaderStoreRetrieveLoop + DataStoreRetrieveLoop, with the real SyncLoop or with the harness as consumer of the event channels, on fake go-header stores whose height jumps by 1..300 between signals over a 320-block chain; transient read failures, DA position changes, clean restarts, stops inside a burst; every wake-up compared with Model/P2PIngress.v in cases_C02_p2p.v)"
	res.Cases += len(cases)
	path := filepath.Join(e.Out, "cases_C02.v")
	if err := vgen.WriteCases(path, syncdrv.CoqHeader, defs, "scase", cases, "mismatches"); err != nil {
		t.Fatal(err)
	}
	res.CaseFiles = append(res.CaseFiles, path)
	if err := res.Write(e.Out); err != nil {
		t.Fatal(err)
	}
}
