// C02 correspondence harness: a real aggregator block.Manager produces the proposer's chain; a second
// real Manager (no signer) runs the unmodified SyncLoop in a synctest bubble and receives the chain's
// header and data events in generated orders (duplicates, arbitrary interleaving of the two channels,
// arbitrary DA tags, clean restarts with cache files).  Writes cases_C02.v (for Model/Syncer.v) and
// result.json (oracle verdicts).
package c02

import (
	"fmt"
	"os"
	"path/filepath"
	"testing"

	"verif/harness/c02/syncdrv"
	"verif/harness/vgen"
)

func genCase(seed int64, c int, tier string) (syncdrv.ChainSpec, []syncdrv.Item) {
	r := syncdrv.CaseRng(seed, c)
	max := 12
	if tier == "thorough" {
		max = 40
	}
	spec := syncdrv.GenChain(r, max, true)
	evs := syncdrv.GenEvents(r, spec, r.Intn(4) == 0)
	for k := r.Intn(3); k > 0; k-- {
		evs = syncdrv.InsertAt(evs, r.Intn(len(evs)+1), syncdrv.Item{T: "restart"})
	}
	return spec, evs
}

func violates(t *testing.T, spec syncdrv.ChainSpec, hist []syncdrv.Item, tmp, sig string) bool {
	c, err := syncdrv.ChainFor(spec, tmp)
	if err != nil {
		return false
	}
	for _, it := range hist {
		if (it.T == "h" || it.T == "d" || it.T == "crashh" || it.T == "crashd") && it.I >= len(c.Headers) {
			return false
		}
	}
	r := syncdrv.RunCase(t, c, spec, hist, tmp)
	for _, v := range r.Viol {
		if v.Sig == sig {
			return true
		}
	}
	return false
}


// daStream runs the DA-ingress scenarios (real RetrieveLoop + SyncLoop on a scripted DA layer, stop at a
// generated instant, restart, converge).  Oracle only.
func daStream(t *testing.T, e *vgen.Env, res *vgen.Result, tmp string, crash bool, replay *syncdrv.DAScenario) {
	var scs []syncdrv.DAScenario
	if replay != nil {
		scs = append(scs, *replay)
	} else {
		n := 14
		if e.Tier == "thorough" {
			n = 120
		}
		for c := 0; c < n; c++ {
			sc := syncdrv.GenDAScenario(syncdrv.CaseRng(e.Seed+977, c))
			sc.Crash = crash
			scs = append(scs, sc)
		}
	}
	for _, sc := range scs {
		c, err := syncdrv.ChainFor(sc.Chain, tmp)
		if err != nil {
			t.Fatalf("producing the chain: %v", err)
		}
		r := syncdrv.RunDAScenario(t, c, sc, tmp)
		res.Evaluations++
		res.Count("da-ingress:scenarios")
		if r.StoppedAt {
			res.Count("da-ingress:stopped-right-after-a-commit")
		}
		if r.HeightEnd > r.HeightStop {
			res.Count("da-ingress:progress-after-restart")
		}
		scc := sc
		for _, v := range r.Viol {
			res.Violations = append(res.Violations, vgen.Violation{Signature: v.Sig, What: v.What, Case: -1,
				Replay: syncdrv.Replay{Seed: e.Seed, Case: -1, Chain: sc.Chain, DA: &scc}})
		}
	}
}

func TestVerif(t *testing.T) {
	e := vgen.GetEnv()
	res := vgen.NewResult("C02", e)
	tmp, err := os.MkdirTemp(e.Out, "c02tmp")
	if err != nil {
		t.Fatal(err)
	}
	defer os.RemoveAll(tmp)
	type job struct {
		rp  syncdrv.Replay
		gen bool
	}
	var jobs []job
	if e.Replay != "" {
		var rp syncdrv.Replay
		if err := vgen.LoadReplay(e.Replay, &rp); err != nil {
			t.Fatal(err)
		}
		if rp.DA != nil {
			daStream(t, e, res, tmp, false, rp.DA)
		} else {
			jobs = append(jobs, job{rp: rp})
		}
	} else {
		if os.Getenv("VERIF_NO_CORPUS") == "" {
			files, _ := filepath.Glob("../corpus/C02/*.json")
			for _, f := range files {
				var rp syncdrv.Replay
				if vgen.LoadReplay(f, &rp) == nil {
					jobs = append(jobs, job{rp: rp})
				}
			}
		}
		for c := 0; c < e.N; c++ {
			spec, hist := genCase(e.Seed, c, e.Tier)
			jobs = append(jobs, job{rp: syncdrv.Replay{Seed: e.Seed, Case: c, Chain: spec, History: hist}, gen: true})
		}
	}
	if e.Replay == "" {
		daStream(t, e, res, tmp, false, nil)
	}
	var defs, cases []string
	defs = append(defs, syncdrv.BadCase)
	distinct := map[string]bool{}
	for ji, j := range jobs {
		spec, hist := j.rp.Chain, j.rp.History
		c, err := syncdrv.ChainFor(spec, tmp)
		if err != nil {
			t.Fatalf("producing the chain: %v", err)
		}
		cr := syncdrv.RunCase(t, c, spec, hist, tmp)
		res.Evaluations++
		res.Count(fmt.Sprintf("chain-blocks:%02d", (len(c.Headers)/5)*5))
		res.Count(fmt.Sprintf("initial-height:%d", spec.Initial))
		nempty := 0
		for _, b := range spec.Blocks {
			if len(b.Txs) == 0 {
				nempty++
			}
		}
		res.Distribution["blocks-total"] += len(c.Headers)
		res.Distribution["blocks-empty"] += nempty + 1
		res.Distribution["blocks-applied-by-syncer"] += cr.Applied
		if spec.HasEqualTxLists() {
			res.Count("chain:equal-non-empty-tx-lists")
		}
		for _, it := range hist {
			res.Count("item:" + it.T)
		}
		if cr.Applied == len(c.Headers) {
			res.Count("outcome:fully-synced")
		} else {
			res.Count("outcome:partially-synced")
		}
		key := fmt.Sprintf("%v|%v", spec, hist)
		if len(hist) >= 4 && cr.Applied >= 2 {
			distinct[key] = true
		}
		for _, v := range cr.Viol {
			sig := v.Sig
			sh := vgen.Shrink(hist, func(h []syncdrv.Item) bool { return violates(t, spec, h, tmp, sig) })
			res.Violations = append(res.Violations, vgen.Violation{Signature: sig, What: v.What, Case: ji,
				Replay: syncdrv.Replay{Seed: j.rp.Seed, Case: j.rp.Case, Chain: spec, History: sh}})
		}
		defs = append(defs, cr.CoqModule(ji))
		cases = append(cases, fmt.Sprintf("C%d.c", ji))
		res.Replays[fmt.Sprint(ji)] = j.rp
		if len(res.Samples) < 3 && len(hist) > 6 && cr.Applied > 2 {
			res.Samples = append(res.Samples, map[string]interface{}{"chain": spec, "history": hist, "applied": cr.Applied})
		}
	}
	res.Distinct = len(distinct)
	res.Rule = "chains of 3..13 blocks (thorough: ..41) from a real aggregator Manager (initial height in {1,2,5,1000}, ~35% empty blocks with runs, 10% of chains repeat a non-empty tx list); history = every header/data event of the chain (25% of histories drop ~8% of events), duplicated 1-3x, order in {sorted, reversed, headers-first, data-first, near-sorted, shuffled}, random DA tags, 0-2 clean restarts (SaveCache + NewManager); non-trivial = at least 4 items and 2 applied blocks; distinct = distinct (chain, history) pairs; plus the DA-ingress scenario stream (real RetrieveLoop + SyncLoop on a scripted DA layer, stop right after a commit, restart, converge; oracle only)"
	res.Cases = len(cases)
	path := filepath.Join(e.Out, "cases_C02.v")
	if err := vgen.WriteCases(path, syncdrv.CoqHeader, defs, "scase", cases, "mismatches"); err != nil {
		t.Fatal(err)
	}
	res.CaseFiles = []string{path}
	if err := res.Write(e.Out); err != nil {
		t.Fatal(err)
	}
}
