// C12 harness, cache-file histories (Model/WireCache.v).  The node saves its header and data caches into ONE
// folder each, over and over: save at shutdown, load at start-up, items are processed and deleted, save again.
// Here a history = what the folder holds before the first step (nothing, or files written directly with
// encoding/gob) + a list of steps on the REAL pkg/cache.Cache[types.SignedHeader] / Cache[types.Data]:
// SetItem / DeleteItem / SetSeen / SetDAIncluded on the current cache object, SaveToDisk(folder), restart
// (NewCache + LoadFromDisk(folder)), NewCache without loading, LoadFromDisk into the current object.
// After EVERY step the cache is probed (GetItem at every height, IsSeen / GetDAIncludedHeight at every string
// that occurs in the history) and the four files of the folder are read back with encoding/gob (item values as
// the raw bytes gob stored = MarshalBinary); all of it goes to the Coq model (KCacheSH / KCacheData).
// The Go oracle is independent of the model: whenever a restart follows a successful save, the loaded cache must
// be the cache as it was when it was saved — same set of items, each the same value with the same hash,
// commitment, bytes and signature validity, same marks — whatever the folder held before that save.
package c12

import (
	"bytes"
	"encoding/gob"
	"encoding/hex"
	"fmt"
	"math/rand"
	"os"
	"path/filepath"
	"sort"
	"strings"

	"github.com/evstack/ev-node/pkg/cache"
	"github.com/evstack/ev-node/types"

	"verif/harness/vgen"
)

// ---- replayable description ----

type CacheOp struct {
	Op string `json:"op"`          // set del seen da save load new loadinto
	H  uint64 `json:"h,omitempty"` // set del: the height; da: the DA height
	S  string `json:"s,omitempty"` // seen da: the string key (hex of its bytes)
	V  *Case  `json:"v,omitempty"` // set: the item
}
type DirEnt struct {
	H     uint64 `json:"h,omitempty"`
	S     string `json:"s,omitempty"`     // hex of the string key
	V     *Case  `json:"v,omitempty"`     // item files: the MarshalBinary bytes of this value ...
	Bytes string `json:"bytes,omitempty"` // ... or these bytes
	B     bool   `json:"b,omitempty"`     // hashes.gob
	N     uint64 `json:"n,omitempty"`     // da_included.gob
}
type DirS struct {
	Files  string   `json:"files"` // which files exist: h items_by_height, s items_by_hash, x hashes, d da_included
	ItemsH []DirEnt `json:"items_h,omitempty"`
	ItemsS []DirEnt `json:"items_s,omitempty"`
	Hashes []DirEnt `json:"hashes,omitempty"`
	DA     []DirEnt `json:"da,omitempty"`
}
type CacheS struct {
	Dir *DirS     `json:"dir,omitempty"` // nil: the folder does not exist yet
	Ops []CacheOp `json:"ops"`
}

// ---- the real cache behind one interface ----

type cacheDrv interface {
	fresh()
	set(h uint64, v interface{})
	del(h uint64)
	get(h uint64) interface{} // nil: no item
	seen(s string)
	isSeen(s string) bool
	da(s string, h uint64)
	daHeight(s string) (uint64, bool)
	save(dir string) error
	load(dir string) error
}
type drvOf[T any] struct{ c *cache.Cache[T] }

func (d *drvOf[T]) fresh()                      { d.c = cache.NewCache[T]() }
func (d *drvOf[T]) set(h uint64, v interface{}) { d.c.SetItem(h, v.(*T)) }
func (d *drvOf[T]) del(h uint64)                { d.c.DeleteItem(h) }
func (d *drvOf[T]) get(h uint64) interface{} {
	if p := d.c.GetItem(h); p != nil {
		return p
	}
	return nil
}
func (d *drvOf[T]) seen(s string)                    { d.c.SetSeen(s) }
func (d *drvOf[T]) isSeen(s string) bool             { return d.c.IsSeen(s) }
func (d *drvOf[T]) da(s string, h uint64)            { d.c.SetDAIncluded(s, h) }
func (d *drvOf[T]) daHeight(s string) (uint64, bool) { return d.c.GetDAIncludedHeight(s) }
func (d *drvOf[T]) save(dir string) error            { return d.c.SaveToDisk(dir) }
func (d *drvOf[T]) load(dir string) error            { return d.c.LoadFromDisk(dir) }

func newCacheDrv(t string) cacheDrv {
	var d cacheDrv
	switch t {
	case "sh":
		d = &drvOf[types.SignedHeader]{}
	case "data":
		d = &drvOf[types.Data]{}
	default:
		panic("cache history: bad type " + t)
	}
	d.fresh()
	return d
}

// rawItem stands in for T when the harness reads or writes a cache file itself: gob stores a BinaryMarshaler as
// the bytes MarshalBinary returns, whatever the type is called
type rawItem struct{ B []byte }

func (r *rawItem) MarshalBinary() ([]byte, error) { return r.B, nil }
func (r *rawItem) UnmarshalBinary(b []byte) error { r.B = append([]byte{}, b...); return nil }

const (
	fItemsH = "items_by_height.gob"
	fItemsS = "items_by_hash.gob"
	fHashes = "hashes.gob"
	fDA     = "da_included.gob"
)

func writeGobFile(path string, m interface{}) {
	f, err := os.Create(path)
	if err != nil {
		panic(err)
	}
	defer f.Close()
	if err := gob.NewEncoder(f).Encode(m); err != nil {
		panic(err)
	}
}

// readGobFile: (file exists, decoded without error)
func readGobFile(path string, into interface{}) (bool, error) {
	f, err := os.Open(path)
	if err != nil {
		if os.IsNotExist(err) {
			return false, nil
		}
		return false, err
	}
	defer f.Close()
	return true, gob.NewDecoder(f).Decode(into)
}

type dirObs struct {
	hasH, hasS, hasX, hasD bool
	itemsH                 map[uint64]*rawItem
	itemsS                 map[string]*rawItem
	hashes                 map[string]bool
	da                     map[string]uint64
}

func readDir(dir string) (dirObs, error) {
	d := dirObs{itemsH: map[uint64]*rawItem{}, itemsS: map[string]*rawItem{}, hashes: map[string]bool{}, da: map[string]uint64{}}
	var err error
	if d.hasH, err = readGobFile(filepath.Join(dir, fItemsH), &d.itemsH); err != nil {
		return d, fmt.Errorf("%s: %w", fItemsH, err)
	}
	if d.hasS, err = readGobFile(filepath.Join(dir, fItemsS), &d.itemsS); err != nil {
		return d, fmt.Errorf("%s: %w", fItemsS, err)
	}
	if d.hasX, err = readGobFile(filepath.Join(dir, fHashes), &d.hashes); err != nil {
		return d, fmt.Errorf("%s: %w", fHashes, err)
	}
	if d.hasD, err = readGobFile(filepath.Join(dir, fDA), &d.da); err != nil {
		return d, fmt.Errorf("%s: %w", fDA, err)
	}
	return d, nil
}

func sortedStrKeys[V any](m map[string]V) []string {
	ks := make([]string, 0, len(m))
	for k := range m {
		ks = append(ks, k)
	}
	sort.Strings(ks)
	return ks
}

// ---- what the oracle remembers of a cache at the moment it is saved ----

type cacheSnap struct {
	items map[uint64]*facts // nil: no item at this probe
	vals  map[uint64]interface{}
	seen  map[string]bool
	daOK  map[string]bool
	da    map[string]uint64
}

func snapOf(t string, d cacheDrv, ph []uint64, ps []string) cacheSnap {
	s := cacheSnap{items: map[uint64]*facts{}, vals: map[uint64]interface{}{}, seen: map[string]bool{}, daOK: map[string]bool{}, da: map[string]uint64{}}
	for _, h := range ph {
		if p := d.get(h); p != nil {
			f := factsOf(t, p)
			s.items[h], s.vals[h] = &f, p
		} else {
			s.items[h] = nil
		}
	}
	for _, k := range ps {
		s.seen[k] = d.isSeen(k)
		s.da[k], s.daOK[k] = d.daHeight(k)
	}
	return s
}

// saved vs loaded: ("", "") when the loaded cache is the saved one
func (saved cacheSnap) diff(t string, loaded cacheSnap, ph []uint64, ps []string) (string, string) {
	for _, h := range ph {
		a, b := saved.items[h], loaded.items[h]
		switch {
		case a == nil && b != nil:
			return "cache-file-load-returns-entry-not-saved", fmt.Sprintf("%s cache: LoadFromDisk yields an item at height %d that the cache did not hold when it was saved (it was deleted, or never set, before SaveToDisk)", t, h)
		case a != nil && b == nil:
			return "cache-file-load-loses-entry", fmt.Sprintf("%s cache: the item at height %d that was saved is not there after LoadFromDisk", t, h)
		case a != nil && b != nil:
			if d := a.diff(*b); d != "" {
				if hasNilKeyWithAddress(saved.vals[h]) {
					return "signer-address-without-pubkey-lost", "cache file path: Signer{Address: non-empty, PubKey: nil} loaded as the empty Signer"
				}
				return "cache-file-value-differs", fmt.Sprintf("%s cache: the item at height %d is not the value that was saved: %s", t, h, d)
			}
		}
	}
	for _, k := range ps {
		if saved.seen[k] != loaded.seen[k] {
			if loaded.seen[k] {
				return "cache-file-load-returns-entry-not-saved", fmt.Sprintf("%s cache: IsSeen(%q) is true after LoadFromDisk, it was false when the cache was saved", t, k)
			}
			return "cache-file-load-loses-entry", fmt.Sprintf("%s cache: IsSeen(%q) was true when the cache was saved and is false after LoadFromDisk", t, k)
		}
		switch {
		case !saved.daOK[k] && loaded.daOK[k]:
			return "cache-file-load-returns-entry-not-saved", fmt.Sprintf("%s cache: %q is DA-included after LoadFromDisk, it was not when the cache was saved", t, k)
		case saved.daOK[k] && !loaded.daOK[k]:
			return "cache-file-load-loses-entry", fmt.Sprintf("%s cache: the DA-inclusion mark of %q that was saved is not there after LoadFromDisk", t, k)
		case saved.da[k] != loaded.da[k]:
			return "cache-file-mark-differs", fmt.Sprintf("%s cache: the DA-included height of %q changed on the way through the cache file", t, k)
		}
	}
	return "", ""
}

// ---- one history ----

func strOf(hexs string) string { return string(unhex(hexs)) }

func (e *DirEnt) itemBytes(t string) ([]byte, bool) {
	if e.V != nil {
		vc := *e.V
		vc.T = t
		v, _ := vc.value()
		b, err := codecs[t].enc(v)
		return b, err == nil
	}
	return unhex(e.Bytes), true
}

func runCache(c *Case, o *caseOut) {
	t, cs := c.T, c.CF
	cd := codecs[t]
	kcons := map[string]string{"sh": "KCacheSH", "data": "KCacheData"}[t]
	root, err := os.MkdirTemp("", "c12cache")
	if err != nil {
		panic(err)
	}
	defer os.RemoveAll(root)
	dir := filepath.Join(root, "data", "cache", t)

	// Coq names: one definition per distinct value / long byte string
	vnames, bnames := map[string]string{}, map[string]string{}
	ref := func(p interface{}) string {
		term := termOf(t, p)
		if n, ok := vnames[term]; ok {
			return "@M@." + n
		}
		n := fmt.Sprintf("cv%d", len(vnames))
		vnames[term] = n
		o.def(n, cd.ctype, term)
		return "@M@." + n
	}
	bref := func(b []byte) string {
		if len(b) <= 6 {
			return cb(b)
		}
		if n, ok := bnames[string(b)]; ok {
			return "@M@." + n
		}
		n := fmt.Sprintf("cx%d", len(bnames))
		bnames[string(b)] = n
		o.def(n, "bytes", cb(b))
		return "@M@." + n
	}

	// ---- probes: every height and every string of the history
	hset, sset := map[uint64]bool{0: true}, map[string]bool{"": true}
	for _, op := range cs.Ops {
		switch op.Op {
		case "set", "del":
			hset[op.H] = true
		case "seen", "da":
			sset[strOf(op.S)] = true
		}
	}
	if cs.Dir != nil {
		for _, e := range cs.Dir.ItemsH {
			hset[e.H] = true
		}
		for _, e := range append(append([]DirEnt{}, cs.Dir.Hashes...), cs.Dir.DA...) {
			sset[strOf(e.S)] = true
		}
	}
	var ph []uint64
	for h := range hset {
		ph = append(ph, h)
	}
	sort.Slice(ph, func(i, j int) bool { return ph[i] < ph[j] })
	ps := sortedStrKeys(sset)

	// ---- the folder before the first step, written with encoding/gob directly
	if cs.Dir != nil {
		if err := os.MkdirAll(dir, 0o755); err != nil {
			panic(err)
		}
		mh, ms, mx, md := map[uint64]*rawItem{}, map[string]*rawItem{}, map[string]bool{}, map[string]uint64{}
		for i := range cs.Dir.ItemsH {
			if b, ok := cs.Dir.ItemsH[i].itemBytes(t); ok {
				mh[cs.Dir.ItemsH[i].H] = &rawItem{b}
			}
		}
		for i := range cs.Dir.ItemsS {
			if b, ok := cs.Dir.ItemsS[i].itemBytes(t); ok {
				ms[strOf(cs.Dir.ItemsS[i].S)] = &rawItem{b}
			}
		}
		for _, e := range cs.Dir.Hashes {
			mx[strOf(e.S)] = e.B
		}
		for _, e := range cs.Dir.DA {
			md[strOf(e.S)] = e.N
		}
		if strings.Contains(cs.Dir.Files, "h") {
			writeGobFile(filepath.Join(dir, fItemsH), mh)
		}
		if strings.Contains(cs.Dir.Files, "s") {
			writeGobFile(filepath.Join(dir, fItemsS), ms)
		}
		if strings.Contains(cs.Dir.Files, "x") {
			writeGobFile(filepath.Join(dir, fHashes), mx)
		}
		if strings.Contains(cs.Dir.Files, "d") {
			writeGobFile(filepath.Join(dir, fDA), md)
		}
		o.stats = append(o.stats, "cache-folder:pre-populated")
	} else {
		o.stats = append(o.stats, "cache-folder:absent")
	}

	dirTerm := func() string {
		d, err := readDir(dir)
		if err != nil {
			o.fail("cache-file-unreadable", t+" cache: a file in the cache folder is not a gob stream of its map type: "+err.Error())
			return "dir_none"
		}
		opt := func(has bool, items []string) string {
			if !has {
				return "None"
			}
			return "(Some " + vgen.List(items) + ")"
		}
		var ih, is, ix, id []string
		var hs []uint64
		for h := range d.itemsH {
			hs = append(hs, h)
		}
		sort.Slice(hs, func(i, j int) bool { return hs[i] < hs[j] })
		for _, h := range hs {
			notePKOf(t, d.itemsH[h].B)
			ih = append(ih, fmt.Sprintf("(%s, %s)", vgen.N(h), bref(d.itemsH[h].B)))
		}
		for _, k := range sortedStrKeys(d.itemsS) {
			notePKOf(t, d.itemsS[k].B)
			is = append(is, fmt.Sprintf("(%s, %s)", bref([]byte(k)), bref(d.itemsS[k].B)))
		}
		for _, k := range sortedStrKeys(d.hashes) {
			ix = append(ix, fmt.Sprintf("(%s, %s)", bref([]byte(k)), vgen.Bool(d.hashes[k])))
		}
		for _, k := range sortedStrKeys(d.da) {
			id = append(id, fmt.Sprintf("(%s, %s)", bref([]byte(k)), vgen.N(d.da[k])))
		}
		return fmt.Sprintf("{| f_items := %s; f_sitems := %s; f_hashes := %s; f_da := %s |}", opt(d.hasH, ih), opt(d.hasS, is), opt(d.hasX, ix), opt(d.hasD, id))
	}
	d0 := dirTerm()

	drv := newCacheDrv(t)
	observe := func(ok bool) string {
		var it, se, da []string
		for _, h := range ph {
			if p := drv.get(h); p != nil {
				it = append(it, "(Some "+ref(p)+")")
			} else {
				it = append(it, "None")
			}
		}
		for _, k := range ps {
			se = append(se, vgen.Bool(drv.isSeen(k)))
			if h, ok := drv.daHeight(k); ok {
				da = append(da, "(Some "+vgen.N(h)+")")
			} else {
				da = append(da, "None")
			}
		}
		return fmt.Sprintf("(%s, %s, %s, %s, %s)", vgen.Bool(ok), vgen.List(it), vgen.List(se), vgen.List(da), dirTerm())
	}

	var ops, obs []string
	var lastSaved *cacheSnap // the cache as it was at the last successful SaveToDisk (nil: none yet / the last one failed)
	saves, emptyResave := 0, false
	hadItemsOnDisk := false
	for _, op := range cs.Ops {
		ok := true
		switch op.Op {
		case "set":
			vc := *op.V
			vc.T = t
			v, _ := vc.value()
			drv.set(op.H, v)
			ops = append(ops, fmt.Sprintf("OSetItem %s %s", vgen.N(op.H), ref(v)))
		case "del":
			drv.del(op.H)
			ops = append(ops, "ODelItem "+vgen.N(op.H))
		case "seen":
			drv.seen(strOf(op.S))
			ops = append(ops, "OSetSeen "+bref(unhex(op.S)))
		case "da":
			drv.da(strOf(op.S), op.H)
			ops = append(ops, fmt.Sprintf("OSetDA %s %s", bref(unhex(op.S)), vgen.N(op.H)))
		case "save":
			// can every item be marshalled?  (if not, a clean failure is what SaveToDisk owes)
			allMarshal, nItems := true, 0
			for _, h := range ph {
				if p := drv.get(h); p != nil {
					nItems++
					if _, err := cd.enc(p); err != nil {
						allMarshal = false
					}
				}
			}
			err := drv.save(dir)
			ok = err == nil
			ops = append(ops, "OSave")
			switch {
			case ok:
				saves++
				s := snapOf(t, drv, ph, ps)
				lastSaved = &s
				if nItems == 0 && hadItemsOnDisk {
					emptyResave = true
				}
				hadItemsOnDisk = nItems > 0
			case allMarshal:
				lastSaved = nil
				o.fail("cache-file-save-failed", fmt.Sprintf("%s cache: SaveToDisk fails although every item marshals: %s", t, strings.ReplaceAll(err.Error(), root, "<root>")))
			default:
				lastSaved = nil
				o.stats = append(o.stats, "cache-step:save-refused-unmarshallable-item")
			}
		case "load":
			drv.fresh()
			err := drv.load(dir)
			ok = err == nil
			ops = append(ops, "OLoad")
			if lastSaved != nil {
				o.stats = append(o.stats, "cache-step:restart-after-save")
				if !ok {
					o.fail("cache-file-load-failed", fmt.Sprintf("%s cache: LoadFromDisk of the folder SaveToDisk wrote fails: %s", t, strings.ReplaceAll(err.Error(), root, "<root>")))
				} else {
					loaded := snapOf(t, drv, ph, ps)
					sig, what := lastSaved.diff(t, loaded, ph, ps)
					if sig != "" {
						o.fail(sig, what)
					}
				}
			} else if !ok {
				o.stats = append(o.stats, "cache-step:load-refused")
			}
		case "new":
			drv.fresh()
			ops = append(ops, "ONew")
		case "loadinto":
			ok = drv.load(dir) == nil
			ops = append(ops, "OLoadInto")
		default:
			panic("cache history: bad op " + op.Op)
		}
		obs = append(obs, observe(ok))
	}
	if emptyResave {
		o.stats = append(o.stats, "cache:empty-index-saved-over-non-empty")
	}
	if saves >= 2 {
		o.stats = append(o.stats, "cache:two-or-more-saves-into-one-folder")
	}
	o.stats = append(o.stats, "cache-type:"+t)
	var phs, pss []string
	for _, h := range ph {
		phs = append(phs, vgen.N(h))
	}
	for _, k := range ps {
		pss = append(pss, bref([]byte(k)))
	}
	o.kcases = append(o.kcases, fmt.Sprintf("%s %s %s %s %s %s", kcons, d0, vgen.List(ops), vgen.List(phs), vgen.List(pss), vgen.List(obs)))
}

// ---- generator ----

func gCacheItem(r *rand.Rand, t, tier string) *Case {
	c := &Case{Kind: "value"}
	switch t {
	case "sh":
		c.SH = gSH(r)
		if r.Intn(12) != 0 { // mostly marshallable; sometimes whatever chain id the generator chose (may be invalid UTF-8)
			c.SH.H.Chain = hex.EncodeToString([]byte("c12"))
		}
	case "data":
		c.D = gData(r, tier)
		if len(c.D.Txs) > 6 {
			c.D.Txs = c.D.Txs[:6]
		}
		if c.D.Meta != nil && r.Intn(12) != 0 {
			c.D.Meta.Chain = hex.EncodeToString([]byte("c12"))
		}
	}
	return c
}

func itemKey(t string, item *Case) string { // the string the node marks: header hash / data commitment
	vc := *item
	vc.T = t
	v, _ := vc.value()
	switch x := v.(type) {
	case *types.SignedHeader:
		return x.Hash().String()
	case *types.Data:
		return x.DACommitment().String()
	}
	return ""
}

func gCache(r *rand.Rand, tier string) *Case {
	t := []string{"sh", "data"}[r.Intn(2)]
	cs := &CacheS{}
	nItems := 2 + r.Intn(2)
	items := make([]*Case, nItems)
	for i := range items {
		items[i] = gCacheItem(r, t, tier)
	}
	heights := []uint64{1, 2, 3, 7, 1<<64 - 1, gInt(r)}
	strs := []string{"", "x", "00ff"}
	for _, it := range items {
		strs = append(strs, itemKey(t, it))
	}
	pickS := func() string { return hex.EncodeToString([]byte(strs[r.Intn(len(strs))])) }
	pickH := func() uint64 { return heights[r.Intn(len(heights))] }

	if r.Intn(4) == 0 { // the folder already holds files (of an earlier life of the node, or of anything else)
		d := &DirS{}
		for _, f := range []string{"h", "s", "x", "d"} {
			if r.Intn(3) != 0 {
				d.Files += f
			}
		}
		ent := func() DirEnt {
			if r.Intn(6) == 0 { // bytes that may not decode
				g := gBytes(r, t, tier)
				return DirEnt{Bytes: g.Bytes}
			}
			return DirEnt{V: items[r.Intn(len(items))]}
		}
		if strings.Contains(d.Files, "h") {
			for n := r.Intn(3); n > 0; n-- {
				e := ent()
				e.H = pickH()
				d.ItemsH = append(d.ItemsH, e)
			}
		}
		if strings.Contains(d.Files, "s") {
			for n := r.Intn(3); n > 0 && r.Intn(2) == 0; n-- {
				e := ent()
				e.S = pickS()
				d.ItemsS = append(d.ItemsS, e)
			}
		}
		if strings.Contains(d.Files, "x") {
			for n := r.Intn(3); n > 0; n-- {
				d.Hashes = append(d.Hashes, DirEnt{S: pickS(), B: r.Intn(4) != 0})
			}
		}
		if strings.Contains(d.Files, "d") {
			for n := r.Intn(3); n > 0; n-- {
				d.DA = append(d.DA, DirEnt{S: pickS(), N: gInt(r)})
			}
		}
		cs.Dir = d
	}

	live := map[uint64]bool{} // heights that (probably) hold an item now: only steers the generator
	if cs.Dir != nil {
		for _, e := range cs.Dir.ItemsH {
			live[e.H] = true
		}
	}
	liveList := func() []uint64 {
		var l []uint64
		for h := range live {
			l = append(l, h)
		}
		sort.Slice(l, func(i, j int) bool { return l[i] < l[j] })
		return l
	}
	runs := 2 + r.Intn(3)
	for run := 0; run < runs; run++ {
		if run > 0 && r.Intn(4) == 0 { // the node caught up: every pending item is processed and deleted
			for _, h := range liveList() {
				cs.Ops = append(cs.Ops, CacheOp{Op: "del", H: h})
				delete(live, h)
			}
		}
		for n := r.Intn(5); n > 0; n-- {
			switch x := r.Intn(10); {
			case x < 4:
				h := pickH()
				cs.Ops = append(cs.Ops, CacheOp{Op: "set", H: h, V: items[r.Intn(len(items))]})
				live[h] = true
			case x < 7:
				h := pickH()
				if l := liveList(); len(l) > 0 && r.Intn(5) != 0 {
					h = l[r.Intn(len(l))]
				}
				cs.Ops = append(cs.Ops, CacheOp{Op: "del", H: h})
				delete(live, h)
			case x < 9:
				cs.Ops = append(cs.Ops, CacheOp{Op: "seen", S: pickS()})
			default:
				cs.Ops = append(cs.Ops, CacheOp{Op: "da", S: pickS(), H: gInt(r)})
			}
		}
		if r.Intn(8) != 0 {
			cs.Ops = append(cs.Ops, CacheOp{Op: "save"})
		}
		switch x := r.Intn(20); {
		case x < 14:
			cs.Ops = append(cs.Ops, CacheOp{Op: "load"})
		case x < 17:
			cs.Ops = append(cs.Ops, CacheOp{Op: "new"})
			live = map[uint64]bool{}
		case x < 18:
			cs.Ops = append(cs.Ops, CacheOp{Op: "loadinto"})
		}
	}
	if cs.Ops[len(cs.Ops)-1].Op != "load" {
		cs.Ops = append(cs.Ops, CacheOp{Op: "load"})
	}
	return &Case{Kind: "cache", T: t, CF: cs, How: "cache"}
}

// ---- shrinking: fewer steps, no pre-populated folder; the generic member-dropping then simplifies the items ----

func shrinkCache(c *Case, sig string) *Case {
	cur := *c
	cs := *c.CF
	try := func(x CacheS) bool {
		cc := cur
		cc.CF = &x
		return failsWith(&cc, sig)
	}
	idx := make([]int, len(cs.Ops))
	for i := range idx {
		idx[i] = i
	}
	keep := vgen.Shrink(idx, func(ix []int) bool {
		x := cs
		x.Ops = nil
		for _, j := range ix {
			x.Ops = append(x.Ops, cs.Ops[j])
		}
		return try(x)
	})
	var ops []CacheOp
	for _, j := range keep {
		ops = append(ops, cs.Ops[j])
	}
	cs.Ops = ops
	if cs.Dir != nil {
		x := cs
		x.Dir = nil
		if try(x) {
			cs = x
		}
	}
	cur.CF = &cs
	return &cur
}

func cacheSummary(c *Case) string {
	var ks []string
	for _, op := range c.CF.Ops {
		ks = append(ks, op.Op)
	}
	return fmt.Sprintf("%s cache, folder pre-populated=%v, steps=%s", c.T, c.CF.Dir != nil, strings.Join(ks, ","))
}

var _ = bytes.Equal
