// C12 harness, block-store histories (Model/WireStore.v).  The node keeps ONE pkg/store.DefaultStore over ONE
// datastore for its whole life and reads the same keys over and over (GetState on every block and every RPC query,
// GetBlockData of the previous height, ...), handing what it gets to the executor, the submitter, the RPC server.
// Here a history = what the datastore holds before the first call (nothing, or raw bytes put under the state /
// header / data / signature keys directly: encodings of values, or malformed bytes) + a list of calls on ONE real
// store object: UpdateState, GetState, SaveBlockData, GetHeader, GetBlockData, GetSignature, and "reopen"
// (store.New over the same datastore: a restart); GetBlockByHash / GetSignatureByHash too, for the Go oracle only
// (the hash index is not modelled).
//
// After EVERY call the harness does what a caller is free to do with its own values: it overwrites, in place,
// every byte slice (up to its capacity) of the value the call returned and of the values that were passed to the
// call, and every other field reachable through a returned pointer.  The projection of what a call returned is
// taken BEFORE that.  What every call returned and the datastore read back key by key go to the Coq model
// (KStore): there a read is a function of the stored bytes only.
//
// The Go oracle is independent of the model: (1) what a read returns through the long-lived store must be what
// the codecs decode from the bytes that are under the key right now (read from the datastore directly), and (2)
// what a new store object over the same datastore returns for the same read; (3) after a successful write every
// read of that key must return the value that was written (fields, hash, commitment, bytes on re-encoding,
// signature validity) until the key is written again.
//
// The datastore double copies values on Put and on Get, as the node's badger datastore does (go-datastore's
// MapDatastore keeps the caller's slice, which would make (1)-(3) fail for reasons that are not the store's).
package c12

import (
	"bytes"
	"context"
	"fmt"
	"math/rand"
	"sort"
	"strconv"
	"strings"
	"sync"

	ds "github.com/ipfs/go-datastore"
	dsq "github.com/ipfs/go-datastore/query"

	"github.com/evstack/ev-node/pkg/store"
	"github.com/evstack/ev-node/types"

	"verif/harness/vgen"
)

// ---- replayable description ----

type StoreOp struct {
	Op  string  `json:"op"`           // update get save header block sig reopen blockbyhash sigbyhash
	S   *StateS `json:"s,omitempty"`  // update
	SH  *SHS    `json:"sh,omitempty"` // save
	D   *DataS  `json:"d,omitempty"`  // save
	Sig B       `json:"sig,omitempty"`
	H   uint64  `json:"h,omitempty"` // header block sig; blockbyhash sigbyhash: the hash is that of the header stored at this height
}
type StoreEnt struct {
	K     string `json:"k"`           // s h d c: state / header / data / signature key
	H     uint64 `json:"h,omitempty"` // h d c: the height
	V     *Case  `json:"v,omitempty"` // the encoding of this value ...
	Bytes string `json:"bytes,omitempty"`
}
type StoreS struct {
	DB  []StoreEnt `json:"db,omitempty"` // datastore content before the store is opened
	Ops []StoreOp  `json:"ops"`
}

// ---- a datastore that owns its bytes (copies on Put and on Get) ----

type copyDS struct {
	mu sync.Mutex
	m  map[string][]byte
}

func newCopyDS() *copyDS { return &copyDS{m: map[string][]byte{}} }
func (d *copyDS) Get(_ context.Context, k ds.Key) ([]byte, error) {
	d.mu.Lock()
	defer d.mu.Unlock()
	v, ok := d.m[k.String()]
	if !ok {
		return nil, ds.ErrNotFound
	}
	return append([]byte{}, v...), nil
}
func (d *copyDS) Has(_ context.Context, k ds.Key) (bool, error) {
	d.mu.Lock()
	defer d.mu.Unlock()
	_, ok := d.m[k.String()]
	return ok, nil
}
func (d *copyDS) GetSize(_ context.Context, k ds.Key) (int, error) {
	d.mu.Lock()
	defer d.mu.Unlock()
	v, ok := d.m[k.String()]
	if !ok {
		return -1, ds.ErrNotFound
	}
	return len(v), nil
}
func (d *copyDS) Query(_ context.Context, q dsq.Query) (dsq.Results, error) {
	d.mu.Lock()
	var es []dsq.Entry
	for k, v := range d.m {
		es = append(es, dsq.Entry{Key: k, Value: append([]byte{}, v...), Size: len(v)})
	}
	d.mu.Unlock()
	sort.Slice(es, func(i, j int) bool { return es[i].Key < es[j].Key })
	return dsq.NaiveQueryApply(q, dsq.ResultsWithEntries(q, es)), nil
}
func (d *copyDS) Put(_ context.Context, k ds.Key, v []byte) error {
	d.mu.Lock()
	defer d.mu.Unlock()
	d.m[k.String()] = append([]byte{}, v...)
	return nil
}
func (d *copyDS) Delete(_ context.Context, k ds.Key) error {
	d.mu.Lock()
	defer d.mu.Unlock()
	delete(d.m, k.String())
	return nil
}
func (d *copyDS) Sync(context.Context, ds.Key) error { return nil }
func (d *copyDS) Close() error                       { return nil }

type copyBatchOp struct {
	k   string
	v   []byte
	del bool
}
type copyBatch struct {
	d   *copyDS
	ops []copyBatchOp
}

func (d *copyDS) Batch(context.Context) (ds.Batch, error) { return &copyBatch{d: d}, nil }
func (b *copyBatch) Put(_ context.Context, k ds.Key, v []byte) error {
	b.ops = append(b.ops, copyBatchOp{k: k.String(), v: append([]byte{}, v...)})
	return nil
}
func (b *copyBatch) Delete(_ context.Context, k ds.Key) error {
	b.ops = append(b.ops, copyBatchOp{k: k.String(), del: true})
	return nil
}
func (b *copyBatch) Commit(context.Context) error {
	b.d.mu.Lock()
	defer b.d.mu.Unlock()
	for _, o := range b.ops {
		if o.del {
			delete(b.d.m, o.k)
		} else {
			b.d.m[o.k] = o.v
		}
	}
	b.ops = nil
	return nil
}
func (d *copyDS) raw(k string) ([]byte, bool) {
	d.mu.Lock()
	defer d.mu.Unlock()
	v, ok := d.m[k]
	return append([]byte{}, v...), ok
}

var _ ds.Batching = (*copyDS)(nil)

// ---- what a caller may do with values that are its own ----

// every byte of the slice's backing array from its start to its capacity
func scribble(b []byte) {
	f := b[:cap(b)]
	for i := range f {
		f[i] ^= 0xa5
	}
}
func scribbleHeader(h *types.Header) {
	for _, f := range headerFields(h) {
		scribble(*f)
	}
}
func scribbleSH(s *types.SignedHeader) {
	scribbleHeader(&s.Header)
	scribble(s.Signature)
	scribble(s.Signer.Address)
}
func scribbleData(d *types.Data) {
	for _, f := range dataFields(d) {
		scribble(*f)
	}
}
func scribbleState(s *types.State) {
	scribble(s.LastResultsHash)
	scribble(s.AppHash)
}

// a value returned through a pointer: after its bytes, everything else the pointer reaches
func trashSH(s *types.SignedHeader) {
	scribbleSH(s)
	*s = types.SignedHeader{Header: types.Header{Version: types.Version{Block: 0xdead, App: 0xbeef},
		BaseHeader: types.BaseHeader{Height: 0xfeedface, Time: 0xabad1dea, ChainID: "scribbled"}, AppHash: []byte("scribbled")},
		Signature: []byte("scribbled")}
}
func trashData(d *types.Data) {
	scribbleData(d)
	if d.Metadata != nil {
		*d.Metadata = types.Metadata{ChainID: "scribbled", Height: 0xfeedface, Time: 0xabad1dea, LastDataHash: []byte("scribbled")}
	}
	for i := range d.Txs {
		d.Txs[i] = types.Tx("scribbled")
	}
	*d = types.Data{Txs: types.Txs{types.Tx("scribbled")}}
}

// ---- one history ----

func (e *StoreEnt) codecName() string {
	return map[string]string{"s": "state", "h": "sh", "d": "data"}[e.K]
}
func (e *StoreEnt) rawBytes() ([]byte, bool) {
	if e.V != nil && e.K != "c" {
		vc := *e.V
		vc.T = e.codecName()
		v, _ := vc.value()
		b, err := codecs[vc.T].enc(v)
		return b, err == nil
	}
	return unhex(e.Bytes), true
}
// the key as the datastore sees it (ds.NewKey normalises: the state key "s" becomes "/s")
func storeKey(kind string, h uint64) string {
	switch kind {
	case "s":
		return ds.NewKey(store.VerifStateKey()).String()
	case "h":
		return ds.NewKey(store.VerifHeaderKey(h)).String()
	case "d":
		return ds.NewKey(store.VerifDataKey(h)).String()
	case "c":
		return ds.NewKey(store.VerifSignatureKey(h)).String()
	}
	panic("bad store key kind " + kind)
}

type blockFacts struct {
	sh, d facts
	sig   []byte
	nilKA *types.SignedHeader // non-nil: the saved signer has an address and no key; an untouched copy of what was saved
}

func runStore(c *Case, o *caseOut) {
	hs := c.ST
	ctx := context.Background()
	kv := newCopyDS()

	// Coq names: one definition per distinct value / long byte string
	vnames, bnames := map[string]string{}, map[string]string{}
	ref := func(t string, p interface{}) string {
		term := termOf(t, p)
		key := t + "|" + term
		if n, ok := vnames[key]; ok {
			return "@M@." + n
		}
		n := fmt.Sprintf("sv%d", len(vnames))
		vnames[key] = n
		o.def(n, codecs[t].ctype, term)
		return "@M@." + n
	}
	bref := func(b []byte) string {
		if len(b) <= 6 {
			return cb(b)
		}
		if n, ok := bnames[string(b)]; ok {
			return "@M@." + n
		}
		n := fmt.Sprintf("sx%d", len(bnames))
		bnames[string(b)] = n
		o.def(n, "bytes", cb(b))
		return "@M@." + n
	}

	// ---- the datastore before the store is opened
	for i := range hs.DB {
		e := &hs.DB[i]
		if b, ok := e.rawBytes(); ok {
			if err := kv.Put(ctx, ds.NewKey(storeKey(e.K, e.H)), b); err != nil {
				panic(err)
			}
		}
	}
	if len(hs.DB) > 0 {
		o.stats = append(o.stats, "store-datastore:pre-populated")
	} else {
		o.stats = append(o.stats, "store-datastore:empty")
	}

	// the datastore read back key by key: /s, /h/<n>, /d/<n>, /c/<n> (the index, height and metadata keys are
	// not C12's)
	dbTerm := func() string {
		kv.mu.Lock()
		var ks []string
		for k := range kv.m {
			ks = append(ks, k)
		}
		kv.mu.Unlock()
		type ent struct {
			h uint64
			b []byte
		}
		st := "None"
		per := map[string][]ent{}
		for _, k := range ks {
			b, _ := kv.raw(k)
			if k == storeKey("s", 0) {
				st = "(Some " + bref(b) + ")"
				continue
			}
			for _, kind := range []string{"h", "d", "c"} {
				pre := "/" + kind + "/"
				if !strings.HasPrefix(k, pre) {
					continue
				}
				n, err := strconv.ParseUint(k[len(pre):], 10, 64)
				if err != nil || storeKey(kind, n) != k {
					continue
				}
				if kind == "h" {
					notePKOf("sh", b)
				}
				per[kind] = append(per[kind], ent{n, b})
			}
		}
		lst := func(kind string) string {
			es := per[kind]
			sort.Slice(es, func(i, j int) bool { return es[i].h < es[j].h })
			var items []string
			for _, e := range es {
				items = append(items, fmt.Sprintf("(%s, %s)", vgen.N(e.h), bref(e.b)))
			}
			return vgen.List(items)
		}
		return fmt.Sprintf("{| db_state := %s; db_headers := %s; db_datas := %s; db_sigs := %s |}", st, lst("h"), lst("d"), lst("c"))
	}
	d0 := dbTerm()

	st := store.New(kv)
	var lastState *facts // what the last successful UpdateState wrote (nil: nothing written through the store yet)
	lastBlock := map[uint64]*blockFacts{}
	reads, rereads := 0, 0
	readKeys := map[string]int{}

	// decode of the bytes that are under the key(s) right now, by the codecs, without the store
	rawDecode := func(t, key string) (interface{}, bool) {
		b, ok := kv.raw(key)
		if !ok {
			return nil, false
		}
		notePKOf(t, b)
		v, _, err := codecs[t].dec(b)
		return v, err == nil
	}
	judgeRead := func(what, t string, got interface{}, gotOK bool, key string, fresh interface{}, freshOK bool) {
		reads++
		readKeys[what+key]++
		if readKeys[what+key] > 1 {
			rereads++
		}
		want, wantOK := rawDecode(t, key)
		switch {
		case gotOK != wantOK:
			o.fail("store-read-not-decode-of-stored-bytes", fmt.Sprintf("%s: the store returns %s, decoding the bytes under %s directly %s", what, okWord(gotOK), key, okWord2(wantOK)))
		case gotOK:
			if d := factsOf(t, want).diff(factsOf(t, got)); d != "" {
				o.fail("store-read-not-decode-of-stored-bytes", fmt.Sprintf("%s returns a value that is not the decoding of the bytes stored under %s: %s", what, key, d))
			}
		}
		switch {
		case gotOK != freshOK:
			o.fail("store-read-differs-across-store-objects", fmt.Sprintf("%s: the long-lived store returns %s, a new store object over the same datastore %s", what, okWord(gotOK), okWord2(freshOK)))
		case gotOK:
			if d := factsOf(t, fresh).diff(factsOf(t, got)); d != "" {
				o.fail("store-read-differs-across-store-objects", fmt.Sprintf("%s through the long-lived store differs from the same read through a new store object over the same datastore: %s", what, d))
			}
		}
	}
	judgeWritten := func(what, t string, was facts, nilKA *types.SignedHeader, got interface{}, gotOK bool) {
		if !gotOK {
			o.fail("store-path-failed", what+" fails although the key was written successfully")
			return
		}
		if d := was.diff(factsOf(t, got)); d != "" {
			if sh, isSH := got.(*types.SignedHeader); nilKA != nil && isSH && sh.Signer.PubKey == nil && len(sh.Signer.Address) == 0 &&
				eqHeader(&nilKA.Header, &sh.Header) && bytes.Equal(nilKA.Signature, sh.Signature) { // exactly the repaired defect: only the signer is lost
				o.fail("signer-address-without-pubkey-lost", "store path: Signer{Address: non-empty, PubKey: nil} read back as the empty Signer")
			} else {
				o.fail("store-path-value-differs", fmt.Sprintf("%s does not return the value that was written: %s", what, d))
			}
		}
	}

	var ops, obs []string
	for _, op := range hs.Ops {
		var opTerm, res string
		switch op.Op {
		case "update":
			v := op.S.build()
			opTerm = "SUpdateState " + ref("state", v)
			was := factsOf("state", v)
			err := st.UpdateState(ctx, *v)
			scribbleState(v) // the caller's value is the caller's
			if err == nil {
				lastState = &was
				o.stats = append(o.stats, "store-op:update")
			} else {
				o.stats = append(o.stats, "store-op:update-refused")
			}
			res = "RDone " + vgen.Bool(err == nil)
		case "get":
			got, err := st.GetState(ctx)
			fresh, ferr := store.New(kv).GetState(ctx)
			res = "RState None"
			if err == nil {
				res = "RState (Some " + ref("state", &got) + ")"
			}
			judgeRead("GetState", "state", &got, err == nil, storeKey("s", 0), &fresh, ferr == nil)
			if lastState != nil {
				judgeWritten("GetState", "state", *lastState, nil, &got, err == nil)
			}
			scribbleState(&got)
			scribbleState(&fresh)
			opTerm = "SGetState"
			o.stats = append(o.stats, "store-op:get")
		case "save":
			sh, d := op.SH.build(), op.D.build()
			sig := types.Signature(bb(op.Sig))
			opTerm = fmt.Sprintf("SSaveBlock %s %s %s", ref("sh", sh), ref("data", d), bref(sig))
			was := blockFacts{factsOf("sh", sh), factsOf("data", d), append([]byte{}, sig...), nil}
			if hasNilKeyWithAddress(sh) {
				was.nilKA = op.SH.build()
			}
			h := sh.Height()
			err := st.SaveBlockData(ctx, sh, d, &sig)
			trashSH(sh)
			trashData(d)
			scribble(sig)
			if err == nil {
				lastBlock[h] = &was
				o.stats = append(o.stats, "store-op:save")
			} else {
				o.stats = append(o.stats, "store-op:save-refused")
			}
			res = "RDone " + vgen.Bool(err == nil)
		case "header":
			got, err := st.GetHeader(ctx, op.H)
			fresh, ferr := store.New(kv).GetHeader(ctx, op.H)
			res = "RHeader None"
			if err == nil {
				res = "RHeader (Some " + ref("sh", got) + ")"
			}
			judgeRead(fmt.Sprintf("GetHeader(%d)", op.H), "sh", got, err == nil, storeKey("h", op.H), fresh, ferr == nil)
			if w := lastBlock[op.H]; w != nil {
				judgeWritten(fmt.Sprintf("GetHeader(%d)", op.H), "sh", w.sh, w.nilKA, got, err == nil)
			}
			if err == nil {
				trashSH(got)
			}
			if ferr == nil {
				trashSH(fresh)
			}
			opTerm = "SGetHeader " + vgen.N(op.H)
			o.stats = append(o.stats, "store-op:header")
		case "block":
			gh, gd, err := st.GetBlockData(ctx, op.H)
			fh, fd, ferr := store.New(kv).GetBlockData(ctx, op.H)
			res = "RBlock None"
			if err == nil {
				res = fmt.Sprintf("RBlock (Some (%s, %s))", ref("sh", gh), ref("data", gd))
			}
			what := fmt.Sprintf("GetBlockData(%d)", op.H)
			// a block read needs both keys: the header is judged when the whole read succeeds or the header key alone decides
			_, hOK := rawDecode("sh", storeKey("h", op.H))
			_, dOK := rawDecode("data", storeKey("d", op.H))
			if (err == nil) != (hOK && dOK) {
				o.fail("store-read-not-decode-of-stored-bytes", fmt.Sprintf("%s: the store returns %s, decoding the bytes under the header and data keys directly %s", what, okWord(err == nil), okWord2(hOK && dOK)))
			}
			if (err == nil) != (ferr == nil) {
				o.fail("store-read-differs-across-store-objects", fmt.Sprintf("%s: the long-lived store returns %s, a new store object over the same datastore %s", what, okWord(err == nil), okWord2(ferr == nil)))
			}
			if err == nil && ferr == nil {
				judgeRead(what+" header", "sh", gh, true, storeKey("h", op.H), fh, true)
				judgeRead(what+" data", "data", gd, true, storeKey("d", op.H), fd, true)
				reads--
			}
			if w := lastBlock[op.H]; w != nil {
				if err != nil {
					o.fail("store-path-failed", what+" fails although the block was saved successfully")
				} else {
					judgeWritten(what+" header", "sh", w.sh, w.nilKA, gh, true)
					judgeWritten(what+" data", "data", w.d, nil, gd, true)
				}
			}
			if err == nil {
				trashSH(gh)
				trashData(gd)
			}
			if ferr == nil {
				trashSH(fh)
				trashData(fd)
			}
			opTerm = "SGetBlock " + vgen.N(op.H)
			o.stats = append(o.stats, "store-op:block")
		case "sig":
			got, err := st.GetSignature(ctx, op.H)
			fresh, ferr := store.New(kv).GetSignature(ctx, op.H)
			res = "RSig None"
			if err == nil {
				res = "RSig (Some " + bref(*got) + ")"
			}
			what := fmt.Sprintf("GetSignature(%d)", op.H)
			reads++
			raw, rawOK := kv.raw(storeKey("c", op.H))
			if (err == nil) != rawOK || (rawOK && !bytes.Equal(raw, *got)) {
				o.fail("store-read-not-decode-of-stored-bytes", what+" does not return the bytes stored under the signature key")
			}
			if (err == nil) != (ferr == nil) || (err == nil && !bytes.Equal(*got, *fresh)) {
				o.fail("store-read-differs-across-store-objects", what+" through the long-lived store differs from the same read through a new store object over the same datastore")
			}
			if w := lastBlock[op.H]; w != nil {
				if err != nil {
					o.fail("store-path-failed", what+" fails although the block was saved successfully")
				} else if !bytes.Equal(*got, w.sig) {
					o.fail("store-path-value-differs", what+" does not return the signature that was saved")
				}
			}
			if err == nil {
				scribble(*got)
			}
			if ferr == nil {
				scribble(*fresh)
			}
			opTerm = "SGetSig " + vgen.N(op.H)
			o.stats = append(o.stats, "store-op:sig")
		case "blockbyhash", "sigbyhash":
			// reads through the hash index (/i/<hash> -> height): not modelled, judged by the Go oracle only; a read
			// changes nothing, so leaving the call out of the model's list of steps is sound
			hash := []byte("no header is stored at this height..")
			if v, ok := rawDecode("sh", storeKey("h", op.H)); ok {
				hash = v.(*types.SignedHeader).Hash()
			}
			idx, idxOK := kv.raw(ds.NewKey(store.VerifIndexKey(hash)).String())
			var hgt uint64
			if idxOK && len(idx) == 8 {
				for i := 7; i >= 0; i-- {
					hgt = hgt<<8 | uint64(idx[i])
				}
			} else {
				idxOK = false
			}
			what := fmt.Sprintf("%s(hash of the header at %d)", map[string]string{"blockbyhash": "GetBlockByHash", "sigbyhash": "GetSignatureByHash"}[op.Op], op.H)
			if op.Op == "blockbyhash" {
				gh, gd, err := st.GetBlockByHash(ctx, hash)
				fh, fd, ferr := store.New(kv).GetBlockByHash(ctx, hash)
				_, hOK := rawDecode("sh", storeKey("h", hgt))
				_, dOK := rawDecode("data", storeKey("d", hgt))
				if (err == nil) != (idxOK && hOK && dOK) {
					o.fail("store-read-not-decode-of-stored-bytes", fmt.Sprintf("%s: the store returns %s, following the index entry and decoding the stored bytes directly %s", what, okWord(err == nil), okWord2(idxOK && hOK && dOK)))
				}
				if (err == nil) != (ferr == nil) {
					o.fail("store-read-differs-across-store-objects", fmt.Sprintf("%s: the long-lived store returns %s, a new store object over the same datastore %s", what, okWord(err == nil), okWord2(ferr == nil)))
				}
				if err == nil && ferr == nil {
					judgeRead(what+" header", "sh", gh, true, storeKey("h", hgt), fh, true)
					judgeRead(what+" data", "data", gd, true, storeKey("d", hgt), fd, true)
				}
				if err == nil {
					trashSH(gh)
					trashData(gd)
				}
				if ferr == nil {
					trashSH(fh)
					trashData(fd)
				}
			} else {
				got, err := st.GetSignatureByHash(ctx, hash)
				fresh, ferr := store.New(kv).GetSignatureByHash(ctx, hash)
				raw, rawOK := kv.raw(storeKey("c", hgt))
				if (err == nil) != (idxOK && rawOK) || (err == nil && !bytes.Equal(raw, *got)) {
					o.fail("store-read-not-decode-of-stored-bytes", what+" does not return the bytes stored under the signature key of the height the index names")
				}
				if (err == nil) != (ferr == nil) || (err == nil && !bytes.Equal(*got, *fresh)) {
					o.fail("store-read-differs-across-store-objects", what+" through the long-lived store differs from the same read through a new store object over the same datastore")
				}
				if err == nil {
					scribble(*got)
				}
				if ferr == nil {
					scribble(*fresh)
				}
			}
			o.stats = append(o.stats, "store-op:"+op.Op+" (Go oracle only)")
			continue
		case "reopen":
			st = store.New(kv)
			opTerm, res = "SReopen", "RDone true"
			o.stats = append(o.stats, "store-op:reopen")
		default:
			panic("store history: bad op " + op.Op)
		}
		ops = append(ops, opTerm)
		obs = append(obs, fmt.Sprintf("(%s, %s)", res, dbTerm()))
	}
	if rereads > 0 {
		o.stats = append(o.stats, "store:key-read-again-after-result-overwritten")
	}
	o.kcases = append(o.kcases, fmt.Sprintf("KStore %s %s %s", d0, vgen.List(ops), vgen.List(obs)))
}

func okWord(ok bool) string {
	if ok {
		return "a value"
	}
	return "an error"
}
func okWord2(ok bool) string {
	if ok {
		return "gives a value"
	}
	return "gives an error"
}

// ---- generator ----

var storeHeights = []uint64{0, 1, 2, 7, 300, 1<<64 - 1}

func gStoreHeight(r *rand.Rand) uint64 {
	if r.Intn(3) == 0 {
		return storeHeights[r.Intn(len(storeHeights))]
	}
	return storeHeights[1+r.Intn(2)] // mostly 1 and 2: reads hit what was saved
}
func stripCase(c *Case) *Case {
	c.D, c.How = nil, ""
	return c
}
func gStoreBlock(r *rand.Rand, tier string) (*SHS, *DataS) {
	sh := gSH(r)
	sh.H.Height = gStoreHeight(r)
	d := gData(r, tier)
	if len(d.Txs) > 6 {
		d.Txs = d.Txs[:6]
	}
	return sh, d
}
func gStore(r *rand.Rand, tier string) *Case {
	hs := &StoreS{}
	if r.Intn(2) == 0 { // something is there already
		if r.Intn(3) != 0 {
			e := StoreEnt{K: "s"}
			if r.Intn(3) == 0 {
				e.Bytes = gBytes(r, "state", tier).Bytes
			} else {
				e.V = stripCase(gValue(r, "state", tier))
			}
			hs.DB = append(hs.DB, e)
		}
		for n := r.Intn(3); n > 0; n-- {
			h := gStoreHeight(r)
			sh, d := gStoreBlock(r, tier)
			sh.H.Height = h
			for _, k := range []string{"h", "d", "c"} {
				if r.Intn(5) == 0 {
					continue // a key of the block is missing
				}
				e := StoreEnt{K: k, H: h}
				switch {
				case k == "c":
					e.Bytes = hexOf(gSig(r))
				case r.Intn(4) == 0:
					e.Bytes = gBytes(r, e.codecName(), tier).Bytes
				case k == "h":
					e.V = &Case{Kind: "value", T: "sh", SH: sh}
				default:
					e.V = &Case{Kind: "value", T: "data", D: d}
				}
				hs.DB = append(hs.DB, e)
			}
		}
	}
	n := 4 + r.Intn(6)
	for i := 0; i < n; i++ {
		var op StoreOp
		switch x := r.Intn(20); {
		case x < 4:
			op = StoreOp{Op: "update", S: gState(r)}
		case x < 10:
			op = StoreOp{Op: "get"}
		case x < 13:
			sh, d := gStoreBlock(r, tier)
			op = StoreOp{Op: "save", SH: sh, D: d, Sig: gSig(r)}
		case x < 15:
			op = StoreOp{Op: "header", H: gStoreHeight(r)}
		case x < 17:
			op = StoreOp{Op: "block", H: gStoreHeight(r)}
		case x < 18:
			op = StoreOp{Op: []string{"sig", "sig", "blockbyhash", "sigbyhash"}[r.Intn(4)], H: gStoreHeight(r)}
		default:
			op = StoreOp{Op: "reopen"}
		}
		hs.Ops = append(hs.Ops, op)
	}
	return &Case{Kind: "store", T: "store", ST: hs, How: "store"}
}
func hexOf(b B) string {
	if b == nil {
		return ""
	}
	return *b
}

// ---- shrinking: fewer calls, fewer datastore entries, then the generic member-dropping ----

func shrinkStore(c *Case, sig string) *Case {
	cur := *c
	hs := *c.ST
	try := func(x StoreS) bool {
		cc := cur
		cc.ST = &x
		return failsWith(&cc, sig)
	}
	idx := make([]int, len(hs.Ops))
	for i := range idx {
		idx[i] = i
	}
	keep := vgen.Shrink(idx, func(ix []int) bool {
		x := hs
		x.Ops = nil
		for _, j := range ix {
			x.Ops = append(x.Ops, hs.Ops[j])
		}
		return try(x)
	})
	var ops []StoreOp
	for _, j := range keep {
		ops = append(ops, hs.Ops[j])
	}
	hs.Ops = ops
	didx := make([]int, len(hs.DB))
	for i := range didx {
		didx[i] = i
	}
	dkeep := vgen.Shrink(didx, func(ix []int) bool {
		x := hs
		x.DB = nil
		for _, j := range ix {
			x.DB = append(x.DB, hs.DB[j])
		}
		return try(x)
	})
	var db []StoreEnt
	for _, j := range dkeep {
		db = append(db, hs.DB[j])
	}
	hs.DB = db
	cur.ST = &hs
	return &cur
}

func storeSummary(c *Case) string {
	var ks []string
	for _, op := range c.ST.Ops {
		ks = append(ks, op.Op)
	}
	return fmt.Sprintf("datastore entries before=%d calls=%s", len(c.ST.DB), strings.Join(ks, ","))
}
