// C12 harness, receiver-reuse histories (Model/WireReuse.v).  The other streams decode every message into a
// FRESH receiver.  Here ONE receiver — zero, pre-populated (exact / spare capacity / all byte fields aliasing
// one buffer), or a plain copy of a value that is still in use — is decoded into several times (encodings of
// generated values and malformed byte strings, through the real UnmarshalBinary / the store's State path);
// after every successful decode the value is copied out the way Go callers do (kept := *r, and the same with
// the struct behind the embedded *Metadata copied too).  After EVERY step the receiver and all the copies
// taken so far are read again: the projections go to the Coq model (KReuse*), and the Go oracle requires
// each copy to be what it was when it was taken (fields, Hash, DACommitment, bytes on re-encoding,
// signature validity) and each decoded value to be the value that was encoded.
package c12

import (
	"bytes"
	"crypto/sha256"
	"encoding/hex"
	"fmt"
	"math/rand"
	"strings"

	"google.golang.org/protobuf/proto"

	"github.com/evstack/ev-node/types"
	pb "github.com/evstack/ev-node/types/pb/evnode/v1"

	"verif/harness/vgen"
)

// ReuseS is the replayable description of one history.
type ReuseS struct {
	Init  *Case  `json:"init,omitempty"`  // value the receiver holds before the first step (nil: the zero value)
	Shape string `json:"shape,omitempty"` // "": as built; "roomy": byte fields with spare capacity; "aliased": all byte fields are slices of one buffer
	Live  bool   `json:"live,omitempty"`  // the receiver is a plain copy of a value that somebody still holds
	Steps []Case `json:"steps"`           // Kind "value" (bytes = MarshalBinary of the value) or "bytes"
}

type reuseType struct {
	kcons   string
	zero    func() interface{}
	plain   func(p interface{}) interface{} // kept := *r
	structc func(p interface{}) interface{} // the same, and the struct behind the pointer field copied too
	into    func(p interface{}, b []byte) error
	fields  func(p interface{}) []*[]byte // every byte-slice field
	outer   func(p interface{})           // spare capacity for the slice of slices (Data.Txs)
}

func headerFields(h *types.Header) []*[]byte {
	return []*[]byte{(*[]byte)(&h.LastHeaderHash), (*[]byte)(&h.LastCommitHash), (*[]byte)(&h.DataHash), (*[]byte)(&h.ConsensusHash),
		(*[]byte)(&h.AppHash), (*[]byte)(&h.LastResultsHash), &h.ProposerAddress, (*[]byte)(&h.ValidatorHash)}
}
func dataFields(d *types.Data) []*[]byte {
	var out []*[]byte
	if d.Metadata != nil {
		out = append(out, (*[]byte)(&d.Metadata.LastDataHash))
	}
	for i := range d.Txs {
		out = append(out, (*[]byte)(&d.Txs[i]))
	}
	return out
}
func dataOuter(d *types.Data) {
	if d.Txs != nil {
		d.Txs = append(make(types.Txs, 0, len(d.Txs)+8), d.Txs...)
	}
}
func dataStructCopy(d types.Data) types.Data {
	if d.Metadata != nil {
		m := *d.Metadata
		d.Metadata = &m
	}
	return d
}
func notePKOf(t string, b []byte) {
	switch t {
	case "sh":
		var p pb.SignedHeader
		if proto.Unmarshal(b, &p) == nil && p.Signer != nil {
			notePK(p.Signer.PubKey)
		}
	case "sd":
		var p pb.SignedData
		if proto.Unmarshal(b, &p) == nil && p.Signer != nil {
			notePK(p.Signer.PubKey)
		}
	}
}

var reuseTypes = map[string]*reuseType{
	"header": {"KReuseHeader", func() interface{} { return new(types.Header) },
		func(p interface{}) interface{} { c := *p.(*types.Header); return &c },
		func(p interface{}) interface{} { c := *p.(*types.Header); return &c },
		func(p interface{}, b []byte) error { return p.(*types.Header).UnmarshalBinary(b) },
		func(p interface{}) []*[]byte { return headerFields(p.(*types.Header)) }, nil},
	"sh": {"KReuseSH", func() interface{} { return new(types.SignedHeader) },
		func(p interface{}) interface{} { c := *p.(*types.SignedHeader); return &c },
		func(p interface{}) interface{} { c := *p.(*types.SignedHeader); return &c },
		func(p interface{}, b []byte) error { return p.(*types.SignedHeader).UnmarshalBinary(b) },
		func(p interface{}) []*[]byte {
			s := p.(*types.SignedHeader)
			return append(headerFields(&s.Header), (*[]byte)(&s.Signature), &s.Signer.Address)
		}, nil},
	"meta": {"KReuseMeta", func() interface{} { return new(types.Metadata) },
		func(p interface{}) interface{} { c := *p.(*types.Metadata); return &c },
		func(p interface{}) interface{} { c := *p.(*types.Metadata); return &c },
		func(p interface{}, b []byte) error { return p.(*types.Metadata).UnmarshalBinary(b) },
		func(p interface{}) []*[]byte { return []*[]byte{(*[]byte)(&p.(*types.Metadata).LastDataHash)} }, nil},
	"data": {"KReuseData", func() interface{} { return new(types.Data) },
		func(p interface{}) interface{} { c := *p.(*types.Data); return &c },
		func(p interface{}) interface{} { c := dataStructCopy(*p.(*types.Data)); return &c },
		func(p interface{}, b []byte) error { return p.(*types.Data).UnmarshalBinary(b) },
		func(p interface{}) []*[]byte { return dataFields(p.(*types.Data)) },
		func(p interface{}) { dataOuter(p.(*types.Data)) }},
	"sd": {"KReuseSD", func() interface{} { return new(types.SignedData) },
		func(p interface{}) interface{} { c := *p.(*types.SignedData); return &c },
		func(p interface{}) interface{} {
			c := *p.(*types.SignedData)
			c.Data = dataStructCopy(c.Data)
			return &c
		},
		func(p interface{}, b []byte) error { return p.(*types.SignedData).UnmarshalBinary(b) },
		func(p interface{}) []*[]byte {
			s := p.(*types.SignedData)
			return append(dataFields(&s.Data), (*[]byte)(&s.Signature), &s.Signer.Address)
		},
		func(p interface{}) { dataOuter(&p.(*types.SignedData).Data) }},
	"state": {"KReuseState", func() interface{} { return new(types.State) },
		func(p interface{}) interface{} { c := *p.(*types.State); return &c },
		func(p interface{}) interface{} { c := *p.(*types.State); return &c },
		func(p interface{}, b []byte) error { // pkg/store/store.go GetState, with the State reused
			var ps pb.State
			if err := proto.Unmarshal(b, &ps); err != nil {
				return err
			}
			return p.(*types.State).FromProto(&ps)
		},
		func(p interface{}) []*[]byte {
			s := p.(*types.State)
			return []*[]byte{(*[]byte)(&s.LastResultsHash), &s.AppHash}
		}, nil},
}
var reuseNames = []string{"header", "sh", "meta", "data", "sd", "state"}

func termOf(t string, p interface{}) string {
	switch x := p.(type) {
	case *types.Header:
		return coqHeader(x)
	case *types.SignedHeader:
		return coqSH(x)
	case *types.Metadata:
		return coqMeta(x)
	case *types.Data:
		return coqData(x)
	case *types.SignedData:
		return coqSD(x)
	case *types.State:
		return coqState(x)
	}
	panic("bad type " + t)
}

// everything C12 speaks about, read off a value now
type facts struct {
	term         string
	enc          []byte
	encOK        bool
	hash, commit []byte
	sigApp       bool
	sigOK        bool
}

func factsOf(t string, p interface{}) facts {
	f := facts{term: termOf(t, p)}
	b, err := codecs[t].enc(p)
	f.enc, f.encOK = b, err == nil
	switch x := p.(type) {
	case *types.Header:
		f.hash = x.Hash()
	case *types.SignedHeader:
		f.hash = x.Hash()
	case *types.Data:
		f.hash, f.commit = x.Hash(), x.DACommitment()
	case *types.SignedData:
		f.hash, f.commit = x.Data.Hash(), x.Data.DACommitment()
	}
	f.sigApp, f.sigOK = sigValid(p)
	return f
}
func (a facts) diff(b facts) string {
	switch {
	case a.term != b.term:
		return "its fields changed"
	case !bytes.Equal(a.hash, b.hash):
		return "its Hash() changed"
	case !bytes.Equal(a.commit, b.commit):
		return "its DACommitment() changed"
	case a.encOK != b.encOK || !bytes.Equal(a.enc, b.enc):
		return "it re-encodes to different bytes"
	case a.sigApp != b.sigApp || a.sigOK != b.sigOK:
		return "its signature no longer verifies"
	}
	return ""
}

// the receiver before the first step
func buildReceiver(t string, rs *ReuseS) (recv interface{}, original interface{}) {
	rt := reuseTypes[t]
	if rs.Init == nil {
		recv = rt.zero()
	} else {
		ic := *rs.Init
		ic.T = t
		recv, _ = ic.value()
	}
	switch rs.Shape {
	case "roomy":
		for _, f := range rt.fields(recv) {
			if *f != nil {
				nb := make([]byte, len(*f), len(*f)+64)
				copy(nb, *f)
				*f = nb
			}
		}
		if rt.outer != nil {
			rt.outer(recv)
		}
	case "aliased":
		shared := make([]byte, 0, 320)
		for i := 0; len(shared) < 320; i++ {
			s := sha256.Sum256([]byte(fmt.Sprintf("c12-aliased-%d", i)))
			shared = append(shared, s[:]...)
		}
		for _, f := range rt.fields(recv) {
			if n := len(*f); n <= len(shared) {
				*f = shared[0:n:len(shared)]
			}
		}
		if rt.outer != nil {
			rt.outer(recv)
		}
	}
	if rs.Live {
		original = recv
		recv = rt.plain(original) // r := *original
	}
	return recv, original
}

func runReuse(c *Case, o *caseOut) {
	t, rs := c.T, c.R
	rt, cd := reuseTypes[t], codecs[t]
	names := map[string]string{}
	ref := func(p interface{}) string { // one definition per distinct value
		term := termOf(t, p)
		if n, ok := names[term]; ok {
			return "@M@." + n
		}
		n := fmt.Sprintf("rv%d", len(names))
		names[term] = n
		o.def(n, cd.ctype, term)
		return "@M@." + n
	}
	recv, original := buildReceiver(t, rs)
	r0 := ref(recv)

	type keptT struct {
		structc, plain interface{}
		was            facts
		from           string
	}
	var kept []keptT
	if rs.Live {
		kept = append(kept, keptT{rt.structc(original), original, factsOf(t, original), "the value the receiver was copied from"})
	}
	checkKept := func(after string) {
		for j := range kept {
			if d := kept[j].was.diff(factsOf(t, kept[j].structc)); d != "" {
				o.fail("decoded-value-changed-by-later-decode", fmt.Sprintf("%s: %s (copied out by value) is no longer the same after %s into the same receiver: %s", t, kept[j].from, after, d))
				return
			}
		}
	}
	var stepNames, obs []string
	plainDiffers := false
	for k := range rs.Steps {
		st := rs.Steps[k]
		st.T = t
		var in []byte
		var want interface{}
		var wantFacts facts
		if st.Kind == "value" {
			v, _ := st.value()
			b, err := cd.enc(v)
			if err != nil {
				o.stats = append(o.stats, "reuse-step:marshal-error")
				continue // nothing was encoded: no step
			}
			in, want, wantFacts = b, v, factsOf(t, v)
		} else {
			in = unhex(st.Bytes)
		}
		notePKOf(t, in)
		stepNames = append(stepNames, "@M@."+o.def(fmt.Sprintf("rb%d", k), "bytes", cb(in)))
		buf := append([]byte{}, in...)
		err := rt.into(recv, buf)
		ok := err == nil
		what := fmt.Sprintf("decode %d (%s)", k+1, st.Kind)
		// ---- oracle ----
		checkKept(what)
		if want != nil {
			o.stats = append(o.stats, "reuse-step:value")
			if !ok {
				o.fail("reused-receiver-decode-failed", fmt.Sprintf("%s: decoding a valid encoding into a used receiver fails: %v", t, err))
			} else if d := wantFacts.diff(factsOf(t, recv)); d != "" || !cd.eq(want, recv) {
				o.fail("reused-receiver-roundtrip-differs", fmt.Sprintf("%s: decode(encode(v)) into a used receiver is not v: %s", t, d))
			}
		} else if ok {
			o.stats = append(o.stats, "reuse-step:bytes-accepted")
			if e2, err := cd.enc(recv); err != nil {
				o.fail("decoded-value-does-not-re-encode", t+": a value decoded into a used receiver fails to marshal: "+err.Error())
			} else if v3, _, err := cd.dec(e2); err != nil || !cd.eq(recv, v3) {
				o.fail("reused-receiver-decode-not-stable", t+": decode(encode(r)) != r for a value r decoded into a used receiver")
			}
		} else {
			o.stats = append(o.stats, "reuse-step:bytes-rejected")
		}
		if ok {
			now := factsOf(t, recv)
			for i := range buf { // the caller's buffer is the caller's
				buf[i] ^= 0xff
			}
			if d := now.diff(factsOf(t, recv)); d != "" {
				o.fail("decoded-value-aliases-input-buffer", fmt.Sprintf("%s: overwriting the input buffer after decoding changes the decoded value: %s", t, d))
			}
			kept = append(kept, keptT{rt.structc(recv), rt.plain(recv), now, fmt.Sprintf("the value of decode %d", k+1)})
		}
		// ---- observation for the model: the receiver and every copy, read NOW ----
		var ks, ps []string
		for j := range kept {
			ks = append(ks, ref(kept[j].structc))
			ps = append(ps, ref(kept[j].plain))
			if ks[j] != ps[j] && !plainDiffers {
				// types.Data embeds *Metadata: a plain copy shares that struct with the receiver and the pinned
				// Data.FromProto writes through it (modelled: WireReuse.reshare); compared with the model only
				plainDiffers = true
				o.stats = append(o.stats, "reuse:plain-copy-shows-later-metadata")
			}
		}
		obs = append(obs, fmt.Sprintf("(%s, %s, %s, %s)", vgen.Bool(ok), ref(recv), vgen.List(ks), vgen.List(ps)))
	}
	shape := rs.Shape
	if rs.Init == nil {
		shape = "zero"
	} else if shape == "" {
		shape = "exact"
	}
	if rs.Live {
		shape = "live+" + shape
	}
	o.stats = append(o.stats, "reuse-receiver:"+shape, "reuse-type:"+t)
	o.kcases = append(o.kcases, fmt.Sprintf("%s %s %s %s %s", rt.kcons, r0, vgen.Bool(rs.Live), vgen.List(stepNames), vgen.List(obs)))
}

// ---- generator ----

func gReuse(r *rand.Rand, tier string) *Case {
	t := reuseNames[r.Intn(len(reuseNames))]
	if r.Intn(3) == 0 { // the types the node copies by value all over: headers
		t = []string{"header", "sh"}[r.Intn(2)]
	}
	rs := &ReuseS{}
	strip := func(c *Case) *Case {
		if c.T == "sh" {
			c.D = nil
		}
		c.How = ""
		return c
	}
	if r.Intn(4) != 0 {
		rs.Init = strip(gValue(r, t, tier))
		rs.Shape = []string{"", "roomy", "aliased", "roomy"}[r.Intn(4)]
		rs.Live = r.Intn(3) == 0
	}
	n := 2 + r.Intn(3)
	for i := 0; i < n; i++ {
		if r.Intn(4) == 0 {
			rs.Steps = append(rs.Steps, *strip(gBytes(r, t, tier)))
		} else {
			rs.Steps = append(rs.Steps, *strip(gValue(r, t, tier)))
		}
	}
	return &Case{Kind: "reuse", T: t, R: rs, How: "reuse"}
}

// ---- shrinking: fewer steps, simpler receiver, then the generic member-dropping of each remaining step ----

func shrinkReuse(c *Case, sig string) *Case {
	cur := *c
	rs := *c.R
	try := func(x ReuseS) bool {
		cc := cur
		cc.R = &x
		return failsWith(&cc, sig)
	}
	idx := make([]int, len(rs.Steps))
	for i := range idx {
		idx[i] = i
	}
	keep := vgen.Shrink(idx, func(ix []int) bool {
		x := rs
		x.Steps = nil
		for _, j := range ix {
			x.Steps = append(x.Steps, rs.Steps[j])
		}
		return try(x)
	})
	var steps []Case
	for _, j := range keep {
		steps = append(steps, rs.Steps[j])
	}
	rs.Steps = steps
	for _, f := range []func(x *ReuseS){func(x *ReuseS) { x.Init, x.Shape, x.Live = nil, "", false }, func(x *ReuseS) { x.Live = false }, func(x *ReuseS) { x.Shape = "" }} {
		x := rs
		f(&x)
		if try(x) {
			rs = x
		}
	}
	cur.R = &rs
	return &cur
}

func reuseSummary(c *Case) string {
	var ks []string
	for _, s := range c.R.Steps {
		ks = append(ks, s.Kind)
	}
	return fmt.Sprintf("%s init=%v shape=%q live=%v steps=%s", c.T, c.R.Init != nil, c.R.Shape, c.R.Live, strings.Join(ks, ","))
}

var _ = hex.EncodeToString
