// Package vgen: shared helpers for the correspondence harnesses — one PRNG per run, Coq term
// printing, result/evidence files.
package vgen

import (
	"encoding/json"
	"fmt"
	"math/rand"
	"os"
	"path/filepath"
	"sort"
	"strconv"
	"strings"
)

// Env reads the run parameters handed over by bin/check.
type Env struct {
	Seed   int64
	N      int    // number of generated cases
	Out    string // output directory
	Replay string // replay file ("" = generate)
	Tier   string
	Rng    *rand.Rand
}

func GetEnv() *Env {
	e := &Env{Seed: 1, N: 100, Out: os.Getenv("VERIF_OUT"), Replay: os.Getenv("VERIF_REPLAY"), Tier: os.Getenv("VERIF_TIER")}
	if s := os.Getenv("VERIF_SEED"); s != "" {
		if v, err := strconv.ParseInt(s, 10, 64); err == nil {
			e.Seed = v
		}
	}
	if s := os.Getenv("VERIF_N"); s != "" {
		if v, err := strconv.Atoi(s); err == nil {
			e.N = v
		}
	}
	if e.Out == "" {
		e.Out = os.TempDir()
	}
	if e.Tier == "" {
		e.Tier = "quick"
	}
	e.Rng = rand.New(rand.NewSource(e.Seed))
	return e
}

// Violation is one oracle failure on the real code.
type Violation struct {
	Signature string      `json:"signature"` // decidable class of the failing history (matched against known findings)
	What      string      `json:"what"`
	Case      int         `json:"case"`
	Replay    interface{} `json:"replay"` // the (shrunk) history, replayable with VERIF_REPLAY
}

// Result is what a harness run reports to bin/check.
type Result struct {
	Property     string                 `json:"property"`
	Seed         int64                  `json:"seed"`
	Evaluations  int                    `json:"evaluations"`
	Distinct     int                    `json:"distinct_nontrivial"`
	Rule         string                 `json:"rule"`
	Samples      []interface{}          `json:"samples"`
	Distribution map[string]int         `json:"distribution"`
	Violations   []Violation            `json:"violations"`
	CaseFiles    []string               `json:"case_files"` // cases_*.v written
	Cases        int                    `json:"cases"`      // cases handed to Coq
	Replays      map[string]interface{} `json:"replays"`    // case index -> history (so a Coq mismatch can be turned into a replay)
	Extra        map[string]interface{} `json:"extra,omitempty"`
}

func NewResult(prop string, e *Env) *Result {
	return &Result{Property: prop, Seed: e.Seed, Violations: []Violation{}, Samples: []interface{}{}, Distribution: map[string]int{}, Replays: map[string]interface{}{}, Extra: map[string]interface{}{}}
}

func (r *Result) Count(k string) { r.Distribution[k]++ }

func (r *Result) Write(dir string) error {
	b, err := json.MarshalIndent(r, "", " ")
	if err != nil {
		return err
	}
	return os.WriteFile(filepath.Join(dir, "result.json"), b, 0o644)
}

// ---- Coq term printing -------------------------------------------------------------------

func N(v uint64) string { return strconv.FormatUint(v, 10) + "%N" }
func Z(v int64) string {
	if v < 0 {
		return "(" + strconv.FormatInt(v, 10) + ")%Z"
	}
	return strconv.FormatInt(v, 10) + "%Z"
}
func Nat(v int) string { return strconv.Itoa(v) + "%nat" }
func Bool(b bool) string {
	if b {
		return "true"
	}
	return "false"
}

// Bytes prints a byte string as [bs [..]] (Check/*: bs : list N -> string).
func Bytes(b []byte) string {
	parts := make([]string, len(b))
	for i, c := range b {
		parts[i] = strconv.Itoa(int(c))
	}
	return "(bs [" + strings.Join(parts, ";") + "]%N)"
}

// BytesN prints a byte string as a list of N.
func BytesN(b []byte) string {
	parts := make([]string, len(b))
	for i, c := range b {
		parts[i] = strconv.Itoa(int(c))
	}
	return "[" + strings.Join(parts, ";") + "]%N"
}

// Str prints an ASCII string literal (printable characters only; others via Bytes).
func Str(s string) string {
	for _, c := range []byte(s) {
		if c < 32 || c > 126 {
			return Bytes([]byte(s))
		}
	}
	return "\"" + strings.ReplaceAll(s, "\"", "\"\"") + "\"%string"
}

func List(items []string) string { return "[" + strings.Join(items, "; ") + "]" }

func Option(s *string) string {
	if s == nil {
		return "None"
	}
	return "(Some " + *s + ")"
}

// WriteCases writes a cases file: header (imports), definitions, the case list (chunked into
// sub-lists to keep terms small), and the mismatch evaluation.
func WriteCases(path, header string, defs []string, caseType string, cases []string, mismatchFn string) error {
	var sb strings.Builder
	sb.WriteString(header)
	sb.WriteString("\nImport ListNotations.\nOpen Scope string_scope.\nOpen Scope list_scope.\n")
	for _, d := range defs {
		sb.WriteString(d)
		sb.WriteString("\n")
	}
	const chunk = 50
	var names []string
	for i := 0; i < len(cases); i += chunk {
		j := i + chunk
		if j > len(cases) {
			j = len(cases)
		}
		name := fmt.Sprintf("cases_%d", i/chunk)
		names = append(names, name)
		sb.WriteString(fmt.Sprintf("Definition %s : list %s := [\n  %s\n].\n", name, caseType, strings.Join(cases[i:j], ";\n  ")))
	}
	sb.WriteString(fmt.Sprintf("Definition cases : list %s := %s.\n", caseType, func() string {
		if len(names) == 0 {
			return "[]"
		}
		return strings.Join(names, " ++ ")
	}()))
	sb.WriteString(fmt.Sprintf("Definition M := Eval vm_compute in %s cases.\nPrint M.\n", mismatchFn))
	sb.WriteString("Lemma cases_agree : M = [].\nProof. reflexivity. Qed.\n")
	return os.WriteFile(path, []byte(sb.String()), 0o644)
}

// SortedKeys of a count map, for stable output.
func SortedKeys(m map[string]int) []string {
	ks := make([]string, 0, len(m))
	for k := range m {
		ks = append(ks, k)
	}
	sort.Strings(ks)
	return ks
}

// LoadReplay reads a replay file: either the bare history object or the wrapper written by
// bin/check ({"property":..,"replay":{...}}).
func LoadReplay(path string, into interface{}) error {
	b, err := os.ReadFile(path)
	if err != nil {
		return err
	}
	var w struct {
		Replay json.RawMessage `json:"replay"`
	}
	if json.Unmarshal(b, &w) == nil && len(w.Replay) > 0 && string(w.Replay) != "null" {
		return json.Unmarshal(w.Replay, into)
	}
	return json.Unmarshal(b, into)
}

// Shrink removes items one at a time while [fails] keeps returning true (greedy delta debugging).
func Shrink[T any](items []T, fails func([]T) bool) []T {
	cur := items
	for changed := true; changed; {
		changed = false
		for i := 0; i < len(cur); i++ {
			cand := append(append([]T{}, cur[:i]...), cur[i+1:]...)
			if fails(cand) {
				cur = cand
				changed = true
				i--
			}
		}
	}
	return cur
}
