// loops.go: SHALLOW translation of the loops the deep embedding (Model/GoLite.v) cannot evaluate symbolically.
//
// For each target function the FIRST `for` statement of the shape listed below is translated into a Gallina
// Fixpoint in coq/gen/GoLoops.v, inside a Section whose Variables are what the loop reads but does not compute
// (the element type of the ranged slice with its `len`, the free integer variables, the call made in the body).
// The lemmas of Check/GoLoops*.v prove, by induction over the list / the index, that the translated loop computes
// what the hand-written model computes, for ALL lists.
//
//	shape A (range):   for i, x := range xs { body }      -> structural recursion on xs
//	shape B (counted): for i := a; i < n; i += k { body }  -> recursion on fuel (out of fuel = None), i : N
//
// body statements understood:  v := e | v = e | v += e | v++ | lst = append(lst, x) | lst = append(lst, r...) |
//	if c { ...; continue } | if c { ...; break } | if c { ...; return ... } (error exit) | if c { ... } |
//	r, err := <call>(..., xs[i:end], ...) followed by `if err != nil { return ... }` | logger calls (dropped)
// integer expressions: + - * literals variables len(x) uint64(e) min(a,b);  conditions: comparisons, && || !
// Everything is in N (sizes and indices are far below 2^63; stated in the lemma files).  Anything else makes the
// translator emit `(* UNSUPPORTED ... *)` and a definition named loop_<fn>_unsupported : False -> False, which the
// lemma files do not mention: the lemmas then fail to compile (a missing name), never pass.
package main

import (
	"fmt"
	"go/ast"
	"go/token"
	"sort"
	"strings"
)

type loopTarget struct {
	file, recv, name string
	ident            string // Coq identifier stem
}

var loopTargets = []loopTarget{
	{"da/jsonrpc/client.go", "API", "SubmitWithOptions", "client_filter"},
	{"types/da.go", "", "RetrieveWithHelpers", "retrieve_chunks"},
	{"block/pending_data.go", "PendingData", "numWaitingData", "num_waiting"},
	{"block/pending_base.go", "pendingBase", "getPending", "get_pending"},
}

type ltr struct {
	state  map[string]string // state variable -> current Coq expression
	isList map[string]bool
	locals map[string]bool
	free   map[string]bool // free integer variables (Section Variables : N)
	elem   string          // range element variable
	idx    string          // index variable
	fields []string        // state variables in order
	bad    []string
	call   string // name of the abstract call (shape B)
	calls  int
	lenOf  map[string]bool // free slices whose len() is read
	single bool            // the abstract call returns one item (fetch by index), not a list
	errVal string          // what `err != nil` is in the branch being translated ("true" / "false")
	defs map[string]string // integer variables assigned before the loop (and package constants), as Coq expressions: inlined
}

func (l *ltr) fail(s string) string { l.bad = append(l.bad, s); return "(0)" }

func (l *ltr) ident(n string) string {
	if v, ok := l.state[n]; ok {
		return v
	}
	if l.locals[n] || n == l.elem || n == l.idx {
		return coqName(n)
	}
	// a variable computed before the loop from other integers (or a package constant) is inlined, so that what the
	// loop's bounds ARE is part of the translation
	if d, ok := l.defs[n]; ok {
		return d
	}
	l.free[n] = true
	return coqName(n)
}

func coqName(n string) string { return "v_" + n }

func (l *ltr) iexpr(e ast.Expr) string {
	switch x := e.(type) {
	case *ast.ParenExpr:
		return l.iexpr(x.X)
	case *ast.BasicLit:
		if x.Kind == token.INT {
			return "(" + x.Value + ")"
		}
	case *ast.Ident:
		return l.ident(x.Name)
	case *ast.BinaryExpr:
		a, b := l.iexpr(x.X), l.iexpr(x.Y)
		switch x.Op {
		case token.ADD:
			return "(" + a + " + " + b + ")"
		case token.SUB:
			return "(" + a + " - " + b + ")"
		case token.MUL:
			return "(" + a + " * " + b + ")"
		}
	case *ast.CallExpr:
		if id, ok := x.Fun.(*ast.Ident); ok {
			switch id.Name {
			case "uint64", "int", "uint", "int64":
				if len(x.Args) == 1 {
					return l.iexpr(x.Args[0])
				}
			case "min":
				if len(x.Args) == 2 {
					return "(N.min " + l.iexpr(x.Args[0]) + " " + l.iexpr(x.Args[1]) + ")"
				}
			case "max":
				if len(x.Args) == 2 {
					return "(N.max " + l.iexpr(x.Args[0]) + " " + l.iexpr(x.Args[1]) + ")"
				}
			case "len":
				if len(x.Args) == 1 {
					if a, ok := x.Args[0].(*ast.Ident); ok && a.Name == l.elem {
						return "(len_elem " + coqName(a.Name) + ")"
					}
					if a, ok := x.Args[0].(*ast.Ident); ok && l.isList[a.Name] {
						return "(N.of_nat (length " + l.ident(a.Name) + "))"
					}
					// len of a field of the element: a function of the element
					if se, ok := x.Args[0].(*ast.SelectorExpr); ok {
						if r, ok := se.X.(*ast.Ident); ok && r.Name == l.elem {
							n := "f_len_" + sanitize(text(se))
							l.lenOf[n+":elem"] = true
							return "(" + n + " " + coqName(l.elem) + ")"
						}
					}
					// len of a free slice: a Section variable of its own
					n := "len_" + sanitize(text(x.Args[0]))
					l.lenOf[n] = true
					return n
				}
			}
		}
		// x.f.Txs etc: lengths of fields of the element
		if s, ok := x.Fun.(*ast.Ident); ok {
			_ = s
		}
	case *ast.SelectorExpr:
		// a field of the element or of a free struct, read as an integer: a Section variable
		n := "f_" + sanitize(text(x))
		l.free[n[2:]] = false
		l.lenOf[n] = true
		return n
	}
	return l.fail("integer expression " + text(e))
}

// pureInt: an integer expression built from literals, identifiers, + - *, min, len and integer conversions
func pureInt(e ast.Expr) bool {
	switch x := e.(type) {
	case *ast.ParenExpr:
		return pureInt(x.X)
	case *ast.BasicLit:
		return x.Kind == token.INT
	case *ast.Ident:
		return x.Name != "nil" && x.Name != "true" && x.Name != "false"
	case *ast.BinaryExpr:
		return (x.Op == token.ADD || x.Op == token.SUB || x.Op == token.MUL) && pureInt(x.X) && pureInt(x.Y)
	case *ast.CallExpr:
		if id, ok := x.Fun.(*ast.Ident); ok {
			switch id.Name {
			case "min", "max":
				for _, a := range x.Args {
					if !pureInt(a) {
						return false
					}
				}
				return len(x.Args) == 2
			case "uint64", "int", "uint", "int64":
				return len(x.Args) == 1 && pureInt(x.Args[0])
			}
		}
	}
	return false
}

func sanitize(s string) string {
	var b strings.Builder
	for _, r := range s {
		if (r >= 'a' && r <= 'z') || (r >= 'A' && r <= 'Z') || (r >= '0' && r <= '9') {
			b.WriteRune(r)
		} else {
			b.WriteByte('_')
		}
	}
	return b.String()
}

func (l *ltr) cond(e ast.Expr) string {
	switch x := e.(type) {
	case *ast.ParenExpr:
		return l.cond(x.X)
	case *ast.UnaryExpr:
		if x.Op == token.NOT {
			return "(negb " + l.cond(x.X) + ")"
		}
	case *ast.BinaryExpr:
		switch x.Op {
		case token.LAND:
			return "(" + l.cond(x.X) + " && " + l.cond(x.Y) + ")"
		case token.LOR:
			return "(" + l.cond(x.X) + " || " + l.cond(x.Y) + ")"
		}
		// err != nil / err == nil on the result of the abstract call
		if id, ok := x.X.(*ast.Ident); ok && id.Name == "err" {
			if y, ok := x.Y.(*ast.Ident); ok && y.Name == "nil" {
				v := l.errVal
				if v == "" {
					l.bad = append(l.bad, "err tested outside the continuation of a call")
					v = "false"
				}
				if x.Op == token.NEQ {
					return v
				}
				if v == "true" {
					return "false"
				}
				return "true"
			}
		}
		// x.Metadata != nil and the like: a boolean Section variable of the element
		if y, ok := x.Y.(*ast.Ident); ok && y.Name == "nil" {
			n := "p_" + sanitize(text(x.X)) + "_nonnil"
			l.lenOf["bool:"+n] = true
			if x.Op == token.NEQ {
				return "(" + n + " " + coqName(l.elem) + ")"
			}
			return "(negb (" + n + " " + coqName(l.elem) + "))"
		}
		a, b := l.iexpr(x.X), l.iexpr(x.Y)
		switch x.Op {
		case token.LSS:
			return "(" + a + " <? " + b + ")"
		case token.LEQ:
			return "(" + a + " <=? " + b + ")"
		case token.GTR:
			return "(" + b + " <? " + a + ")"
		case token.GEQ:
			return "(" + b + " <=? " + a + ")"
		case token.EQL:
			return "(" + a + " =? " + b + ")"
		case token.NEQ:
			return "(negb (" + a + " =? " + b + "))"
		}
	}
	l.bad = append(l.bad, "condition "+text(e))
	return "false"
}

func (l *ltr) mkState() string {
	var fs []string
	for _, f := range l.fields {
		fs = append(fs, l.state[f])
	}
	if len(fs) == 1 {
		return fs[0]
	}
	return "(" + strings.Join(fs, ", ") + ")"
}

// stmts translates a statement list; next = what happens when control reaches the end (next iteration),
// brk = what a break yields.  Returns a Coq expression.
func (l *ltr) stmts(ss []ast.Stmt, next func() string, brk func() string, ret func() string) string {
	if len(ss) == 0 {
		return next()
	}
	s, rest := ss[0], ss[1:]
	save := func() map[string]string {
		m := map[string]string{}
		for k, v := range l.state {
			m[k] = v
		}
		return m
	}
	switch x := s.(type) {
	case *ast.ExprStmt:
		if c, ok := x.X.(*ast.CallExpr); ok && isLogger(c.Fun) {
			return l.stmts(rest, next, brk, ret)
		}
		// a call made for its effect on a state variable outside the loop is not in the fragment,
		// except the step-over of numWaitingData which is recorded as an effect list
		if c, ok := x.X.(*ast.CallExpr); ok {
			if _, ok := l.state["effects"]; ok {
				l.state["effects"] = "(" + l.state["effects"] + " ++ [" + l.callArgs(c) + "])"
				return l.stmts(rest, next, brk, ret)
			}
		}
	case *ast.BranchStmt:
		if x.Tok == token.CONTINUE {
			return next()
		}
		if x.Tok == token.BREAK {
			return brk()
		}
	case *ast.ReturnStmt:
		return ret()
	case *ast.IncDecStmt:
		if id, ok := x.X.(*ast.Ident); ok {
			if _, ok := l.state[id.Name]; ok {
				op := " + 1"
				if x.Tok == token.DEC {
					op = " - 1"
				}
				l.state[id.Name] = "(" + l.state[id.Name] + op + ")"
				return l.stmts(rest, next, brk, ret)
			}
		}
	case *ast.AssignStmt:
		// r, err := call(...)
		if len(x.Lhs) == 2 && len(x.Rhs) == 1 {
			if c, ok := x.Rhs[0].(*ast.CallExpr); ok {
				r, _ := x.Lhs[0].(*ast.Ident)
				if r != nil {
					l.calls++
					arg := l.callArgs(c)
					l.locals[r.Name] = true
					before := save()
					l.errVal = "false"
					okBranch := l.stmts(rest, next, brk, ret)
					l.state = before
					l.errVal = "true"
					errBranch := l.stmts(rest, next, brk, ret)
					l.state = before
					l.errVal = ""
					if l.single {
						return "(match the_call " + arg + " with\n      | Some " + coqName(r.Name) + " => " + okBranch + "\n      | None => " + errBranch + "\n      end)"
					}
					return "(match the_call " + arg + " with\n      | Some " + coqName(r.Name) + " => " + okBranch + "\n      | None => " + errBranch + "\n      end)"
				}
			}
		}
		if len(x.Lhs) == 1 && len(x.Rhs) == 1 {
			id, ok := x.Lhs[0].(*ast.Ident)
			if ok {
				// lst = append(lst, x) / append(lst, r...)
				if c, ok := x.Rhs[0].(*ast.CallExpr); ok {
					if f, ok := c.Fun.(*ast.Ident); ok && f.Name == "append" && len(c.Args) == 2 {
						if _, ok := l.state[id.Name]; ok && l.isList[id.Name] {
							arg := ""
							if a, ok := c.Args[1].(*ast.Ident); ok {
								if c.Ellipsis != token.NoPos {
									arg = coqName(a.Name)
								} else {
									arg = "[" + coqName(a.Name) + "]"
								}
							}
							if arg != "" {
								l.state[id.Name] = "(" + l.state[id.Name] + " ++ " + arg + ")"
								return l.stmts(rest, next, brk, ret)
							}
						}
					}
				}
				switch x.Tok {
				case token.DEFINE:
					l.locals[id.Name] = true
					v := l.iexpr(x.Rhs[0])
					return "(let " + coqName(id.Name) + " := " + v + " in\n      " + l.stmts(rest, next, brk, ret) + ")"
				case token.ASSIGN:
					if _, ok := l.state[id.Name]; ok && !l.isList[id.Name] {
						l.state[id.Name] = l.iexpr(x.Rhs[0])
						return l.stmts(rest, next, brk, ret)
					}
				case token.ADD_ASSIGN:
					if _, ok := l.state[id.Name]; ok {
						l.state[id.Name] = "(" + l.state[id.Name] + " + " + l.iexpr(x.Rhs[0]) + ")"
						return l.stmts(rest, next, brk, ret)
					}
				}
			}
		}
	case *ast.IfStmt:
		if x.Init == nil {
			c := l.cond(x.Cond)
			if c == "true" {
				return l.stmts(append(append([]ast.Stmt{}, x.Body.List...), rest...), next, brk, ret)
			}
			if c == "false" {
				switch e := x.Else.(type) {
				case nil:
					return l.stmts(rest, next, brk, ret)
				case *ast.BlockStmt:
					return l.stmts(append(append([]ast.Stmt{}, e.List...), rest...), next, brk, ret)
				}
			}
			before := save()
			thn := l.stmts(append(append([]ast.Stmt{}, x.Body.List...), rest...), next, brk, ret)
			l.state = before
			var els string
			switch e := x.Else.(type) {
			case nil:
				els = l.stmts(rest, next, brk, ret)
			case *ast.BlockStmt:
				els = l.stmts(append(append([]ast.Stmt{}, e.List...), rest...), next, brk, ret)
			case *ast.IfStmt:
				els = l.stmts(append([]ast.Stmt{e}, rest...), next, brk, ret)
			}
			l.state = before
			return "(if " + c + "\n      then " + thn + "\n      else " + els + ")"
		}
	}
	l.bad = append(l.bad, "statement "+text(s))
	return next()
}

// the argument of the abstract call: the slice expression xs[i:end] (shape B) or the argument list of a step-over
func (l *ltr) callArgs(c *ast.CallExpr) string {
	for _, a := range c.Args {
		if se, ok := a.(*ast.SliceExpr); ok && se.Low != nil && se.High != nil {
			return "(" + l.iexpr(se.Low) + ") (" + l.iexpr(se.High) + ")"
		}
	}
	// a call indexed by the loop variable (fetch(ctx, store, i)): one item per call
	if l.idx != "" && l.elem == "" {
		for _, a := range c.Args {
			if id, ok := a.(*ast.Ident); ok && id.Name == l.idx {
				l.single = true
				return coqName(l.idx)
			}
		}
	}
	var as []string
	for _, a := range c.Args {
		if id, ok := a.(*ast.Ident); ok && id.Name == "ctx" {
			continue
		}
		if ce, ok := a.(*ast.CallExpr); ok {
			// data.Height(): a field of the element
			n := "f_" + sanitize(text(ce))
			l.lenOf[n+":elem"] = true
			as = append(as, "("+n+" "+coqName(l.elem)+")")
			continue
		}
		as = append(as, l.iexpr(a))
	}
	return strings.Join(as, " ")
}

func assignedOuter(body *ast.BlockStmt) (vars []string, lists map[string]bool, effects bool) {
	lists = map[string]bool{}
	declared := map[string]bool{}
	seen := map[string]bool{}
	ast.Inspect(body, func(n ast.Node) bool {
		switch x := n.(type) {
		case *ast.AssignStmt:
			for _, lh := range x.Lhs {
				id, ok := lh.(*ast.Ident)
				if !ok {
					continue
				}
				if x.Tok == token.DEFINE {
					declared[id.Name] = true
					continue
				}
				if !declared[id.Name] && !seen[id.Name] && id.Name != "err" {
					seen[id.Name] = true
					vars = append(vars, id.Name)
				}
				if len(x.Rhs) == 1 {
					if c, ok := x.Rhs[0].(*ast.CallExpr); ok {
						if f, ok := c.Fun.(*ast.Ident); ok && f.Name == "append" {
							lists[id.Name] = true
						}
					}
				}
			}
		case *ast.IncDecStmt:
			if id, ok := x.X.(*ast.Ident); ok && !declared[id.Name] && !seen[id.Name] {
				seen[id.Name] = true
				vars = append(vars, id.Name)
			}
		case *ast.ExprStmt:
			if c, ok := x.X.(*ast.CallExpr); ok && !isLogger(c.Fun) {
				effects = true
			}
		}
		return true
	})
	return
}

func translateLoops(root string, parse func(string) *ast.File) string {
	var b strings.Builder
	b.WriteString("(* GENERATED by harness/translators/golite (loops.go) from the Go source of the repository; do not edit. *)\n")
	b.WriteString("From Coq Require Import List NArith Bool.\nFrom Coq Require String.\nImport ListNotations.\nOpen Scope N_scope.\nOpen Scope list_scope.\nOpen Scope bool_scope.\n\n")
	var inputs []string
	for _, tg := range loopTargets {
		f := parse(tg.file)
		var fd *ast.FuncDecl
		if f != nil {
			for _, d := range f.Decls {
				if x, ok := d.(*ast.FuncDecl); ok && x.Name.Name == tg.name && recvType(x) == tg.recv {
					fd = x
				}
			}
		}
		var loop ast.Stmt
		if fd != nil {
			ast.Inspect(fd.Body, func(n ast.Node) bool {
				if loop != nil {
					return false
				}
				switch n.(type) {
				case *ast.RangeStmt, *ast.ForStmt:
					loop = n.(ast.Stmt)
					return false
				}
				return true
			})
		}
		if loop == nil {
			fmt.Fprintf(&b, "(* UNSUPPORTED %s: no loop found in %s %s *)\nDefinition loop_%s_unsupported : False -> False := fun x => x.\n\n", tg.ident, tg.file, tg.name, tg.ident)
			continue
		}
		l := &ltr{state: map[string]string{}, isList: map[string]bool{}, locals: map[string]bool{}, free: map[string]bool{}, lenOf: map[string]bool{},
			defs: map[string]string{}}
		// package-level integer constants of the file
		for _, d := range f.Decls {
			if gd, ok := d.(*ast.GenDecl); ok && (gd.Tok == token.CONST || gd.Tok == token.VAR) {
				for _, sp := range gd.Specs {
					if vs, ok := sp.(*ast.ValueSpec); ok && len(vs.Names) == len(vs.Values) {
						for i, n := range vs.Names {
							if pureInt(vs.Values[i]) {
								l.defs[n.Name] = l.iexpr(vs.Values[i])
							}
						}
					}
				}
			}
		}
		// the integer computations of the function before the loop, in order (sequential semantics): x := e, x = e,
		// and `if c { x = e; ... }` (a conditional update).  Anything else that writes an integer variable the loop
		// reads makes the translation unsupported, rather than silently treating the variable as a parameter.
		clobbered := map[string]bool{}
		var pre func(st ast.Stmt, top bool)
		pre = func(st ast.Stmt, top bool) {
			switch x := st.(type) {
			case *ast.AssignStmt:
				for i, lh := range x.Lhs {
					id, ok := lh.(*ast.Ident)
					if !ok || id.Name == "_" || id.Name == "err" {
						continue
					}
					if top && len(x.Lhs) == 1 && len(x.Rhs) == 1 && (x.Tok == token.DEFINE || x.Tok == token.ASSIGN) && pureInt(x.Rhs[0]) {
						l.defs[id.Name] = l.iexpr(x.Rhs[0])
						delete(clobbered, id.Name)
						continue
					}
					_ = i
					if x.Tok == token.DEFINE && top {
						// assigned from a call / other expression: a genuine input of the loop (a Section variable)
						delete(l.defs, id.Name)
						delete(clobbered, id.Name)
						continue
					}
					delete(l.defs, id.Name)
					clobbered[id.Name] = true
				}
			case *ast.IfStmt:
				simple := top && x.Init == nil && x.Else == nil
				if simple {
					for _, b := range x.Body.List {
						as, ok := b.(*ast.AssignStmt)
						if !ok || len(as.Lhs) != 1 || len(as.Rhs) != 1 || as.Tok != token.ASSIGN || !pureInt(as.Rhs[0]) {
							simple = false
							break
						}
						if _, ok := as.Lhs[0].(*ast.Ident); !ok {
							simple = false
							break
						}
					}
				}
				// an `if` whose body only returns (an early exit before the loop) does not write anything
				onlyReturns := true
				ast.Inspect(x.Body, func(n ast.Node) bool {
					switch n.(type) {
					case *ast.AssignStmt, *ast.IncDecStmt:
						onlyReturns = false
					}
					return true
				})
				if onlyReturns && x.Else == nil {
					return
				}
				if simple {
					c := l.cond(x.Cond)
					for _, b := range x.Body.List {
						as := b.(*ast.AssignStmt)
						id := as.Lhs[0].(*ast.Ident)
						prev, ok := l.defs[id.Name]
						if !ok {
							prev = coqName(id.Name)
							l.free[id.Name] = true
						}
						l.defs[id.Name] = "(if " + c + " then " + l.iexpr(as.Rhs[0]) + " else " + prev + ")"
					}
					return
				}
				ast.Inspect(x, func(n ast.Node) bool {
					if as, ok := n.(*ast.AssignStmt); ok {
						pre(as, false)
					}
					if inc, ok := n.(*ast.IncDecStmt); ok {
						if id, ok := inc.X.(*ast.Ident); ok {
							delete(l.defs, id.Name)
							clobbered[id.Name] = true
						}
					}
					return true
				})
			case *ast.IncDecStmt:
				if id, ok := x.X.(*ast.Ident); ok {
					delete(l.defs, id.Name)
					clobbered[id.Name] = true
				}
			case *ast.ForStmt, *ast.RangeStmt, *ast.SwitchStmt, *ast.BlockStmt:
				ast.Inspect(x, func(n ast.Node) bool {
					if as, ok := n.(*ast.AssignStmt); ok {
						pre(as, false)
					}
					return true
				})
			}
		}
		for _, st := range fd.Body.List {
			if st == loop {
				break
			}
			pre(st, true)
		}
		defer func() {}()
		var body *ast.BlockStmt
		shape := ""
		var counted *ast.ForStmt
		switch x := loop.(type) {
		case *ast.RangeStmt:
			shape = "A"
			body = x.Body
			if id, ok := x.Value.(*ast.Ident); ok {
				l.elem = id.Name
			}
			if id, ok := x.Key.(*ast.Ident); ok && id.Name != "_" {
				l.idx = id.Name
			}
		case *ast.ForStmt:
			shape = "B"
			body = x.Body
			counted = x
		}
		vars, lists, effects := assignedOuter(body)
		l.fields = vars
		l.isList = lists
		if effects && shape == "A" {
			l.fields = append(l.fields, "effects")
			l.isList["effects"] = true
		}
		for _, v := range l.fields {
			l.state[v] = "s_" + v
		}
		entry := func() string {
			var fs []string
			for _, f := range l.fields {
				fs = append(fs, "s_"+f)
			}
			if len(fs) == 1 {
				return fs[0]
			}
			return "'(" + strings.Join(fs, ", ") + ")"
		}
		var def string
		stTypes := func() string {
			var ts []string
			for _, f := range l.fields {
				switch {
				case f == "effects":
					ts = append(ts, "list N")
				case l.isList[f] && shape == "A":
					ts = append(ts, "list Elem")
				case l.isList[f]:
					ts = append(ts, "list Res")
				default:
					ts = append(ts, "N")
				}
			}
			return strings.Join(ts, " * ")
		}
		if shape == "A" {
			next := func() string { return "loop rest " + l.mkState() }
			brk := func() string { return l.mkState() }
			bodyE := l.stmts(body.List, next, brk, brk)
			def = fmt.Sprintf("  Fixpoint loop (xs : list Elem) (st : %s) : %s :=\n    match xs with\n    | [] => st\n    | %s :: rest =>\n      let %s := st in\n      %s\n    end.\n",
				stTypes(), stTypes(), coqName(l.elem), entry(), bodyE)
		} else {
			// for i := a; i < n; i += k
			ok := false
			var ivar, bound, step, start string
			strict := true
			if as, ok1 := counted.Init.(*ast.AssignStmt); ok1 && len(as.Lhs) == 1 && len(as.Rhs) == 1 {
				if id, ok2 := as.Lhs[0].(*ast.Ident); ok2 {
					ivar = id.Name
					l.idx = ivar
					start = l.iexpr(as.Rhs[0])
					if c, ok3 := counted.Cond.(*ast.BinaryExpr); ok3 && (c.Op == token.LSS || c.Op == token.LEQ) {
						strict = c.Op == token.LSS
						bound = l.iexpr(c.Y)
						switch p := counted.Post.(type) {
						case *ast.IncDecStmt:
							step = "1"
							ok = p.Tok == token.INC
						case *ast.AssignStmt:
							if p.Tok == token.ADD_ASSIGN && len(p.Rhs) == 1 {
								step = l.iexpr(p.Rhs[0])
								ok = true
							}
						}
					}
				}
			}
			if !ok {
				l.bad = append(l.bad, "loop header "+text(counted.Init)+"; "+text(counted.Cond)+"; "+text(counted.Post))
			}
			cmp := " <? "
			if !strict {
				cmp = " <=? "
			}
			next := func() string { return "loop fuel' (" + coqName(ivar) + " + " + step + ") " + l.mkState() }
			brk := func() string { return "Some (inl " + l.mkState() + ")" }
			ret := func() string { return "Some (inr " + l.mkState() + ")" }
			bodyE := l.stmts(body.List, next, brk, ret)
			def = fmt.Sprintf("  Definition loop_start : N := %s.\n  Fixpoint loop (fuel : nat) (%s : N) (st : %s) : option (%s + %s) :=\n    match fuel with\n    | O => None\n    | S fuel' =>\n      let %s := st in\n      if %s%s%s\n      then %s\n      else Some (inl st)\n    end.\n",
				start, coqName(ivar), stTypes(), stTypes(), stTypes(), entry(), coqName(ivar), cmp, bound, bodyE)
		}
		for n := range clobbered {
			if isFree, ok := l.free[n]; ok && isFree {
				l.bad = append(l.bad, "the loop reads "+n+", which is written before the loop in a way outside the fragment")
			}
		}
		if len(l.bad) > 0 {
			fmt.Fprintf(&b, "(* UNSUPPORTED %s (%s %s): %s *)\nDefinition loop_%s_unsupported : False -> False := fun x => x.\n\n", tg.ident, tg.file, tg.name, strings.Join(l.bad, "; "), tg.ident)
			continue
		}
		fmt.Fprintf(&b, "(* %s: %s, shape %s *)\nModule L_%s.\nSection loop_%s.\n", tg.file, tg.name, shape, tg.ident, tg.ident)
		if shape == "A" {
			b.WriteString("  Variable Elem : Type.\n  Variable len_elem : Elem -> N.\n")
		} else {
			if l.single {
				b.WriteString("  Variable Res : Type.\n  Variable the_call : N -> option Res.\n")
			} else {
				b.WriteString("  Variable Res : Type.\n  Variable the_call : N -> N -> option (list Res).\n")
			}
		}
		var frees []string
		for n, isFree := range l.free {
			if isFree && n != l.elem && n != l.idx && !l.locals[n] {
				frees = append(frees, n)
			}
		}
		sort.Strings(frees)
		for _, n := range frees {
			fmt.Fprintf(&b, "  Variable %s : N.\n", coqName(n))
		}
		var extra []string
		for n := range l.lenOf {
			extra = append(extra, n)
		}
		sort.Strings(extra)
		for _, n := range extra {
			switch {
			case strings.HasPrefix(n, "bool:"):
				fmt.Fprintf(&b, "  Variable %s : Elem -> bool.\n", n[5:])
			case strings.HasSuffix(n, ":elem"):
				fmt.Fprintf(&b, "  Variable %s : Elem -> N.\n", strings.TrimSuffix(n, ":elem"))
			case strings.HasPrefix(n, "f_") && shape == "A":
				fmt.Fprintf(&b, "  Variable %s : N.\n", n)
			default:
				fmt.Fprintf(&b, "  Variable %s : N.\n", n)
			}
		}
		b.WriteString(def)
		fmt.Fprintf(&b, "End loop_%s.\nEnd L_%s.\n", tg.ident, tg.ident)
		// the section's definitions under stable names
		fmt.Fprintf(&b, "Notation loop_%s := L_%s.loop.\n", tg.ident, tg.ident)
		if shape == "B" {
			fmt.Fprintf(&b, "Notation loop_%s_start := L_%s.loop_start.\n", tg.ident, tg.ident)
		}
		// the loop's inputs BY NAME, so that a lemma cannot silently apply to a different variable in the same position
		var qs []string
		for _, n := range frees {
			qs = append(qs, "\""+n+"\"")
		}
		inputs = append(inputs, fmt.Sprintf("  Definition loop_%s_inputs : list string := [%s].", tg.ident, strings.Join(qs, "; ")))
		fmt.Fprintf(&b, "(* state: %s *)\n\n", strings.Join(l.fields, ", "))
	}
	b.WriteString("(* the loops' inputs BY NAME, in the order of their Section variables *)\nModule LoopInputs.\n  Import String.\n  Open Scope string_scope.\n")
	b.WriteString(strings.Join(inputs, "\n"))
	b.WriteString("\nEnd LoopInputs.\n")
	return b.String()
}
