// golite: translator from the Go source of the node's DECISION FUNCTIONS (validation / admission guards and
// small pure arithmetic helpers) to Coq terms of the deep-embedded language Model/GoLite.v.
//
//	golite <repo root> <out.v>
//
// For every function listed in `targets` it parses the file with go/ast and emits
//
//	Definition fn_<Type>_<name> : gfun := {| f_recv := ...; f_params := [...]; f_body := [ <gstmt> ... ] |}.
//
// and a table gen_funs.  Nothing is interpreted here: the translation is purely syntactic, statement by
// statement and expression by expression; the meaning is given by the evaluator in Model/GoLite.v, and the
// lemmas of Check/GoLiteLemmas.v prove, for ALL arguments, that the translated function computes what the
// hand-written model function computes (validate, validate_basic, is_valid_signed_data, ...).  Those lemmas are
// re-checked against the regenerated file on every run, so an edit of one of these Go functions that changes
// what it decides breaks a proof, while an edit that keeps the decision (reordered independent guards, a
// renamed local, a different error message) does not.
//
// Deliberately conservative: a construct outside the fragment is emitted as SUnknown / EUnknown with its
// source text, on which the evaluator fails — the lemma then fails rather than passes.
// What is dropped on purpose (no influence on the decision): logger calls, the arguments of fmt.Errorf /
// errors.New (only "an error" is kept), var declarations without initialiser, comments.
package main

import (
	"bytes"
	"fmt"
	"go/ast"
	"go/parser"
	"go/printer"
	"go/token"
	"os"
	"path/filepath"
	"strconv"
	"strings"
)

type target struct {
	file, recv, name string
	pre              bool // translate only the statements BEFORE the function's first top-level loop; the result is the locals
	stop             string // with pre: ... or before the first top-level statement whose text contains this
	cases            bool // the function is an event loop `for { select { case ...: body } }`: one function per case
	inner            bool // with iter: the loop is the endless loop NESTED in the function's outer endless loop
	iter             bool // translate ONE ITERATION of the function's (single, conditional) top-level loop, locals as parameters
	endless          bool // with iter: the loop is the function's top-level ENDLESS loop; `continue` = `return $continue, locals`
	ranges           bool // `for _, v := range X { body }` inside: the body becomes its own function Key$rangeN (of the function's
	// parameters, v and the variables of the function it mentions), the loop itself the logged call $rangeN(X)
}

// the decision functions covered (file relative to the repository root, receiver type, function name)
var targets = []target{
	{file: "types/header.go", recv: "Header", name: "ValidateBasic"},
	{file: "types/data.go", recv: "Signature", name: "ValidateBasic"},
	{file: "types/signed_header.go", recv: "SignedHeader", name: "ValidateBasic"},
	{file: "types/data.go", recv: "", name: "Validate"},
	{file: "types/state.go", recv: "State", name: "NextState"},
	{file: "block/manager.go", recv: "Manager", name: "execValidate"},
	{file: "block/manager.go", recv: "Manager", name: "retrieveBatch"},
	{file: "block/manager.go", recv: "Manager", name: "publishBlockInternal"},
	{file: "block/sync.go", recv: "Manager", name: "updateState"},
	{file: "block/sync.go", recv: "Manager", name: "trySyncNextBlock"},
	{file: "block/manager.go", recv: "Manager", name: "isUsingExpectedSingleSequencer"},
	{file: "block/manager.go", recv: "Manager", name: "isValidSignedData"},
	{file: "block/manager.go", recv: "Manager", name: "exponentialBackoff"},
	{file: "block/aggregation.go", recv: "", name: "getRemainingSleep"},
	{file: "block/pending_base.go", recv: "pendingBase", name: "numPending"},
	{file: "block/pending_base.go", recv: "pendingBase", name: "isEmpty"},
	{file: "block/retriever.go", recv: "Manager", name: "handlePotentialHeader"},
	{file: "block/retriever.go", recv: "Manager", name: "handlePotentialData"},
	{file: "block/manager.go", recv: "Manager", name: "IsDAIncluded"},
	{file: "block/manager.go", recv: "Manager", name: "SetRollkitHeightToDAHeight"},
	{file: "block/da_includer.go", recv: "Manager", name: "incrementDAIncludedHeight"},
	{file: "sequencers/single/queue.go", recv: "", name: "batchKey"},
	{file: "sequencers/single/queue.go", recv: "BatchQueue", name: "AddBatch"},
	{file: "sequencers/single/queue.go", recv: "BatchQueue", name: "Next"},
	{file: "sequencers/single/sequencer.go", recv: "Sequencer", name: "isValid"},
	{file: "sequencers/single/sequencer.go", recv: "Sequencer", name: "SubmitBatchTxs"},
	{file: "sequencers/single/sequencer.go", recv: "Sequencer", name: "GetNextBatch"},
	{file: "pkg/store/store.go", recv: "DefaultStore", name: "SetHeight"},
	{file: "pkg/store/store.go", recv: "DefaultStore", name: "Height"},
	{file: "pkg/store/store.go", recv: "DefaultStore", name: "SaveBlockData"},
	{file: "pkg/store/store.go", recv: "DefaultStore", name: "GetHeader"},
	{file: "pkg/store/store.go", recv: "DefaultStore", name: "UpdateState"},
	{file: "pkg/store/store.go", recv: "DefaultStore", name: "SetMetadata"},
	{file: "pkg/store/store.go", recv: "", name: "encodeHeight"},
	{file: "pkg/store/store.go", recv: "", name: "decodeHeight"},
	{file: "block/manager.go", recv: "", name: "getInitialState"},
	{file: "block/retriever.go", recv: "Manager", name: "RetrieveLoop"},
	{file: "block/submitter.go", recv: "Manager", name: "HeaderSubmissionLoop"},
	{file: "block/submitter.go", recv: "Manager", name: "DataSubmissionLoop"},
	{file: "block/manager.go", recv: "Manager", name: "LoadCache"},
	{file: "block/manager.go", recv: "Manager", name: "SaveCache"},
	{file: "pkg/cache/cache.go", recv: "", name: "saveMapGob"},
	{file: "block/pending_base.go", recv: "pendingBase", name: "setLastSubmittedHeight"},
	{file: "block/submitter.go", name: "submitToDA", iter: true},
	{file: "block/da_includer.go", recv: "Manager", name: "DAIncluderLoop", iter: true, inner: true},
	{file: "block/retriever.go", recv: "Manager", name: "processNextDAHeaderAndData", pre: true},
	{file: "block/retriever.go", recv: "Manager", name: "processNextDAHeaderAndData", iter: true, ranges: true},
	{file: "block/retriever.go", recv: "Manager", name: "fetchBlobs"},
	{file: "block/manager.go", name: "NewManager", pre: true, stop: "config.DA.BlockTime.Duration == 0"},
	{file: "block/reaper.go", recv: "Reaper", name: "SubmitTxs", ranges: true},
	{file: "pkg/signer/file/local.go", recv: "FileSystemSigner", name: "saveKeys"},
	{file: "pkg/signer/file/local.go", recv: "FileSystemSigner", name: "loadKeys"},
	{file: "apps/testapp/kv/kvexecutor.go", recv: "KVExecutor", name: "ExecuteTxs", ranges: true},
	{file: "block/submitter.go", recv: "Manager", name: "createSignedDataToSubmit", ranges: true},
	{file: "block/store.go", recv: "Manager", name: "getHeadersFromHeaderStore", pre: true},
	{file: "block/store.go", recv: "Manager", name: "getHeadersFromHeaderStore", iter: true},
	{file: "block/store.go", recv: "Manager", name: "getDataFromDataStore", pre: true},
	{file: "block/store.go", recv: "Manager", name: "getDataFromDataStore", iter: true},
	{file: "block/store.go", recv: "Manager", name: "HeaderStoreRetrieveLoop", pre: true},
	{file: "block/store.go", recv: "Manager", name: "HeaderStoreRetrieveLoop", iter: true, endless: true, ranges: true},
	{file: "block/store.go", recv: "Manager", name: "DataStoreRetrieveLoop", pre: true},
	{file: "block/store.go", recv: "Manager", name: "DataStoreRetrieveLoop", iter: true, endless: true, ranges: true},
	{file: "block/aggregation.go", recv: "Manager", name: "lazyAggregationLoop", cases: true},
	{file: "block/aggregation.go", recv: "Manager", name: "normalAggregationLoop", cases: true},
	{file: "block/aggregation.go", recv: "Manager", name: "produceBlock"},
	{file: "block/sync.go", recv: "Manager", name: "SyncLoop", cases: true},
	{file: "block/sync.go", recv: "Manager", name: "handleEmptyDataHash"},
	{file: "block/manager.go", recv: "Manager", name: "execCreateBlock"},
	{file: "block/manager.go", recv: "Manager", name: "execApplyBlock"},
	{file: "block/manager.go", recv: "Manager", name: "getHeaderSignature"},
	{file: "block/manager.go", recv: "Manager", name: "getDataSignature"},
	{file: "apps/testapp/kv/kvexecutor.go", recv: "KVExecutor", name: "InitChain"},
	{file: "apps/testapp/kv/kvexecutor.go", recv: "KVExecutor", name: "SetFinal"},
	{file: "pkg/config/config.go", name: "Load"},
	{file: "sequencers/based/sequencer.go", recv: "Sequencer", name: "GetNextBatch", pre: true},
	{file: "pkg/signer/file/local.go", recv: "FileSystemSigner", name: "Sign"},
	{file: "pkg/signer/file/local.go", recv: "FileSystemSigner", name: "GetPublic"},
	{file: "pkg/signer/file/local.go", name: "LoadFileSystemSigner"},
	{file: "block/pending_base.go", recv: "pendingBase", name: "init"},
	{file: "types/da.go", recv: "", name: "SubmitWithHelpers"},
	{file: "types/da.go", recv: "", name: "RetrieveWithHelpers"},
}

var fset = token.NewFileSet()

// packages of the repository itself: their qualifier is dropped so that a function has one name whether it is
// called from inside or from outside its package
var ownPkgs = map[string]bool{"types": true, "block": true, "storepkg": true, "store": true}

func text(n ast.Node) string {
	var b bytes.Buffer
	_ = printer.Fprint(&b, fset, n)
	return strings.Join(strings.Fields(b.String()), " ")
}

func q(s string) string { return "\"" + strings.ReplaceAll(s, "\"", "\"\"") + "\"" }

// printable: Coq string literals here are ASCII; anything else becomes '?' (no decision modelled depends on it)
func printable(s string) string {
	var b strings.Builder
	for _, r := range s {
		if r >= 32 && r < 127 {
			b.WriteRune(r)
		} else {
			b.WriteByte('?')
		}
	}
	return b.String()
}

// emitRanges writes one function per range loop collected while the function was translated (target option `ranges`):
// Key$rangeN, of the function's parameters, the loop variable and the variables of the function the body mentions;
// `continue` is its return, its end is its return; anything else that leaves the body (`break`, `return`) is unsupported.
func (t *tr) emitRanges(b *strings.Builder, tg target, key, ident, recv string, params []string, fd *ast.FuncDecl) []string {
	var table []string
	bodies := t.rangeBodies
	t.rangeBodies = nil
	for i, rs := range bodies {
		isParam := map[string]bool{}
		for _, p := range params {
			isParam[p] = true
		}
		val := rs.Value.(*ast.Ident).Name
		// variables defined in the function outside this body, in order of definition
		var defined []string
		seen := map[string]bool{val: true}
		ast.Inspect(fd.Body, func(n ast.Node) bool {
			if n == ast.Node(rs.Body) {
				return false
			}
			add := func(name string) {
				if name != "_" && !seen[name] && !isParam[q(name)] {
					seen[name] = true
					defined = append(defined, name)
				}
			}
			switch x := n.(type) {
			case *ast.AssignStmt:
				if x.Tok == token.DEFINE {
					for _, l := range x.Lhs {
						if id, ok := l.(*ast.Ident); ok {
							add(id.Name)
						}
					}
				}
			case *ast.ValueSpec:
				for _, nm := range x.Names {
					add(nm.Name)
				}
			}
			return true
		})
		used := map[string]bool{}
		ok := true
		ast.Inspect(rs.Body, func(n ast.Node) bool {
			switch x := n.(type) {
			case *ast.Ident:
				used[x.Name] = true
			case *ast.ReturnStmt:
				if len(x.Results) != t.fnResults {
					ok = false
				}
			case *ast.BranchStmt:
				if x.Tok != token.CONTINUE || x.Label != nil {
					ok = false
				}
			case *ast.ForStmt, *ast.RangeStmt, *ast.FuncLit:
				ok = false
			}
			return true
		})
		ps := append([]string{}, params...)
		ps = append(ps, q(val))
		var extra []string
		for _, d := range defined {
			if used[d] {
				ps = append(ps, q(d))
				extra = append(extra, d)
			}
		}
		rid := fmt.Sprintf("%s_range%d", ident, i+1)
		rkey := fmt.Sprintf("%s$range%d", key, i+1)
		var out []string
		if ok {
			t.inRange = true
			t.rangeRet = rangeReturns(rs)
			t.rangeMuts = nil
			for _, m := range rangeWrites(rs) {
				t.rangeMuts = append(t.rangeMuts, "(EVar "+q(m)+")")
			}
			t.rangeGeneral = t.rangeRet && (len(t.rangeMuts) > 0 || !t.noResults)
			saveE, saveB, saveC := t.inEndless, t.breakLocals, t.continueLocals
			t.inEndless, t.breakLocals, t.continueLocals = false, "", ""
			out = append(out, t.stmts(rs.Body.List)...)
			t.inEndless, t.breakLocals, t.continueLocals = saveE, saveB, saveC
			t.inRange = false
			if t.rangeGeneral {
				out = append(out, t.rangeExit(false, nil))
			} else if len(t.rangeMuts) > 0 {
				out = append(out, "(SReturn "+list(t.rangeMuts)+")")
			} else if t.rangeRet {
				out = append(out, "(SReturn [(EBool false)])")
			} else {
				out = append(out, "(SReturn [])")
			}
			t.rangeRet = false
			t.rangeGeneral = false
			t.rangeMuts = nil
		} else {
			out = append(out, "(SUnknown "+q("return / break / loop inside a range body")+")")
		}
		fmt.Fprintf(b, "(* %s: the body of range loop %d of %s (over %s); parameters: the function's, %s, then: %s *)\nDefinition %s : gfun := {| f_recv := %s; f_params := %s; f_body :=\n  %s |}.\n\n",
			tg.file, i+1, key, printable(text(rs.X)), val, strings.Join(extra, ", "), rid, recv, list(ps), list(out))
		table = append(table, "("+q(rkey)+", "+rid+")")
	}
	return table
}

// rangeWrites: the variables defined OUTSIDE the body of the range loop that the body assigns (x = e, x op= e, x++,
// x[k] = e), in order of first appearance
func rangeWrites(rs *ast.RangeStmt) []string {
	local := map[string]bool{}
	if id, ok := rs.Value.(*ast.Ident); ok {
		local[id.Name] = true
	}
	ast.Inspect(rs.Body, func(n ast.Node) bool {
		switch x := n.(type) {
		case *ast.AssignStmt:
			if x.Tok == token.DEFINE {
				for _, l := range x.Lhs {
					if id, ok := l.(*ast.Ident); ok {
						local[id.Name] = true
					}
				}
			}
		case *ast.ValueSpec:
			for _, nm := range x.Names {
				local[nm.Name] = true
			}
		case *ast.RangeStmt:
			for _, e := range []ast.Expr{x.Key, x.Value} {
				if id, ok := e.(*ast.Ident); ok && x.Tok == token.DEFINE {
					local[id.Name] = true
				}
			}
		case *ast.FuncLit:
			return false
		}
		return true
	})
	var out []string
	seen := map[string]bool{}
	add := func(e ast.Expr) {
		if ix, ok := e.(*ast.IndexExpr); ok {
			e = ix.X
		}
		if id, ok := e.(*ast.Ident); ok && id.Name != "_" && !local[id.Name] && !seen[id.Name] {
			seen[id.Name] = true
			out = append(out, id.Name)
		}
	}
	ast.Inspect(rs.Body, func(n ast.Node) bool {
		switch x := n.(type) {
		case *ast.AssignStmt:
			if x.Tok != token.DEFINE {
				for _, l := range x.Lhs {
					add(l)
				}
			}
		case *ast.IncDecStmt:
			add(x.X)
		case *ast.FuncLit:
			return false
		}
		return true
	})
	return out
}

// rangeExit: an exit of a range body in the general form: (left the function?, the variables it writes, the results)
func (t *tr) rangeExit(left bool, results []string) string {
	out := []string{"(EBool false)"}
	if left {
		out[0] = "(EBool true)"
	}
	out = append(out, t.rangeMuts...)
	if left {
		out = append(out, results...)
	} else {
		for i := 0; i < t.fnResults; i++ {
			out = append(out, "ENil")
		}
	}
	return "(SReturn " + list(out) + ")"
}

// rangeReturns: the body of the range loop contains a `return`
func rangeReturns(rs *ast.RangeStmt) bool {
	found := false
	ast.Inspect(rs.Body, func(n ast.Node) bool {
		switch n.(type) {
		case *ast.ReturnStmt:
			found = true
		case *ast.FuncLit:
			return false
		}
		return true
	})
	return found
}

func list(xs []string) string { return "[" + strings.Join(xs, "; ") + "]" }

type tr struct {
	imports map[string]bool // local names of imported packages in the current file
	n       int
	breakLocals string           // inside an inner loop translated as one iteration: what `break` becomes
	inEndless bool               // inside the body of an endless loop translated as one iteration: `continue` = return $continue
	nresults int                 // number of results of the function being translated
	goTmps  map[string][]string // errgroup variable -> temporaries holding the results of its g.Go(func) bodies
	ranges  bool                // range loops become calls; their bodies are collected in rangeBodies
	inRange bool                // inside a range body translated as a function: `continue` = return
	rangeRet bool               // ... whose `return` leaves the enclosing function: the body function answers true for it, false otherwise
	continueLocals string       // inside a top-level endless loop translated as one iteration with locals: what `continue` becomes
	noResults bool              // the function being translated has no results
	fnResults int               // ... the number of its results
	rangeGeneral bool           // inside a range body in the general form: exits are (left?, writes, results)
	rangeMuts []string          // inside a range body: the outer variables it writes; every exit returns their values
	rangeBodies []*ast.RangeStmt
}

func (t *tr) fresh() int { t.n++; return t.n }

func (t *tr) isPkg(e ast.Expr) (string, bool) {
	id, ok := e.(*ast.Ident)
	if !ok || id.Obj != nil {
		return "", false
	}
	if t.imports[id.Name] {
		return id.Name, true
	}
	return "", false
}

func isLogger(e ast.Expr) bool {
	// m.logger.X(...), logger.X(...), log.X(...)
	s := strings.ToLower(text(e))
	return strings.Contains(s, "logger.") || strings.HasPrefix(s, "log.")
}

func binop(op token.Token) string {
	switch op {
	case token.EQL:
		return "OEq"
	case token.NEQ:
		return "ONe"
	case token.LSS:
		return "OLt"
	case token.LEQ:
		return "OLe"
	case token.GTR:
		return "OGt"
	case token.GEQ:
		return "OGe"
	case token.LAND:
		return "OAnd"
	case token.LOR:
		return "OOr"
	case token.ADD, token.ADD_ASSIGN:
		return "OAdd"
	case token.SUB, token.SUB_ASSIGN:
		return "OSub"
	case token.MUL, token.MUL_ASSIGN:
		return "OMul"
	case token.QUO, token.QUO_ASSIGN:
		return "OQuo"
	}
	return ""
}

func (t *tr) exprs(es []ast.Expr) string {
	var out []string
	for _, e := range es {
		out = append(out, t.expr(e))
	}
	return list(out)
}

func (t *tr) expr(e ast.Expr) string {
	switch x := e.(type) {
	case *ast.Ident:
		switch x.Name {
		case "nil":
			return "ENil"
		case "true":
			return "(EBool true)"
		case "false":
			return "(EBool false)"
		}
		return "(EVar " + q(x.Name) + ")"
	case *ast.BasicLit:
		switch x.Kind {
		case token.INT:
			if v, err := strconv.ParseInt(x.Value, 0, 64); err == nil {
				return fmt.Sprintf("(EInt %d)", v)
			}
		case token.STRING:
			if v, err := strconv.Unquote(x.Value); err == nil {
				return "(EStr " + q(printable(v)) + ")"
			}
		}
		return "(EUnknown " + q("literal "+x.Value) + ")"
	case *ast.ParenExpr:
		return t.expr(x.X)
	case *ast.StarExpr:
		return "(EId " + t.expr(x.X) + ")"
	case *ast.UnaryExpr:
		switch x.Op {
		case token.NOT:
			return "(ENot " + t.expr(x.X) + ")"
		case token.AND:
			return "(EAddr " + t.expr(x.X) + ")"
		case token.SUB:
			if bl, ok := x.X.(*ast.BasicLit); ok && bl.Kind == token.INT {
				return "(EInt (-" + bl.Value + "))"
			}
		}
		return "(EUnknown " + q("unary "+text(x)) + ")"
	case *ast.BinaryExpr:
		if o := binop(x.Op); o != "" {
			return "(EBin " + o + " " + t.expr(x.X) + " " + t.expr(x.Y) + ")"
		}
		return "(EUnknown " + q("binary "+text(x)) + ")"
	case *ast.IndexExpr:
		return "(EIndex " + t.expr(x.X) + " " + t.expr(x.Index) + ")"
	case *ast.SliceExpr:
		if x.Low == nil && x.High == nil && x.Max == nil {
			return "(EId " + t.expr(x.X) + ")"
		}
		if x.Low != nil && x.High == nil && x.Max == nil {
			if bl, ok := x.Low.(*ast.BasicLit); ok && bl.Value == "1" {
				return "(ESliceFrom " + t.expr(x.X) + " " + t.expr(x.Low) + ")"
			}
			return "(ECall " + q("$slice_from") + " [" + t.expr(x.X) + "; " + t.expr(x.Low) + "])"
		}
		if x.Low == nil && x.High != nil && x.Max == nil {
			return "(ECall " + q("$slice_to") + " [" + t.expr(x.X) + "; " + t.expr(x.High) + "])"
		}
		return "(EUnknown " + q("slice "+text(x)) + ")"
	case *ast.SelectorExpr:
		if p, ok := t.isPkg(x.X); ok {
			if ownPkgs[p] {
				return "(EVar " + q(x.Sel.Name) + ")"
			}
			return "(EVar " + q(p+"."+x.Sel.Name) + ")"
		}
		return "(ESel " + t.expr(x.X) + " " + q(x.Sel.Name) + ")"
	case *ast.CompositeLit:
		ty := text(x.Type)
		if i := strings.LastIndex(ty, "."); i >= 0 {
			ty = ty[i+1:]
		}
		var fs []string
		for i, el := range x.Elts {
			kv, ok := el.(*ast.KeyValueExpr)
			if !ok {
				// positional literal: fields named by position
				fs = append(fs, "("+q(strconv.Itoa(i))+", "+t.expr(el)+")")
				continue
			}
			fs = append(fs, "("+q(text(kv.Key))+", "+t.expr(kv.Value)+")")
		}
		return "(ELit " + q(ty) + " " + list(fs) + ")"
	case *ast.CallExpr:
		// []byte(x), []T(x): a conversion, no effect on the symbolic value
		if _, ok := x.Fun.(*ast.ArrayType); ok && len(x.Args) == 1 {
			return "(EId " + t.expr(x.Args[0]) + ")"
		}
		switch f := x.Fun.(type) {
		case *ast.Ident:
			if f.Name == "make" && len(x.Args) >= 1 {
				return "(ENew " + q("make "+text(x.Args[0])) + ")"
			}
			if f.Name == "new" && len(x.Args) == 1 {
				ty := text(x.Args[0])
				if i := strings.LastIndex(ty, "."); i >= 0 {
					ty = ty[i+1:]
				}
				return "(ENew " + q(ty) + ")"
			}
			return "(ECall " + q(f.Name) + " " + t.exprs(x.Args) + ")"
		case *ast.SelectorExpr:
			if p, ok := t.isPkg(f.X); ok {
				name := p + "." + f.Sel.Name
				if ownPkgs[p] {
					name = f.Sel.Name
				}
				if name == "fmt.Errorf" && len(x.Args) >= 2 {
					// an error that WRAPS another (%w as the last verb) keeps its identity for errors.Is
					if bl, ok := x.Args[0].(*ast.BasicLit); ok && strings.HasSuffix(strings.Trim(bl.Value, "\"`"), "%w") {
						return "(ECall " + q("fmt.Errorf%w") + " [" + t.expr(x.Args[len(x.Args)-1]) + "])"
					}
					// ... and so does one that wraps a sentinel with %w as its FIRST verb ("%w: %s")
					if bl, ok := x.Args[0].(*ast.BasicLit); ok {
						f := strings.Trim(bl.Value, "\"`")
						_, sentinel := x.Args[1].(*ast.SelectorExpr) // a package-level sentinel (coreda.ErrX): its identity and text matter
						if i := strings.Index(f, "%"); i >= 0 && strings.HasPrefix(f[i:], "%w") && sentinel {
							return "(ECall " + q("fmt.Errorf%w") + " [" + t.expr(x.Args[1]) + "])"
						}
					}
				}
				if name == "fmt.Errorf" || name == "errors.New" || name == "fmt.Printf" {
					return "(ECall " + q(name) + " [])"
				}
				return "(ECall " + q(name) + " " + t.exprs(x.Args) + ")"
			}
			if id, ok := f.X.(*ast.Ident); ok && f.Sel.Name == "Wait" && len(x.Args) == 0 && len(t.goTmps[id.Name]) > 0 {
				var vs []string
				for _, tmp := range t.goTmps[id.Name] {
					vs = append(vs, "(EVar "+q(tmp)+")")
				}
				return "(ECall " + q("$wait") + " " + list(vs) + ")"
			}
			return "(EMeth " + t.expr(f.X) + " " + q(f.Sel.Name) + " " + t.exprs(x.Args) + ")"
		}
		return "(EUnknown " + q("call "+text(x)) + ")"
	}
	return "(EUnknown " + q(fmt.Sprintf("%T %s", e, text(e))) + ")"
}

func (t *tr) block(b *ast.BlockStmt) string {
	if b == nil {
		return "[]"
	}
	return list(t.stmts(b.List))
}

// stmts translates a statement list.  One two-statement idiom is recognised: the element-wise copy of a slice,
//     A = make(T, len(B))   (or A := ...)          for i := range B { A[i] = conv(B[i]) }   (conv optional)
// which is `A = B` on the values of Model/GoLite.v (a conversion keeps the symbolic value).
func (t *tr) stmts(l []ast.Stmt) []string {
	var out []string
	for i := 0; i < len(l); i++ {
		if i+1 < len(l) {
			if s, ok := t.copyLoop(l[i], l[i+1]); ok {
				out = append(out, s)
				i++
				continue
			}
		}
		out = append(out, t.stmt(l[i]))
	}
	return out
}

func (t *tr) copyLoop(a, b ast.Stmt) (string, bool) {
	as, ok := a.(*ast.AssignStmt)
	if !ok || len(as.Lhs) != 1 || len(as.Rhs) != 1 || (as.Tok != token.ASSIGN && as.Tok != token.DEFINE) {
		return "", false
	}
	mk, ok := as.Rhs[0].(*ast.CallExpr)
	if !ok || text(mk.Fun) != "make" || len(mk.Args) != 2 {
		return "", false
	}
	ln, ok := mk.Args[1].(*ast.CallExpr)
	if !ok || text(ln.Fun) != "len" || len(ln.Args) != 1 {
		return "", false
	}
	src := text(ln.Args[0])
	dst := text(as.Lhs[0])
	rs, ok := b.(*ast.RangeStmt)
	if !ok || rs.Key == nil || rs.Value != nil || text(rs.X) != src || len(rs.Body.List) != 1 {
		return "", false
	}
	idx := text(rs.Key)
	el, ok := rs.Body.List[0].(*ast.AssignStmt)
	if !ok || el.Tok != token.ASSIGN || len(el.Lhs) != 1 || len(el.Rhs) != 1 || text(el.Lhs[0]) != dst+"["+idx+"]" {
		return "", false
	}
	rhs := el.Rhs[0]
	if c, ok := rhs.(*ast.CallExpr); ok && len(c.Args) == 1 { // a conversion T(B[i])
		rhs = c.Args[0]
	}
	if text(rhs) != src+"["+idx+"]" {
		return "", false
	}
	val := "(EId " + t.expr(ln.Args[0]) + ")"
	switch l := as.Lhs[0].(type) {
	case *ast.Ident:
		return "(SAssign [" + q(l.Name) + "] " + val + ")", true
	case *ast.SelectorExpr:
		if id, ok := l.X.(*ast.Ident); ok {
			return "(SAssignField " + q(id.Name) + " " + q(l.Sel.Name) + " " + val + ")", true
		}
	}
	return "", false
}

// body translates a function body.  A body that is exactly one endless loop `for { ... }` without break / continue /
// goto / labels and without variables carried from one iteration to the next (nothing is declared outside the
// loop) is translated as ONE ITERATION: the loop body followed by `return $continue` — an iteration either returns
// (the function's result) or reaches the end of the body, which means "the same body runs again, from the same
// local state"; lemmas are then stated per iteration.
func (t *tr) body(b *ast.BlockStmt) string {
	if b != nil && len(b.List) >= 1 {
		if fs, ok := b.List[len(b.List)-1].(*ast.ForStmt); ok && fs.Init == nil && fs.Cond == nil && fs.Post == nil {
			// names declared before the loop must not be assigned inside it (no loop-carried state)
			declared := map[string]bool{}
			for _, st := range b.List[:len(b.List)-1] {
				if as, ok := st.(*ast.AssignStmt); ok && as.Tok == token.DEFINE {
					for _, l := range as.Lhs {
						if id, ok := l.(*ast.Ident); ok {
							declared[id.Name] = true
						}
					}
				}
			}
			plain := true
			ast.Inspect(fs.Body, func(n ast.Node) bool {
				switch x := n.(type) {
				case *ast.BranchStmt:
					if !(x.Tok == token.CONTINUE && x.Label == nil) {
						plain = false
					}
				case *ast.LabeledStmt:
					plain = false
				case *ast.ForStmt, *ast.RangeStmt:
					plain = false // `continue` inside a nested loop would mean that loop
				case *ast.AssignStmt:
					if x.Tok != token.DEFINE {
						for _, l := range x.Lhs {
							if id, ok := l.(*ast.Ident); ok && declared[id.Name] {
								plain = false
							}
						}
					}
				case *ast.FuncLit:
					return false
				}
				return true
			})
			if plain {
				var out []string
				out = append(out, t.stmts(b.List[:len(b.List)-1])...)
				t.inEndless = true
				out = append(out, t.stmts(fs.Body.List)...)
				t.inEndless = false
				out = append(out, "(SReturn [(EVar "+q("$continue")+")])")
				return list(out)
			}
		}
	}
	return t.block(b)
}

func lhsNames(es []ast.Expr) ([]string, bool) {
	var out []string
	for _, e := range es {
		id, ok := e.(*ast.Ident)
		if !ok {
			return nil, false
		}
		out = append(out, q(id.Name))
	}
	return out, true
}

func (t *tr) stmt(s ast.Stmt) string {
	switch x := s.(type) {
	case *ast.ExprStmt:
		if c, ok := x.X.(*ast.CallExpr); ok && isLogger(c.Fun) {
			return "(SSkip " + q("log") + ")"
		}
		if c, ok := x.X.(*ast.CallExpr); ok {
			// g.Go(func() error { return CALL }): the call is made (concurrently with its siblings; the log keeps program
			// order) and its result is what g.Wait() later combines
			if se, ok := c.Fun.(*ast.SelectorExpr); ok && se.Sel.Name == "Go" && len(c.Args) == 1 {
				if id, ok := se.X.(*ast.Ident); ok {
					if fl, ok := c.Args[0].(*ast.FuncLit); ok && len(fl.Body.List) == 1 {
						if rs, ok := fl.Body.List[0].(*ast.ReturnStmt); ok && len(rs.Results) == 1 {
							tmp := fmt.Sprintf("$go%d", t.fresh())
							if t.goTmps == nil {
								t.goTmps = map[string][]string{}
							}
							t.goTmps[id.Name] = append(t.goTmps[id.Name], tmp)
							return "(SAssign [" + q(tmp) + "] " + t.expr(rs.Results[0]) + ")"
						}
					}
				}
			}
			if id, ok := c.Fun.(*ast.Ident); ok && len(c.Args) == 0 && strings.HasSuffix(strings.ToLower(id.Name), "cancel") {
				return "(SSkip " + q("cancel") + ")" // the cancel function of a derived context
			}
			if se, ok := c.Fun.(*ast.SelectorExpr); ok && se.Sel.Name == "recordDAMetrics" {
				return "(SSkip " + q("metrics") + ")"
			}
			// m.metrics.X.Set(...) / .Add(...) / .Observe(...): a gauge, no influence on any decision
			if f := text(c.Fun); strings.Contains(f, ".metrics.") && (strings.HasSuffix(f, ".Set") || strings.HasSuffix(f, ".Add") || strings.HasSuffix(f, ".Observe")) {
				return "(SSkip " + q("metrics") + ")"
			}
			if f := text(c.Fun); strings.HasSuffix(f, ".Lock") || strings.HasSuffix(f, ".RLock") || strings.HasSuffix(f, ".Unlock") || strings.HasSuffix(f, ".RUnlock") {
				return "(SSkip " + q("mutex") + ")"
			}
			return "(SExpr " + t.expr(x.X) + ")"
		}
		return "(SUnknown " + q("expression statement "+text(x)) + ")"
	case *ast.DeclStmt:
		// var ( a T; b U ) without initialisers
		gd, ok := x.Decl.(*ast.GenDecl)
		if ok && gd.Tok == token.VAR {
			plain := true
			var zs []string
			for _, sp := range gd.Specs {
				vs, ok := sp.(*ast.ValueSpec)
				if !ok || len(vs.Values) != 0 || vs.Type == nil {
					plain = false
					break
				}
				for _, n := range vs.Names {
					zs = append(zs, "("+q(n.Name)+", "+q(text(vs.Type))+")")
				}
			}
			if plain {
				return "(SVarZero " + list(zs) + ")"
			}
			// var ( a = e; b T; ... ): one statement per spec, in order
			var parts []string
			okAll := true
			for _, sp := range gd.Specs {
				vs, ok := sp.(*ast.ValueSpec)
				if !ok {
					okAll = false
					break
				}
				switch {
				case len(vs.Values) == 0 && vs.Type != nil:
					var z []string
					for _, n := range vs.Names {
						z = append(z, "("+q(n.Name)+", "+q(text(vs.Type))+")")
					}
					parts = append(parts, "(SVarZero "+list(z)+")")
				case len(vs.Values) == len(vs.Names):
					for i, n := range vs.Names {
						parts = append(parts, "(SAssign ["+q(n.Name)+"] "+t.expr(vs.Values[i])+")")
					}
				default:
					okAll = false
				}
			}
			if okAll && len(parts) > 0 {
				return "(SIf [] (EBool true) " + list(parts) + " [])"
			}
		}
		return "(SUnknown " + q("declaration "+text(x)) + ")"
	case *ast.IncDecStmt:
		one := "(EInt 1)"
		op := "OAdd"
		if x.Tok == token.DEC {
			op = "OSub"
		}
		switch l := x.X.(type) {
		case *ast.Ident:
			return "(SOpAssign " + q(l.Name) + " " + op + " " + one + ")"
		case *ast.SelectorExpr:
			if id, ok := l.X.(*ast.Ident); ok {
				return "(SAssignField " + q(id.Name) + " " + q(l.Sel.Name) + " (EBin " + op + " " + t.expr(l) + " " + one + "))"
			}
		}
		return "(SUnknown " + q("inc/dec "+text(x)) + ")"
	case *ast.DeferStmt:
		if strings.HasSuffix(text(x.Call.Fun), ".Unlock") || strings.HasSuffix(text(x.Call.Fun), ".RUnlock") {
			return "(SSkip " + q("mutex") + ")" // mutual exclusion is C13's subject, not a decision
		}
		if se, ok := x.Call.Fun.(*ast.SelectorExpr); ok && se.Sel.Name == "Stop" && len(x.Call.Args) == 0 {
			if _, ok := se.X.(*ast.Ident); ok {
				return "(SSkip " + q("defer timer") + ")" // a metrics timer
			}
		}
		if id, ok := x.Call.Fun.(*ast.Ident); ok && id.Name == "zeroBytes" && len(x.Call.Args) == 1 {
			return "(SSkip " + q("defer zero") + ")" // the secret is wiped when the function returns
		}
		if id, ok := x.Call.Fun.(*ast.Ident); ok && len(x.Call.Args) == 0 && strings.HasSuffix(strings.ToLower(id.Name), "cancel") {
			return "(SSkip " + q("cancel") + ")" // the cancel function of a derived context, released on return
		}
		if id, ok := x.Call.Fun.(*ast.Ident); ok && id.Name == "close" && len(x.Call.Args) == 1 {
			return "(SSkip " + q("defer close") + ")" // closing a local channel when the loop ends
		}
		return "(SUnknown " + q("defer "+text(x)) + ")"
	case *ast.AssignStmt:
		// m[k] = struct{}{} on a set (map[K]struct{}) held in a variable: the variable becomes the set with k added
		if len(x.Lhs) == 1 && len(x.Rhs) == 1 && x.Tok == token.ASSIGN {
			if ix, ok := x.Lhs[0].(*ast.IndexExpr); ok {
				if id, ok := ix.X.(*ast.Ident); ok && text(x.Rhs[0]) == "struct{}{}" {
					return "(SAssign [" + q(id.Name) + "] (ECall " + q("$set_add") + " [(EVar " + q(id.Name) + "); " + t.expr(ix.Index) + "]))"
				}
				// a[i] = v on a slice held in a variable: the variable becomes the slice with element i replaced
				if id, ok := ix.X.(*ast.Ident); ok {
					return "(SAssign [" + q(id.Name) + "] (ECall " + q("$index_set") + " [(EVar " + q(id.Name) + "); " + t.expr(ix.Index) + "; " + t.expr(x.Rhs[0]) + "]))"
				}
			}
		}
		// _, ok := m[k]: membership in a map held in a variable
		if len(x.Lhs) == 2 && len(x.Rhs) == 1 && x.Tok == token.DEFINE {
			if ix, ok := x.Rhs[0].(*ast.IndexExpr); ok {
				if id, ok := ix.X.(*ast.Ident); ok && text(x.Lhs[0]) == "_" {
					if okv, isId := x.Lhs[1].(*ast.Ident); isId {
						return "(SAssign [" + q(okv.Name) + "] (ECall " + q("$set_has") + " [(EVar " + q(id.Name) + "); " + t.expr(ix.Index) + "]))"
					}
				}
			}
		}
		if len(x.Lhs) == 1 && len(x.Rhs) == 1 && x.Tok == token.ASSIGN {
			if sel, ok := x.Lhs[0].(*ast.SelectorExpr); ok {
				if id, ok := sel.X.(*ast.Ident); ok {
					return "(SAssignField " + q(id.Name) + " " + q(sel.Sel.Name) + " " + t.expr(x.Rhs[0]) + ")"
				}
			}
		}
		names, ok := lhsNames(x.Lhs)
		if !ok {
			return "(SUnknown " + q("assignment "+text(x)) + ")"
		}
		if x.Tok == token.DEFINE || x.Tok == token.ASSIGN {
			if len(x.Rhs) == 1 {
				return "(SAssign " + list(names) + " " + t.expr(x.Rhs[0]) + ")"
			}
			if len(x.Rhs) == len(names) {
				// a, b := e1, e2: evaluate every right-hand side first, then assign (one block)
				var pre, post []string
				for i, r := range x.Rhs {
					tmp := fmt.Sprintf("$p%d", t.fresh())
					pre = append(pre, "(SAssign ["+q(tmp)+"] "+t.expr(r)+")")
					post = append(post, "(SAssign ["+names[i]+"] (EVar "+q(tmp)+"))")
				}
				return "(SIf [] (EBool true) " + list(append(pre, post...)) + " [])"
			}
			return "(SUnknown " + q("parallel assignment "+text(x)) + ")"
		}
		if o := binop(x.Tok); o != "" && len(names) == 1 && len(x.Rhs) == 1 {
			return "(SOpAssign " + names[0] + " " + o + " " + t.expr(x.Rhs[0]) + ")"
		}
		return "(SUnknown " + q("assignment "+text(x)) + ")"
	case *ast.IfStmt:
		// `if seq, ok := m.sequencer.(MetricsRecorder); ok { ... }`: metrics only, no influence on any decision
		if as, ok := x.Init.(*ast.AssignStmt); ok && len(as.Rhs) == 1 {
			if ta, ok := as.Rhs[0].(*ast.TypeAssertExpr); ok && ta.Type != nil && strings.Contains(text(ta.Type), "Metrics") {
				return "(SSkip " + q("metrics") + ")"
			}
		}
		// `if _, err := rand.Read(buf); err != nil` / `io.ReadFull(rand.Reader, buf)`: the call FILLS its last argument: the
		// variable is re-bound to the first answer of the (scripted) call, so that later uses name what was drawn
		if as, ok := x.Init.(*ast.AssignStmt); ok && as.Tok == token.DEFINE && len(as.Lhs) == 2 && len(as.Rhs) == 1 && text(as.Lhs[0]) == "_" {
			if c, ok := as.Rhs[0].(*ast.CallExpr); ok && (text(c.Fun) == "rand.Read" || text(c.Fun) == "io.ReadFull") && len(c.Args) >= 1 {
				if buf, ok := c.Args[len(c.Args)-1].(*ast.Ident); ok && x.Else == nil {
					if ev, ok := as.Lhs[1].(*ast.Ident); ok {
						return "(SIf [(SAssign [" + q(buf.Name) + "; " + q(ev.Name) + "] " + t.expr(c) + ")] " + t.expr(x.Cond) + " " + t.block(x.Body) + " [])"
					}
				}
			}
		}
		// a call with an effect in unconditional position of the condition (`if !x.CompareAndSwap(a, b)`) is
		// evaluated first, into a temporary: expressions are pure in Model/GoLite.v
		if be, ok := x.Cond.(*ast.BinaryExpr); ok && be.Op == token.LAND && x.Init == nil && x.Else == nil {
			if c, neg := hoistable(be.Y); c != nil {
				// `if a && x.CompareAndSwap(..) { body }`: the call is made only when a holds
				tmp := fmt.Sprintf("$t%d", t.fresh())
				cond := "(EVar " + q(tmp) + ")"
				if neg {
					cond = "(ENot " + cond + ")"
				}
				inner := "(SIf [(SAssign [" + q(tmp) + "] " + t.expr(c) + ")] " + cond + " " + t.block(x.Body) + " [])"
				return "(SIf [] " + t.expr(be.X) + " [" + inner + "] [])"
			}
		}
		if c, neg := hoistable(x.Cond); c != nil && x.Init == nil {
			tmp := fmt.Sprintf("$t%d", t.fresh())
			cond := "(EVar " + q(tmp) + ")"
			if neg {
				cond = "(ENot " + cond + ")"
			}
			els := "[]"
			switch e := x.Else.(type) {
			case nil:
			case *ast.BlockStmt:
				els = t.block(e)
			default:
				els = "[SUnknown " + q("else "+text(e)) + "]"
			}
			return "(SIf [(SAssign [" + q(tmp) + "] " + t.expr(c) + ")] " + cond + " " + t.block(x.Body) + " " + els + ")"
		}
		init := "[]"
		if x.Init != nil {
			init = "[" + t.stmt(x.Init) + "]"
		}
		els := "[]"
		switch e := x.Else.(type) {
		case nil:
		case *ast.BlockStmt:
			els = t.block(e)
		case *ast.IfStmt:
			els = "[" + t.stmt(e) + "]"
		default:
			els = "[SUnknown " + q("else "+text(e)) + "]"
		}
		return "(SIf " + init + " " + t.expr(x.Cond) + " " + t.block(x.Body) + " " + els + ")"
	case *ast.SwitchStmt:
		// switch [init;] [tag] { case a, b: ...; default: ... }  ->  if/else-if chain (no fallthrough)
		var clauses []*ast.CaseClause
		var def *ast.CaseClause
		var lent []ast.Expr // labels of clauses that only fall through, waiting for the next clause
		for _, c := range x.Body.List {
			cc := c.(*ast.CaseClause)
			if len(cc.Body) == 1 {
				if b, ok := cc.Body[0].(*ast.BranchStmt); ok && b.Tok == token.FALLTHROUGH && cc.List != nil {
					lent = append(lent, cc.List...)
					continue
				}
			}
			for _, st := range cc.Body {
				if b, ok := st.(*ast.BranchStmt); ok && b.Tok == token.FALLTHROUGH {
					return "(SUnknown " + q("switch with fallthrough") + ")"
				}
			}
			if cc.List == nil {
				def = cc // labels lent to the default clause add nothing: default takes whatever no clause takes
				lent = nil
			} else {
				if len(lent) > 0 {
					cc = &ast.CaseClause{List: append(append([]ast.Expr{}, lent...), cc.List...), Body: cc.Body}
					lent = nil
				}
				clauses = append(clauses, cc)
			}
		}
		chain := "[]"
		if def != nil {
			chain = t.block(&ast.BlockStmt{List: def.Body})
		}
		for i := len(clauses) - 1; i >= 0; i-- {
			cc := clauses[i]
			var conds []string
			for _, e := range cc.List {
				if x.Tag != nil {
					conds = append(conds, "(EBin OEq "+t.expr(x.Tag)+" "+t.expr(e)+")")
				} else {
					conds = append(conds, t.expr(e))
				}
			}
			cond := conds[0]
			for _, c := range conds[1:] {
				cond = "(EBin OOr " + cond + " " + c + ")"
			}
			chain = "[(SIf [] " + cond + " " + t.block(&ast.BlockStmt{List: cc.Body}) + " " + chain + ")]"
		}
		init := ""
		if x.Init != nil {
			init = t.stmt(x.Init) + "; "
		}
		return "(SIf [] (EBool true) [" + init + strings.TrimSuffix(strings.TrimPrefix(chain, "["), "]") + "] [])"
	case *ast.SelectStmt:
		// select { case <-ctx.Done(): <oncancel>; case ch <- v: }   (the cancellable send; nothing else is in the fragment)
		{
			// select { case <-ctx.Done(): body; case <-a: case <-b: ... }: wait for any of the channels unless cancelled
			var doneC *ast.CommClause
			var chans []string
			okAll := len(x.Body.List) >= 2
			for _, c := range x.Body.List {
				cc := c.(*ast.CommClause)
				es, isExpr := cc.Comm.(*ast.ExprStmt)
				if !isExpr {
					okAll = false
					break
				}
				u, isRecv := es.X.(*ast.UnaryExpr)
				if !isRecv || u.Op != token.ARROW {
					okAll = false
					break
				}
				if strings.HasSuffix(text(u.X), ".Done()") {
					doneC = cc
				} else if len(cc.Body) == 0 {
					if _, isCall := u.X.(*ast.CallExpr); isCall || strings.HasSuffix(text(u.X), ".C") {
						okAll = len(x.Body.List) >= 3 // a lone timer / ticker channel has its own idiom below
					}
					chans = append(chans, t.expr(u.X))
				} else {
					okAll = false
				}
			}
			if okAll && doneC != nil && len(chans) >= 1 {
				return "(SIf [] (EBool true) [(SIf [] (ECall " + q("$ctxdone") + " []) " + t.block(&ast.BlockStmt{List: doneC.Body}) + " []); (SAssign [" + q("_") + "] (ECall " + q("$wait_any") + " " + list(chans) + "))] [])"
			}
			// select { case ch <- v: default: }: a send that is dropped when it would block
			if len(x.Body.List) == 2 {
				var snd *ast.SendStmt
				hasDefault := false
				for _, c := range x.Body.List {
					cc := c.(*ast.CommClause)
					if cc.Comm == nil && len(cc.Body) == 0 {
						hasDefault = true
					} else if ss, ok := cc.Comm.(*ast.SendStmt); ok && len(cc.Body) == 0 {
						snd = ss
					}
				}
				if snd != nil && hasDefault {
					return "(SAssign [" + q("_") + "] (ECall " + q("$try_send") + " [" + t.expr(snd.Chan) + "]))"
				}
			}
		}
		if len(x.Body.List) == 2 {
			var done *ast.CommClause
			var send *ast.SendStmt
			for _, c := range x.Body.List {
				cc := c.(*ast.CommClause)
				switch cm := cc.Comm.(type) {
				case *ast.ExprStmt:
					if u, ok := cm.X.(*ast.UnaryExpr); ok && u.Op == token.ARROW && strings.HasSuffix(text(u.X), ".Done()") {
						done = cc
					}
				case *ast.SendStmt:
					if len(cc.Body) == 0 {
						send = cm
					}
				}
			}
			var def *ast.CommClause
			for _, c := range x.Body.List {
				if cc := c.(*ast.CommClause); cc.Comm == nil && len(cc.Body) == 0 {
					def = cc
				}
			}
			var timer ast.Expr
			for _, c := range x.Body.List {
				cc := c.(*ast.CommClause)
				if es, ok := cc.Comm.(*ast.ExprStmt); ok && len(cc.Body) == 0 {
					if u, ok := es.X.(*ast.UnaryExpr); ok && u.Op == token.ARROW {
						if call, ok := u.X.(*ast.CallExpr); ok && text(call.Fun) == "time.After" && len(call.Args) == 1 {
							timer = call.Args[0]
						}
					}
				}
			}
			var tick ast.Expr
			for _, c := range x.Body.List {
				cc := c.(*ast.CommClause)
				if es, ok := cc.Comm.(*ast.ExprStmt); ok && len(cc.Body) == 0 {
					if u, ok := es.X.(*ast.UnaryExpr); ok && u.Op == token.ARROW {
						if se, ok := u.X.(*ast.SelectorExpr); ok && se.Sel.Name == "C" {
							tick = se.X
						}
					}
				}
			}
			if done != nil && tick != nil {
				// wait for the next tick of a ticker unless the context is cancelled first
				return "(SIf [] (EBool true) [(SIf [] (ECall " + q("$ctxdone") + " []) " + t.block(&ast.BlockStmt{List: done.Body}) + " []); (SAssign [" + q("_") + "] (ECall " + q("$tick") + " [" + t.expr(tick) + "]))] [])"
			}
			if done != nil && timer != nil {
				// wait for the duration unless the context is cancelled first
				return "(SIf [] (EBool true) [(SIf [] (ECall " + q("$ctxdone") + " []) " + t.block(&ast.BlockStmt{List: done.Body}) + " []); (SAssign [" + q("_") + "] (ECall " + q("time.After") + " [" + t.expr(timer) + "]))] [])"
			}
			if done != nil && def != nil {
				// the non-blocking "has the context been cancelled" test
				return "(SIf [] (ECall " + q("$ctxdone") + " []) " + t.block(&ast.BlockStmt{List: done.Body}) + " [])"
			}
			if done != nil && send != nil {
				return "(SSendOrDone " + t.expr(send.Chan) + " " + t.expr(send.Value) + " " + t.block(&ast.BlockStmt{List: done.Body}) + ")"
			}
		}
		return "(SUnknown " + q("select "+text(x)) + ")"
	case *ast.BranchStmt:
		if x.Tok == token.BREAK && x.Label == nil && t.breakLocals != "" {
			return t.breakLocals
		}
		if x.Tok == token.CONTINUE && x.Label == nil && t.inRange {
			if t.rangeGeneral {
				return t.rangeExit(false, nil)
			}
			if len(t.rangeMuts) > 0 {
				return "(SReturn " + list(t.rangeMuts) + ")"
			}
			if t.rangeRet {
				return "(SReturn [(EBool false)])"
			}
			return "(SReturn [])"
		}
		if x.Tok == token.CONTINUE && x.Label == nil && t.continueLocals != "" {
			return t.continueLocals
		}
		if x.Tok == token.CONTINUE && x.Label == nil && t.inEndless {
			return "(SReturn [(EVar " + q("$continue") + ")])"
		}
		return "(SUnknown " + q("branch "+text(x)) + ")"
	case *ast.RangeStmt:
		if t.ranges && !t.inRange && x.Value != nil && (x.Key == nil || text(x.Key) == "_") {
			if _, ok := x.Value.(*ast.Ident); ok {
				t.rangeBodies = append(t.rangeBodies, x)
				name := fmt.Sprintf("$range%d", len(t.rangeBodies))
				if muts := rangeWrites(x); rangeReturns(x) && (len(muts) > 0 || !t.noResults) {
					// the general form: the walk answers (left?, the new values of the variables it writes, the values
					// returned if it left the function)
					n := len(t.rangeBodies)
					ls := []string{q(fmt.Sprintf("$rg%d", n))}
					as := []string{}
					for _, m := range muts {
						ls = append(ls, q(m))
						as = append(as, "(EVar "+q(m)+")")
					}
					var rv []string
					for i := 0; i < t.fnResults; i++ {
						v := fmt.Sprintf("$rv%d_%d", n, i+1)
						ls = append(ls, q(v))
						rv = append(rv, "(EVar "+q(v)+")")
					}
					return fmt.Sprintf("(SIf [(SAssign %s (ECall %s (%s :: %s)))] (EVar %s) [(SReturn %s)] [])",
						list(ls), q(name), t.expr(x.X), list(as), q(fmt.Sprintf("$rg%d", n)), list(rv))
				} else if len(muts) > 0 {
					// the body writes variables of the function: the walk is a state transformer over them
					var ls, as []string
					for _, m := range muts {
						ls = append(ls, q(m))
						as = append(as, "(EVar "+q(m)+")")
					}
					return fmt.Sprintf("(SAssign %s (ECall %s (%s :: %s)))", list(ls), q(name), t.expr(x.X), list(as))
				}
				if rangeReturns(x) && t.noResults {
					// a `return` in the body leaves the function: the walk answers whether that happened
					tmp := fmt.Sprintf("$rg%d", len(t.rangeBodies))
					return fmt.Sprintf("(SIf [(SAssign [%s] (ECall %s [%s]))] (EVar %s) [(SReturn [])] [])", q(tmp), q(name), t.expr(x.X), q(tmp))
				}
				return fmt.Sprintf("(SExpr (ECall %s [%s]))", q(name), t.expr(x.X))
			}
		}
		return "(SUnknown " + q("loop") + ")"
	case *ast.ForStmt:
		return "(SUnknown " + q("loop") + ")"
	case *ast.ReturnStmt:
		if t.inRange && t.rangeGeneral {
			if len(x.Results) != t.fnResults {
				return "(SUnknown " + q("return of a call with several results inside a range body") + ")"
			}
			var rs []string
			for _, r := range x.Results {
				rs = append(rs, t.expr(r))
			}
			return t.rangeExit(true, rs)
		}
		if t.inRange && t.rangeRet && len(x.Results) == 0 {
			return "(SReturn [(EBool true)])"
		}
		// `return x.M(...)` in a function with ONE result: the call is made first (it may be a call with an effect,
		// which expressions cannot have in Model/GoLite.v), then its value is returned
		if len(x.Results) == 1 && t.nresults >= 1 {
			if c, ok := x.Results[0].(*ast.CallExpr); ok {
				if se, ok := c.Fun.(*ast.SelectorExpr); ok {
					if _, isPkg := t.isPkg(se.X); !isPkg {
						tmp := fmt.Sprintf("$r%d", t.fresh())
						return "(SIf [] (EBool true) [(SAssign [" + q(tmp) + "] " + t.expr(c) + "); (SReturn [(EVar " + q(tmp) + ")])] [])"
					}
				}
				if id, ok := c.Fun.(*ast.Ident); ok && t.nresults >= 2 && (id.Obj == nil || id.Obj.Kind == ast.Fun) {
					// `return f(...)` handing on the several results of a package-level function of the same package
					tmp := fmt.Sprintf("$r%d", t.fresh())
					return "(SIf [] (EBool true) [(SAssign [" + q(tmp) + "] " + t.expr(c) + "); (SReturn [(EVar " + q(tmp) + ")])] [])"
				}
			}
		}
		return "(SReturn " + t.exprs(x.Results) + ")"
	case *ast.BlockStmt:
		return "(SIf [] (EBool true) " + t.block(x) + " [])"
	}
	return "(SUnknown " + q(fmt.Sprintf("%T %s", s, text(s))) + ")"
}

// effectful methods that occur in conditions
var effectful = map[string]bool{"CompareAndSwap": true, "handlePotentialHeader": true}

func hoistable(e ast.Expr) (*ast.CallExpr, bool) {
	neg := false
	if u, ok := e.(*ast.UnaryExpr); ok && u.Op == token.NOT {
		e, neg = u.X, true
	}
	if c, ok := e.(*ast.CallExpr); ok {
		if s, ok := c.Fun.(*ast.SelectorExpr); ok && effectful[s.Sel.Name] {
			return c, neg
		}
	}
	return nil, false
}

func sanitizeIdent(s string) string {
	var b strings.Builder
	for _, r := range s {
		if (r >= 'a' && r <= 'z') || (r >= 'A' && r <= 'Z') || (r >= '0' && r <= '9') || r == '_' {
			b.WriteRune(r)
		} else {
			b.WriteRune('_')
		}
	}
	return b.String()
}

func recvType(fd *ast.FuncDecl) string {
	if fd.Recv == nil || len(fd.Recv.List) != 1 {
		return ""
	}
	ty := fd.Recv.List[0].Type
	if st, ok := ty.(*ast.StarExpr); ok {
		ty = st.X
	}
	if ix, ok := ty.(*ast.IndexExpr); ok {
		ty = ix.X
	}
	if id, ok := ty.(*ast.Ident); ok {
		return id.Name
	}
	return "?"
}

func main() {
	if len(os.Args) != 3 && len(os.Args) != 4 {
		fmt.Fprintln(os.Stderr, "usage: golite <repo root> <out.v> [<loops-out.v>]")
		os.Exit(2)
	}
	root, out := os.Args[1], os.Args[2]
	if len(os.Args) == 4 {
		txt := translateLoops(root, func(rel string) *ast.File {
			f, err := parser.ParseFile(fset, filepath.Join(root, rel), nil, 0)
			if err != nil {
				return nil
			}
			return f
		})
		if err := os.WriteFile(os.Args[3], []byte(txt), 0o644); err != nil {
			fmt.Fprintln(os.Stderr, "golite:", err)
			os.Exit(1)
		}
	}
	var b strings.Builder
	b.WriteString("(* GENERATED by harness/translators/golite from the Go source of the repository; do not edit. *)\n")
	b.WriteString("From Coq Require Import String List ZArith.\nFrom Verif Require Import Model.GoLite.\nImport ListNotations.\nOpen Scope string_scope.\nOpen Scope list_scope.\n\n")
	var table []string
	parsed := map[string]*ast.File{}
	for _, tg := range targets {
		f := parsed[tg.file]
		if f == nil {
			var err error
			f, err = parser.ParseFile(fset, filepath.Join(root, tg.file), nil, 0)
			if err != nil {
				fmt.Fprintln(os.Stderr, "golite:", err)
				os.Exit(1)
			}
			parsed[tg.file] = f
		}
		t := &tr{imports: map[string]bool{}}
		for _, im := range f.Imports {
			p, _ := strconv.Unquote(im.Path.Value)
			name := p[strings.LastIndex(p, "/")+1:]
			if im.Name != nil {
				name = im.Name.Name
			}
			t.imports[name] = true
		}
		var fd *ast.FuncDecl
		for _, d := range f.Decls {
			if x, ok := d.(*ast.FuncDecl); ok && x.Name.Name == tg.name && recvType(x) == tg.recv {
				fd = x
			}
		}
		key := tg.name
		if tg.recv != "" {
			key = tg.recv + "." + tg.name
		}
		ident := "fn_" + strings.ReplaceAll(key, ".", "_")
		if fd == nil || fd.Body == nil {
			// the function is gone (renamed, moved): emit a body the evaluator fails on
			fmt.Fprintf(&b, "Definition %s : gfun := {| f_recv := None; f_params := []; f_body := [SUnknown %s] |}.\n\n", ident, q("function not found: "+tg.file+" "+key))
			table = append(table, "("+q(key)+", "+ident+")")
			continue
		}
		t.noResults = fd.Type.Results == nil || len(fd.Type.Results.List) == 0
		t.fnResults = 0
		if fd.Type.Results != nil {
			for _, r := range fd.Type.Results.List {
				if len(r.Names) == 0 {
					t.fnResults++
				} else {
					t.fnResults += len(r.Names)
				}
			}
		}
		recv := "None"
		if fd.Recv != nil && len(fd.Recv.List) == 1 && len(fd.Recv.List[0].Names) == 1 {
			recv = "(Some " + q(fd.Recv.List[0].Names[0].Name) + ")"
		} else if fd.Recv != nil {
			recv = "(Some " + q("_") + ")"
		}
		var params []string
		for _, p := range fd.Type.Params.List {
			if len(p.Names) == 0 {
				params = append(params, q("_"))
			}
			for _, n := range p.Names {
				params = append(params, q(n.Name))
			}
		}
		if tg.pre {
			// the statements before the function's first top-level loop, then `return <the locals declared so far>`
			var locals []string
			seen := map[string]bool{}
			var pre []ast.Stmt
			found := false
			for _, st := range fd.Body.List {
				if _, ok := st.(*ast.ForStmt); ok {
					found = true
					break
				}
				if tg.stop != "" && strings.Contains(text(st), tg.stop) {
					found = true
					break
				}
				if ls, ok := st.(*ast.LabeledStmt); ok {
					if _, ok := ls.Stmt.(*ast.ForStmt); ok {
						found = true
						break
					}
				}
				pre = append(pre, st)
				if as, ok := st.(*ast.AssignStmt); ok && as.Tok == token.DEFINE {
					for _, l := range as.Lhs {
						if id, ok := l.(*ast.Ident); ok && id.Name != "_" && !seen[id.Name] {
							seen[id.Name] = true
							locals = append(locals, id.Name)
						}
					}
				}
				if ds, ok := st.(*ast.DeclStmt); ok {
					if gd, ok := ds.Decl.(*ast.GenDecl); ok && gd.Tok == token.VAR {
						for _, sp := range gd.Specs {
							if vs, ok := sp.(*ast.ValueSpec); ok {
								for _, n := range vs.Names {
									if n.Name != "_" && !seen[n.Name] {
										seen[n.Name] = true
										locals = append(locals, n.Name)
									}
								}
							}
						}
					}
				}
			}
			preIdent := ident + "_pre"
			if !found {
				fmt.Fprintf(&b, "Definition %s : gfun := {| f_recv := None; f_params := []; f_body := [SUnknown %s] |}.\n\n", preIdent, q("no top-level loop in "+key))
				table = append(table, "("+q(key+"$pre")+", "+preIdent+")")
				continue
			}
			t.nresults = 0
			out := t.stmts(pre)
			var lv []string
			for _, n := range locals {
				lv = append(lv, "(EVar "+q(n)+")")
			}
			out = append(out, "(SReturn ((EVar "+q("$loop")+") :: "+list(lv)+"))")
			fmt.Fprintf(&b, "(* %s: %s up to its first loop; the result is the locals declared so far: %s *)\nDefinition %s : gfun := {| f_recv := %s; f_params := %s; f_body :=\n  %s |}.\n\n",
				tg.file, key, strings.Join(locals, ", "), preIdent, recv, list(params), list(out))
			table = append(table, "("+q(key+"$pre")+", "+preIdent+")")
			continue
		}
		if tg.cases {
			// an event loop: the last statement is `for { select { case <-a: ...; case x := <-b: ...; ... } }`.  One
			// function per case: its body, then `return $continue`; `continue` likewise; a `return` is the loop's.
			// Statements before the loop that only create timers / tickers / channels or defer their release are kept;
			// anything else before the loop is not part of an event's handling and is left out.
			var sel *ast.SelectStmt
			if n := len(fd.Body.List); n >= 1 {
				if fs, ok := fd.Body.List[n-1].(*ast.ForStmt); ok && fs.Init == nil && fs.Cond == nil && fs.Post == nil && len(fs.Body.List) == 1 {
					sel, _ = fs.Body.List[0].(*ast.SelectStmt)
				}
			}
			if sel == nil {
				fmt.Fprintf(&b, "Definition %s_cases : gfun := {| f_recv := None; f_params := []; f_body := [SUnknown %s] |}.\n\n", ident, q("not an event loop: "+key))
				table = append(table, "("+q(key+"$cases")+", "+ident+"_cases)")
				continue
			}
			var prelude []string
			for _, st := range fd.Body.List[:len(fd.Body.List)-1] {
				keep := false
				switch x := st.(type) {
				case *ast.DeferStmt:
					keep = true
				case *ast.AssignStmt:
					if x.Tok == token.DEFINE && len(x.Rhs) == 1 {
						if c, ok := x.Rhs[0].(*ast.CallExpr); ok {
							f := text(c.Fun)
							keep = f == "time.NewTimer" || f == "time.NewTicker" || f == "make"
						}
					}
				}
				if keep {
					prelude = append(prelude, t.stmt(st))
				}
			}
			for _, c := range sel.Body.List {
				cc := c.(*ast.CommClause)
				name, recvVar := "default", ""
				var ch ast.Expr
				switch cm := cc.Comm.(type) {
				case *ast.ExprStmt:
					if u, ok := cm.X.(*ast.UnaryExpr); ok && u.Op == token.ARROW {
						ch = u.X
					}
				case *ast.AssignStmt:
					if len(cm.Lhs) == 1 && len(cm.Rhs) == 1 {
						if u, ok := cm.Rhs[0].(*ast.UnaryExpr); ok && u.Op == token.ARROW {
							ch = u.X
							if id, ok := cm.Lhs[0].(*ast.Ident); ok {
								recvVar = id.Name
							}
						}
					}
				}
				if ch != nil {
					name = text(ch)
					name = strings.TrimSuffix(name, ".C")
					name = strings.TrimSuffix(name, "()")
					if i := strings.LastIndex(name, "."); i >= 0 {
						name = name[i+1:]
					}
				}
				t.nresults = 0
				var out []string
				out = append(out, prelude...)
				t.inEndless = true
				out = append(out, t.stmts(cc.Body)...)
				t.inEndless = false
				out = append(out, "(SReturn [(EVar "+q("$continue")+")])")
				ps := append([]string{}, params...)
				if recvVar != "" {
					ps = append(ps, q(recvVar))
				}
				cid := ident + "_case_" + sanitizeIdent(name)
				fmt.Fprintf(&b, "(* %s: %s, the case `%s` of its event loop *)\nDefinition %s : gfun := {| f_recv := %s; f_params := %s; f_body :=\n  %s |}.\n\n",
					tg.file, key, printable(text(cc.Comm)), cid, recv, list(ps), list(out))
				table = append(table, "("+q(key+"$"+name)+", "+cid+")")
			}
			continue
		}
		if tg.iter {
			// ONE ITERATION of the function's top-level conditional loop `for cond { body }`: a function of the
			// parameters and of the locals declared before the loop, `if !cond { return $break, locals }` ; body ;
			// `return $continue, locals` (a `return` inside the body is the function's own return)
			var loop *ast.ForStmt
			var locals []string
			seen := map[string]bool{}
			addLocal := func(n string) {
				if n != "_" && !seen[n] {
					seen[n] = true
					locals = append(locals, n)
				}
			}
			scope := fd.Body.List
			if tg.inner {
				// the statements of the outer endless loop are the scope; its inner endless loop is the one translated
				if n := len(scope); n >= 1 {
					if outer, ok := scope[n-1].(*ast.ForStmt); ok && outer.Cond == nil && outer.Init == nil && outer.Post == nil {
						scope = outer.Body.List
					}
				}
			}
			for _, st := range scope {
				if fs, ok := st.(*ast.ForStmt); ok && fs.Init == nil && fs.Post == nil && (fs.Cond != nil || tg.inner || tg.endless) {
					loop = fs
					break
				}
				if fs, ok := st.(*ast.ForStmt); ok && fs.Cond != nil && !tg.inner {
					// `for i := e; cond; post`: i is one more local (its initial value is the caller's business, as for the
					// other locals), post runs before `return $continue`
					if as, ok := fs.Init.(*ast.AssignStmt); ok && as.Tok == token.DEFINE {
						for _, l := range as.Lhs {
							if id, ok := l.(*ast.Ident); ok {
								addLocal(id.Name)
							}
						}
						loop = fs
						break
					}
				}
				switch x := st.(type) {
				case *ast.AssignStmt:
					if x.Tok == token.DEFINE {
						for _, l := range x.Lhs {
							if id, ok := l.(*ast.Ident); ok {
								addLocal(id.Name)
							}
						}
					}
				case *ast.DeclStmt:
					if gd, ok := x.Decl.(*ast.GenDecl); ok && gd.Tok == token.VAR {
						for _, sp := range gd.Specs {
							if vs, ok := sp.(*ast.ValueSpec); ok {
								for _, n := range vs.Names {
									addLocal(n.Name)
								}
							}
						}
					}
				}
			}
			iterIdent := ident + "_iter"
			iterKey := key + "$iter"
			if loop == nil {
				fmt.Fprintf(&b, "Definition %s : gfun := {| f_recv := None; f_params := []; f_body := [SUnknown %s] |}.\n\n", iterIdent, q("no conditional top-level loop in "+key))
				table = append(table, "("+q(iterKey)+", "+iterIdent+")")
				continue
			}
			plain := true
			ast.Inspect(loop.Body, func(n ast.Node) bool {
				switch x := n.(type) {
				case *ast.BranchStmt:
					if x.Tok == token.BREAK && x.Label == nil && tg.inner {
						// leaves the inner loop: `return $break, locals` (emitted by stmt() through t.breakLocals)
					} else if x.Tok == token.CONTINUE && x.Label == nil && tg.endless {
						// next iteration: `return $continue, locals` (emitted by stmt() through t.continueLocals)
					} else if x.Tok != token.FALLTHROUGH {
						plain = false
					}
				case *ast.RangeStmt:
					if tg.ranges {
						return false // translated on its own
					}
					if tg.inner {
						plain = false
					}
				case *ast.ForStmt:
					if tg.inner || tg.endless {
						plain = false // a `break` / `continue` in there would mean something else
					}
				case *ast.SwitchStmt, *ast.SelectStmt:
					if tg.inner {
						plain = false // a `break` in there would mean something else
					}
				case *ast.LabeledStmt:
					plain = false
				case *ast.FuncLit:
					return false
				}
				return true
			})
			var lv []string
			for _, n := range locals {
				lv = append(lv, "(EVar "+q(n)+")")
			}
			t.nresults = 0 // no hoisting of `return f()` by result count: the body's returns are the function's
			var out []string
			if loop.Cond != nil {
				out = append(out, "(SIf [] (ENot "+t.expr(loop.Cond)+") [(SReturn ("+"(EVar "+q("$break")+") :: "+list(lv)+"))] [])")
			}
			t.breakLocals = "(SReturn ((EVar " + q("$break") + ") :: " + list(lv) + "))"
			defer func() { t.breakLocals = "" }()
			if tg.endless {
				t.breakLocals = ""
				t.continueLocals = "(SReturn ((EVar " + q("$continue") + ") :: " + list(lv) + "))"
				defer func() { t.continueLocals = "" }()
			}
			t.ranges = tg.ranges
			if plain {
				out = append(out, t.stmts(loop.Body.List)...)
			} else {
				out = append(out, "(SUnknown "+q("break / continue / label inside the loop")+")")
			}
			if loop.Post != nil {
				out = append(out, t.stmt(loop.Post))
			}
			out = append(out, "(SReturn ((EVar "+q("$continue")+") :: "+list(lv)+"))")
			var ps []string
			ps = append(ps, params...)
			for _, n := range locals {
				ps = append(ps, q(n))
			}
			fmt.Fprintf(&b, "(* %s: one iteration of the loop of %s; the locals declared before the loop are parameters: %s *)\nDefinition %s : gfun := {| f_recv := %s; f_params := %s; f_body :=\n  %s |}.\n\n",
				tg.file, key, strings.Join(locals, ", "), iterIdent, recv, list(ps), list(out))
			table = append(table, "("+q(iterKey)+", "+iterIdent+")")
			t.breakLocals = ""
			t.continueLocals = ""
			table = append(table, t.emitRanges(&b, tg, key, ident, recv, params, fd)...)
			continue
		}
		t.nresults = 0
		t.ranges = tg.ranges
		if fd.Type.Results != nil {
			for _, r := range fd.Type.Results.List {
				if len(r.Names) == 0 {
					t.nresults++
				} else {
					t.nresults += len(r.Names)
				}
			}
		}
		fmt.Fprintf(&b, "(* %s: %s *)\nDefinition %s : gfun := {| f_recv := %s; f_params := %s; f_body :=\n  %s |}.\n\n",
			tg.file, key, ident, recv, list(params), t.body(fd.Body))
		table = append(table, "("+q(key)+", "+ident+")")
		table = append(table, t.emitRanges(&b, tg, key, ident, recv, params, fd)...)
	}
	fmt.Fprintf(&b, "Definition gen_funs : list (string * gfun) :=\n  [%s].\n", strings.Join(table, ";\n   "))
	if err := os.WriteFile(out, []byte(b.String()), 0o644); err != nil {
		fmt.Fprintln(os.Stderr, "golite:", err)
		os.Exit(1)
	}
}
