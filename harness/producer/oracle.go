package producer

import (
	"bytes"
	"fmt"
	"strings"

	"github.com/evstack/ev-node/block"
	"github.com/evstack/ev-node/types"
)

// Oracle evaluates C01 and C04 directly on what the real code did and on the real store.  It never
// looks at the Coq model.  Every failure carries a signature: a decidable class of the failing history.
type Oracle struct {
	w    *World
	Sigs []string
	What []string

	genesisRoot uint64                 // root returned by the last successful InitChain
	batchesAt   map[uint64][]batchRec  // batches handed out while the store height was h (they build h+1)
	stateAppAt  map[uint64]uint64      // app root recorded in the durable state when its height was n
	committed   map[uint64][]byte      // header hash of every height first seen committed or published
	maxHeight   uint64
	execRet     map[uint64]uint64      // root handed back by the LAST successful ExecuteTxs for height n
	lastMaxB    uint64                 // maxBytes handed back by the last successful ExecuteTxs (0: none / no limit)
	stepBatch   *batchRec              // the batch the sequencing layer handed out in the current step
	// coverage classes (counted in result.json)
	EmptyRoots int // successful ExecuteTxs / InitChain calls that handed back a root of length 0
	OverLimit  int // batches handed out whose transactions are larger than the last maxBytes the execution layer reported
	OnEmpty    int // blocks committed on top of a state whose root has length 0
	// classes of the history (for signatures)
	tornCommit bool // a crash cut a step inside its commit group (between the state write and the store-height write)
	cutStop    bool // a shutdown died somewhere inside SaveCache
	tornWrite  bool // ... between the creation of a cache file and the end of its write (an empty or partly written file)
	SweepPts   int  // crash points of real SaveCache calls evaluated exhaustively (afterSave)
	tampered   bool // a cache file was truncated by hand (not a crash): start-up may then fail in LoadCache
	earlyEmpty bool // an empty batch older than the last block was handed out
	preEpoch   bool // a batch (empty or not) stamped before the unix epoch - or not stamped at all: the zero time.Time - was handed out
	Peeks      int  // reads made by a client of the node while the execution layer worked
	// Cfg.Loop (loop.go)
	Rounds      int      // rounds made by the node's own production loop
	FaultRounds int      // ... in which the sequencing layer was asked and had nothing to build from (error of any class, no batch)
	Halts       []string // result class of every round after which the loop ended on its own
	// the loop ended on its own after a round that failed in the execution layer / on a refused regressed non-empty
	// batch and the node has not been started again since: the signature and description of that halt
	haltSig  string
	haltWhat string
}

type batchRec struct {
	txs []int
	ts  int64
}

func newOracle(w *World) *Oracle {
	return &Oracle{w: w, batchesAt: map[uint64][]batchRec{}, stateAppAt: map[uint64]uint64{}, committed: map[uint64][]byte{}, execRet: map[uint64]uint64{}}
}

func (o *Oracle) fail(sig, what string) {
	for _, s := range o.Sigs {
		if s == sig {
			return
		}
	}
	o.Sigs = append(o.Sigs, sig)
	o.What = append(o.What, strings.ReplaceAll(what, "\n", " | ")) // one line (joined errors print on several)
}

// cause attributes a liveness / agreement failure to the class of the history
func (o *Oracle) cause(dflt string) string {
	switch {
	case o.tornCommit:
		return "crash-between-height-and-state-write"
	case o.tornWrite:
		return "crash-inside-cache-file-write"
	case o.cutStop:
		return "torn-cache-file"
	case o.preEpoch:
		return "batch-stamped-before-the-unix-epoch"
	case o.earlyEmpty:
		return "empty-batch-with-earlier-timestamp"
	}
	return dflt
}

func eqInts(a, b []int) bool {
	if len(a) != len(b) {
		return false
	}
	for i := range a {
		if a[i] != b[i] {
			return false
		}
	}
	return true
}

func (o *Oracle) afterBoot(idx int, it Item, initOK bool, err error) {
	if err == nil {
		o.haltSig, o.haltWhat = "", "" // the node was started again: production resumes (checked by what follows / the probe)
	}
	if initOK {
		o.genesisRoot = RootOf(idx, it)
		if it.EmptyRoot {
			o.EmptyRoots++
		}
	}
	if err != nil && o.tampered && classify(err) == "boot-fail-cache" {
		return // damage by hand is outside the property; the model predicts this failure
	}
	if err != nil && !(it.InitErr && classify(err) == "boot-fail-init") {
		o.fail(o.cause("boot-failed"), fmt.Sprintf("item %d: NewManager failed: %v", idx, err))
	}
}

// afterSave: C04 "a crash in the middle of writing the on-disk caches at shutdown never leaves the node unable to
// start", evaluated exhaustively on the operations the real SaveCache just performed: EVERY crash point of it (after
// each file operation, inside each write after each number of bytes) must leave a directory the real LoadFromDisk
// accepts - provided the directory was loadable before (damage by hand is outside the property).
func (o *Oracle) afterSave(idx int, before DirImage, ops []FOp) {
	if o.tampered {
		return
	}
	pts, what, torn := o.w.sweepCrashPoints(before, ops)
	o.SweepPts += pts
	if what != "" {
		sig := "torn-cache-file"
		if torn {
			sig = "crash-inside-cache-file-write"
		}
		o.fail(sig, fmt.Sprintf("item %d (shutdown): %s", idx, what))
	}
}

// called by the sequencer double when it hands out a batch
func (o *Oracle) gaveBatch(it *Item) {
	st := o.w.Store()
	h, _ := st.Height(o.w.ctx)
	rec := batchRec{txs: append([]int{}, it.Txs...), ts: it.Ts}
	o.batchesAt[h] = append(o.batchesAt[h], rec)
	o.stepBatch = &rec
	size := uint64(0)
	for _, id := range it.Txs {
		size += uint64(len(o.w.Pool[id%len(o.w.Pool)]))
	}
	if o.lastMaxB > 0 && size > o.lastMaxB {
		o.OverLimit++
	}
	if it.ZeroTs || it.Ts < EpochMs {
		o.preEpoch = true
	}
	if len(it.Txs) == 0 && h >= o.w.Cfg.Initial {
		if hd, err := st.GetHeader(o.w.ctx, h); err == nil && it.Ts < nanoToMs(hd.BaseHeader.Time) {
			o.earlyEmpty = true
		}
	}
}

// called by the executor double when ExecuteTxs hands back a root
func (o *Oracle) executed(h, root, maxBytes uint64) {
	o.execRet[h] = root
	o.lastMaxB = maxBytes
	if root == EmptyRootID {
		o.EmptyRoots++
	}
}

func (o *Oracle) afterStep(idx int, it Item, obs Obs, hdrs []*types.SignedHeader, datas []*types.Data) {
	batch := o.stepBatch
	o.stepBatch = nil
	if obs.Res != "committed" {
		if len(hdrs)+len(datas) > 0 {
			o.fail("published-without-commit", fmt.Sprintf("item %d: step result %s but %d headers / %d data were broadcast", idx, obs.Res, len(hdrs), len(datas)))
		}
		return
	}
	n := obs.N
	pb, sh, d := o.w.Block(n)
	if !pb.Present {
		o.fail("committed-block-missing", fmt.Sprintf("item %d: committed height %d has no block", idx, n))
		return
	}
	if len(hdrs) != 1 || len(datas) != 1 {
		o.fail("publish-count", fmt.Sprintf("item %d: committed height %d, broadcast %d headers / %d data", idx, n, len(hdrs), len(datas)))
	} else {
		if !bytes.Equal(hdrs[0].Hash(), sh.Hash()) || !bytes.Equal(hdrs[0].Signature, sh.Signature) {
			o.fail("published-differs-from-stored", fmt.Sprintf("item %d: broadcast header of height %d is not the stored one", idx, n))
		}
		if !bytes.Equal(datas[0].Hash(), d.Hash()) {
			o.fail("published-differs-from-stored", fmt.Sprintf("item %d: broadcast data of height %d is not the stored one", idx, n))
		}
	}
	// executed exactly this block on the previous root, and the returned root is the recorded state root
	prev, ok := o.stateAppAt[n-1]
	if n == o.w.Cfg.Initial {
		prev, ok = o.genesisRoot, true
	}
	if obs.Call == nil || obs.Call.H != n || !eqInts(obs.Call.Txs, pb.Txs) || obs.Call.T != pb.T || !ok || obs.Call.Prev != prev {
		o.fail("exec-call-wrong", fmt.Sprintf("item %d: committed height %d (txs %v, time %d, previous root %d) but ExecuteTxs saw %+v", idx, n, pb.Txs, pb.T, prev, obs.Call))
	}
	if obs.State == nil || obs.State.App != RootOf(idx, it) {
		o.fail("state-root-not-exec-result", fmt.Sprintf("item %d: committed height %d, executor returned root %d (0 = the root of length 0), recorded state %+v", idx, n, RootOf(idx, it), obs.State))
	}
	// a block built in this step from the batch the sequencing layer just handed out holds exactly the
	// transactions of that batch, all of them, in order, and its timestamp
	if batch != nil && (!eqInts(batch.txs, pb.Txs) || batch.ts != pb.T) {
		o.fail("txs-not-from-batch", fmt.Sprintf("item %d: the sequencing layer handed out transactions %v / time %d, the block committed at height %d from it holds %v / time %d", idx, batch.txs, batch.ts, n, pb.Txs, pb.T))
	}
	if ok && prev == EmptyRootID {
		o.OnEmpty++
	}
}

func (o *Oracle) afterCrash(idx int, it Item, obs Obs) {
	// the cut fell inside the commit group of a production step: one of {state, store height} written, not the other
	if it.T == "step" && len(obs.Writes) > 0 && (obs.State == nil || obs.State.H != obs.Height) {
		last := obs.Writes[len(obs.Writes)-1]
		if last == "state" || (len(last) > 7 && last[:7] == "height:") {
			o.tornCommit = true
		}
	}
}

// reader is a client of the running node (RPC GetBlock, DA submitter, header exchange) that reads, through the
// node's own store and at an instant of its choosing — here: while the execution layer works on block h, i.e.
// between the early and the final save — the height being produced and the one below it.
func (o *Oracle) reader(h uint64) {
	o.Peeks++
	for _, n := range []uint64{h, h - 1} {
		if n >= o.w.Cfg.Initial {
			o.served(-1, n, false, "while the execution layer worked on height "+fmt.Sprint(h))
		}
	}
}

// served evaluates the property on the block the node EXPOSES at height n: what a reader gets from the store
// object the node runs on (GetBlockData, GetHeader, GetBlockByHash, GetSignature, GetSignatureByHash), which
// must also be what a freshly opened store (a restarted process) reads from the datastore.  A committed height
// must hold a header that carries the proposer's signature over itself, the same signature as the signature
// record, and passes SignedHeader.ValidateBasic — on exactly what the store returns.
func (o *Oracle) served(idx int, n uint64, committed bool, when string) {
	w := o.w
	live := w.Store()
	pb, sh, d := w.BlockVia(live, n)
	pd, _, _ := w.BlockVia(w.Disk(), n)
	if !pb.Eq(pd) {
		o.fail("served-differs-from-durable", fmt.Sprintf("%s: the node's store serves %+v at height %d, the datastore holds %+v", when, pb, n, pd))
	}
	if !pb.Present {
		if committed {
			o.fail(o.cause("committed-block-missing"), fmt.Sprintf("%s: committed height %d has no block", when, n))
		}
		return
	}
	// every read path returns the same record
	hash := sh.Hash()
	if h2, err := live.GetHeader(w.ctx, n); err != nil || !bytes.Equal(h2.Hash(), hash) || !bytes.Equal(h2.Signature, sh.Signature) {
		o.fail("store-read-paths-disagree", fmt.Sprintf("%s: GetHeader(%d) and GetBlockData(%d) return different signed headers (err %v)", when, n, n, err))
	}
	if h3, d3, err := live.GetBlockByHash(w.ctx, hash); err != nil || !bytes.Equal(h3.Hash(), hash) || !bytes.Equal(h3.Signature, sh.Signature) || !bytes.Equal(d3.Hash(), d.Hash()) {
		o.fail("store-read-paths-disagree", fmt.Sprintf("%s: GetBlockByHash(hash of %d) and GetBlockData(%d) return different blocks (err %v)", when, n, n, err))
	}
	s1, e1 := live.GetSignature(w.ctx, n)
	s2, e2 := live.GetSignatureByHash(w.ctx, hash)
	if (e1 == nil) != (e2 == nil) || (e1 == nil && !bytes.Equal(*s1, *s2)) {
		o.fail("store-read-paths-disagree", fmt.Sprintf("%s: GetSignature(%d) and GetSignatureByHash differ (err %v / %v)", when, n, e1, e2))
	}
	if !committed {
		return
	}
	if pb.H != n {
		o.fail(o.cause("wrong-height"), fmt.Sprintf("%s: height %d serves a header of height %d", when, n, pb.H))
	}
	if pb.HSig != 1 || !pb.SignOk || !pb.PropOk || pb.SSig != 1 || !pb.ChainOk {
		o.fail(o.cause("not-signed-by-proposer"), fmt.Sprintf("%s: committed height %d as served by the store: header signature class %d (1 = verifies), signer ok %v, proposer ok %v, signature record class %d (1 = equals the header's), chain ok %v",
			when, n, pb.HSig, pb.SignOk, pb.PropOk, pb.SSig, pb.ChainOk))
	}
	if !pb.VBasic {
		o.fail(o.cause("validate-fails"), fmt.Sprintf("%s: committed height %d as served by the store: ValidateBasic: %v", when, n, sh.ValidateBasic()))
	}
}

// after every item (also failed, skipped and crashed ones): the served view of the heights near the tip, of the
// pending height, of every height written by the item and of two older heights chosen by the item number
func (o *Oracle) servedAfter(idx int, obs Obs) {
	ini, H := o.w.Cfg.Initial, obs.Height
	seen := map[uint64]bool{}
	look := func(n uint64) {
		if n < ini || n > H+1 || seen[n] {
			return
		}
		seen[n] = true
		o.served(idx, n, n <= H, fmt.Sprintf("after item %d", idx))
	}
	for n := H + 1; n+4 > H+1 && n >= ini; n-- {
		look(n)
	}
	for _, s := range obs.Writes {
		var n uint64
		if _, err := fmt.Sscanf(s, "block:%d", &n); err == nil {
			look(n)
		}
	}
	if H >= ini {
		span := H - ini + 1
		look(ini + uint64(idx*7919)%span)
		look(ini + uint64(idx*104729+13)%span)
	}
}

// after every item: C04 (i)-(iii) on the durable store
func (o *Oracle) afterAny(idx int, it Item, obs Obs) {
	ini := o.w.Cfg.Initial
	o.servedAfter(idx, obs)
	// (i) recorded height, recorded state and stored blocks agree — the property speaks of the node
	// "after restart", so this is evaluated while a process runs (after a successful boot and after every
	// step of it), not on the image a dead process left behind
	if obs.State != nil {
		if o.w.node != nil && obs.State.H != obs.Height {
			o.fail(o.cause("height-state-disagree"), fmt.Sprintf("after item %d: store height %d, state height %d", idx, obs.Height, obs.State.H))
		}
		if obs.State.H == obs.Height {
			o.stateAppAt[obs.State.H] = obs.State.App
		}
	} else if o.w.node != nil && obs.Height >= ini {
		o.fail(o.cause("height-state-disagree"), fmt.Sprintf("after item %d: store height %d but no state is recorded", idx, obs.Height))
	}
	if obs.Height < o.maxHeight {
		o.fail("height-decreased", fmt.Sprintf("after item %d: store height %d, was %d", idx, obs.Height, o.maxHeight))
	}
	// (ii) a committed block is never replaced by a different one
	for _, s := range obs.Writes {
		var n uint64
		if _, err := fmt.Sscanf(s, "block:%d", &n); err == nil {
			if old, ok := o.committed[n]; ok {
				if hd, err := o.w.Store().GetHeader(o.w.ctx, n); err != nil || !bytes.Equal(hd.Hash(), old) {
					o.fail(o.cause("committed-block-replaced"), fmt.Sprintf("item %d rewrote committed height %d with a different block", idx, n))
				}
			}
		}
	}
	// (iii) heights advance one at a time; remember what is committed
	if obs.Height > o.maxHeight {
		if o.maxHeight >= ini && obs.Height != o.maxHeight+1 || o.maxHeight < ini && obs.Height >= ini && obs.Height != ini {
			if !(o.maxHeight < ini && obs.Height < ini) {
				o.fail("height-skipped", fmt.Sprintf("after item %d: store height went from %d to %d", idx, o.maxHeight, obs.Height))
			}
		}
		for n := o.maxHeight + 1; n <= obs.Height; n++ {
			if n < ini {
				continue
			}
			if hd, err := o.w.Store().GetHeader(o.w.ctx, n); err == nil {
				o.committed[n] = hd.Hash()
			} else {
				o.fail(o.cause("committed-block-missing"), fmt.Sprintf("after item %d: height %d is committed but has no block", idx, n))
			}
		}
		o.maxHeight = obs.Height
	}
}

// the chain [initial .. height] is valid, hash-linked, signed by the genesis proposer (C01; C04 (iv))
func (o *Oracle) final() {
	w := o.w
	st := w.Store()
	h, _ := st.Height(w.ctx)
	ini := w.Cfg.Initial
	var prevT int64
	var prevHdr *types.SignedHeader
	for n := ini; n <= h; n++ {
		pb, sh, d := w.Block(n)
		if !pb.Present {
			o.fail(o.cause("committed-block-missing"), fmt.Sprintf("height %d of [%d,%d] has no block", n, ini, h))
			return
		}
		o.served(-1, n, true, "at the end")
		bad := func(sig, f string, a ...interface{}) {
			o.fail(o.cause(sig), fmt.Sprintf("height %d: ", n)+fmt.Sprintf(f, a...))
		}
		if pb.H != n {
			bad("wrong-height", "stored header has height %d", pb.H)
		}
		if n == ini && pb.Link != 0 {
			bad("bad-link", "first block names a previous header")
		}
		if n > ini {
			if pb.Link != 1 || !bytes.Equal(sh.LastHeaderHash, prevHdr.Hash()) {
				bad("bad-link", "LastHeaderHash is not the hash of the header at %d", n-1)
			}
			if pb.T < prevT {
				bad("time-regressed", "time %d is earlier than the predecessor's %d", pb.T, prevT)
			}
		}
		if !pb.DHOk {
			bad("bad-data-hash", "DataHash does not commit to the stored transactions")
		}
		if len(pb.Txs) == 0 && !bytes.Equal(sh.DataHash, block.VerifDataHashForEmptyTxs()) {
			bad("bad-data-hash", "empty block without the empty-data hash")
		}
		// exactly the transactions, in order, of a batch handed out for this height
		if n == ini {
			if len(pb.Txs) != 0 {
				bad("txs-not-from-batch", "first block carries transactions %v", pb.Txs)
			}
		} else {
			found := false
			for _, b := range o.batchesAt[n-1] {
				if eqInts(b.txs, pb.Txs) && b.ts == pb.T {
					found = true
				}
			}
			if !found {
				bad("txs-not-from-batch", "transactions %v / time %d are not those of a batch handed out at height %d (%v)", pb.Txs, pb.T, n-1, o.batchesAt[n-1])
			}
		}
		// delayed application hash
		want, ok := o.stateAppAt[n-1]
		if n == ini {
			want, ok = o.genesisRoot, true
		}
		if !ok || pb.App != want {
			bad("bad-app-hash", "AppHash is root %d, the state after %d had root %d (%v)", pb.App, n-1, want, ok)
		}
		// ... and that is the root the execution layer handed back for the previous block (0 = the root of length 0)
		if ret, okr := o.execRet[n-1]; n > ini && okr && pb.App != ret {
			o.fail("bad-app-hash", fmt.Sprintf("height %d: AppHash is root %d, the execution layer returned root %d for height %d (0 = the root of length 0)", n, pb.App, ret, n-1))
		}
		if pb.HSig != 1 || !pb.SignOk || !pb.PropOk || pb.SSig != 1 || !pb.ChainOk {
			bad("not-signed-by-proposer", "header signature class %d, signer ok %v, proposer ok %v, signature record class %d, chain ok %v", pb.HSig, pb.SignOk, pb.PropOk, pb.SSig, pb.ChainOk)
		}
		if err := sh.ValidateBasic(); err != nil {
			bad("validate-fails", "ValidateBasic: %v", err)
		}
		if err := types.Validate(sh, d); err != nil {
			bad("validate-fails", "types.Validate: %v", err)
		}
		// the validation a full node applies, against the state after n-1
		last := types.State{ChainID: w.Gen.ChainID, InitialHeight: ini, LastBlockHeight: n - 1, LastBlockTime: msToTime(prevT), AppHash: rootBytes(want)}
		if n == ini {
			last.LastBlockTime = w.Gen.GenesisDAStartTime
		}
		if err := (&block.Manager{}).VerifC01ExecValidate(last, sh, d); err != nil {
			bad("validate-fails", "execValidate against the state after %d: %v", n-1, err)
		}
		prevT, prevHdr = pb.T, sh
	}
	// recorded state = state after the last block: "after restart", i.e. while a process runs (the image a
	// dead process left may have the store height one below the recorded state until the next start)
	if h >= ini && w.node != nil {
		s, err := st.GetState(w.ctx)
		if err != nil {
			o.fail(o.cause("height-state-disagree"), fmt.Sprintf("height %d but no state", h))
		} else if s.LastBlockHeight != h || timeToMs(s.LastBlockTime) != prevT || s.ChainID != w.Gen.ChainID || s.InitialHeight != ini {
			o.fail(o.cause("height-state-disagree"), fmt.Sprintf("height %d, last block time %d, recorded state %+v", h, prevT, s))
		}
	}
}

// never left unable to start or to produce: (re)start if needed and feed well-formed responses
func (o *Oracle) probe(next int) {
	w := o.w
	idx := next
	haltSig, haltWhat := o.haltSig, o.haltWhat // the node is down because its production loop ended on its own
	if haltSig != "" {
		defer func() {
			h, _ := w.Store().Height(w.ctx)
			o.fail(haltSig, haltWhat+fmt.Sprintf("; the well-formed responses that follow the history find no process; only a restart of the node resumes production (after the restart the store height reached %d)", h))
		}()
	}
	if w.node == nil {
		obs := w.Run(idx, Item{T: "boot"})
		idx++
		if obs.Res != "boot-ok" {
			if !(o.tampered && obs.Res == "boot-fail-cache") {
				o.fail(o.cause("cannot-start"), "a restart with a working execution layer fails: "+obs.ErrTxt)
			}
			return
		}
	}
	h0, _ := w.Store().Height(w.ctx)
	for i := 0; i < 3; i++ {
		h, _ := w.Store().Height(w.ctx)
		ts := w.Cfg.GOff
		if hd, err := w.Store().GetHeader(w.ctx, h); err == nil {
			ts = nanoToMs(hd.BaseHeader.Time)
		}
		obs := w.Run(idx, Item{T: "step", Seq: "batch", Txs: []int{2 + i}, Ts: ts + 1000})
		idx++
		if obs.Res == "committed" {
			break
		}
	}
	h1, _ := w.Store().Height(w.ctx)
	if h1 <= h0 {
		o.fail(o.cause("wedged"), fmt.Sprintf("three well-formed responses in a row did not produce a block (height stays %d)", h0))
	}
	o.final()
}
