package producer

import (
	"fmt"
	mrand "math/rand"
	"os"
	"path/filepath"
	"testing"

	logging "github.com/ipfs/go-log/v2"

	"verif/harness/vgen"
)

// CaseRng is the per-case PRNG: every random choice of a case derives from (seed, case index).
func CaseRng(seed int64, c int) *mrand.Rand { return mrand.New(mrand.NewSource(seed*1000003 + int64(c))) }

// Gen produces the configuration and history of generated case number c.
type Gen func(r *mrand.Rand, tier string, c int, seed int64) (Cfg, []Item)

// Opts: Unified = the cases are written as [ucase] terms for Check/ProducerLoopCheck.v ([UPlain] = a case of
// Check/ProducerCheck.v, [ULoop] = a Cfg.Loop case with the per-item "production loop is running" flags).
type Opts struct {
	Unified bool
}

// Main is the common TestVerif body of the C01 and C04 harnesses.
func Main(t *testing.T, prop string, gen Gen, rule string, nontrivial func(Cfg, []Item, []Obs) bool) {
	MainOpts(t, prop, gen, rule, nontrivial, Opts{})
}

func MainOpts(t *testing.T, prop string, gen Gen, rule string, nontrivial func(Cfg, []Item, []Obs) bool, opts Opts) {
	BubbleT = t
	logging.SetAllLoggers(logging.LevelFatal)
	_ = logging.Logger("verif-producer")
	logging.SetAllLoggers(logging.LevelFatal)
	e := vgen.GetEnv()
	res := vgen.NewResult(prop, e)
	type job struct {
		rp  Replay
		gen bool
	}
	var jobs []job
	if e.Replay != "" {
		var rp Replay
		if err := vgen.LoadReplay(e.Replay, &rp); err != nil {
			t.Fatal(err)
		}
		jobs = append(jobs, job{rp: rp})
	} else {
		if os.Getenv("VERIF_NO_CORPUS") == "" {
			files, _ := filepath.Glob("../corpus/" + prop + "/*.json")
			for _, f := range files {
				var rp Replay
				if vgen.LoadReplay(f, &rp) == nil && len(rp.History) > 0 {
					jobs = append(jobs, job{rp: rp})
				}
			}
		}
		for c := 0; c < e.N; c++ {
			jobs = append(jobs, job{rp: Replay{Seed: e.Seed, Case: c}, gen: true})
		}
	}
	var cases []string
	distinct := map[string]bool{}
	shrunk := map[string]bool{}
	sweepPts := 0
	for ji, j := range jobs {
		r := CaseRng(j.rp.Seed, j.rp.Case)
		rp := j.rp
		if j.gen {
			rp.Cfg, rp.History = gen(r, e.Tier, j.rp.Case, j.rp.Seed)
		}
		w, obs, lo, blocks, err := RunCase(CaseRng(rp.Seed, rp.Case+7777), rp.Cfg, rp.History, true)
		if err != nil {
			t.Fatalf("harness error: %v", err)
		}
		res.Evaluations++
		res.Count(fmt.Sprintf("cfg:initial=%d", rp.Cfg.Initial))
		if rp.Cfg.Lazy {
			res.Count("cfg:lazy-mode")
		}
		if rp.Cfg.Loop {
			res.Count("cfg:steps-made-by-the-node's-own-AggregationLoop")
			if rp.Cfg.Lazy {
				res.Count("cfg:steps-made-by-the-node's-own-AggregationLoop(lazy)")
			}
			res.Distribution["loop:rounds"] += w.Or.Rounds
			res.Distribution["loop:rounds-answered-by-a-sequencer-fault-or-no-batch"] += w.Or.FaultRounds
			for _, h := range w.Or.Halts {
				res.Count("loop:halted-after-a-round-ending-in-" + h)
			}
		}
		maxH := uint64(0)
		for i, it := range rp.History {
			k := "item:" + it.T
			if it.Crash {
				k += "-crash"
				res.Count(fmt.Sprintf("crash:%s-k=%d", it.T, it.K))
			}
			if it.T == "step" {
				sk := it.Seq
				if sk == "batch" && len(it.Txs) == 0 {
					sk = "batch-empty"
				}
				res.Count("seq:" + sk)
				if it.Seq == "batch" && it.ZeroTs {
					res.Count("seq-time:zero-time.Time(timestamp-unset)")
				} else if it.Seq == "batch" && it.Ts < EpochMs {
					res.Count("seq-time:before-1970")
				}
				if sk == "err" {
					res.Count(fmt.Sprintf("seq-err:%q", seqErr(it.ErrKind, i).Error()))
				}
				if it.ExecErr {
					res.Count("exec:error")
				} else if obs[i].Call != nil {
					res.Count(fmt.Sprintf("exec:returns-max-bytes=%d", MaxBytesOf(it)))
					if it.EmptyRoot {
						res.Count("exec:returns-root-of-length-0")
					}
				}
				if it.Peek && obs[i].Call != nil {
					res.Count("reader:during-execution")
				}
				if obs[i].Res == "committed" && obs[i].Req == nil && i > 0 && rp.History[i-1].T == "step" {
					res.Count("step:retry-of-stored-pending-block")
				}
			}
			if it.T == "stop" && it.Crash {
				o := obs[i]
				switch {
				case o.CutTorn > 0:
					res.Count("stop:dies-inside-the-write-of-a-cache-file")
				case o.CutTorn == 0 || (o.CutK > 0 && o.FOps[o.CutK-1].Op == "create"):
					res.Count("stop:dies-after-creating-a-cache-file-before-writing-it")
				case o.CutK > 0 && o.FOps[o.CutK-1].Op == "write":
					res.Count("stop:dies-between-write-and-rename")
				default:
					res.Count("stop:dies-between-two-cache-files")
				}
				first := true
				for _, p := range rp.History[:i] {
					if p.T == "stop" {
						first = false
					}
				}
				if first {
					res.Count("stop:cut-during-the-first-save-into-an-empty-directory")
				} else {
					res.Count("stop:cut-during-a-later-save")
				}
			}
			res.Count(k)
			res.Count("result:" + obs[i].Res)
			if obs[i].Height > maxH {
				maxH = obs[i].Height
			}
		}
		if maxH >= rp.Cfg.Initial {
			res.Count(fmt.Sprintf("chain-length:%s", bucket(maxH-rp.Cfg.Initial+1)))
		} else {
			res.Count("chain-length:0")
		}
		if w.Or.OverLimit > 0 {
			res.Count("history:batch-larger-than-the-max-bytes-last-reported-by-the-execution-layer")
		}
		if w.Or.OnEmpty > 0 {
			res.Count("history:block-committed-on-a-state-root-of-length-0")
		}
		if w.Or.earlyEmpty {
			res.Count("history:empty-batch-with-earlier-timestamp")
		}
		if w.Or.preEpoch {
			res.Count("history:batch-stamped-before-the-unix-epoch-or-with-the-zero-time")
		}
		if w.Or.tornCommit {
			res.Count("history:crash-inside-commit-group")
		}
		if w.Or.cutStop {
			res.Count("history:shutdown-cut-inside-save-cache")
		}
		if w.Or.tornWrite {
			res.Count("history:shutdown-cut-inside-the-write-of-a-cache-file")
		}
		sweepPts += w.Or.SweepPts
		if w.Or.tampered {
			res.Count("history:cache-file-damaged-by-hand")
		}
		term := CaseCoq(rp.Cfg, rp.History, obs, lo, blocks)
		if opts.Unified {
			term = UnifiedCoq(rp.Cfg, term, obs)
		}
		if nontrivial(rp.Cfg, rp.History, obs) {
			distinct[fmt.Sprint(rp.Cfg, rp.History)] = true
		}
		for vi, sig := range w.Or.Sigs {
			hist := rp.History
			what := w.Or.What[vi]
			if !shrunk[sig] || e.Replay != "" {
				shrunk[sig] = true
				run := func(h []Item) (string, bool) {
					w2, _, _, _, err := RunCase(CaseRng(rp.Seed, rp.Case+7777), rp.Cfg, h, true)
					if err != nil {
						return "", false
					}
					defer w2.Close()
					for i, s := range w2.Or.Sigs {
						if s == sig {
							return w2.Or.What[i], true
						}
					}
					return "", false
				}
				hist = vgen.Shrink(rp.History, func(h []Item) bool { _, ok := run(h); return ok })
				if wh, ok := run(hist); ok {
					what = wh
				}
			}
			res.Violations = append(res.Violations, vgen.Violation{Signature: sig, What: what, Case: ji,
				Replay: Replay{Seed: rp.Seed, Case: rp.Case, Cfg: rp.Cfg, History: hist}})
		}
		w.Close()
		cases = append(cases, term)
		res.Replays[fmt.Sprint(ji)] = rp
		if len(res.Samples) < 3 && nontrivial(rp.Cfg, rp.History, obs) && len(rp.History) >= 6 {
			var os []string
			for _, o := range obs {
				os = append(os, fmt.Sprintf("%s n=%d writes=%v height=%d", o.Res, o.N, o.Writes, o.Height))
			}
			res.Samples = append(res.Samples, map[string]interface{}{"cfg": rp.Cfg, "history": rp.History, "observed": os})
		}
	}
	if sweepPts > 0 {
		res.Distribution["save-cache:crash-points-evaluated-against-LoadFromDisk(after-each-file-op+byte-prefixes-of-each-write)"] = sweepPts
	}
	res.Distinct = len(distinct)
	res.Rule = rule
	res.Cases = len(cases)
	header := "From Coq Require Import String NArith ZArith List Bool.\nFrom Verif Require Import Base.KV Model.Types Model.Producer Check.ProducerCheck."
	path := filepath.Join(e.Out, "cases_"+prop+".v")
	caseType, mismatchFn := "pcase", "mismatches"
	if opts.Unified {
		header += "\nFrom Verif Require Import Model.ProducerLoop Check.ProducerLoopCheck."
		caseType, mismatchFn = "ucase", "umismatches"
	}
	if err := vgen.WriteCases(path, header, nil, caseType, cases, mismatchFn); err != nil {
		t.Fatal(err)
	}
	res.CaseFiles = []string{path}
	if err := res.Write(e.Out); err != nil {
		t.Fatal(err)
	}
}

func bucket(n uint64) string {
	switch {
	case n <= 1:
		return "1"
	case n <= 3:
		return "2-3"
	case n <= 10:
		return "4-10"
	case n <= 30:
		return "11-30"
	}
	return "31+"
}
