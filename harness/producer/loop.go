//go:build go1.25

package producer

import (
	"context"
	"errors"
	"fmt"
	mrand "math/rand"
	"testing"
	"testing/synctest"
	"time"
)

// Cfg.Loop: the node's own production loop.  After a successful boot the REAL Manager.AggregationLoop (block/aggregation.go:
// start-up delay, then normalAggregationLoop or lazyAggregationLoop with produceBlock, unmodified) runs in a goroutine, as
// node/full.go starts it for an aggregator, with the node's one-slot error channel.  The function the loops call to produce a
// block (Manager.publishBlock) is the real publishBlockInternal behind a gate: a round waits until the harness hands it the
// next step item of the history (the responses of the sequencing and execution layer for this round are then in the doubles),
// runs publishBlockInternal with the LOOP's context and gives the loop its result.  Everything runs under virtual time
// (testing/synctest): the harness blocks until the loop's timers let it start the next round.
//
// A round that returns an error while the node's context is live makes the loop return and report the error: the node halts
// (FullNode.Run cancels every activity).  The items up to the next boot then find no process.

type loopCtl struct {
	ctx    context.Context
	cancel context.CancelFunc
	errCh  chan error    // the node's error channel (node/full.go:373: one slot)
	done   chan struct{} // closed when AggregationLoop returned
	gate   chan struct{} // harness -> round: the doubles hold the responses of this round
	res    chan error    // round -> harness: what publishBlockInternal returned
	rounds int
	halt   error // what the loop reported when it ended on its own
	ended  bool
}

// far beyond the start-up delay of the loop (the genesis time of the cases lies some 24 years after the start of the
// virtual clock) and beyond every interval of the two timers
const loopHorizon = 60 * 365 * 24 * time.Hour

// BubbleT is the test the synctest bubbles of Cfg.Loop cases run under (set by Main).
var BubbleT *testing.T

func runCaseInBubble(r *mrand.Rand, cfg Cfg, hist []Item, probe bool) (w *World, obs []Obs, lo uint64, blocks []PBlock, err error) {
	if BubbleT == nil {
		return nil, nil, 0, nil, errors.New("a Cfg.Loop case needs producer.BubbleT")
	}
	synctest.Test(BubbleT, func(*testing.T) {
		w, obs, lo, blocks, err = runCase(r, cfg, hist, probe)
	})
	return
}

func (w *World) startLoop(nd *node) {
	ctx, cancel := context.WithCancel(context.Background())
	lc := &loopCtl{ctx: ctx, cancel: cancel, errCh: make(chan error, 1), done: make(chan struct{}), gate: make(chan struct{}), res: make(chan error, 1)}
	nd.m.VerifSetPublishBlock(func(c context.Context) error {
		select {
		case <-lc.gate:
		case <-c.Done():
			return c.Err() // as publishBlockInternal does on a cancelled context (manager.go:607-611)
		}
		lc.rounds++
		err := nd.m.VerifPublishBlock(c)
		lc.res <- err
		return err
	})
	go func() {
		defer close(lc.done)
		nd.m.AggregationLoop(ctx, lc.errCh)
	}()
	nd.loop = lc
}

// loopRound lets the node's production loop make its next round with the responses already placed in the doubles and
// returns what publishBlockInternal returned in it; ran = false: the loop started no round (it has ended, or it is
// running and never calls the production function again).
func (w *World) loopRound(nd *node, it Item) (err error, ran bool) {
	lc := nd.loop
	if it.Notify {
		nd.m.NotifyNewTransactions() // the reaper announces new transactions (block/reaper.go:118-122)
	}
	tm := time.NewTimer(loopHorizon)
	defer tm.Stop()
	select {
	case lc.gate <- struct{}{}:
	case <-lc.done:
		return nil, false
	case <-tm.C:
		return nil, false
	}
	err = <-lc.res
	synctest.Wait() // the loop has dealt with the result: it waits for its timers again, or it has returned
	return err, true
}

// state: is the loop still running; if it ended on its own, what it reported on the error channel (nil: nothing)
func (lc *loopCtl) state() (alive bool, halt error) {
	if lc.ended {
		return false, lc.halt
	}
	select {
	case <-lc.done:
		lc.ended = true
		select {
		case lc.halt = <-lc.errCh:
		default:
		}
		return false, lc.halt
	default:
		return true, nil
	}
}

// stopLoop asks the running node to stop (the context handed to AggregationLoop is cancelled) and waits for the loop.
func (w *World) stopLoop() {
	if w.node == nil || w.node.loop == nil {
		return
	}
	lc := w.node.loop
	w.node.loop = nil
	lc.cancel()
	tm := time.NewTimer(loopHorizon)
	defer tm.Stop()
	select {
	case <-lc.done:
	case <-tm.C:
		w.Or.fail("production-loop-does-not-stop", "the node's production loop did not return after the stop request")
	}
}

// dropNode: the process is gone (stopped before a restart, halted, crashed)
func (w *World) dropNode() {
	w.stopLoop()
	w.node = nil
}

// afterRound is the Go oracle for what the node's own production loop does with the result of a round (C01, last sentence:
// no sequence of responses leaves the node unable to produce blocks once the responses are well-formed again).
//
// (1) A round in which the sequencing layer was asked and had nothing to build a block from — a transient error of ANY
// class (a request-level deadline or cancellation of the sequencer's client is not the node's own context ending), no
// response, no batch — must leave the node RUNNING: the loop neither returns nor reports an error, so the next well-formed
// round produces a block (the probe at the end of every case checks that it does).
// (2) The pinned loops END — and with them block production in this process — with an error on the node's error channel
// after a round that failed in the execution layer (the block stays stored as the pending block) and after a refused
// non-empty batch older than the last block.  That contradicts the sentence above as well (KNOWN findings of C01,
// signatures production-loop-halted-on-execution-error / -on-regressed-nonempty-batch): it is reported when the loop has
// really ended (AggregationLoop returned and reported) AND a later well-formed response — a step item of the history, or
// the probe at the end — finds no process although it would have produced a block (missedRound, probe).  Only a restart
// resumes production; a halt that is directly followed by a restart loses no well-formed response and is not reported.
// (3) A loop that ends on its own WITHOUT reporting an error leaves a node that looks alive and produces nothing.
func (o *Oracle) afterRound(idx int, it Item, obs Obs, roundErr error) {
	o.Rounds++
	asked := obs.Req != nil
	fault := asked && (it.Seq == "err" || it.Seq == "nil")
	if fault {
		o.FaultRounds++
		if !obs.Alive {
			o.fail("production-loop-halted-on-sequencer-fault", fmt.Sprintf("item %d: the sequencing layer answered the round with %s (nothing to build a block from) while the node's context was live; the round returned %v and the node's production loop ended (reported: %q): no block is produced any more although every later response is well-formed",
				idx, seqWhat(it, idx), roundErr, obs.Halt))
		}
	}
	if !obs.Alive {
		o.Halts = append(o.Halts, obs.Res)
		if obs.Halt == "" {
			o.fail("production-loop-ended-silently", fmt.Sprintf("item %d: the node's production loop returned after a round that ended with %v without being asked to stop and without reporting an error: the node stays up and produces nothing", idx, roundErr))
			return
		}
		if fault {
			return
		}
		switch obs.Res {
		case "e-exec":
			o.haltSig = "production-loop-halted-on-execution-error"
			o.haltWhat = fmt.Sprintf("item %d: ExecuteTxs failed once for height %d; publishBlockInternal returned %q and the node's production loop (AggregationLoop) ended, reporting %q: block production has stopped in this process (the block stays stored as the pending block)", idx, obs.Height+1, roundErr, obs.Halt)
		case "e-time":
			o.haltSig = "production-loop-halted-on-regressed-nonempty-batch"
			o.haltWhat = fmt.Sprintf("item %d: the sequencing layer handed out a non-empty batch stamped %d ms, before the last block; publishBlockInternal returned %q (the batch is dropped) and the node's production loop (AggregationLoop) ended, reporting %q: block production has stopped in this process", idx, it.Ts, roundErr, obs.Halt)
		}
	}
}

// missedRound: a step item of a Cfg.Loop history finds no process.  If the node is down because its production loop ended
// on its own (haltSig) and the responses of this item are well-formed — a batch not older than the last block, a working
// execution layer: they commit a block whenever a process runs (C01_no_wedge_full) — the halt has cost a block.
func (o *Oracle) missedRound(idx int, it Item) {
	if o.haltSig == "" || it.Seq != "batch" || it.ExecErr {
		return
	}
	st := o.w.Store()
	h, _ := st.Height(o.w.ctx)
	if h >= o.w.Cfg.Initial {
		if hd, err := st.GetHeader(o.w.ctx, h); err != nil || it.Ts < nanoToMs(hd.BaseHeader.Time) {
			return
		}
	}
	o.fail(o.haltSig, o.haltWhat+fmt.Sprintf("; item %d offers well-formed responses (a batch stamped %d ms, a working execution layer) and finds no process: no block is produced although the responses are well-formed again; only a restart of the node resumes production", idx, it.Ts))
}

func seqWhat(it Item, idx int) string {
	if it.Seq == "err" {
		return fmt.Sprintf("the error %q", seqErr(it.ErrKind, idx))
	}
	return "no batch"
}
