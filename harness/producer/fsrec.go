package producer

// File-level crash model of the cache directory (C04): what crashds is for the datastore.
//
// The REAL Manager.SaveCache runs to completion while the kernel (inotify) records every operation it performs
// on the files of the two cache folders: create / open for writing, close after writing, rename, remove.  From
// that log and the directory content before and after the call, the content of the directory at every crash point
// is materialised: after any number k of the recorded operations, or INSIDE a recorded write with any strict prefix
// of the bytes that write produced, under the very name the code was writing to (temporary or final - whatever the
// code did).  Nothing here knows how saveMapGob is supposed to work.

import (
	"bytes"
	"fmt"
	"os"
	"path/filepath"
	"sort"
	"strings"
	"syscall"
	"unsafe"

	"github.com/evstack/ev-node/pkg/cache"
	"github.com/evstack/ev-node/types"
)

// FOp is one recorded operation on a file of the cache directory. Names are relative: "header/hashes.gob.tmp".
type FOp struct {
	Op      string // create (os.Create: exists, empty) | write (content complete, closed) | rename | remove
	Name    string
	To      string // rename target
	Content []byte // write: the bytes this write session produced
	known   bool   // write: Content could be determined
}

func (o FOp) String() string {
	switch o.Op {
	case "rename":
		return "rename:" + o.Name + ":" + o.To
	case "write":
		return fmt.Sprintf("write:%s(%dB)", o.Name, len(o.Content))
	}
	return o.Op + ":" + o.Name
}

type fsRec struct {
	fd   int
	wds  map[int32]string // watch descriptor -> folder name ("header" / "data")
	open bool
}

const fsMask = syscall.IN_CREATE | syscall.IN_OPEN | syscall.IN_CLOSE_WRITE | syscall.IN_CLOSE_NOWRITE |
	syscall.IN_MOVED_FROM | syscall.IN_MOVED_TO | syscall.IN_DELETE

// cacheDirs returns the two cache folders (header first: the order SaveCache handles them).
func (w *World) cacheDirs() map[string]string {
	return map[string]string{
		"header": filepath.Join(w.RootDir, "data", "cache", "header"),
		"data":   filepath.Join(w.RootDir, "data", "cache", "data"),
	}
}

func startFsRec(dirs map[string]string) (*fsRec, error) {
	fd, err := syscall.InotifyInit1(syscall.IN_NONBLOCK | syscall.IN_CLOEXEC)
	if err != nil {
		return nil, fmt.Errorf("inotify_init: %w", err)
	}
	r := &fsRec{fd: fd, wds: map[int32]string{}, open: true}
	for name, d := range dirs {
		if err := os.MkdirAll(d, 0o755); err != nil { // SaveToDisk does the same (cache.go: MkdirAll)
			r.close()
			return nil, err
		}
		wd, err := syscall.InotifyAddWatch(fd, d, fsMask)
		if err != nil {
			r.close()
			return nil, fmt.Errorf("inotify_add_watch %s: %w", d, err)
		}
		r.wds[int32(wd)] = name
	}
	return r, nil
}

func (r *fsRec) close() {
	if r.open {
		_ = syscall.Close(r.fd)
		r.open = false
	}
}

type rawEv struct {
	mask   uint32
	cookie uint32
	name   string
}

// stop drains the queue (fsnotify queues events synchronously inside the system calls: everything the finished
// call did is already there) and turns it into the operation log.
func (r *fsRec) stop() ([]FOp, error) {
	defer r.close()
	var evs []rawEv
	buf := make([]byte, 1<<16)
	for {
		n, err := syscall.Read(r.fd, buf)
		if n <= 0 {
			if err == syscall.EINTR {
				continue
			}
			break
		}
		for off := 0; off+syscall.SizeofInotifyEvent <= n; {
			ev := (*syscall.InotifyEvent)(unsafe.Pointer(&buf[off]))
			nm := ""
			if ev.Len > 0 {
				b := buf[off+syscall.SizeofInotifyEvent : off+syscall.SizeofInotifyEvent+int(ev.Len)]
				if i := bytes.IndexByte(b, 0); i >= 0 {
					b = b[:i]
				}
				nm = string(b)
			}
			if ev.Mask&syscall.IN_Q_OVERFLOW != 0 {
				return nil, fmt.Errorf("inotify queue overflow")
			}
			if ev.Mask&syscall.IN_ISDIR == 0 && nm != "" {
				evs = append(evs, rawEv{mask: ev.Mask, cookie: ev.Cookie, name: r.wds[ev.Wd] + "/" + nm})
			}
			off += syscall.SizeofInotifyEvent + int(ev.Len)
		}
	}
	var ops []FOp
	pending := map[string]int{} // name -> index of the provisional create of an open write session
	dropped := map[int]bool{}
	for i := 0; i < len(evs); i++ {
		e := evs[i]
		switch {
		case e.mask&(syscall.IN_CREATE|syscall.IN_OPEN) != 0:
			if _, ok := pending[e.name]; !ok {
				pending[e.name] = len(ops)
				ops = append(ops, FOp{Op: "create", Name: e.name})
			}
		case e.mask&syscall.IN_CLOSE_WRITE != 0:
			if _, ok := pending[e.name]; !ok {
				ops = append(ops, FOp{Op: "create", Name: e.name})
			}
			delete(pending, e.name)
			ops = append(ops, FOp{Op: "write", Name: e.name})
		case e.mask&syscall.IN_CLOSE_NOWRITE != 0:
			if ix, ok := pending[e.name]; ok { // it was only read
				dropped[ix] = true
				delete(pending, e.name)
			}
		case e.mask&syscall.IN_MOVED_FROM != 0:
			if i+1 < len(evs) && evs[i+1].mask&syscall.IN_MOVED_TO != 0 && evs[i+1].cookie == e.cookie {
				ops = append(ops, FOp{Op: "rename", Name: e.name, To: evs[i+1].name})
				i++
			} else {
				ops = append(ops, FOp{Op: "remove", Name: e.name})
			}
		case e.mask&syscall.IN_MOVED_TO != 0: // a file moved in from elsewhere
			ops = append(ops, FOp{Op: "create", Name: e.name}, FOp{Op: "write", Name: e.name})
		case e.mask&syscall.IN_DELETE != 0:
			ops = append(ops, FOp{Op: "remove", Name: e.name})
		}
	}
	var out []FOp
	for i, o := range ops {
		if !dropped[i] {
			out = append(out, o)
		}
	}
	return out, nil
}

// DirImage is the content of the two cache folders: relative name -> bytes.
type DirImage map[string][]byte

func (w *World) readCacheDir() DirImage {
	img := DirImage{}
	for name, d := range w.cacheDirs() {
		ents, err := os.ReadDir(d)
		if err != nil {
			continue
		}
		for _, e := range ents {
			if e.IsDir() {
				continue
			}
			b, err := os.ReadFile(filepath.Join(d, e.Name()))
			if err != nil {
				continue
			}
			if b == nil {
				b = []byte{}
			}
			img[name+"/"+e.Name()] = b
		}
	}
	return img
}

func (img DirImage) clone() DirImage {
	out := DirImage{}
	for k, v := range img {
		out[k] = v
	}
	return out
}

func (img DirImage) equal(o DirImage) bool {
	if len(img) != len(o) {
		return false
	}
	for k, v := range img {
		if v2, ok := o[k]; !ok || !bytes.Equal(v, v2) {
			return false
		}
	}
	return true
}

func (img DirImage) apply(o FOp) {
	switch o.Op {
	case "create":
		img[o.Name] = []byte{}
	case "write":
		img[o.Name] = o.Content
	case "rename":
		if c, ok := img[o.Name]; ok {
			img[o.To] = c
			delete(img, o.Name)
		}
	case "remove":
		delete(img, o.Name)
	}
}

// fillContents gives every write its bytes: the bytes of the file the session's name ends up as (following the
// later renames) in the final directory image.
func fillContents(ops []FOp, after DirImage) {
	for i := range ops {
		if ops[i].Op != "write" {
			continue
		}
		name, alive := ops[i].Name, true
		for _, o := range ops[i+1:] {
			switch {
			case o.Op == "rename" && o.Name == name:
				name = o.To
			case (o.Op == "rename" && o.To == name) || (o.Op == "create" && o.Name == name) || (o.Op == "remove" && o.Name == name):
				alive = false
			}
			if !alive {
				break
			}
		}
		if c, ok := after[name]; ok && alive {
			ops[i].Content, ops[i].known = c, true
		}
	}
}

// at returns the directory a process leaves behind that dies after k operations of the log and, if tornBytes >= 0
// and operation k is a write, inside that write with tornBytes bytes of it on disk.
func cutImage(before DirImage, ops []FOp, k int, tornBytes int) DirImage {
	img := before.clone()
	if k > len(ops) {
		k = len(ops)
	}
	for _, o := range ops[:k] {
		img.apply(o)
	}
	if tornBytes >= 0 && k < len(ops) && ops[k].Op == "write" && tornBytes < len(ops[k].Content) {
		img[ops[k].Name] = ops[k].Content[:tornBytes]
	}
	return img
}

// materialise makes the two folders under root hold exactly img.
func materialise(dirs map[string]string, img DirImage) error {
	for name, d := range dirs {
		if err := os.MkdirAll(d, 0o755); err != nil {
			return err
		}
		ents, _ := os.ReadDir(d)
		for _, e := range ents {
			if _, keep := img[name+"/"+e.Name()]; !keep && !e.IsDir() {
				if err := os.Remove(filepath.Join(d, e.Name())); err != nil {
					return err
				}
			}
		}
	}
	for rel, c := range img {
		i := strings.IndexByte(rel, '/')
		p := filepath.Join(dirs[rel[:i]], rel[i+1:])
		if old, err := os.ReadFile(p); err == nil && bytes.Equal(old, c) {
			continue
		}
		if err := os.WriteFile(p, c, 0o644); err != nil {
			return err
		}
	}
	return nil
}

// loadCaches does what Manager.LoadCache does (manager.go:1069): a fresh header cache and a fresh data cache
// load the two folders with the REAL pkg/cache LoadFromDisk.
func loadCaches(dirs map[string]string) error {
	if err := loadFolder("header", dirs["header"]); err != nil {
		return err
	}
	return loadFolder("data", dirs["data"])
}

func loadFolder(folder, dir string) error {
	if folder == "header" {
		if err := cache.NewCache[types.SignedHeader]().LoadFromDisk(dir); err != nil {
			return fmt.Errorf("header cache: %w", err)
		}
		return nil
	}
	if err := cache.NewCache[types.Data]().LoadFromDisk(dir); err != nil {
		return fmt.Errorf("data cache: %w", err)
	}
	return nil
}

// a write of at most this many bytes is cut at every byte
const sweepExhaustive = 160

// the number of saves of one shape that are swept in full
const sweepFull = 2

var sweepSeen = map[string]int{}

func sweepKnownShape(before DirImage, ops []FOp) bool {
	finals, tmps := 0, 0
	for name := range before {
		if _, tmp, ok := cacheFileIndex(name); ok && !tmp {
			finals++
		} else {
			tmps++
		}
	}
	key := fmt.Sprintf("finals=%d other=%v", finals, tmps > 0)
	if finals > 0 && finals < 8 {
		key = fmt.Sprintf("finals=some other=%v", tmps > 0)
	}
	for _, o := range ops {
		key += " " + o.Op + ":" + o.Name + ":" + o.To
	}
	sweepSeen[key]++
	return sweepSeen[key] > sweepFull
}

// sweepBytes lists the numbers of bytes a write of n bytes is cut after: every strict prefix up to sweepExhaustive
// bytes, beyond that the first 48, the last 24 and a spread of 24 between; lite: four of those.
func sweepBytes(n int, lite bool) []int {
	var out []int
	for b := 0; b < n; b++ {
		if n > sweepExhaustive && b >= 48 && b < n-24 && (b-48)%((n-72)/24+1) != 0 {
			continue
		}
		out = append(out, b)
	}
	if lite && len(out) > 4 {
		return []int{out[0], out[1], out[len(out)/2], out[len(out)-1]}
	}
	return out
}

// sweepCrashPoints evaluates, for EVERY crash point of one real SaveCache - after each recorded operation and
// inside each recorded write after each number of bytes - whether the directory left behind can be loaded by the
// real LoadFromDisk (in a scratch copy; the world's directory is not touched).  Returns the first failure.
// Cost: the first sweepFull saves of every SHAPE met by this process (how many final / temporary names exist before,
// and the exact sequence of operations with their names) are cut at every byte; later saves of a known shape at
// every operation and, inside each write, after 0 / 1 / the middle / all but one of the bytes evaluated before
// (a subset of the full sweep: a replay of a single case always sweeps everything).
func (w *World) sweepCrashPoints(before DirImage, ops []FOp) (points int, what string, torn bool) {
	scratch, err := os.MkdirTemp(w.RootDir, "sweep")
	if err != nil {
		return 0, "", false
	}
	defer os.RemoveAll(scratch)
	dirs := map[string]string{"header": filepath.Join(scratch, "header"), "data": filepath.Join(scratch, "data")}
	first := func(name string) string {
		if _, ok := before[name]; ok {
			return "a file of that name existed before this save"
		}
		return "no file of that name existed before this save: a first save"
	}
	lite := sweepKnownShape(before, ops)
	for k := 0; k <= len(ops); k++ {
		img := cutImage(before, ops, k, -1)
		if err := materialise(dirs, img); err != nil {
			return points, "", false
		}
		points++
		if err := loadCaches(dirs); err != nil && what == "" {
			inWrite := k > 0 && ops[k-1].Op == "create"
			desc := "start of the save"
			if k > 0 {
				desc = "operation " + ops[k-1].String()
			}
			what = fmt.Sprintf("a process that dies after %d of the %d file operations of SaveCache (after %s) leaves cache files that LoadFromDisk rejects: %v", k, len(ops), desc, err)
			if inWrite {
				what += " (" + first(ops[k-1].Name) + ")"
			}
			torn = inWrite
		}
		if k < len(ops) && ops[k].Op == "write" && ops[k].known {
			// inside this write: every strict prefix of its bytes (beyond sweepExhaustive bytes: the first and the last
			// ones and a spread of those between); only the content of this one file differs from the directory just
			// loaded, so only its folder is loaded again
			i := strings.IndexByte(ops[k].Name, '/')
			folder := ops[k].Name[:i]
			p := filepath.Join(dirs[folder], ops[k].Name[i+1:])
			n := len(ops[k].Content)
			for _, b := range sweepBytes(n, lite) {
				if err := os.WriteFile(p, ops[k].Content[:b], 0o644); err != nil {
					return points, what, torn
				}
				points++
				if err := loadFolder(folder, dirs[folder]); err != nil && what == "" {
					what = fmt.Sprintf("a process that dies inside %s with %d of its %d bytes written (after %d of the %d file operations of SaveCache) leaves cache files that LoadFromDisk rejects: %v (%s)",
						ops[k].String(), b, n, k, len(ops), err, first(ops[k].Name))
					torn = true
				}
			}
		}
	}
	return points, what, torn
}

// cacheFileIndex maps a relative name to (index 0..7 in the order SaveCache writes the files, temporary?).
func cacheFileIndex(rel string) (ix int, tmp bool, ok bool) {
	if strings.HasSuffix(rel, ".tmp") {
		tmp = true
		rel = strings.TrimSuffix(rel, ".tmp")
	}
	i := 0
	for _, sub := range []string{"header", "data"} {
		for _, f := range []string{"items_by_height.gob", "items_by_hash.gob", "hashes.gob", "da_included.gob"} {
			if rel == sub+"/"+f {
				return i, tmp, true
			}
			i++
		}
	}
	return 0, false, false
}

func fnameCoq(rel string) (string, bool) {
	ix, tmp, ok := cacheFileIndex(rel)
	if !ok {
		return "", false
	}
	if tmp {
		return fmt.Sprintf("(FTmp %d)", ix), true
	}
	return fmt.Sprintf("(FFinal %d)", ix), true
}

// Coq prints the operation for Check/ProducerCheck.v (fshape).
func (o FOp) Coq() string {
	n, ok := fnameCoq(o.Name)
	if !ok {
		return "XOther"
	}
	switch o.Op {
	case "create":
		return "XOp (FCreate " + n + ")"
	case "write":
		return "XOp (FWrite " + n + ")"
	case "rename":
		if t, ok := fnameCoq(o.To); ok {
			return "XOp (FRename " + n + " " + t + ")"
		}
	}
	return "XOther"
}

func sortedNames(img DirImage) []string {
	var out []string
	for k, v := range img {
		out = append(out, fmt.Sprintf("%s(%dB)", k, len(v)))
	}
	sort.Strings(out)
	return out
}
