// Package producer drives the REAL block.Manager of /repo in aggregator mode (NewManager with a
// signer, on a recording crash datastore) one publishBlockInternal step at a time, with a scripted
// sequencer double, an executor double returning harness-chosen unique roots or errors, recording
// broadcasters and no DA.  It is shared by the C01 and C04 harnesses (model: coq/Model/Producer.v).
//
// A history is a list of items (boot / step / crash inside a boot or step / shutdown with or without
// a torn cache file).  The driver returns what the code did as projected observables, evaluates the
// Go oracle (the properties C01 and C04 stated directly on the implementation's store, independent
// of the Coq model) and prints the case as a Coq term for Check/ProducerCheck.v.
package producer

import (
	"bytes"
	"context"
	"crypto/rand"
	"encoding/binary"
	"errors"
	"fmt"
	"io"
	mrand "math/rand"
	"os"
	"path/filepath"
	"strings"
	"sync"
	"time"

	logging "github.com/ipfs/go-log/v2"
	"github.com/libp2p/go-libp2p/core/crypto"

	"github.com/evstack/ev-node/block"
	coreexecutor "github.com/evstack/ev-node/core/execution"
	coresequencer "github.com/evstack/ev-node/core/sequencer"
	"github.com/evstack/ev-node/pkg/config"
	"github.com/evstack/ev-node/pkg/genesis"
	"github.com/evstack/ev-node/pkg/signer"
	noopsigner "github.com/evstack/ev-node/pkg/signer/noop"
	"github.com/evstack/ev-node/pkg/store"
	"github.com/evstack/ev-node/types"

	"verif/harness/doubles/crashds"
	"verif/harness/vgen"
)

// ---- histories ---------------------------------------------------------------------------------

// Cfg is the per-case configuration.
type Cfg struct {
	Initial uint64 `json:"initial"`        // genesis.InitialHeight (>= 1)
	GOff    int64  `json:"goff"`           // genesis time, milliseconds after the base instant
	Lazy    bool   `json:"lazy,omitempty"` // config.Node.LazyMode (does not enter the step; C17)
	// Loop: the steps of the history are not driven by direct calls of publishBlockInternal but by the node's own
	// production loop: after every successful boot the REAL Manager.AggregationLoop (normal or lazy, by Lazy) runs in
	// a goroutine under virtual time (loop.go), each of its rounds — its call of m.publishBlock — consumes the next
	// step item.  A round that hands an error back ends the loop (block/aggregation.go: the node halts): the items
	// up to the next boot find no process.
	Loop bool `json:"loop,omitempty"`
}

// Item is one element of a history.
type Item struct {
	T string `json:"t"` // boot | step | stop | tamper
	// crash: the process dies after K atomic datastore writes of this boot/step (-1 = no crash)
	Crash bool `json:"crash,omitempty"`
	K     int  `json:"k,omitempty"`
	// boot
	InitErr bool `json:"init_err,omitempty"` // InitChain fails (consulted only when no state is stored)
	// step
	Seq     string `json:"seq,omitempty"` // err | nil | batch
	Txs     []int  `json:"txs,omitempty"` // transaction pool ids
	Ts      int64  `json:"ts,omitempty"`  // batch timestamp, milliseconds after the base instant
	// ZeroTs: the response carries the zero time.Time (the Timestamp field of the response was never set: year 1, far
	// outside what UnixNano can represent); Ts must then be ZeroTimeMs, the same instant on the model's scale
	ZeroTs bool `json:"zero_ts,omitempty"`
	ExecErr bool   `json:"exec_err,omitempty"`
	// Seq == "err": the class of the error GetNextBatch returns (seqErr): 0 = by item index (the form of every
	// older replay), 1 plain, 2 context.DeadlineExceeded, 3 wraps context.Canceled, 4 wraps ErrNoBatch,
	// 5 wraps context.DeadlineExceeded, 6 a joined error holding context.Canceled, 7 os.ErrDeadlineExceeded (wrapped),
	// 8 io.ErrUnexpectedEOF (wrapped)
	ErrKind int `json:"err_kind,omitempty"`
	// Loop cases: new transactions are announced (Manager.NotifyNewTransactions) before this round
	Notify bool `json:"notify,omitempty"`
	// a client of the running node (RPC GetBlock / DA submitter / header exchange) reads the height being
	// produced and the one below it through the node's store WHILE the execution layer works, i.e. between
	// the early save and the final save of the block.  Reads have no effect in the model.
	Peek bool `json:"peek,omitempty"`
	// boot and step: what the execution layer hands back WITH a success.  EmptyRoot: InitChain / ExecuteTxs
	// returns a state root of length 0 (nil or empty, by item parity) - in the model just another root value
	// (id 0).  MaxB: the maxBytes value returned next to the root: 0 = 1<<20 (the default of every older
	// replay), -1 = 0, any other value = itself.  The sequencer double does NOT look at the MaxBytes of a
	// request (a sequencing layer is free not to).
	EmptyRoot bool  `json:"empty_root,omitempty"`
	MaxB      int64 `json:"maxb,omitempty"`
	// stop: the real SaveCache runs while the kernel records the operations it performs on the cache files (fsrec.go),
	// then exit; with Crash the process dies at a point of that recorded log:
	//   FOps > 0: after FOps-1 recorded file operations (clamped to the length of the log), and, if FBytes != 0 and the
	//             next recorded operation is the write of a file, INSIDE that write with a strict prefix of its bytes on
	//             disk under the name the code was writing to: FBytes > 0: 1 + (FBytes-1) mod (length-1) bytes,
	//             FBytes = -1: half of them, FBytes = -2: all but the last one;
	//   FOps = 0 (the older form): inside the write that follows 3*K recorded operations + 1 (for the code as it is: the
	//             temporary file of cache file K, after K files were renamed into place) with half of its bytes, K >= 8: after
	//             all operations.
	FOps   int `json:"fops,omitempty"`
	FBytes int `json:"fbytes,omitempty"`
	// tamper (NOT a crash): cache file TornFile is truncated in place by hand
	TornFile int `json:"torn_file,omitempty"` // 0..7
	TornLen  int `json:"torn_len,omitempty"`  // bytes kept, taken modulo the file length (a strict prefix)
}

// stopCut resolves the crash point of a cut shutdown against the recorded log: k operations completed, and torn >= 0
// bytes of operation k (a write) on disk; torn = -1: not inside an operation.
func stopCut(it Item, ops []FOp) (k int, torn int) {
	k, fb := it.FOps-1, it.FBytes
	if it.FOps <= 0 {
		k, fb = 3*it.K+1, -1
		if it.K >= 8 || it.K < 0 {
			k, fb = len(ops), 0
		}
	}
	if k >= len(ops) {
		return len(ops), -1
	}
	if fb == 0 || ops[k].Op != "write" || !ops[k].known || len(ops[k].Content) == 0 {
		return k, -1
	}
	n := len(ops[k].Content)
	switch {
	case fb == -1:
		torn = n / 2
	case fb < 0:
		torn = n - 1
	case n == 1:
		torn = 0
	default:
		torn = 1 + (fb-1)%(n-1)
	}
	return k, torn
}

// Replay is the replayable form of one case.
type Replay struct {
	Seed    int64  `json:"seed"`
	Case    int    `json:"case"`
	Cfg     Cfg    `json:"cfg"`
	History []Item `json:"history"`
}

// the root returned by InitChain / ExecuteTxs in item i, and the cursor returned with the batch of item i
func RootID(i int) uint64   { return uint64(i) + 1 }
func CursorID(i int) uint64 { return uint64(i) + 1 }

// EmptyRootID is the id of the root of length 0; RootOf is the id of the root item i hands back.
const EmptyRootID = uint64(0)

func RootOf(i int, it Item) uint64 {
	if it.EmptyRoot {
		return EmptyRootID
	}
	return RootID(i)
}

// rootVal is the root value item i hands back: a 32-byte root, or for EmptyRoot nil / an empty slice
func rootVal(i int, it Item) []byte {
	if it.EmptyRoot {
		if i%2 == 0 {
			return nil
		}
		return []byte{}
	}
	return rootBytes(RootID(i))
}

// MaxBytesOf is the maxBytes value item it hands back next to the root
func MaxBytesOf(it Item) uint64 {
	switch {
	case it.MaxB > 0:
		return uint64(it.MaxB)
	case it.MaxB < 0:
		return 0
	}
	return 1 << 20
}

const baseNano = int64(1_700_000_000) * 1_000_000_000 // the base instant
const ChainID = "c01-chain"

func msToTime(ms int64) time.Time { return time.Unix(0, baseNano+ms*1_000_000) }

// EpochMs is the unix epoch (1970-01-01) on the scale of Item.Ts; timestamps down to about EpochMs - 7e12 (the 18th
// century) are representable as int64 nanoseconds.  ZeroTimeMs is the zero time.Time (January 1, year 1) on that scale.
const EpochMs = -baseNano / 1_000_000

var ZeroTimeMs = time.Time{}.Unix()*1000 + EpochMs

// the timestamp of the response to item it
func (it *Item) stamp() time.Time {
	if it.ZeroTs {
		return time.Time{}
	}
	return msToTime(it.Ts)
}
func timeToMs(t time.Time) int64  { return (t.UnixNano() - baseNano) / 1_000_000 }
func nanoToMs(n uint64) int64     { return (int64(n) - baseNano) / 1_000_000 }

func rootBytes(id uint64) []byte {
	if id == EmptyRootID {
		return nil
	}
	b := make([]byte, 32)
	copy(b, "root")
	binary.BigEndian.PutUint64(b[24:], id)
	return b
}
func rootID(b []byte) uint64 {
	if len(b) == 0 {
		return EmptyRootID
	}
	if len(b) != 32 || string(b[:4]) != "root" {
		return 999999
	}
	return binary.BigEndian.Uint64(b[24:])
}
func cursorBytes(id uint64) [][]byte {
	b := make([]byte, 8)
	binary.BigEndian.PutUint64(b, id)
	if id%3 == 0 {
		return [][]byte{b, []byte("x")}
	}
	return [][]byte{b}
}
func cursorID(b [][]byte) uint64 {
	if len(b) == 0 {
		return 0
	}
	if len(b[0]) != 8 {
		return 999999
	}
	return binary.BigEndian.Uint64(b[0])
}

// ---- doubles -------------------------------------------------------------------------------------

type Call struct {
	H    uint64
	Txs  []int
	T    int64
	Prev uint64
}

type execDouble struct {
	w        *World
	initNext []byte // the root InitChain returns (may be of length 0)
	initFail bool   // InitChain fails
	initMaxB uint64
	next     []byte // the root ExecuteTxs returns (may be of length 0)
	fail     bool   // ExecuteTxs fails
	maxB     uint64 // the maxBytes ExecuteTxs returns
	calls    []Call
	inits    int
	peek     bool // a concurrent reader looks at the store during this ExecuteTxs
}

var _ coreexecutor.Executor = (*execDouble)(nil)

func (e *execDouble) InitChain(ctx context.Context, genesisTime time.Time, initialHeight uint64, chainID string) ([]byte, uint64, error) {
	e.inits++
	if e.initFail {
		return nil, 0, errors.New("exec double: InitChain failed")
	}
	return e.initNext, e.initMaxB, nil
}
func (e *execDouble) GetTxs(ctx context.Context) ([][]byte, error) { return nil, nil }
func (e *execDouble) ExecuteTxs(ctx context.Context, txs [][]byte, blockHeight uint64, timestamp time.Time, prevStateRoot []byte) ([]byte, uint64, error) {
	e.calls = append(e.calls, Call{H: blockHeight, Txs: e.w.txIDs(txs), T: timeToMs(timestamp), Prev: rootID(prevStateRoot)})
	if e.peek {
		e.w.Or.reader(blockHeight)
	}
	if e.fail {
		return nil, 0, errors.New("exec double: ExecuteTxs failed")
	}
	e.w.Or.executed(blockHeight, rootID(e.next), e.maxB)
	return e.next, e.maxB, nil
}
func (e *execDouble) SetFinal(ctx context.Context, blockHeight uint64) error { return nil }

type seqDouble struct {
	w    *World
	next *Item // the response of the current step
	idx  int
	reqs []uint64 // cursor ids received
	gave []int    // item indices whose batch was handed out
}

var _ coresequencer.Sequencer = (*seqDouble)(nil)

func (s *seqDouble) SubmitBatchTxs(ctx context.Context, req coresequencer.SubmitBatchTxsRequest) (*coresequencer.SubmitBatchTxsResponse, error) {
	return &coresequencer.SubmitBatchTxsResponse{}, nil
}
func (s *seqDouble) VerifyBatch(ctx context.Context, req coresequencer.VerifyBatchRequest) (*coresequencer.VerifyBatchResponse, error) {
	return &coresequencer.VerifyBatchResponse{Status: true}, nil
}
func (s *seqDouble) GetNextBatch(ctx context.Context, req coresequencer.GetNextBatchRequest) (*coresequencer.GetNextBatchResponse, error) {
	s.reqs = append(s.reqs, cursorID(req.LastBatchData))
	it := s.next
	switch it.Seq {
	case "err":
		return nil, seqErr(it.ErrKind, s.idx)
	case "nil":
		if s.idx%2 == 0 {
			return nil, nil
		}
		return &coresequencer.GetNextBatchResponse{Batch: nil, Timestamp: it.stamp()}, nil
	}
	var txs [][]byte
	for _, id := range it.Txs {
		txs = append(txs, s.w.Pool[id%len(s.w.Pool)])
	}
	if len(txs) == 0 && s.idx%2 == 1 {
		txs = [][]byte{} // empty but non-nil
	}
	s.gave = append(s.gave, s.idx)
	s.w.Or.gaveBatch(it)
	return &coresequencer.GetNextBatchResponse{Batch: &coresequencer.Batch{Transactions: txs}, Timestamp: it.stamp(), BatchData: cursorBytes(CursorID(s.idx))}, nil
}

// NSeqErrKinds is the number of explicit error classes of seqErr.
const NSeqErrKinds = 8

// seqErr is a transient sequencing-layer fault of any class: a request-level deadline or cancellation of the
// sequencer's own client (or of something behind it) is NOT the node's context ending, and a wrapped ErrNoBatch is
// "no batch".  kind 0 = chosen by the item index, as every replay written before the kinds existed expects.
func seqErr(kind, idx int) error {
	if kind <= 0 || kind > NSeqErrKinds {
		kind = []int{1, 2, 3, 4, 5}[idx%5]
	}
	switch kind {
	case 2:
		return context.DeadlineExceeded
	case 3:
		return fmt.Errorf("seq double: rpc: %w", context.Canceled)
	case 4:
		return fmt.Errorf("seq double: %w", block.ErrNoBatch)
	case 5:
		return fmt.Errorf("seq double: upstream: %w", context.DeadlineExceeded)
	case 6:
		return errors.Join(errors.New("seq double: connection reset"), context.Canceled)
	case 7:
		return fmt.Errorf("seq double: read: %w", os.ErrDeadlineExceeded)
	case 8:
		return fmt.Errorf("seq double: %w", io.ErrUnexpectedEOF)
	}
	return errors.New("seq double: transient error")
}

type bcast[T any] struct {
	mu  sync.Mutex
	got []T
}

func (b *bcast[T]) WriteToStoreAndBroadcast(ctx context.Context, payload T) error {
	b.mu.Lock()
	defer b.mu.Unlock()
	b.got = append(b.got, payload)
	return nil
}

// ---- the world: everything that survives a process death ------------------------------------------

type World struct {
	Cfg     Cfg
	Pool    [][]byte
	Gen     genesis.Genesis
	Signer  signer.Signer
	PubKey  crypto.PubKey
	RootDir string
	DS      *crashds.DS
	ctx     context.Context

	node *node // nil = no running process

	// results of the two pure functions "header.Signature verifies under header.Signer.PubKey" and
	// "SignedHeader.ValidateBasic() == nil", keyed by the exact encoding of the signed header a store returned
	// (Ed25519 verification dominates the run time; every store read is still made and projected)
	memo map[string][2]bool

	// oracle bookkeeping (independent of the Coq model)
	Or *Oracle
}

type node struct {
	m    *block.Manager
	st   store.Store // the store object the Manager works on: what every other component of the node reads through
	exec *execDouble
	seq  *seqDouble
	hb   *bcast[*types.SignedHeader]
	db   *bcast[*types.Data]
	loop *loopCtl // Cfg.Loop: the node's own AggregationLoop, running (loop.go)
}

// PoolSize is the number of distinct transactions of a case; id 0 is the empty transaction, id 1 is 100 kB.
const PoolSize = 12

func NewWorld(r *mrand.Rand, cfg Cfg) (*World, error) {
	w := &World{Cfg: cfg, ctx: context.Background()}
	seen := map[string]bool{}
	for i := 0; i < PoolSize; i++ {
		var b []byte
		switch i {
		case 0:
			b = []byte{}
		case 1:
			b = make([]byte, 100_000)
			r.Read(b)
		default:
			for {
				b = make([]byte, 1+r.Intn(64))
				r.Read(b)
				if !seen[string(b)] {
					break
				}
			}
		}
		seen[string(b)] = true
		w.Pool = append(w.Pool, b)
	}
	priv, pub, err := crypto.GenerateEd25519Key(rand.Reader)
	if err != nil {
		return nil, err
	}
	sg, err := noopsigner.NewNoopSigner(priv)
	if err != nil {
		return nil, err
	}
	addr, err := sg.GetAddress()
	if err != nil {
		return nil, err
	}
	w.Signer, w.PubKey = sg, pub
	w.Gen = genesis.NewGenesis(ChainID, cfg.Initial, msToTime(cfg.GOff), addr)
	dir, err := os.MkdirTemp(os.Getenv("VERIF_OUT"), "prodroot")
	if err != nil {
		return nil, err
	}
	w.RootDir = dir
	w.DS = crashds.New()
	w.Or = newOracle(w)
	return w, nil
}

func (w *World) Close() { _ = os.RemoveAll(w.RootDir) }

func (w *World) txIDs(txs [][]byte) []int {
	out := make([]int, 0, len(txs))
	for _, t := range txs {
		id := 999999
		for i, p := range w.Pool {
			if bytes.Equal(p, t) {
				id = i
				break
			}
		}
		out = append(out, id)
	}
	return out
}

// Store is the store a reader of the node sees: while a process runs, the very object handed to
// NewManager (the RPC server, the DA submitter and the sync services of a node all share it), otherwise a
// store freshly opened on the datastore.
func (w *World) Store() store.Store {
	if w.node != nil && w.node.st != nil {
		return w.node.st
	}
	return store.New(w.DS)
}

// Disk is a store freshly opened on the datastore: what a restarted process would read.
func (w *World) Disk() store.Store { return store.New(w.DS) }

// ---- observations ----------------------------------------------------------------------------------

type StateObs struct {
	H   uint64
	T   int64
	App uint64
}

type Obs struct {
	Res    string // committed skipped e-load e-time e-proposer e-exec e-validate e-other not-running boot-ok boot-fail-init boot-fail-genesis boot-fail-cache boot-fail-other crashed stopped
	N      uint64 // committed height
	Call   *Call
	Req    *uint64
	Writes []string // shapes of the atomic writes that reached the datastore: cursor:<id> block:<n> height:<n> state
	Height uint64   // store height afterwards
	State  *StateObs
	Tip    []PBlock // the block records served at the store height and one above it (the pending block), afterwards
	ErrTxt string
	// Cfg.Loop: after the item the node's production loop is running (it has neither returned nor reported an error);
	// Halt: what the loop reported on the node's error channel when it ended on its own
	Alive bool
	Halt  string
	// stop: the operations on cache files that completed before the process ended (all of SaveCache's, or those before
	// the cut), as recorded by the kernel; CutK / CutTorn: the resolved crash point (torn = -1: between operations)
	FOps    []FOp
	CutK    int
	CutTorn int
}

func shapeOf(wr crashds.Write) string {
	if wr.Batch {
		for _, p := range wr.Prims {
			if strings.HasPrefix(p.Key, "/h/") && !p.Del {
				return "block:" + p.Key[3:]
			}
		}
		return "batch:?"
	}
	p := wr.Prims[0]
	switch {
	case p.Del:
		return "del:" + p.Key
	case p.Key == "/t" && len(p.Value) == 8:
		return fmt.Sprintf("height:%d", binary.LittleEndian.Uint64(p.Value))
	case p.Key == "/s":
		return "state"
	case p.Key == "/m/l":
		cur, err := block.VerifBytesToBatchData(p.Value)
		if err != nil {
			return "cursor:?"
		}
		return fmt.Sprintf("cursor:%d", cursorID(cur))
	}
	return "put:" + p.Key
}

func classify(err error) string {
	if err == nil {
		return ""
	}
	s := err.Error()
	switch {
	case strings.Contains(s, "error while loading last"):
		return "e-load"
	case strings.Contains(s, "timestamp is not monotonically increasing"):
		return "e-time"
	case strings.Contains(s, "proposer address is not the same"):
		return "e-proposer"
	case strings.Contains(s, "error applying block"):
		return "e-exec"
	case strings.Contains(s, "failed to validate block"):
		return "e-validate"
	case strings.Contains(s, "failed to initialize chain"):
		return "boot-fail-init"
	case strings.Contains(s, "is greater than last stored state"):
		return "boot-fail-genesis"
	case strings.Contains(s, "failed to load cache"):
		return "boot-fail-cache"
	}
	return "e-other"
}

func (w *World) readBack(o *Obs) {
	st := w.Store()
	h, _ := st.Height(w.ctx)
	o.Height = h
	if s, err := st.GetState(w.ctx); err == nil {
		o.State = &StateObs{H: s.LastBlockHeight, T: timeToMs(s.LastBlockTime), App: rootID(s.AppHash)}
	}
}

// readTip projects what the store serves at the store height and one above it (the pending block).
func (w *World) readTip(o *Obs) {
	o.Tip = nil
	for _, n := range []uint64{o.Height, o.Height + 1} {
		pb, _, _ := w.Block(n)
		o.Tip = append(o.Tip, pb)
	}
}

func (w *World) newManager(st store.Store, exec *execDouble, seq *seqDouble, hb *bcast[*types.SignedHeader], db *bcast[*types.Data]) (*block.Manager, error) {
	cfg := config.DefaultConfig
	cfg.RootDir = w.RootDir
	cfg.Node.Aggregator = true
	cfg.Node.LazyMode = w.Cfg.Lazy
	cfg.Node.MaxPendingHeadersAndData = 0
	cfg.Node.BlockTime.Duration = time.Second
	return block.NewManager(w.ctx, w.Signer, cfg, w.Gen, st, exec, seq, nil, logging.Logger("verif-producer"),
		nil, nil, hb, db, block.NopMetrics(), 1, 1, block.DefaultManagerOptions())
}

// Run executes item number idx of the history against the real code.
func (w *World) Run(idx int, it Item) (obs Obs) {
	defer func() {
		if x := recover(); x != nil {
			obs.Res = "panic"
			obs.ErrTxt = fmt.Sprint(x)
			w.dropNode()
			w.DS.FailAfter = -1
			w.Or.fail("panic", fmt.Sprintf("item %d (%s) panicked: %v", idx, it.T, x))
		}
	}()
	start := w.DS.Len()
	dsCrash := it.Crash && (it.T == "boot" || it.T == "step")
	if dsCrash {
		w.DS.FailAfter = start + it.K
	}
	var bootErr error
	switch it.T {
	case "boot":
		w.dropNode() // a running process is stopped first (its production loop returns)
		exec := &execDouble{w: w, initFail: it.InitErr, initNext: rootVal(idx, it), initMaxB: MaxBytesOf(it)}
		seq := &seqDouble{w: w}
		hb, db := &bcast[*types.SignedHeader]{}, &bcast[*types.Data]{}
		nst := store.New(w.DS)
		m, err := w.newManager(nst, exec, seq, hb, db)
		bootErr = err
		if err != nil {
			obs.Res = classify(err)
			if obs.Res == "e-other" {
				obs.Res = "boot-fail-other"
			}
			obs.ErrTxt = err.Error()
		} else {
			obs.Res = "boot-ok"
			w.node = &node{m: m, st: nst, exec: exec, seq: seq, hb: hb, db: db}
			if w.Cfg.Loop && !it.Crash {
				w.startLoop(w.node) // as node/full.go does for an aggregator: go AggregationLoop(ctx, errCh)
				obs.Alive = true
			}
		}
		if !it.Crash {
			w.Or.afterBoot(idx, it, exec.inits > 0 && !it.InitErr, err)
		}
	case "step":
		if w.node == nil {
			obs.Res = "not-running"
			w.Or.missedRound(idx, it) // Cfg.Loop: responses that find no process because the loop halted the node
			break
		}
		nd := w.node
		before, _ := w.Store().Height(w.ctx)
		itc := it
		nd.seq.next, nd.seq.idx = &itc, idx
		w.Or.stepBatch = nil
		nd.exec.next, nd.exec.fail, nd.exec.maxB = rootVal(idx, it), it.ExecErr, MaxBytesOf(it)
		nd.exec.peek = it.Peek
		nc, nr, nh, ndat := len(nd.exec.calls), len(nd.seq.reqs), len(nd.hb.got), len(nd.db.got)
		var err error
		if nd.loop != nil {
			// the round is made by the node's own production loop: its next call of m.publishBlock
			var ran bool
			if err, ran = w.loopRound(nd, it); !ran {
				w.Or.fail("production-loop-makes-no-round", fmt.Sprintf("item %d: the node's production loop is running but does not start a production round", idx))
				obs.Res = "no-round"
				w.dropNode()
				break
			}
		} else {
			err = nd.m.VerifPublishBlock(w.ctx)
		}
		if len(nd.exec.calls) > nc {
			c := nd.exec.calls[len(nd.exec.calls)-1]
			obs.Call = &c
			if len(nd.exec.calls) > nc+1 {
				w.Or.fail("exec-called-twice", fmt.Sprintf("item %d: ExecuteTxs called %d times in one step", idx, len(nd.exec.calls)-nc))
			}
		}
		if len(nd.seq.reqs) > nr {
			r := nd.seq.reqs[len(nd.seq.reqs)-1]
			obs.Req = &r
		}
		if !it.Crash {
			after, _ := w.Store().Height(w.ctx)
			switch {
			case err == nil && after == before+1:
				obs.Res, obs.N = "committed", after
			case err == nil && after == before:
				obs.Res = "skipped"
			case err == nil:
				obs.Res = "e-other"
				w.Or.fail("height-jumped", fmt.Sprintf("item %d: store height went from %d to %d in one step", idx, before, after))
			default:
				obs.Res, obs.ErrTxt = classify(err), err.Error()
				if after != before {
					w.Or.fail("error-but-height-advanced", fmt.Sprintf("item %d: step failed (%v) but the store height went from %d to %d", idx, err, before, after))
				}
			}
			w.readBack(&obs)
			w.Or.afterStep(idx, it, obs, nd.hb.got[nh:], nd.db.got[ndat:])
		}
		if nd.loop != nil {
			alive, halt := nd.loop.state()
			obs.Alive = alive
			if halt != nil {
				obs.Halt = halt.Error()
			}
			w.Or.afterRound(idx, it, obs, err)
			if !alive {
				w.dropNode() // the loop ended on its own: FullNode.Run shuts the node down (node/full.go:399-403)
			}
		}
	case "stop":
		obs.CutTorn = -1
		if w.node == nil {
			obs.Res = "not-running"
			break
		}
		before := w.readCacheDir()
		rec, err := startFsRec(w.cacheDirs())
		if err != nil {
			w.Or.fail("harness-file-recorder-failed", err.Error())
			break
		}
		if err := w.node.m.SaveCache(); err != nil {
			w.Or.fail("save-cache-failed", err.Error())
		}
		ops, err := rec.stop()
		if err != nil {
			w.Or.fail("harness-file-recorder-failed", err.Error())
		}
		after := w.readCacheDir()
		fillContents(ops, after)
		if !cutImage(before, ops, len(ops), -1).equal(after) {
			// the recorded operations do not explain the directory: the crash points derived from them would be wrong
			w.Or.fail("cache-file-log-does-not-explain-directory", fmt.Sprintf("item %d: recorded %v, before %v, after %v", idx, ops, sortedNames(before), sortedNames(after)))
		}
		w.Or.afterSave(idx, before, ops)
		obs.FOps, obs.CutK, obs.CutTorn = ops, len(ops), -1
		if it.Crash {
			k, torn := stopCut(it, ops)
			if err := materialise(w.cacheDirs(), cutImage(before, ops, k, torn)); err != nil {
				w.Or.fail("harness-cut-failed", err.Error())
			}
			obs.FOps, obs.CutK, obs.CutTorn = ops[:k], k, torn
			w.Or.cutStop = true
			// (the older form of a cut keeps its class: the witness of the repaired finding torn-cache-file is of that form)
			if it.FOps > 0 && (torn >= 0 || (k > 0 && k < len(ops) && ops[k-1].Op == "create")) {
				w.Or.tornWrite = true
			}
		}
		w.dropNode()
		obs.Res = "stopped"
	case "tamper":
		if err := w.tearCacheFile(it.TornFile, it.TornLen); err != nil {
			w.Or.fail("harness-tear-failed", err.Error())
		}
		w.Or.tampered = true
		obs.Res = "tampered"
	default:
		panic("bad item " + it.T)
	}
	if dsCrash {
		// everything after the cut belongs to a process that is dead: discard it
		w.DS.FailAfter = -1
		w.dropNode()
		if obs.Res != "not-running" {
			obs = Obs{Res: "crashed"}
		}
		_ = bootErr
	}
	for _, wr := range w.DS.Log[start:] {
		obs.Writes = append(obs.Writes, shapeOf(wr))
	}
	w.readBack(&obs)
	w.readTip(&obs)
	if dsCrash && obs.Res == "crashed" {
		w.Or.afterCrash(idx, it, obs)
	}
	w.Or.afterAny(idx, it, obs)
	return obs
}

// CacheFiles lists the eight gob files SaveCache writes, in the order it writes them.
func (w *World) CacheFiles() []string {
	var out []string
	for _, sub := range []string{"header", "data"} {
		for _, f := range []string{"items_by_height.gob", "items_by_hash.gob", "hashes.gob", "da_included.gob"} {
			out = append(out, filepath.Join(w.RootDir, "data", "cache", sub, f))
		}
	}
	return out
}

func cacheIdx(j int) int { return ((j % 8) + 8) % 8 }

// NOT a crash of the repaired code: cache file j is truncated in place to a strict prefix (an absent file
// is created empty), as a torn in-place write would have left it before the fix.
func (w *World) tearCacheFile(j, keep int) error {
	files := w.CacheFiles()
	p := files[cacheIdx(j)]
	b, err := os.ReadFile(p)
	if err != nil || len(b) == 0 {
		if err := os.MkdirAll(filepath.Dir(p), 0o755); err != nil {
			return err
		}
		return os.WriteFile(p, []byte{}, 0o644)
	}
	n := ((keep % len(b)) + len(b)) % len(b)
	return os.WriteFile(p, b[:n], 0o644)
}

// ---- projected blocks -------------------------------------------------------------------------------

// PBlock is the projection of the block record stored at one height (DESIGN 2.2): booleans and classes
// are computed with the implementation's own hash / verify functions.
type PBlock struct {
	Present bool
	H       uint64
	T       int64
	Txs     []int
	Link    int // 0 empty LastHeaderHash, 1 = hash of the header stored at H-1, 2 other
	DHOk    bool
	App     uint64
	ChainOk bool
	PropOk  bool
	HSig    int // header.Signature: 0 empty, 1 verifies under header.Signer.PubKey, 2 other
	SignOk  bool
	SSig    int // signature record: 0 empty, 1 equal to header.Signature, 2 other
	Meta    int // 0 none, 1 matches the header, 2 differs
	VBasic  bool
}

// Block projects the record at height n as a reader of the node gets it (see Store): GetBlockData(n) for the
// signed header and the data, GetSignature(n) for the signature record.
func (w *World) Block(n uint64) (pb PBlock, sh *types.SignedHeader, d *types.Data) {
	return w.BlockVia(w.Store(), n)
}

func (w *World) BlockVia(st store.Store, n uint64) (pb PBlock, sh *types.SignedHeader, d *types.Data) {
	sh, d, err := st.GetBlockData(w.ctx, n)
	if err != nil {
		return PBlock{}, nil, nil
	}
	pb.Present = true
	pb.H = sh.Height()
	pb.T = nanoToMs(sh.BaseHeader.Time)
	txs := make([][]byte, len(d.Txs))
	for i := range d.Txs {
		txs[i] = d.Txs[i]
	}
	pb.Txs = w.txIDs(txs)
	switch {
	case len(sh.LastHeaderHash) == 0:
		pb.Link = 0
	default:
		pb.Link = 2
		if n > 0 {
			if prev, err := st.GetHeader(w.ctx, n-1); err == nil && bytes.Equal(prev.Hash(), sh.LastHeaderHash) {
				pb.Link = 1
			}
		}
	}
	pb.DHOk = bytes.Equal(sh.DataHash, d.DACommitment())
	pb.App = rootID(sh.AppHash)
	pb.ChainOk = sh.ChainID() == w.Gen.ChainID
	pb.PropOk = bytes.Equal(sh.ProposerAddress, w.Gen.ProposerAddress)
	verifies, vbasic := w.verdicts(sh)
	switch {
	case len(sh.Signature) == 0:
		pb.HSig = 0
	case verifies:
		pb.HSig = 1
	default:
		pb.HSig = 2
	}
	pb.SignOk = sh.Signer.PubKey != nil && bytes.Equal(sh.Signer.Address, w.Gen.ProposerAddress) &&
		bytes.Equal(types.KeyAddress(sh.Signer.PubKey), w.Gen.ProposerAddress) && sh.Signer.PubKey.Equals(w.PubKey)
	sig, err := st.GetSignature(w.ctx, n)
	switch {
	case err != nil || len(*sig) == 0:
		pb.SSig = 0
	case bytes.Equal(*sig, sh.Signature):
		pb.SSig = 1
	default:
		pb.SSig = 2
	}
	switch {
	case d.Metadata == nil:
		pb.Meta = 0
	case d.Metadata.ChainID == sh.ChainID() && d.Metadata.Height == sh.Height() && d.Metadata.Time == sh.BaseHeader.Time:
		pb.Meta = 1
	default:
		pb.Meta = 2
	}
	pb.VBasic = vbasic
	return pb, sh, d
}

// verdicts evaluates, with the implementation's own functions and on exactly the signed header a store
// returned, whether header.Signature verifies under header.Signer.PubKey over the header's signature
// payload and whether SignedHeader.ValidateBasic accepts it.
func (w *World) verdicts(sh *types.SignedHeader) (verifies, vbasic bool) {
	key := ""
	if b, err := sh.MarshalBinary(); err == nil {
		key = string(b)
		if v, ok := w.memo[key]; ok {
			return v[0], v[1]
		}
	}
	if len(sh.Signature) > 0 && sh.Signer.PubKey != nil {
		if payload, err := types.DefaultSignaturePayloadProvider(&sh.Header); err == nil {
			if ok, err := sh.Signer.PubKey.Verify(payload, sh.Signature); err == nil && ok {
				verifies = true
			}
		}
	}
	vbasic = sh.ValidateBasic() == nil
	if key != "" {
		if w.memo == nil {
			w.memo = map[string][2]bool{}
		}
		w.memo[key] = [2]bool{verifies, vbasic}
	}
	return verifies, vbasic
}

func (p PBlock) Eq(q PBlock) bool {
	return p.Present == q.Present && p.H == q.H && p.T == q.T && eqInts(p.Txs, q.Txs) && p.Link == q.Link && p.DHOk == q.DHOk &&
		p.App == q.App && p.ChainOk == q.ChainOk && p.PropOk == q.PropOk && p.HSig == q.HSig && p.SignOk == q.SignOk &&
		p.SSig == q.SSig && p.Meta == q.Meta && p.VBasic == q.VBasic
}

// Blocks projects the records at heights initial .. max(store height, initial-1)+1.
func (w *World) Blocks() (lo uint64, out []PBlock) {
	h, _ := w.Store().Height(w.ctx)
	lo = w.Cfg.Initial
	top := h
	if top < lo-1 {
		top = lo - 1
	}
	for n := lo; n <= top+1; n++ {
		pb, _, _ := w.Block(n)
		out = append(out, pb)
	}
	return lo, out
}

// ---- Coq printing -------------------------------------------------------------------------------------

func txsCoq(txs []int) string {
	p := make([]string, len(txs))
	for i, t := range txs {
		p[i] = fmt.Sprint(t)
	}
	if len(p) == 0 {
		return "[]"
	}
	return "[" + strings.Join(p, ";") + "]%N"
}

// StopCoq prints a shutdown with the crash point that was resolved against the recorded log.
func StopCoq(it Item, o Obs) string {
	switch {
	case !it.Crash:
		return "IStop None"
	case o.CutTorn >= 0:
		return fmt.Sprintf("IStop (Some (CutInside %s %s))", vgen.Nat(o.CutK), vgen.N(uint64(o.CutTorn)))
	}
	return "IStop (Some (CutAfter " + vgen.Nat(o.CutK) + "))"
}

func ItemCoq(idx int, it Item) string {
	var a string
	switch it.T {
	case "boot":
		if it.InitErr {
			a = "ABoot None"
		} else {
			a = fmt.Sprintf("ABoot (Some %s)", vgen.N(RootOf(idx, it)))
		}
	case "step":
		var s string
		switch it.Seq {
		case "err":
			s = "SErr"
		case "nil":
			s = "SNil"
		default:
			s = fmt.Sprintf("(SBatch %s %s %s)", txsCoq(it.Txs), vgen.Z(it.Ts), vgen.N(CursorID(idx)))
		}
		e := fmt.Sprintf("(EOk %s)", vgen.N(RootOf(idx, it)))
		if it.ExecErr {
			e = "EErr"
		}
		a = fmt.Sprintf("AStep %s %s", s, e)
	case "stop":
		panic("ItemCoq: a stop item is printed by StopCoq")
	case "tamper":
		return "ITamper " + vgen.Nat(cacheIdx(it.TornFile))
	}
	if it.Crash {
		return fmt.Sprintf("ICrash (%s) %s", a, vgen.Nat(it.K))
	}
	return fmt.Sprintf("IRun (%s)", a)
}

var resCode = map[string]int{"committed": 1, "skipped": 2, "e-load": 3, "e-time": 4, "e-proposer": 5, "e-exec": 6, "e-validate": 7,
	"not-running": 8, "boot-ok": 9, "boot-fail-init": 10, "boot-fail-genesis": 11, "boot-fail-cache": 12, "crashed": 13, "stopped": 14, "tampered": 15}

func shapeCoq(s string) string {
	var n uint64
	switch {
	case s == "state":
		return "HState"
	case strings.HasPrefix(s, "cursor:"):
		if _, err := fmt.Sscanf(s, "cursor:%d", &n); err == nil {
			return "HCursor " + vgen.N(n)
		}
	case strings.HasPrefix(s, "block:"):
		if _, err := fmt.Sscanf(s, "block:%d", &n); err == nil {
			return "HBlock " + vgen.N(n)
		}
	case strings.HasPrefix(s, "height:"):
		if _, err := fmt.Sscanf(s, "height:%d", &n); err == nil {
			return "HHeight " + vgen.N(n)
		}
	}
	return "HOther"
}

func (o Obs) Coq() string {
	code, ok := resCode[o.Res]
	if !ok {
		code = 99
	}
	call := "None"
	if o.Call != nil {
		call = fmt.Sprintf("(Some (%s, %s, %s, %s))", vgen.N(o.Call.H), txsCoq(o.Call.Txs), vgen.Z(o.Call.T), vgen.N(o.Call.Prev))
	}
	req := "None"
	if o.Req != nil {
		req = "(Some " + vgen.N(*o.Req) + ")"
	}
	st := "None"
	if o.State != nil {
		st = fmt.Sprintf("(Some (%s, %s, %s))", vgen.N(o.State.H), vgen.Z(o.State.T), vgen.N(o.State.App))
	}
	var sh []string
	for _, s := range o.Writes {
		sh = append(sh, shapeCoq(s))
	}
	var tip []string
	for _, b := range o.Tip {
		tip = append(tip, b.Coq())
	}
	var fo []string
	for _, f := range o.FOps {
		fo = append(fo, f.Coq())
	}
	return fmt.Sprintf("mk_obs %d %s %s %s %s %s %s %s %s", code, vgen.N(o.N), call, req, vgen.List(sh), vgen.N(o.Height), st, vgen.List(tip), vgen.List(fo))
}

func b2n(b bool) string {
	if b {
		return "1"
	}
	return "0"
}

func (p PBlock) Coq() string {
	if !p.Present {
		return "None"
	}
	return fmt.Sprintf("(Some (mk_pb %s %s %s %d %s %s %s %s %d %s %d %d %s))", vgen.N(p.H), vgen.Z(p.T), txsCoq(p.Txs), p.Link, b2n(p.DHOk),
		vgen.N(p.App), b2n(p.ChainOk), b2n(p.PropOk), p.HSig, b2n(p.SignOk), p.SSig, p.Meta, b2n(p.VBasic))
}

// CaseCoq prints one case for Check/ProducerCheck.v.
func CaseCoq(cfg Cfg, hist []Item, obs []Obs, lo uint64, blocks []PBlock) string {
	var items, os, bs []string
	for i, it := range hist {
		if it.T == "stop" {
			items = append(items, StopCoq(it, obs[i]))
			continue
		}
		items = append(items, ItemCoq(i, it))
	}
	for _, o := range obs {
		os = append(os, o.Coq())
	}
	for _, b := range blocks {
		bs = append(bs, b.Coq())
	}
	return fmt.Sprintf("mk_case %s %s %s %s %s", vgen.N(cfg.Initial), vgen.Z(cfg.GOff), vgen.List(items), vgen.List(os), vgen.List(bs))
}

// UnifiedCoq wraps a case term for Check/ProducerLoopCheck.v: a Cfg.Loop case carries, per item, whether the node's
// production loop was running afterwards.
func UnifiedCoq(cfg Cfg, term string, obs []Obs) string {
	if !cfg.Loop {
		return "UPlain (" + term + ")"
	}
	al := make([]string, len(obs))
	for i, o := range obs {
		al[i] = "false"
		if o.Alive {
			al[i] = "true"
		}
	}
	return fmt.Sprintf("ULoop (%s) %s", term, vgen.List(al))
}

// RunCase runs a whole history against the real code and returns the observations, the projected
// final blocks and the oracle's verdicts.  A Cfg.Loop case runs inside a testing/synctest bubble (virtual time).
func RunCase(r *mrand.Rand, cfg Cfg, hist []Item, probe bool) (w *World, obs []Obs, lo uint64, blocks []PBlock, err error) {
	if cfg.Loop {
		return runCaseInBubble(r, cfg, hist, probe)
	}
	return runCase(r, cfg, hist, probe)
}

func runCase(r *mrand.Rand, cfg Cfg, hist []Item, probe bool) (w *World, obs []Obs, lo uint64, blocks []PBlock, err error) {
	w, err = NewWorld(r, cfg)
	if err != nil {
		return nil, nil, 0, nil, err
	}
	for i, it := range hist {
		obs = append(obs, w.Run(i, it))
	}
	lo, blocks = w.Blocks()
	w.Or.final()
	if probe {
		w.Or.probe(len(hist))
	}
	w.stopLoop() // the node is asked to stop: its production loop returns
	return w, obs, lo, blocks, nil
}
